#!/venv/bin/python
"""
Entry point of every registered check:   bin/check <Cxx> [--tier quick|thorough] [--replay FILE]

Pipeline (DESIGN.md §3): regenerate model from /repo -> lake build the property's theorems -> audit
(forbidden tokens, #print axioms) -> correspondence (model vs implementation) -> failing-input search
(always run with a small budget; large budget when an obligation or the correspondence broke)
-> verdict, replay, evidence.

Exit: 0 property held on everything explored (KNOWN-FINDING lines may be printed)
      1 VIOLATION property=<id> replay=<path> [no-failing-input-found]
      2 infrastructure failure (no VIOLATION line)
"""
import sys, os, re, json, time, subprocess, hashlib, importlib, fcntl, traceback, argparse, random

HERE = os.path.dirname(os.path.abspath(__file__))
VERIF = os.path.dirname(HERE)
LEAN = os.path.join(VERIF, 'lean')
REPO = os.environ.get('XFAB_REPO', '/repo')
sys.path.insert(0, HERE)
sys.path.insert(0, REPO)
os.environ['FABLE_3DXRD_XFAB_VERIF'] = '1'

STD_AXIOMS = {'propext', 'Classical.choice', 'Quot.sound'}
FORBIDDEN = re.compile(r'\bsorry\b|\badmit\b|^axiom\s|\bnative_decide\b|\bbv_decide\b|implemented_by|\bunsafe\s|maxHeartbeats\s+0\b')
TRUSTED_BASE = [
    "Lean 4.33.0 kernel (re-checked with leanchecker in the thorough tier)",
    "axioms: propext, Classical.choice, Quot.sound only (audited with #print axioms on every obligation; no native_decide / bv_decide / sorry)",
    "Mathlib v4.33.0 definitions of Real.cos/sin/sqrt/arccos/arcsin/arctan/exp, Complex.arg, Matrix.det/inv",
    "translators harness/gen_numeric.py (symbolic tracer executing the Python source) and harness/gen_tables.py (table exporter): unverified, validated on every run by running the generated Float/Int twins against the implementation",
    "numpy primitives are modelled (linalg.inv = exact inverse, arctan2 = Complex.arg, floats = reals): rounding is not modelled",
]


class Infra(Exception):
    pass


def sh(cmd, cwd=None, timeout=3600, env=None):
    t0 = time.time()
    p = subprocess.run(cmd, cwd=cwd, shell=isinstance(cmd, str), stdout=subprocess.PIPE, stderr=subprocess.STDOUT,
                       timeout=timeout, env=env, text=True)
    return p.returncode, p.stdout, time.time() - t0


# ------------------------------------------------------------------------------------------------
# Lean side

def strip_comments(text):
    # remove /- ... -/ (nested not handled beyond one level) and -- comments
    out = []
    depth = 0
    i = 0
    while i < len(text):
        if text.startswith('/-', i):
            depth += 1
            i += 2
            continue
        if text.startswith('-/', i) and depth > 0:
            depth -= 1
            i += 2
            continue
        if depth == 0:
            if text.startswith('--', i):
                j = text.find('\n', i)
                i = len(text) if j < 0 else j
                continue
            out.append(text[i])
        elif text[i] == '\n':
            out.append('\n')
        i += 1
    return ''.join(out)


def lean_obligations(path):
    """[(fully qualified theorem name, line)] of top-level `theorem`s in a Lean file"""
    txt = strip_comments(open(path).read())
    ns = []
    obs = []
    for ln, line in enumerate(txt.split('\n'), 1):
        m = re.match(r'\s*namespace\s+(\S+)', line)
        if m:
            ns.append(m.group(1))
            continue
        m = re.match(r'\s*end\s+(\S+)\s*$', line)
        if m and ns and ns[-1] == m.group(1):
            ns.pop()
            continue
        m = re.match(r'\s*(?:@\[[^\]]*\]\s*)?(?:protected\s+|noncomputable\s+)*theorem\s+([^\s:({\[]+)', line)
        if m:
            obs.append(('.'.join(ns + [m.group(1)]), ln))
    return obs


def module_path(mod):
    return os.path.join(LEAN, *mod.split('.')) + '.lean'


def audit_tokens(paths):
    bad = []
    for p in paths:
        txt = strip_comments(open(p).read())
        for ln, line in enumerate(txt.split('\n'), 1):
            if FORBIDDEN.search(line):
                bad.append('%s:%d: %s' % (os.path.relpath(p, VERIF), ln, line.strip()[:120]))
    return bad


def lake_build(mods, timeout=7200):
    rc, out, dt = sh(['lake', 'build'] + mods, cwd=LEAN, timeout=timeout)
    errors = []
    for m in re.finditer(r'^error: (\S+?\.lean):(\d+):(\d+): (.*)$', out, re.M):
        errors.append((m.group(1), int(m.group(2)), m.group(4)[:300]))
    return rc, out, errors, dt


def failing_decls(errors):
    """map (file,line) of each Lean error to the enclosing declaration"""
    res = []
    for f, ln, msg in errors:
        path = f if os.path.isabs(f) else os.path.join(LEAN, f)
        name = '?'
        try:
            lines = open(path).read().split('\n')
            for i in range(min(ln, len(lines)) - 1, -1, -1):
                m = re.match(r'\s*(?:@\[[^\]]*\]\s*)?(?:private\s+|protected\s+|noncomputable\s+)*(theorem|lemma|def|example|instance)\s*([^\s:({\[]*)', lines[i])
                if m:
                    name = m.group(2) or m.group(1)
                    break
        except OSError:
            pass
        res.append({'file': os.path.relpath(path, VERIF), 'line': ln, 'decl': name, 'msg': msg})
    return res


def print_axioms(pid, mods, names):
    """run #print axioms on every obligation; returns {name: set(axioms)}"""
    if not names:
        return {}
    aud = os.path.join(LEAN, '.lake', 'audit')
    os.makedirs(aud, exist_ok=True)
    f = os.path.join(aud, 'Audit_%s.lean' % pid)
    with open(f, 'w') as fh:
        for m in mods:
            fh.write('import %s\n' % m)
        for n in names:
            fh.write('#print axioms %s\n' % n)
    rc, out, dt = sh(['lake', 'env', 'lean', f], cwd=LEAN, timeout=1800)
    res = {}
    for m in re.finditer(r"'([^']+)' depends on axioms: \[([^\]]*)\]", out):
        res[m.group(1)] = set(x.strip() for x in m.group(2).replace('\n', ' ').split(',') if x.strip())
    for m in re.finditer(r"'([^']+)' does not depend on any axioms", out):
        res[m.group(1)] = set()
    if rc != 0 and len(res) < len(names):
        raise Infra('axiom audit failed:\n' + out[-2000:])
    return res


# ------------------------------------------------------------------------------------------------
# Float-twin line protocol

import struct


def f2b(x):
    return str(struct.unpack('>Q', struct.pack('>d', float(x)))[0])


def b2f(s):
    return struct.unpack('>d', struct.pack('>Q', int(s)))[0]


def run_float_driver(lines, timeout=1800):
    """lines: list of 'Name bits...' ; returns list of ('ok', [floats]) | ('none',) | ('bad',)"""
    if not lines:
        return []
    p = subprocess.run(['lake', 'env', 'lean', '--run', 'FloatDriver.lean'], cwd=LEAN, input='\n'.join(lines) + '\n',
                       stdout=subprocess.PIPE, stderr=subprocess.PIPE, text=True, timeout=timeout)
    if p.returncode != 0:
        raise Infra('float driver failed: ' + p.stderr[-2000:])
    out = []
    for l in p.stdout.strip().split('\n'):
        parts = l.split()
        if not parts:
            continue
        if parts[0] == 'ok':
            out.append(('ok', [b2f(x) for x in parts[1:]]))
        else:
            out.append((parts[0],))
    if len(out) != len(lines):
        raise Infra('float driver returned %d lines for %d requests' % (len(out), len(lines)))
    return out


def run_model_driver(driver, lines, timeout=1800):
    """generic line protocol for hand models: lean/<driver>.lean"""
    if not lines:
        return []
    p = subprocess.run(['lake', 'env', 'lean', '--run', driver], cwd=LEAN, input='\n'.join(lines) + '\n',
                       stdout=subprocess.PIPE, stderr=subprocess.PIPE, text=True, timeout=timeout)
    if p.returncode != 0:
        raise Infra('model driver %s failed: %s' % (driver, p.stderr[-2000:]))
    out = p.stdout.rstrip('\n').split('\n')
    if len(out) != len(lines):
        raise Infra('model driver %s returned %d lines for %d requests' % (driver, len(out), len(lines)))
    return out


# ------------------------------------------------------------------------------------------------

class Ctx:
    def __init__(self, pid, tier, seed):
        self.pid, self.tier, self.seed = pid, tier, seed
        self.rng = random.Random(seed * 1000003 + int(pid[1:]))
        self.thorough = tier == 'thorough'
        self.boost = False      # set when an obligation / correspondence broke: search harder
        self.notes = []

    def n(self, quick, thorough, boost=None):
        if self.thorough:
            return thorough
        if self.boost:
            return boost if boost is not None else max(quick, int((quick * thorough) ** 0.5))
        return quick


GEN_FILES = {
    'numeric': ['ToolsReal.lean', 'ToolsFloat.lean', 'LaueReal.lean', 'LaueFloat.lean', 'DetectorReal.lean', 'DetectorFloat.lean',
                'StructureReal.lean', 'StructureFloat.lean', 'ChecksReal.lean', 'ChecksFloat.lean', 'FloatDispatch.lean', 'numeric_meta.json'],
    'hkl': ['Sysabs.lean', 'Segm.lean', 'hkl_meta.json'], 'guards': ['Guards.lean'], 'flip': ['FlipTable.lean'], 'names': ['NameCerts.lean'], 'symmetry': ['Symmetry.lean'],
    'pdbsym': ['PdbSymbols.lean'], 'c14': ['C14Ast.lean', 'c14_meta.json'], 'tables': ['Sg', 'Atomlib.lean', 'tables_meta.json'],
    't51': ['T51', 't51_meta.json'], 't54': ['T54', 't54_meta.json'],
}


def restore_generated(g):
    """copy the generator's output files saved by bin/setup (lean/.lake/gen_clean = generated from the reviewed tree) back into
    XfabVerif/Gen; returns the number of files whose content had to be replaced"""
    import shutil, filecmp
    src = os.path.join(LEAN, '.lake', 'gen_clean')
    dst = os.path.join(LEAN, 'XfabVerif', 'Gen')
    n = 0
    for rel in GEN_FILES.get(g, []):
        a = os.path.join(src, rel)
        if not os.path.exists(a):
            continue
        pairs = []
        if os.path.isdir(a):
            for root, _d, files in os.walk(a):
                for f in files:
                    pa = os.path.join(root, f)
                    pairs.append((pa, os.path.join(dst, os.path.relpath(pa, src))))
        else:
            pairs.append((a, os.path.join(dst, rel)))
        for pa, pb in pairs:
            if not os.path.exists(pb) or not filecmp.cmp(pa, pb, shallow=False):
                os.makedirs(os.path.dirname(pb), exist_ok=True)
                shutil.copyfile(pa, pb)
                n += 1
    return n


def load_known():
    p = os.path.join(VERIF, 'known_findings.json')
    if not os.path.exists(p):
        return []
    return json.load(open(p)).get('findings', [])


def write_replay(pid, payload):
    d = os.path.join(VERIF, 'replays')
    os.makedirs(d, exist_ok=True)
    blob = json.dumps(payload, sort_keys=True, default=str)
    h = hashlib.sha1(blob.encode()).hexdigest()[:12]
    path = os.path.join(d, '%s-%s.json' % (pid, h))
    with open(path, 'w') as fh:
        json.dump(payload, fh, indent=1, sort_keys=True, default=str)
    return path


def write_evidence(pid, ev):
    # VERIF_EVIDENCE_DIR: used by harness/seedtest.py and bin/sweep so that runs against a deliberately changed tree or
    # with other seeds do not overwrite the registered evidence
    d = os.environ.get('VERIF_EVIDENCE_DIR') or os.path.join(VERIF, 'evidence')
    os.makedirs(d, exist_ok=True)
    tmp = os.path.join(d, '%s.json.tmp' % pid)
    with open(tmp, 'w') as fh:
        json.dump(ev, fh, indent=1, sort_keys=True, default=str)
    os.replace(tmp, os.path.join(d, '%s.json' % pid))


def main():
    ap = argparse.ArgumentParser()
    ap.add_argument('pid')
    ap.add_argument('--tier', default=os.environ.get('VERIF_TIER', 'quick'), choices=['quick', 'thorough'])
    ap.add_argument('--replay')
    ap.add_argument('--child-optimized', help='(internal) run the failing-input search only, in this interpreter (started with -O), and '
                                              'write the violations found to the given file')
    a = ap.parse_args()
    pid = a.pid.upper()
    seed = int(os.environ.get('VERIF_SEED', '0') or 0)
    mod = importlib.import_module('props.%s' % pid.lower())
    if a.child_optimized:
        sys.exit(child_optimized(pid, mod, a.tier, seed, a.child_optimized))
    if a.replay:
        payload = json.load(open(a.replay))
        if (payload.get('violation') or {}).get('interpreter') == 'python -O' and __debug__:
            # a violation found in the optimised interpreter replays there
            sys.exit(subprocess.call([sys.executable, '-O', os.path.abspath(__file__), pid, '--replay', a.replay]))
        if (payload.get('violation') or {}).get('purity'):
            import purity
            sys.exit(purity.replay(payload['violation']))
        sys.exit(mod.replay(payload))
    t0 = time.time()
    lock = open(os.path.join(VERIF, '.lock'), 'w')
    fcntl.flock(lock, fcntl.LOCK_EX)
    try:
        rc = run(pid, mod, a.tier, seed, t0)
    except Infra as e:
        print('INFRA-FAILURE %s: %s' % (pid, e))
        rc = 2
    except subprocess.TimeoutExpired as e:
        print('INFRA-FAILURE %s: timeout %s' % (pid, e))
        rc = 2
    except Exception:
        traceback.print_exc()
        print('INFRA-FAILURE %s: unexpected exception in the check machinery' % pid)
        rc = 2
    sys.exit(rc)


# `python -O` (recommended by xfab/checks.py for speed) strips assert statements and makes `__debug__` False in the library: the
# failing-input search is repeated there.  Not for C20: with __debug__ False the switch reads False whatever is assigned (reviewed
# behaviour, `_checkState.activated`), so its first clause is vacuous and its oracle, written for the normal interpreter, does not apply.
# Not for C12 (its oracle exercises Umis' input guard, which is off there for the same reason) and not for C19 (the reviewed parameters.py
# validates set_varylist / set_variable_values with assert statements: under -O the reviewed code itself behaves differently).
NO_OPTIMIZED_CHILD = {'C20', 'C12', 'C19'}


def child_optimized(pid, mod, tier, seed, out_path):
    """body of the -O child: the search of the property (quick budget) with the value-semantics guard installed"""
    ctx = Ctx(pid, 'quick', seed)
    ctx.optimized = True
    import purity
    purity.install()
    res = {'violations': [], 'evaluations': 0, 'error': None}
    try:
        orc = mod.oracle(ctx, hints=[])
        res['evaluations'] = int(orc.get('evaluations', 0))
        res['violations'] = purity.violations() + list(orc.get('violations', []))
    except Exception:
        res['error'] = traceback.format_exc()[-1500:]
    purity.uninstall()
    for v in res['violations']:
        v['interpreter'] = 'python -O'
    with open(out_path, 'w') as fh:
        json.dump(res, fh, default=str)
    return 0


def run_optimized_child(pid, tier, seed):
    import tempfile
    fd, path = tempfile.mkstemp(prefix='optchild_%s_' % pid, suffix='.json', dir=os.path.join(VERIF, 'lean', '.lake') if os.path.isdir(os.path.join(VERIF, 'lean', '.lake')) else None)
    os.close(fd)
    try:
        env = dict(os.environ, PYTHONPATH=os.pathsep.join([HERE] + [x for x in os.environ.get('PYTHONPATH', '').split(os.pathsep) if x]))
        rc, out, dt = sh([sys.executable, '-O', os.path.abspath(__file__), pid, '--tier', tier, '--child-optimized', path], timeout=3600, env=env)
        try:
            res = json.load(open(path))
        except Exception:
            res = {'violations': [], 'evaluations': 0, 'error': 'no result from the child (rc=%s): %s' % (rc, out[-800:])}
        res['wall_s'] = round(dt, 1)
        return res
    finally:
        if os.path.exists(path):
            os.remove(path)


def run(pid, mod, tier, seed, t0):
    ctx = Ctx(pid, tier, seed)
    broken = []          # things that no longer check: dicts {kind, what, detail}
    stale_models = []
    # 1. regenerate
    for g in getattr(mod, 'GEN', []):
        rc, out, dt = sh([sys.executable, os.path.join(HERE, 'gen_%s.py' % g)], timeout=1800)
        print(out.strip()[-400:])
        if rc == 3:
            # The translator cannot express the new source text (an unknown library call, a statement shape it does not know).
            # The model it produced from the reviewed tree (saved by bin/setup) is then used as a model WRITTEN EARLIER, tied
            # to the new code by the correspondence stream with the large budget -- the second of the two ties.  Only a
            # disagreement or a failing input is an alarm; the refusal is recorded (evidence key `stale_models`).
            restored = restore_generated(g)
            stale_models.append({'generator': 'gen_%s' % g, 'reason': out.strip()[-400:], 'restored_files': restored})
            ctx.boost = True
            ctx.notes.append('gen_%s refused the current source; the model generated from the reviewed tree is used and tied by '
                             'the boosted correspondence' % g)
            print('gen_%s refused: using the model of the reviewed tree (%d files restored), boosted correspondence and search' % (g, restored))
        elif rc != 0:
            raise Infra('generator gen_%s failed:\n%s' % (g, out[-3000:]))
    # 1b. hand models are valid for the source text they were written against
    import pins as pinmod
    # A hand model is tied to the code by its correspondence stream.  When the (normalised) source text of a definition
    # it mirrors has changed since the model was last reviewed, that tie has to be re-established on the spot: the
    # correspondence and the failing-input search run with their large budgets (ctx.boost).  A disagreement or a failing
    # input is reported as usual; agreement on the enlarged stream re-validates the model for the new text (recorded in the
    # evidence under `pins_changed`).  A changed pin alone is not an alarm: a rename or a re-ordered statement is harmless.
    pins_changed = [{'spec': spec, 'pinned': old, 'current': cur} for spec, old, cur in pinmod.changed(pid, getattr(mod, 'PINS', []), REPO)]
    if pins_changed:
        ctx.boost = True
        ctx.notes.append('source of hand-modelled definitions changed (%s): correspondence and search run with the large budget'
                         % ', '.join(p['spec'] for p in pins_changed))
        print('pins changed: %s -> boosted correspondence and search' % ', '.join(p['spec'] for p in pins_changed))
    # 2. build
    mods = list(getattr(mod, 'LEAN_MODULES', []))
    drivers = list(getattr(mod, 'LEAN_DRIVER_MODULES', []))
    obligations = []
    discharged = 0
    files = [module_path(m) for m in mods]
    if not any(b['kind'] == 'translator-refused' for b in broken):
        rc, out, errors, dt = lake_build(mods + drivers)
        print('lake build %s: rc=%d %.1fs' % (' '.join(mods + drivers), rc, dt))
        if rc != 0:
            if not errors:
                raise Infra('lake build failed without Lean errors:\n' + out[-3000:])
            for fd in failing_decls(errors):
                broken.append({'kind': 'lean-obligation', 'what': fd['decl'], 'detail': fd})
    for f in files:
        if os.path.exists(f):
            obligations += [n for n, _ in lean_obligations(f)]
    for extra in getattr(mod, 'EXTRA_OBLIGATION_FILES', []):
        p = os.path.join(LEAN, extra)
        if os.path.exists(p):
            obligations += [n for n, _ in lean_obligations(p)]
    obligations = list(dict.fromkeys(obligations))
    # 3. audit
    audit_files = files + [os.path.join(LEAN, x) for x in getattr(mod, 'EXTRA_OBLIGATION_FILES', [])] \
        + [os.path.join(LEAN, x) for x in getattr(mod, 'AUDIT_FILES', [])]
    bad = audit_tokens([f for f in audit_files if os.path.exists(f)])
    if bad:
        raise Infra('forbidden tokens in proof files:\n' + '\n'.join(bad))
    axioms = {}
    if not broken:
        axioms = print_axioms(pid, mods, obligations)
        for n in obligations:
            ax = axioms.get(n)
            if ax is None:
                # name resolution failure (e.g. private): treat as machinery problem
                raise Infra('could not audit axioms of %s' % n)
            if not ax <= STD_AXIOMS:
                raise Infra('theorem %s depends on non-standard axioms %s' % (n, sorted(ax - STD_AXIOMS)))
        discharged = len(obligations)
        if ctx.thorough and getattr(mod, 'LEANCHECKER', True):
            rc, out, dt = sh(['lake', 'env', 'leanchecker'] + mods, cwd=LEAN, timeout=3600)
            print('leanchecker: rc=%d %.1fs' % (rc, dt))
            if rc != 0:
                raise Infra('leanchecker rejected the compiled modules:\n' + out[-2000:])
    else:
        failed = set(b['what'] for b in broken if b['kind'] == 'lean-obligation')
        discharged = len([n for n in obligations if n.split('.')[-1] not in failed and n not in failed])
        if any(b['kind'] != 'lean-obligation' for b in broken):
            discharged = 0
    # 4. correspondence
    import purity, cover
    purity.install()
    cover.start(REPO)
    corr = {'cases': 0, 'disagreements': [], 'stats': {}}
    if hasattr(mod, 'correspondence') and not any(b['kind'] == 'translator-refused' for b in broken):
        try:
            corr = mod.correspondence(ctx)
        except Infra as e:
            # the model side could not even run (e.g. build of the driver broke): correspondence is broken
            broken.append({'kind': 'correspondence', 'what': 'model driver', 'detail': str(e)[-600:]})
        except subprocess.TimeoutExpired:
            raise
        except Exception as e:
            # the implementation no longer behaves like anything the stream generator anticipates (wrong shapes, missing
            # settings, new exceptions): model and code cannot be compared, i.e. the correspondence is broken
            tb = traceback.format_exc()
            broken.append({'kind': 'correspondence', 'what': 'stream aborted: %s' % type(e).__name__, 'detail': tb[-900:]})
            ctx.notes.append('correspondence aborted: %s: %s' % (type(e).__name__, str(e)[:300]))
        for d in corr.get('disagreements', [])[:5]:
            broken.append({'kind': 'correspondence', 'what': d.get('fn', '?'), 'detail': d})
    # 5. failing-input search on the real code
    ctx.boost = ctx.boost or bool(broken)

    def run_oracle():
        return mod.oracle(ctx, hints=[b['detail'] for b in broken])
    try:
        orc = run_oracle()
        # code of an anchored function that is not in the reviewed baseline and that neither stream executed: the tie
        # between model and code does not reach it.  Search again with the large budget (special values, boundary cases).
        cov = cover.report(pid, REPO)
        if cov['new_unexercised'] and not ctx.boost and not orc.get('violations'):
            print('unexercised new code in %s: searching with the large budget' %
                  ', '.join(sorted(set(x['function'] for x in cov['new_unexercised']))))
            ctx.boost = True
            orc2 = run_oracle()
            orc2['evaluations'] = int(orc2.get('evaluations', 0)) + int(orc.get('evaluations', 0))
            orc2['distinct_nontrivial'] = int(orc2.get('distinct_nontrivial', 0)) + int(orc.get('distinct_nontrivial', 0))
            orc = orc2
    except (Infra, subprocess.TimeoutExpired):
        purity.uninstall()
        cover.stop()
        raise
    except Exception as e:
        # the code under test no longer behaves like anything the search harness anticipated (e.g. wrong result
        # shapes, unexpected exception types): the property cannot be evaluated on it, which is reported as a broken
        # tie rather than an infrastructure failure
        tb = traceback.format_exc()
        ctx.notes.append('failing-input search aborted: %s: %s' % (type(e).__name__, str(e)[:300]))
        broken.append({'kind': 'search-aborted', 'what': type(e).__name__, 'detail': tb[-900:]})
        orc = {'evaluations': 0, 'distinct_nontrivial': 0, 'violations': []}
    purity.uninstall()
    cov = cover.report(pid, REPO)
    cover.stop()
    opt = None
    if pid not in NO_OPTIMIZED_CHILD:
        opt = run_optimized_child(pid, tier, seed)
        if opt.get('error'):
            ctx.notes.append('search in the optimised interpreter aborted: %s' % opt['error'][-300:])
            broken.append({'kind': 'search-aborted', 'what': 'python -O child', 'detail': opt['error'][-900:]})
        orc['violations'] = list(orc.get('violations', [])) + list(opt.get('violations', []))
        orc['evaluations'] = int(orc.get('evaluations', 0)) + int(opt.get('evaluations', 0))
    if cov['new_unexercised']:
        # recorded, and the search above was repeated with the large budget because of it; NOT an alarm by itself: harmless
        # refactors routinely contain defensive lines no valid input reaches (measured on twelve behaviour-preserving
        # refactors: the alarm fired on four of them and never was the only signal on a seeded defect)
        ctx.notes.append('new code in anchored definitions that no stream executed: %s' %
                         ', '.join(sorted(set(x['function'] for x in cov['new_unexercised']))))
    orc.setdefault('violations', [])
    orc['violations'] = purity.violations() + list(orc['violations'])
    known = [k for k in load_known() if k['property'] == pid and k.get('status') == 'known']
    new_viol, known_hit = [], {}
    for v in orc.get('violations', []):
        k = next((k for k in known if k['id'] == v.get('known_id')), None)
        if k is not None:
            known_hit.setdefault(k['id'], v)
        else:
            new_viol.append(v)
    # known findings that did not show up in the random stream are replayed on their stored witness
    for k in known:
        if k['id'] not in known_hit and hasattr(mod, 'check_known'):
            v = mod.check_known(k)
            if v is not None:
                known_hit[k['id']] = v
    for kid, v in known_hit.items():
        k = next(k for k in known if k['id'] == kid)
        print('KNOWN-FINDING: property=%s %s' % (pid, k['summary']))
    # 6. verdict
    rc = 0
    replay_path = None
    if new_viol:
        v = new_viol[0]
        replay_path = write_replay(pid, {'property': pid, 'kind': 'failing-input', 'violation': v, 'seed': seed, 'tier': tier,
                                         'broken': broken, 'other_violations': new_viol[1:6]})
        print('VIOLATION property=%s replay=%s' % (pid, replay_path))
        print('  ' + json.dumps(v, default=str)[:600])
        rc = 1
    elif broken:
        replay_path = write_replay(pid, {'property': pid, 'kind': 'broken-obligation', 'broken': broken, 'seed': seed, 'tier': tier,
                                         'search': {'evaluations': orc.get('evaluations', 0)}})
        print('VIOLATION property=%s replay=%s no-failing-input-found' % (pid, replay_path))
        for b in broken[:5]:
            print('  broken: %s %s' % (b['kind'], b['what']))
        rc = 1
    # 7. evidence
    samples = []
    for n in obligations[:3]:
        samples.append({'obligation': n, 'axioms': sorted(axioms.get(n, []))})
    samples += corr.get('samples', [])[:3]
    samples += orc.get('samples', [])[:3]
    cov = {
        'obligations': max(len(obligations), 1) if obligations else 0,
        'discharged': discharged,
        'checker_cmd': 'cd lean && lake build %s && lake env lean .lake/audit/Audit_%s.lean  (#print axioms on every obligation)' % (' '.join(mods), pid),
        'trusted_base': TRUSTED_BASE + list(getattr(mod, 'TRUSTED_EXTRA', [])),
        'obligation_names': obligations,
        'evaluations': int(corr.get('cases', 0)) + int(orc.get('evaluations', 0)),
        'distinct_nontrivial': int(orc.get('distinct_nontrivial', 0)) + int(corr.get('distinct_nontrivial', 0)),
        'rule': getattr(mod, 'RULE', ''),
        'samples': samples,
        'correspondence': {'cases': corr.get('cases', 0), 'disagreements': len(corr.get('disagreements', [])), 'stats': corr.get('stats', {})},
        'search': {k: orc.get(k) for k in ('evaluations', 'distinct_nontrivial', 'stats') if k in orc},
        'exhaustive': bool(orc.get('exhaustive', False)),
        'known_findings_reproduced': sorted(known_hit),
        'broken': broken,
        'pins_changed': pins_changed,
        'stale_models': stale_models,
        'code_coverage': {'anchored_functions': cov['functions'], 'executable_lines': cov['lines'], 'executed': cov['covered'],
                          'not_executed': {q: v[:12] for q, v in list(cov['uncovered'].items())[:60]},
                          'new_unexercised': cov['new_unexercised'][:20], 'baseline_lines_not_reached_this_run': cov['lost'][:40],
                          'texts': cov['texts']},
        'value_semantics_guard': dict(purity.STATS, mutation_events=len(purity.EVENTS), history_events=len(purity.HISTORY_EVENTS), dtype_events=len(purity.DTYPE_EVENTS), container_events=len(purity.CONTAINER_EVENTS)),
        'optimized_interpreter_pass': ({'evaluations': opt.get('evaluations', 0), 'violations': len(opt.get('violations', [])), 'wall_s': opt.get('wall_s')}
                                       if opt is not None else 'not applicable (see NO_OPTIMIZED_CHILD in harness/check.py)'),
        'notes': ctx.notes,
    }
    ev = {'property_id': pid, 'tier': tier, 'seed': seed, 'level': 'proof', 'coverage': cov,
          'assumptions': list(getattr(mod, 'ASSUMPTIONS', [])), 'wall_s': round(time.time() - t0, 2),
          'violations': len(new_viol) + (1 if (broken and not new_viol) else 0)}
    write_evidence(pid, ev)
    print('%s %s: obligations=%d discharged=%d corr=%d search=%d new_violations=%d known=%d wall=%.1fs' % (
        pid, tier, len(obligations), discharged, corr.get('cases', 0), orc.get('evaluations', 0), len(new_viol), len(known_hit),
        time.time() - t0))
    return rc


if __name__ == '__main__':
    main()
