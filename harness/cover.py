"""
Line coverage of the ANCHORED implementation code while a check runs (Python 3.12 `sys.monitoring`, no source hook).

Why: a hand-written model is tied to the code only by the correspondence stream, and the failing-input search only sees
what its generators reach.  Both are blind to code they never execute (a new fast path keyed on an exact value, an
error branch, a container type).  So every check measures which executable lines of the functions its property is
anchored in were executed by correspondence + search, writes the figures into the evidence, and compares with
`harness/cover_baseline.json` (per function: the normalised text of every executable line of the reviewed source, and
of those the lines the streams are known to reach on every seed):

* a line whose text is NOT in the baseline (new code in an anchored function) and which the run never executed is an
  UNEXERCISED NEW LINE: the tie between model and code does not cover it.  check.py re-runs the search with the large
  budget (special values, boundary cases) and records the line in the evidence; it is not an alarm by itself (harmless
  refactors routinely add defensive lines that no valid input reaches).
* a baseline line that the run did not execute is only recorded (`lost`), never an alarm.

Baseline maintenance:  harness/cover.py --update   (runs nothing itself: merges the `coverage_lines` sections of the
evidence files currently in /verif/evidence; run the checks with several seeds first).
"""
import ast, json, os, sys, warnings
warnings.filterwarnings("ignore")

HERE = os.path.dirname(os.path.abspath(__file__))
BASEFILE = os.path.join(HERE, 'cover_baseline.json')

# property -> anchored definitions ("path:func", "path:Class.method", "path:Class.*")
ANCHORS = {
    'C01': ['xfab/{m}.py:form_b_mat', 'xfab/{m}.py:form_a_mat', 'xfab/{m}.py:form_a_mat_inv', 'xfab/{m}.py:cell_volume',
            'xfab/{m}.py:cell_invert', 'xfab/{m}.py:a_to_cell', 'xfab/{m}.py:b_to_cell', 'xfab/{m}.py:sintl'],
    'C02': ['xfab/{m}.py:u_to_ubi', 'xfab/{m}.py:ubi_to_u', 'xfab/{m}.py:ubi_to_cell', 'xfab/{m}.py:ubi_to_u_b', 'xfab/{m}.py:ubi_to_rod',
            'xfab/{m}.py:ub_to_u_b'],
    'C03': ['xfab/{m}.py:euler_to_u', 'xfab/{m}.py:u_to_euler', 'xfab/{m}.py:_arctan2', 'xfab/{m}.py:rod_to_u', 'xfab/{m}.py:u_to_rod',
            'xfab/{m}.py:form_omega_mat', 'xfab/{m}.py:form_omega_mat_general', 'xfab/{m}.py:quart_to_omega', 'xfab/{m}.py:detect_tilt'],
    'C04': ['xfab/sg.py:sg.__init__'],
    'C05': ['xfab/{m}.py:genhkl_all', 'xfab/{m}.py:genhkl_base', 'xfab/{m}.py:sysabs', 'xfab/{m}.py:sysabs_unique'],
    'C06': ['xfab/{m}.py:genhkl_unique', 'xfab/{m}.py:genhkl_base', 'xfab/{m}.py:genhkl_all'],
    'C07': ['xfab/structure.py:StructureFactor', 'xfab/structure.py:Uij2betaij'],
    'C08': ['xfab/structure.py:StructureFactor', 'xfab/structure.py:FormFactor', 'xfab/structure.py:Uij2betaij', 'xfab/tools.py:sintl'],
    'C09': ['xfab/{m}.py:find_omega_general', 'xfab/{m}.py:find_omega_quart', 'xfab/{m}.py:find_omega_wedge', 'xfab/{m}.py:find_omega',
            'xfab/{m}.py:tth', 'xfab/{m}.py:tth2'],
    'C10': ['xfab/detector.py:det_coor', 'xfab/detector.py:det_coor2', 'xfab/detector.py:det_v', 'xfab/detector.py:detector_to_lab',
            'xfab/tools.py:detect_tilt'],
    'C11': ['xfab/detector.py:trans_orientation', 'xfab/detector.py:image_flipping', 'xfab/detector.py:detyz_to_xy', 'xfab/detector.py:xy_to_detyz',
            'xfab/detector.py:detyz_to_eta_and_radpix', 'xfab/detector.py:eta_and_radpix_to_detyz'],
    'C12': ['xfab/symmetry.py:permutations', 'xfab/symmetry.py:rotations', 'xfab/symmetry.py:Umis'],
    'C13': ['xfab/{m}.py:epsilon_to_b', 'xfab/{m}.py:b_to_epsilon', 'xfab/{m}.py:epsilon_to_b_old', 'xfab/{m}.py:b_to_epsilon_old',
            'xfab/{m}.py:ubi_to_u_and_eps'],
    'C14': [],      # filled below: every function defined in both modules
    'C15': ['xfab/structure.py:multiplicity'],
    'C16': ['xfab/structure.py:FormFactor'],
    'C17': ['xfab/structure.py:build_atomlist.*', 'xfab/structure.py:atomlist.*', 'xfab/structure.py:atom_entry.*'],
    'C18': ['xfab/{m}.py:reduce_cell'],
    'C19': ['xfab/parameters.py:parameters.*', 'xfab/parameters.py:par.*', 'xfab/parameters.py:read_par_file'],
    'C20': ['xfab/checks.py:_check_rotation_matrix', 'xfab/checks.py:_check_euler_angles', 'xfab/checks.py:_check_ubi_matrix',
            'xfab/checks.py:_checkState.*'],
}


def anchors_of(pid, repo):
    out = []
    for spec in ANCHORS.get(pid, []):
        if '{m}' in spec:
            out += [spec.format(m='tools'), spec.format(m='laue')]
        else:
            out.append(spec)
    if pid == 'C14':
        def defs(path):
            t = ast.parse(open(os.path.join(repo, path)).read())
            return [n.name for n in t.body if isinstance(n, ast.FunctionDef)]
        both = [f for f in defs('xfab/tools.py') if f in set(defs('xfab/laue.py'))]
        out = ['xfab/%s.py:%s' % (m, f) for f in both for m in ('tools', 'laue')]
    return out


# ------------------------------------------------------------------------------------------------
# static side: executable lines of a definition

def _func_nodes(tree, name):
    """[(qualified name, FunctionDef)] selected by 'f', 'Class.method' or 'Class.*'"""
    parts = name.split('.')
    scope, prefix = tree.body, []
    for i, part in enumerate(parts):
        if part == '*':
            return [('.'.join(prefix + [n.name]), n) for n in scope if isinstance(n, ast.FunctionDef)]
        node = next((n for n in scope if isinstance(n, (ast.FunctionDef, ast.ClassDef)) and n.name == part), None)
        if node is None:
            return []
        if i == len(parts) - 1:
            if isinstance(node, ast.FunctionDef):
                return [('.'.join(prefix + [node.name]), node)]
            return [('.'.join(prefix + [node.name, n.name]), n) for n in node.body if isinstance(n, ast.FunctionDef)]
        prefix.append(node.name)
        scope = node.body
    return []


def _code_objects(code, out):
    out.append(code)
    for c in code.co_consts:
        if hasattr(c, 'co_code'):
            _code_objects(c, out)


def executable_lines(repo, spec):
    """{qualified function name: {line number: normalised text}} for the executable lines of the body (def line, docstring excluded)"""
    path, name = spec.split(':')
    full = os.path.join(repo, path)
    src = open(full).read()
    lines = src.split('\n')
    tree = ast.parse(src)
    top = compile(src, full, 'exec')
    allcode = []
    _code_objects(top, allcode)
    res = {}
    for qn, node in _func_nodes(tree, name):
        body = node.body
        doc_end = 0
        if body and isinstance(body[0], ast.Expr) and isinstance(getattr(body[0], 'value', None), ast.Constant) and isinstance(body[0].value.value, str):
            doc_end = body[0].end_lineno
        lo, hi = node.lineno, node.end_lineno
        cand = set()
        for c in allcode:
            if lo <= c.co_firstlineno <= hi:
                for _s, _e, ln in c.co_lines():
                    if ln is not None and lo < ln <= hi and ln > doc_end:
                        cand.add(ln)
        # keep statement-starting lines only (continuation lines of a multi-line expression carry no own event reliably)
        starts = set()
        for sub in ast.walk(node):
            if isinstance(sub, ast.stmt) and sub is not node:
                starts.add(sub.lineno)
        q = '%s:%s' % (path, qn)
        res[q] = {ln: ' '.join(lines[ln - 1].split()) for ln in sorted(cand & starts)}
    return res


# ------------------------------------------------------------------------------------------------
# dynamic side

_HIT = set()
_state = {'on': False, 'prefix': None}


def start(repo):
    if _state['on']:
        return
    mon = sys.monitoring
    prefix = os.path.join(os.path.realpath(repo), 'xfab') + os.sep
    _state['prefix'] = prefix
    try:
        mon.use_tool_id(mon.COVERAGE_ID, 'xfab-verif-cover')
    except ValueError:
        return

    def cb(code, line):
        fn = code.co_filename
        if fn.startswith(prefix) or os.path.realpath(fn).startswith(prefix):
            _HIT.add((os.path.realpath(fn), line))
        return mon.DISABLE
    mon.register_callback(mon.COVERAGE_ID, mon.events.LINE, cb)
    mon.set_events(mon.COVERAGE_ID, mon.events.LINE)
    _state['on'] = True


def stop():
    if not _state['on']:
        return
    mon = sys.monitoring
    mon.set_events(mon.COVERAGE_ID, 0)
    mon.register_callback(mon.COVERAGE_ID, mon.events.LINE, None)
    mon.free_tool_id(mon.COVERAGE_ID)
    _state['on'] = False


def load_baseline():
    return json.load(open(BASEFILE)) if os.path.exists(BASEFILE) else {}


def report(pid, repo):
    """coverage of the property's anchored definitions so far.
    returns dict(functions, lines, covered, uncovered={fn: [[line, text]...]}, new_unexercised=[...], lost=[...], texts={fn:{text:hit}})"""
    base = load_baseline().get(pid, {})
    rrepo = os.path.realpath(repo)
    tot = cov = 0
    unc, new_unex, lost, texts = {}, [], [], {}
    nfun = 0
    for spec in anchors_of(pid, repo):
        try:
            fl = executable_lines(repo, spec)
        except (OSError, SyntaxError):
            continue
        path = spec.split(':')[0]
        full = os.path.join(rrepo, path)
        for q, lines in fl.items():
            nfun += 1
            b = base.get(q, {})
            known = set(b.get('lines', []))
            reached = set(b.get('reached', []))
            tx = texts.setdefault(q, {})
            for ln, text in lines.items():
                tot += 1
                hit = (full, ln) in _HIT
                tx[text] = tx.get(text, False) or hit
                if hit:
                    cov += 1
                    continue
                unc.setdefault(q, []).append([ln, text])
                if b and text not in known:
                    new_unex.append({'function': q, 'line': ln, 'text': text})
                elif text in reached:
                    lost.append({'function': q, 'line': ln, 'text': text})
            if not b and base:
                # a definition that did not exist when the baseline was taken: every unexecuted line of it is new
                for ln, text in lines.items():
                    if (full, ln) not in _HIT:
                        new_unex.append({'function': q, 'line': ln, 'text': text})
    # definitions that did not exist in the anchored files when the baseline was taken (a helper split off an anchored
    # function, a new cache accessor ...): their lines are new code too
    known_defs = base.get('__defs__', {})
    for path in sorted(set(spec.split(':')[0] for spec in anchors_of(pid, repo))):
        if path not in known_defs:
            continue
        try:
            tree = ast.parse(open(os.path.join(repo, path)).read())
        except (OSError, SyntaxError):
            continue
        names = []
        for n in tree.body:
            if isinstance(n, ast.FunctionDef):
                names.append(n.name)
            elif isinstance(n, ast.ClassDef):
                names += ['%s.%s' % (n.name, m.name) for m in n.body if isinstance(m, ast.FunctionDef)]
        for nm in names:
            if nm in known_defs[path]:
                continue
            full = os.path.join(rrepo, path)
            for q, lines in executable_lines(repo, '%s:%s' % (path, nm)).items():
                for ln, text in lines.items():
                    tot += 1
                    if (full, ln) in _HIT:
                        cov += 1
                    else:
                        unc.setdefault(q, []).append([ln, text])
                        new_unex.append({'function': q + ' (new definition)', 'line': ln, 'text': text})
    return {'functions': nfun, 'lines': tot, 'covered': cov, 'uncovered': unc, 'new_unexercised': new_unex, 'lost': lost, 'texts': texts}


def main():
    """--update: rebuild cover_baseline.json from the `coverage_lines` sections of the evidence files (union over the runs made so far is
    NOT available there, so run `bin/sweep` first: each evidence file holds its last run; `reached` = executed in that run).
    With several evidence directories given as arguments, `reached` = executed in ALL of them."""
    args = [a for a in sys.argv[1:] if not a.startswith('-')]
    dirs = args or [os.path.join(os.path.dirname(HERE), 'evidence')]
    base = {}
    for i in range(1, 21):
        pid = 'C%02d' % i
        per = None
        for d in dirs:
            p = os.path.join(d, pid + '.json')
            if not os.path.exists(p):
                continue
            cl = json.load(open(p)).get('coverage', {}).get('code_coverage', {}).get('texts')
            if cl is None:
                continue
            if per is None:
                per = {q: {'lines': sorted(t), 'reached': set(k for k, v in t.items() if v)} for q, t in cl.items()}
            else:
                for q, t in cl.items():
                    if q in per:
                        per[q]['reached'] &= set(k for k, v in t.items() if v)
        if per:
            base[pid] = {q: {'lines': v['lines'], 'reached': sorted(v['reached'])} for q, v in per.items()}
            repo = os.environ.get('XFAB_REPO', '/repo')
            defs = {}
            for path in sorted(set(spec.split(':')[0] for spec in anchors_of(pid, repo))):
                tree = ast.parse(open(os.path.join(repo, path)).read())
                names = []
                for n in tree.body:
                    if isinstance(n, ast.FunctionDef):
                        names.append(n.name)
                    elif isinstance(n, ast.ClassDef):
                        names += ['%s.%s' % (n.name, m.name) for m in n.body if isinstance(m, ast.FunctionDef)]
                defs[path] = names
            base[pid]['__defs__'] = defs
    if '--update' in sys.argv:
        json.dump(base, open(BASEFILE, 'w'), indent=1, sort_keys=True)
        print('cover_baseline.json: %d properties, %d functions' % (len(base), sum(len(v) for v in base.values())))
    for pid, fs in sorted(base.items()):
        fs = {q: v for q, v in fs.items() if q != '__defs__'}
        n = sum(len(v['lines']) for v in fs.values())
        r = sum(len(v['reached']) for v in fs.values())
        print(pid, '%d functions, %d/%d lines reached' % (len(fs), r, n))
        for q, v in sorted(fs.items()):
            miss = [t for t in v['lines'] if t not in set(v['reached'])]
            for t in miss:
                print('    not reached: %s | %s' % (q, t[:110]))


if __name__ == '__main__':
    main()
