"""Float-twin correspondence: generated Lean Float model vs the Python implementation on the same inputs."""
import math
import numpy as np
from check import run_float_driver, f2b, Infra


def flat(x):
    """flatten python result (nested lists/tuples/arrays/scalars) to a list of floats"""
    if x is None:
        return []
    if isinstance(x, (list, tuple)):
        out = []
        for y in x:
            out += flat(y)
        return out
    a = np.asarray(x, dtype=float)
    return [float(v) for v in a.ravel()]


def close(a, b, rtol, atol):
    if math.isnan(a) and math.isnan(b):
        return True
    if math.isinf(a) or math.isinf(b):
        return a == b
    return abs(a - b) <= atol + rtol * max(abs(a), abs(b))


def compare(cases, rtol=1e-9, atol=1e-12):
    """cases: list of dict(fn=<Lean name>, args=[floats], py=<thunk>, [rtol, atol, scale])
    returns (n, disagreements, stats)"""
    lines = ['%s %s' % (c['fn'], ' '.join(f2b(x) for x in c['args'])) for c in cases]
    res = run_float_driver(lines)
    dis = []
    stats = {}
    for c, r in zip(cases, res):
        st = stats.setdefault(c['fn'], {'n': 0, 'none': 0, 'maxrel': 0.0})
        st['n'] += 1
        try:
            pv = c['py']()
            pyres = ('ok', flat(pv))
        except (ValueError, AssertionError, ZeroDivisionError, np.linalg.LinAlgError) as e:
            pyres = ('none', type(e).__name__)
        if r[0] == 'bad':
            dis.append({'fn': c['fn'], 'args': c['args'], 'model': 'bad-request', 'impl': str(pyres)[:200]})
            continue
        if r[0] == 'none' or pyres[0] == 'none':
            st['none'] += 1
            if r[0] != pyres[0]:
                # a raise on one side only: tolerate when the Python value is non-finite (nan/inf path)
                if pyres[0] == 'ok' and any(not math.isfinite(v) for v in pyres[1]):
                    continue
                dis.append({'fn': c['fn'], 'args': c['args'], 'model': r[0], 'impl': str(pyres)[:200]})
            continue
        mv, iv = r[1], pyres[1]
        if len(mv) != len(iv):
            dis.append({'fn': c['fn'], 'args': c['args'], 'model': mv, 'impl': iv, 'why': 'length'})
            continue
        rt, at = c.get('rtol', rtol), c.get('atol', atol)
        sc = c.get('scale')
        if sc == 'auto':
            # entries of a matrix-valued result arise from products of its largest entries with factors (cos near 90 deg, differences)
            # whose ABSOLUTE rounding error is ~1e-16: the absolute tolerance is relative to the largest entry of the result
            fin = [abs(v) for v in iv if math.isfinite(v)]
            sc = max(fin) if fin else None
        for k, (x, y) in enumerate(zip(mv, iv)):
            a_eff = at if sc is None else at * sc
            if not close(x, y, rt, a_eff):
                dis.append({'fn': c['fn'], 'args': c['args'], 'model': mv, 'impl': iv, 'index': k})
                break
            if x != y and math.isfinite(x) and math.isfinite(y):
                st['maxrel'] = max(st['maxrel'], abs(x - y) / max(abs(x), abs(y), 1e-300))
    return len(cases), dis, stats
