#!/venv/bin/python
"""
C14 exporter: compares the definitions shared by xfab/tools.py and xfab/laue.py after normalisation
(numpy alias unified, docstrings dropped; comments/whitespace vanish in the AST) and emits
lean/XfabVerif/Gen/C14Ast.lean:

  C14.shared    : names defined (as top-level functions) in both modules
  C14.toolsAst / C14.laueAst : name ↦ SHA-256 of the normalised AST dump (as a natural number)
  C14.onlyTools / C14.onlyLaue : functions present in one module only

Exit 3 (`TRANSLATOR-REFUSED`) on anything unexpected (e.g. a module-level rebinding of a shared name).
"""
import ast, hashlib, os, sys, json

REPO = os.environ.get('XFAB_REPO', '/repo')
HERE = os.path.dirname(os.path.abspath(__file__))
OUT = os.path.join(HERE, '..', 'lean', 'XfabVerif', 'Gen')


class Refuse(Exception):
    pass


class Norm(ast.NodeTransformer):
    def __init__(self, aliases):
        self.aliases = aliases

    def visit_Name(self, node):
        if node.id in self.aliases:
            return ast.copy_location(ast.Name(id='NUMPY', ctx=node.ctx), node)
        return node

    def visit_FunctionDef(self, node):
        self.generic_visit(node)
        b = node.body
        if b and isinstance(b[0], ast.Expr) and isinstance(getattr(b[0], 'value', None), ast.Constant) and isinstance(b[0].value.value, str):
            node.body = b[1:] or [ast.Pass()]
        return node


PRIVATE_OWN = {'_arctan2'}


def functions(path):
    tree = ast.parse(open(path).read())
    aliases = set()
    fns = {}
    for node in tree.body:
        if isinstance(node, ast.Import):
            for a in node.names:
                if a.name == 'numpy':
                    aliases.add(a.asname or 'numpy')
        elif isinstance(node, ast.FunctionDef):
            if node.name in fns:
                raise Refuse('%s: function %s defined twice' % (path, node.name))
            fns[node.name] = node
        elif isinstance(node, (ast.Assign, ast.AugAssign)):
            for t in (node.targets if isinstance(node, ast.Assign) else [node.target]):
                if isinstance(t, ast.Name) and t.id in fns:
                    raise Refuse('%s: module-level rebinding of %s' % (path, t.id))
    if not aliases:
        raise Refuse('%s: numpy import not found' % path)
    # module-level constants (NAME = expression): a definition that reads one is compared together with its value, otherwise two
    # textually identical functions could differ through a constant that differs between the modules
    consts = {}
    for node in tree.body:
        if isinstance(node, ast.Assign) and len(node.targets) == 1 and isinstance(node.targets[0], ast.Name):
            v = Norm(aliases).visit(ast.parse(ast.unparse(node.value)).body[0])
            consts[node.targets[0].id] = ast.dump(v, annotate_fields=True, include_attributes=False)
    own_dump, calls, reads = {}, {}, {}
    for name, node in fns.items():
        n = Norm(aliases).visit(ast.parse(ast.unparse(node)).body[0])
        own_dump[name] = ast.dump(n, annotate_fields=True, include_attributes=False)
        ids = {x.id for x in ast.walk(node) if isinstance(x, ast.Name)}
        calls[name] = sorted(i for i in ids if i in fns and i != name)
        reads[name] = sorted(i for i in ids if i in consts and i not in ('logger',))
    # CLOSURE: a definition is compared together with the private helpers it reaches (transitively).  A refactor that moves the
    # 2*pi difference of a convention-dependent function into a private helper leaves the function "different"; one that splits an
    # identical function into identical helpers leaves it "identical" -- the split of the API into identical / different definitions
    # does not depend on where the helper boundaries are drawn.
    def private(n_):
        return n_.startswith('_') and n_ not in PRIVATE_OWN

    def closure(name):
        seen, todo = [], [c for c in calls[name] if private(c)]
        while todo:
            c = todo.pop()
            if c not in seen:
                seen.append(c)
                todo += [d for d in calls[c] if private(d)]
        cs = sorted(set(reads[name]).union(*[set(reads[c]) for c in seen]) if seen else set(reads[name]))
        return (own_dump[name] + ''.join('|' + c + '=' + own_dump[c] for c in sorted(seen))
                + ''.join('|const ' + c + '=' + consts[c] for c in cs))
    return {name: (closure(name) if not private(name) else own_dump[name]) for name in fns}


def write_if_changed(path, text):
    if os.path.exists(path) and open(path).read() == text:
        return False
    os.makedirs(os.path.dirname(path), exist_ok=True)
    open(path, 'w').write(text)
    return True


def h(s):
    return int(hashlib.sha256(s.encode()).hexdigest(), 16)


def main():
    t = functions(os.path.join(REPO, 'xfab', 'tools.py'))
    l = functions(os.path.join(REPO, 'xfab', 'laue.py'))
    # the API the property quantifies over: public functions, and the private ones that have theorems of their own.
    # Other private helpers (a refactor may split them off public functions at any time) are reached through their callers:
    # the tracer inlines them, and `helpers_ast_identical` demands that the two modules' copies are the same source.
    own = lambda n: (not n.startswith('_')) or n in PRIVATE_OWN
    shared = sorted(n for n in set(t) & set(l) if own(n))
    helpers = sorted(n for n in set(t) & set(l) if not own(n))
    one_sided = sorted(n for n in set(t) ^ set(l) if not own(n))
    t_all, l_all = t, l
    t = {n: v for n, v in t.items() if own(n)}
    l = {n: v for n, v in l.items() if own(n)}
    s = '/- GENERATED by harness/gen_c14.py from xfab/tools.py and xfab/laue.py — do not edit. -/\n\n'
    s += 'def C14.shared : List String := [%s]\n\n' % ', '.join('"%s"' % n for n in shared)
    s += 'def C14.onlyTools : List String := [%s]\n' % ', '.join('"%s"' % n for n in sorted(set(t) - set(l)))
    s += 'def C14.onlyLaue : List String := [%s]\n\n' % ', '.join('"%s"' % n for n in sorted(set(l) - set(t)))
    s += '/-- SHA-256 (as a number) of the normalised AST of each shared definition -/\n'
    s += 'def C14.toolsAst : List (String × Nat) := [\n  %s]\n\n' % ',\n  '.join('("%s", %d)' % (n, h(t[n])) for n in shared)
    s += 'def C14.laueAst : List (String × Nat) := [\n  %s]\n\n' % ',\n  '.join('("%s", %d)' % (n, h(l[n])) for n in shared)
    s += '/-- private helpers defined in both modules (not part of the API; inlined into their callers by the tracer) -/\n'
    s += 'def C14.helperToolsAst : List (String × Nat) := [%s]\n' % ', '.join('("%s", %d)' % (n, h(t_all[n])) for n in helpers)
    s += 'def C14.helperLaueAst : List (String × Nat) := [%s]\n' % ', '.join('("%s", %d)' % (n, h(l_all[n])) for n in helpers)
    s += '/-- private helpers defined in one module only -/\n'
    s += 'def C14.helpersOneSided : List String := [%s]\n' % ', '.join('"%s"' % n for n in one_sided)
    ch = write_if_changed(os.path.join(OUT, 'C14Ast.lean'), s)
    meta = {'helpers': helpers, 'helpers_one_sided': one_sided, 'shared': shared, 'identical': [n for n in shared if t[n] == l[n]], 'different': [n for n in shared if t[n] != l[n]]}
    write_if_changed(os.path.join(OUT, 'c14_meta.json'), json.dumps(meta, indent=1))
    print('gen_c14: %d shared definitions, %d identical after normalisation, %d different; changed: %s' % (
        len(shared), len(meta['identical']), len(meta['different']), 'C14Ast' if ch else '-'))


if __name__ == '__main__':
    try:
        main()
    except Refuse as e:
        sys.stderr.write('TRANSLATOR-REFUSED: %s\n' % e)
        sys.exit(3)
