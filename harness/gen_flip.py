#!/venv/bin/python
"""
Translator for the image re-orientation functions of xfab/detector.py (property C11):

    trans_orientation(img, o11, o12, o21, o22, flipdir='forward')
    image_flipping   (img, o11, o12, o21, o22, flipdir='forward')

The functions are EXECUTED (the real source of /repo, loaded into a private module object) on a recording image: an object on
which `numpy.transpose / fliplr / flipud` (through the module's numpy alias) append an operation to a list, and which refuses
every other use (shape, indexing, arithmetic, iteration ...).  Because nothing about the image can be inspected, the recorded
operation sequence is what the code does to an image of ANY shape and content.  All 81 matrices over {-1,0,1}, both flip
directions and the default argument are run; the result is written as Lean data

    lean/XfabVerif/Gen/FlipTable.lean      Gen.FlipTable.trans / .flipping :
                                           List ((o11,o12,o21,o22), forward?, some [ops] | none = ValueError)

`Proofs/C11Table.lean` proves (kernel-decided) that the table equals the operation sequences of the hand model
`Flip.transOrientation / Flip.imageFlipping`, about which the C11 theorems (inverse laws for every shape, pixel-map agreement)
are stated.

Exit status: 0 ok, 3 refused (`TRANSLATOR-REFUSED`): the code inspects the image, uses another numpy routine on it, returns
something that is not the recorded image, raises something else than ValueError, or the default flipdir differs from 'forward'.
"""
import os, sys, itertools, types

REPO = os.environ.get('XFAB_REPO', '/repo')
HERE = os.path.dirname(os.path.abspath(__file__))
OUT = os.path.join(HERE, '..', 'lean', 'XfabVerif', 'Gen')


class Refuse(Exception):
    pass


class RecImg:
    """recording image: only transpose / fliplr / flipud (via the numpy proxy) are allowed"""
    __slots__ = ('ops',)

    def __init__(self, ops=()):
        object.__setattr__(self, 'ops', tuple(ops))

    def __getattr__(self, name):
        if name == 'T':
            return RecImg(self.ops + ('T',))
        raise Refuse('the code reads attribute %r of the image' % name)

    def transpose(self, *a):
        if a:
            raise Refuse('transpose with axes')
        return RecImg(self.ops + ('T',))

    def _no(self, *a, **k):
        raise Refuse('the code inspects or computes with the image')
    __getitem__ = __setitem__ = __len__ = __iter__ = __add__ = __radd__ = __mul__ = __rmul__ = __neg__ = __bool__ = _no
    __eq__ = __ne__ = __lt__ = __le__ = __gt__ = __ge__ = __array__ = _no
    __hash__ = None


class NumpyProxy:
    def __init__(self, real):
        self._real = real

    def transpose(self, a, *rest):
        if isinstance(a, RecImg):
            if rest:
                raise Refuse('transpose with axes')
            return RecImg(a.ops + ('T',))
        return self._real.transpose(a, *rest)

    def fliplr(self, a):
        return RecImg(a.ops + ('LR',)) if isinstance(a, RecImg) else self._real.fliplr(a)

    def flipud(self, a):
        return RecImg(a.ops + ('UD',)) if isinstance(a, RecImg) else self._real.flipud(a)

    def flip(self, a, axis=None):
        if isinstance(a, RecImg):
            if axis == 0:
                return RecImg(a.ops + ('UD',))
            if axis == 1:
                return RecImg(a.ops + ('LR',))
            if axis in ((0, 1), (1, 0), None):
                return RecImg(a.ops + ('UD', 'LR'))
            raise Refuse('flip axis %r' % (axis,))
        return self._real.flip(a, axis)

    def swapaxes(self, a, i, j):
        if isinstance(a, RecImg):
            if {i, j} == {0, 1}:
                return RecImg(a.ops + ('T',))
            raise Refuse('swapaxes')
        return self._real.swapaxes(a, i, j)

    def __getattr__(self, name):
        f = getattr(self._real, name)
        if callable(f) and not isinstance(f, type):
            def g(*a, **k):
                if any(isinstance(x, RecImg) for x in a) or any(isinstance(x, RecImg) for x in k.values()):
                    raise Refuse('numpy.%s applied to the image' % name)
                return f(*a, **k)
            return g
        return f


def load_detector():
    import numpy
    src = open(os.path.join(REPO, 'xfab', 'detector.py')).read()
    mod = types.ModuleType('xfab_detector_private')
    mod.__dict__['__name__'] = 'xfab.detector'
    mod.__dict__['__package__'] = 'xfab'
    sys.path.insert(0, REPO)
    exec(compile(src, os.path.join(REPO, 'xfab', 'detector.py'), 'exec'), mod.__dict__)
    # every module-level name bound to numpy becomes the proxy
    for k, v in list(mod.__dict__.items()):
        if v is numpy:
            mod.__dict__[k] = NumpyProxy(numpy)
    return mod


def record(f, o, flipdir=None):
    img = RecImg()
    try:
        r = f(img, *o) if flipdir is None else f(img, o[0], o[1], o[2], o[3], flipdir)
    except ValueError:
        return None
    except Refuse:
        raise
    except Exception as e:
        raise Refuse('%s raised %s: %s' % (f.__name__, type(e).__name__, e))
    if not isinstance(r, RecImg):
        raise Refuse('%s returned %s instead of the re-oriented image' % (f.__name__, type(r).__name__))
    return list(r.ops)


def lean_ops(ops):
    if ops is None:
        return 'none'
    return 'some [%s]' % ', '.join('.' + x for x in ops)


def main():
    mod = load_detector()
    tables = {}
    for fn in ('trans_orientation', 'image_flipping'):
        f = getattr(mod, fn)
        rows = []
        for o in itertools.product((-1, 0, 1), repeat=4):
            fw = record(f, o, 'forward')
            inv = record(f, o, 'inverse')
            other = record(f, o, 'backward')      # any other string takes the inverse branch in the reviewed code
            dflt = record(f, o, None)
            if dflt != fw:
                raise Refuse('%s: default flipdir is not forward for %s' % (fn, o))
            if other != inv:
                raise Refuse('%s: a flipdir other than forward/inverse behaves differently from inverse for %s' % (fn, o))
            rows.append((o, True, fw))
            rows.append((o, False, inv))
        tables[fn] = rows
    L = ['/- GENERATED by harness/gen_flip.py from xfab/detector.py (executed on a recording image) — do not edit. -/',
         'namespace Gen.FlipTable', '',
         '/-- numpy.transpose / numpy.fliplr / numpy.flipud -/',
         'inductive Op where', '  | T', '  | LR', '  | UD', 'deriving DecidableEq, Repr', '',
         '/-- one row: orientation matrix entries, `true` = flipdir forward, recorded operations (`none` = ValueError) -/',
         'abbrev Row := (Int × Int × Int × Int) × Bool × Option (List Op)', '']
    for fn, nm in (('trans_orientation', 'trans'), ('image_flipping', 'flipping')):
        L.append('/-- detector.%s on all 81 matrices over {-1,0,1}, both directions -/' % fn)
        L.append('def %s : List Row := [' % nm)
        rows = tables[fn]
        for i, (o, fwd, ops) in enumerate(rows):
            L.append('  ((%s, %s, %s, %s), %s, %s)%s' % (o[0], o[1], o[2], o[3], 'true' if fwd else 'false', lean_ops(ops),
                                                        ',' if i + 1 < len(rows) else ''))
        L.append(']')
        L.append('')
    L.append('end Gen.FlipTable')
    text = '\n'.join(L) + '\n'
    path = os.path.join(OUT, 'FlipTable.lean')
    changed = not (os.path.exists(path) and open(path).read() == text)
    if changed and not os.environ.get('GEN_DRY'):
        open(path, 'w').write(text)
    nvalid = sum(1 for fn in tables for r in tables[fn] if r[2] is not None)
    print('gen_flip: 2 functions x 81 matrices x 2 directions recorded, %d accepted rows, %s' % (nvalid, 'FlipTable.lean changed' if changed else '0 files changed'))


if __name__ == '__main__':
    try:
        main()
    except Refuse as e:
        sys.stderr.write('TRANSLATOR-REFUSED: gen_flip: %s\n' % e)
        print('TRANSLATOR-REFUSED: gen_flip: %s' % e)
        sys.exit(3)
