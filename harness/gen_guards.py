#!/venv/bin/python
"""
Guard-site extractor (property C20).  Reads the SOURCE (ast, nothing is imported or executed) of
/repo/xfab/tools.py, laue.py, symmetry.py and emits lean/XfabVerif/Gen/Guards.lean (core Lean only):

  guardSites : List (String × String × String × String)
      (module, function, check name, argument expression) for every call `checks._check_X(args)` in the body of a
      statement   if CHECKS.activated: <check calls only>   (one-line or multi-line body, no else), in source order
  otherUses  : List (String × String)
      (module, description) of EVERY other occurrence of the names `CHECKS` / `checks` or of the attributes
      `.CHECKS` / `.activated` / `._run_checks` / `._check_*` in those files, the two import statements
      `from xfab import checks`, `from xfab import CHECKS` excepted.

so that "the switch is only ever the condition of an `if` whose body consists of check calls, and the check
functions are only ever called under that condition" is the decidable fact `otherUses = []`.

What the table cannot represent is refused (exit 3, `TRANSLATOR-REFUSED: ...`): syntax errors, the names being
imported in any other way (aliases, star imports from xfab, imports from xfab.checks), rebinding of the names.
Exit status: 0 ok, 3 refused.  Files are written only if their content changed.
"""
import os, sys, ast

REPO = os.environ.get('XFAB_REPO', '/repo')
HERE = os.path.dirname(os.path.abspath(__file__))
OUT = os.path.join(HERE, '..', 'lean', 'XfabVerif', 'Gen')
MODULES = ['tools', 'laue', 'symmetry']
NAMES = ('CHECKS', 'checks')
ATTRS = ('CHECKS', 'activated', '_run_checks', '_checkState')


class Refuse(Exception):
    pass


def write_if_changed(path, text):
    if os.path.exists(path) and open(path).read() == text:
        return False
    os.makedirs(os.path.dirname(path), exist_ok=True)
    open(path, 'w').write(text)
    return True


def lean_str(s):
    out = []
    for ch in s:
        if ch == '\\':
            out.append('\\\\')
        elif ch == '"':
            out.append('\\"')
        elif ch == '\n':
            out.append('\\n')
        elif ch == '\t':
            out.append('\\t')
        elif ord(ch) < 32 or ord(ch) > 126:
            raise Refuse('non-printable / non-ASCII character %r in an extracted expression' % ch)
        else:
            out.append(ch)
    return '"' + ''.join(out) + '"'


def is_switch_test(t):
    return (isinstance(t, ast.Attribute) and t.attr == 'activated' and isinstance(t.ctx, ast.Load)
            and isinstance(t.value, ast.Name) and t.value.id == 'CHECKS')


def check_call(stmt):
    """`checks._check_X(positional args)` as an expression statement -> (name, 'arg, arg') else None"""
    if not isinstance(stmt, ast.Expr) or not isinstance(stmt.value, ast.Call):
        return None
    c = stmt.value
    f = c.func
    if not (isinstance(f, ast.Attribute) and isinstance(f.value, ast.Name) and f.value.id == 'checks'
            and f.attr.startswith('_check_')):
        return None
    if c.keywords or any(isinstance(a, ast.Starred) for a in c.args):
        return None
    return f.attr, ', '.join(ast.unparse(a) for a in c.args)


def guard_calls(stmt):
    """the check calls one statement of a guard body stands for: a plain check call, or
    `for v in (a, b, ...): checks._check_X(v)` (literal tuple/list, the loop variable is the only argument) = one call per element"""
    c = check_call(stmt)
    if c is not None:
        return [c]
    if isinstance(stmt, ast.For) and not stmt.orelse and isinstance(stmt.target, ast.Name) and isinstance(stmt.iter, (ast.Tuple, ast.List)) \
            and len(stmt.body) == 1 and not any(isinstance(e, ast.Starred) for e in stmt.iter.elts):
        inner = check_call(stmt.body[0])
        call = stmt.body[0].value if inner is not None else None
        if inner is not None and len(call.args) == 1 and isinstance(call.args[0], ast.Name) and call.args[0].id == stmt.target.id:
            return [(inner[0], ast.unparse(e)) for e in stmt.iter.elts]
    return None


def extract(module, src):
    try:
        tree = ast.parse(src)
    except SyntaxError as e:
        raise Refuse('%s.py does not parse: %s' % (module, e))
    sites, others = [], []
    consumed = set()          # ids of AST nodes that belong to a recognised guard or to one of the two allowed imports
    nimport = {'checks': 0, 'CHECKS': 0}

    # ---- imports: only the two canonical forms may bring the names in
    for node in ast.walk(tree):
        if isinstance(node, ast.ImportFrom):
            modname = node.module or ''
            for a in node.names:
                if a.name == '*' and modname.split('.')[0] == 'xfab':
                    raise Refuse('%s.py line %d: star import from %s' % (module, node.lineno, modname))
                if modname == 'xfab' and a.name in NAMES:
                    if a.asname not in (None, a.name):
                        raise Refuse('%s.py line %d: %s imported under the alias %s' % (module, node.lineno, a.name, a.asname))
                    if node.col_offset != 0 or node not in tree.body:
                        raise Refuse('%s.py line %d: import of %s is not at module level' % (module, node.lineno, a.name))
                    nimport[a.name] += 1
                elif modname.startswith('xfab.checks') or (modname in ('', 'xfab') and a.name in ('checks', 'CHECKS', '_checkState')) \
                        or a.asname in NAMES:
                    raise Refuse('%s.py line %d: unexpected import `%s`' % (module, node.lineno, ast.unparse(node)))
        elif isinstance(node, ast.Import):
            for a in node.names:
                if a.name.startswith('xfab.checks') or a.asname in NAMES or a.name in NAMES:
                    raise Refuse('%s.py line %d: unexpected import `%s`' % (module, node.lineno, ast.unparse(node)))
    for k, v in nimport.items():
        if v > 1:
            raise Refuse('%s.py imports %s %d times' % (module, k, v))

    # ---- rebinding of the names anywhere (assignment, def, class, argument, for target, with ... as, global)
    for node in ast.walk(tree):
        if isinstance(node, ast.Name) and node.id in NAMES and not isinstance(node.ctx, ast.Load):
            raise Refuse('%s.py line %d: the name %s is rebound' % (module, node.lineno, node.id))
        if isinstance(node, (ast.FunctionDef, ast.AsyncFunctionDef, ast.ClassDef)) and node.name in NAMES:
            raise Refuse('%s.py line %d: the name %s is rebound by a definition' % (module, node.lineno, node.name))
        if isinstance(node, ast.arg) and node.arg in NAMES:
            raise Refuse('%s.py line %d: the name %s is a function parameter' % (module, node.lineno, node.arg))
        if isinstance(node, (ast.Global, ast.Nonlocal)) and any(n in NAMES for n in node.names):
            raise Refuse('%s.py line %d: global/nonlocal declaration of the switch names' % (module, node.lineno))
        if isinstance(node, ast.ExceptHandler) and node.name in NAMES:
            raise Refuse('%s.py line %d: the name %s is rebound by an except clause' % (module, node.lineno, node.name))

    # ---- guard statements, with the enclosing function
    def visit(body, fn):
        for st in body:
            if isinstance(st, (ast.FunctionDef, ast.AsyncFunctionDef)):
                visit(st.body, (fn + '.' if fn else '') + st.name)
                continue
            if isinstance(st, ast.ClassDef):
                visit(st.body, (fn + '.' if fn else '') + st.name)
                continue
            if isinstance(st, ast.If) and is_switch_test(st.test):
                groups = [guard_calls(b) for b in st.body]
                if not st.orelse and groups and all(g is not None for g in groups):
                    for c in [c for g in groups for c in g]:
                        sites.append((module, fn or '<module>', c[0], c[1]))
                    for sub in ast.walk(st):
                        consumed.add(id(sub))
                    continue
                # a guard of another shape: not consumed -> shows up in otherUses below
            for fld in ('body', 'orelse', 'finalbody', 'handlers'):
                sub = getattr(st, fld, None)
                if isinstance(sub, list):
                    blocks = []
                    for h in sub:
                        if isinstance(h, ast.ExceptHandler):
                            visit(h.body, fn)
                        else:
                            blocks.append(h)
                    visit(blocks, fn)
            if hasattr(st, 'cases'):            # match statement
                for cs in st.cases:
                    visit(cs.body, fn)
    visit(tree.body, '')

    # ---- every other occurrence
    parents = {}
    for node in ast.walk(tree):
        for ch in ast.iter_child_nodes(node):
            parents[id(ch)] = node

    def enclosing(node):
        fn = []
        stmt = None
        n = node
        while id(n) in parents:
            if stmt is None and isinstance(n, ast.stmt):
                stmt = n
            n = parents[id(n)]
            if isinstance(n, (ast.FunctionDef, ast.AsyncFunctionDef, ast.ClassDef)):
                fn.append(n.name)
        return '.'.join(reversed(fn)) or '<module>', stmt

    def describe(node):
        fn, stmt = enclosing(node)
        text = ast.unparse(stmt) if stmt is not None else ast.unparse(node)
        text = ' '.join(text.split())
        if len(text) > 160:
            text = text[:157] + '...'
        return '%s: %s' % (fn, text)

    seen = set()
    for node in ast.walk(tree):
        if id(node) in consumed:
            continue
        hit = False
        if isinstance(node, ast.Name) and node.id in NAMES:
            hit = True
        elif isinstance(node, ast.Attribute) and (node.attr in ATTRS or node.attr.startswith('_check_')):
            hit = True
        elif isinstance(node, ast.Constant) and isinstance(node.value, str) and node.value in NAMES + ATTRS \
                and not isinstance(parents.get(id(node)), ast.Expr):
            hit = True                       # getattr(xfab, 'CHECKS') and friends
        if hit:
            d = describe(node)
            if d not in seen:
                seen.add(d)
                others.append((module, d))
    return sites, others, nimport


def main():
    sites, others = [], []
    for m in MODULES:
        p = os.path.join(REPO, 'xfab', m + '.py')
        if not os.path.exists(p):
            raise Refuse('%s does not exist' % p)
        s, o, nimp = extract(m, open(p, encoding='utf-8', errors='replace').read())
        if (s or o) and not (nimp['checks'] == 1 and nimp['CHECKS'] == 1):
            raise Refuse('%s.py uses the switch without the canonical imports `from xfab import checks`, `from xfab import CHECKS`' % m)
        sites += s
        others += o
    out = ['/- GENERATED by harness/gen_guards.py from xfab/tools.py, xfab/laue.py, xfab/symmetry.py — do not edit. -/',
           '',
           '/-- (module, function, check, argument expression) of every `if CHECKS.activated: checks._check_X(args)` -/',
           'def Guards.guardSites : List (String × String × String × String) := [']
    out.append(',\n'.join('  (%s, %s, %s, %s)' % tuple(lean_str(x) for x in s) for s in sites))
    out.append(']')
    out.append('')
    out.append('/-- every other occurrence of `CHECKS` / `checks` / `.activated` / `._check_*` (imports excepted) -/')
    out.append('def Guards.otherUses : List (String × String) := [')
    out.append(',\n'.join('  (%s, %s)' % tuple(lean_str(x) for x in o) for o in others))
    out.append(']')
    out.append('')
    ch = write_if_changed(os.path.join(OUT, 'Guards.lean'), '\n'.join(out))
    print('gen_guards: %d guard sites, %d other uses; changed: %s' % (len(sites), len(others), 'Guards' if ch else '-'))


if __name__ == '__main__':
    try:
        main()
    except Refuse as e:
        sys.stderr.write('TRANSLATOR-REFUSED: %s\n' % e)
        sys.exit(3)
