#!/venv/bin/python
"""
M2b + M1 for the reflection generator (properties C05 / C06).  Works on the AST of /repo's working tree, for BOTH
modules xfab/tools.py and xfab/laue.py:

  lean/XfabVerif/Gen/Sysabs.lean   `sysabs_unique`, `sysabs` as Lean `Int` functions (state-passing expression form)
  lean/XfabVerif/Gen/Segm.lean     the literal `segm` arrays of `genhkl_base` with their `if Laue_class == ...` tests,
                                   and the `sintl_scale` rule
  lean/XfabVerif/Gen/hkl_meta.json fingerprints of the hand-modelled parts (traversal loop, genhkl_all / genhkl_unique)

(a) Statement language translated (anything else -> exit 3 `TRANSLATOR-REFUSED`):
    docstrings; `v = e`; `(a, b, c) = hkl`; `if / elif / else`; a single trailing `return e`;
    expressions: integer literals, names, `hkl[i]`, `syscond[i]` (literal i), `+`, `-`, unary `-`, `abs(e)`,
    `e % v`, `==` / `!=` (one comparator) on integers or on a string parameter and a string literal, `and` / `or`
    of comparisons, calls `sysabs_unique(hkl, syscond)` / `sysabs_unique([e, e, e], syscond)`.

    State passing: every `if` test is snapshotted as a Bool `c<n>` = (enclosing path condition) && test, and every
    assignment `v = e` on a path with condition `c` becomes  `let v := if c then e else v`  (plain `let v := e` on
    the unconditional path).  The result is ONE expression, linear in the size of the source; statement order kept.

    * Undefined variables: a variable first assigned under a condition gets the placeholder previous value 0.  The
      translator checks definite assignment (every read of a local is preceded by an assignment in the same or an
      enclosing block), so the placeholder is never observable; a read that is not dominated is refused.
    * `a % b`: Python's `%` with b > 0 is `Int.emod` (Lean's `%` on `Int`).  For b < 0 the two differ only in sign
      and for b = 0 Python raises ZeroDivisionError.  The translator therefore only accepts `%` (i) whose result is
      compared with the literal 0 (so only divisibility matters, which `Int.emod` decides for every b != 0) and
      (ii) whose right operand is a local `v` whose dominating assignment is `v = syscond[i]` directly inside
      `if syscond[i] != 0:` — the guard that excludes b = 0.  In the state-passing form the path condition
      contains that guard, so Lean's total `x % 0 = x` is never observed.
    * Integers are unbounded (`Int`); numpy int64 overflow (|h| > 2^62) is not modelled.

(b) `genhkl_base`: every top-level `if Laue_class == '<L>' [and cell_choice ==|!= '<C>']:` whose body assigns
    `segm = n.array(<literal>)` is exported in source order (the tests are sequential `if`s, so the LAST matching
    rule wins — `Hkl.segmentsFor` in the model implements that).  Bodies may otherwise only contain
    `logger.debug(...)` and `if unit_cell[i] ==|!= unit_cell[j]:` blocks of `logger.debug(...)`.
    `sintl_scale = <number>` followed by `if <same kind of test>: sintl_scale = <number>` is exported as a rational.
    The traversal loop itself and `genhkl_all` / `genhkl_unique` are hand-modelled (`Model/Hkl.lean`); their AST
    fingerprints are compared with the ones the model was written against: a difference prints a WARNING and is
    recorded in hkl_meta.json — the correspondence run decides whether the model still describes the code.

Exit status: 0 ok, 3 refused.
"""
import os, sys, ast, json, hashlib
from fractions import Fraction
from decimal import Decimal

REPO = os.environ.get('XFAB_REPO', '/repo')
HERE = os.path.dirname(os.path.abspath(__file__))
OUT = os.path.join(HERE, '..', 'lean', 'XfabVerif', 'Gen')

# fingerprints (sha1 of ast.dump without docstrings, module alias normalised) of the hand-modelled code
PINNED = {
    'genhkl_base_loop': '9a806fd6f9e320ff59e97dcddbd1d05e25923343',
    'genhkl_all': 'c7da07809ff92689e69396976b031d141e8c3bf2',
    'genhkl_unique': '3e67d3c11ceac8a9830302cd28d7846650bdbd51',
    'sintl': '2d9fa7a6be5fedfda356a645336a79f94b01163d',
}


class Refuse(Exception):
    pass


def write_if_changed(path, text):
    if os.path.exists(path) and open(path).read() == text:
        return False
    os.makedirs(os.path.dirname(path), exist_ok=True)
    open(path, 'w').write(text)
    return True


def where(node):
    return 'line %s' % getattr(node, 'lineno', '?')


def lean_int(v):
    return str(v) if v >= 0 else '(%d)' % v


def lean_str(s):
    return '"' + s.replace('\\', '\\\\').replace('"', '\\"') + '"'


def strip_doc(body):
    if body and isinstance(body[0], ast.Expr) and isinstance(body[0].value, ast.Constant) and isinstance(body[0].value.value, str):
        return body[1:]
    return body


def get_functions(path):
    src = open(path).read()
    tree = ast.parse(src)
    return {n.name: n for n in tree.body if isinstance(n, ast.FunctionDef)}


# ------------------------------------------------------------------------------------------------
# (a) sysabs_unique / sysabs

class _Subst(ast.NodeTransformer):
    def __init__(self, mapping):
        self.mapping = mapping

    def visit_Name(self, node):
        if isinstance(node.ctx, ast.Load) and node.id in self.mapping:
            import copy
            return copy.deepcopy(self.mapping[node.id])
        return node


class _Normalise(ast.NodeTransformer):
    """source-level normal form before translation: `for <names> in <literal tuple/list>` loops are unrolled (the loop variables
    are substituted, they must not be assigned in the body), integer constant arithmetic is folded"""

    def visit_For(self, node):
        import copy
        self.generic_visit(node)
        it = node.iter
        if node.orelse or not isinstance(it, (ast.Tuple, ast.List)):
            return node
        tgt = node.target
        names = [tgt.id] if isinstance(tgt, ast.Name) else \
            ([t.id for t in tgt.elts] if isinstance(tgt, ast.Tuple) and all(isinstance(t, ast.Name) for t in tgt.elts) else None)
        if names is None:
            return node
        for sub in ast.walk(ast.Module(body=node.body, type_ignores=[])):
            if isinstance(sub, ast.Name) and isinstance(sub.ctx, (ast.Store, ast.Del)) and sub.id in names:
                return node
        out = []
        for e in it.elts:
            if isinstance(tgt, ast.Name):
                mapping = {tgt.id: e}
            elif isinstance(e, (ast.Tuple, ast.List)) and len(e.elts) == len(names):
                mapping = dict(zip(names, e.elts))
            else:
                return node
            for b in node.body:
                nb = _Normalise().visit(_Subst(mapping).visit(copy.deepcopy(b)))
                out += nb if isinstance(nb, list) else [nb]
        return out

    def visit_BinOp(self, node):
        self.generic_visit(node)
        a, b = node.left, node.right
        isint = lambda c: isinstance(c, ast.Constant) and isinstance(c.value, int) and not isinstance(c.value, bool)
        if isint(a) and isint(b) and isinstance(node.op, (ast.Add, ast.Sub, ast.Mult)):
            v = {ast.Add: a.value + b.value, ast.Sub: a.value - b.value, ast.Mult: a.value * b.value}[type(node.op)]
            return ast.copy_location(ast.Constant(value=v), node)
        return node


class FnTranslator:
    """translates one function body to a Lean expression by state passing"""

    def __init__(self, fn, params, ns):
        # params: python parameter name -> ('hkl',) | ('syscond',) | ('str', leanName)
        self.fn = fn
        self.params = params
        self.ns = ns
        self.lines = []
        self.ncond = 0
        self.defined = set()        # locals that already have a Lean binding
        self.scopes = [set()]       # definitely-assigned locals per open block
        self.guard = {}             # local -> index i when its dominating assignment is `v = syscond[i]` under `if syscond[i] != 0`
        self.block_guard = [None]   # per open block: i if the block is the body of `if syscond[i] != 0`

    # --- expressions -------------------------------------------------------------------------
    def is_assigned(self, name):
        return any(name in s for s in self.scopes)

    def const_index(self, node):
        s = node.slice
        if isinstance(s, ast.Constant) and isinstance(s.value, int) and not isinstance(s.value, bool) and s.value >= 0:
            return s.value
        raise Refuse('%s: %s: subscript with a non-literal index' % (self.fn.name, where(node)))

    def expr(self, e, mod_ok=False):
        """-> (lean text, type) with type in {'int','bool','str'}"""
        if isinstance(e, ast.Constant):
            if isinstance(e.value, bool) or not isinstance(e.value, (int, str)):
                raise Refuse('%s: %s: constant %r' % (self.fn.name, where(e), e.value))
            if isinstance(e.value, int):
                return lean_int(e.value), 'int'
            return lean_str(e.value), 'str'
        if isinstance(e, ast.Name):
            p = self.params.get(e.id)
            if p is not None:
                if p[0] == 'str':
                    return p[1], 'str'
                raise Refuse('%s: %s: parameter %s used as a scalar' % (self.fn.name, where(e), e.id))
            if not self.is_assigned(e.id):
                raise Refuse('%s: %s: read of %s is not dominated by an assignment' % (self.fn.name, where(e), e.id))
            return e.id, 'int'
        if isinstance(e, ast.Subscript) and isinstance(e.value, ast.Name):
            p = self.params.get(e.value.id)
            i = self.const_index(e)
            if p == ('hkl',):
                if i > 2:
                    raise Refuse('%s: %s: hkl[%d]' % (self.fn.name, where(e), i))
                return 'hkl%d' % i, 'int'
            if p == ('syscond',):
                return '(syscond.getD %d 0)' % i, 'int'
            raise Refuse('%s: %s: subscript of %s' % (self.fn.name, where(e), e.value.id))
        if isinstance(e, ast.UnaryOp) and isinstance(e.op, ast.USub):
            t, ty = self.expr(e.operand)
            if ty != 'int':
                raise Refuse('%s: %s: unary minus of non-integer' % (self.fn.name, where(e)))
            return '(-%s)' % t, 'int'
        if isinstance(e, ast.BinOp):
            if isinstance(e.op, (ast.Add, ast.Sub)):
                a, ta = self.expr(e.left)
                b, tb = self.expr(e.right)
                if ta != 'int' or tb != 'int':
                    raise Refuse('%s: %s: arithmetic on non-integers' % (self.fn.name, where(e)))
                return '(%s %s %s)' % (a, '+' if isinstance(e.op, ast.Add) else '-', b), 'int'
            if isinstance(e.op, ast.Mod):
                if not mod_ok:
                    raise Refuse('%s: %s: `%%` whose value is not compared with 0' % (self.fn.name, where(e)))
                a, ta = self.expr(e.left)
                r = e.right
                if ta == 'int' and isinstance(r, ast.Subscript) and isinstance(r.value, ast.Name) \
                        and self.params.get(r.value.id) == ('syscond',) and self.const_index(r) in self.block_guard:
                    # `x % syscond[i]` written without the local, inside `if syscond[i] != 0`
                    b, _tb = self.expr(r)
                    return '(%s %% %s)' % (a, b), 'int'
                if ta != 'int' or not isinstance(e.right, ast.Name) or e.right.id not in self.guard \
                        or not self.is_assigned(e.right.id):
                    raise Refuse('%s: %s: `%%` by something that is not a local guarded by `if syscond[i] != 0`' % (self.fn.name, where(e)))
                return '(%s %% %s)' % (a, e.right.id), 'int'
            raise Refuse('%s: %s: operator %s' % (self.fn.name, where(e), type(e.op).__name__))
        if isinstance(e, ast.Call):
            if isinstance(e.func, ast.Name) and e.func.id == 'abs' and len(e.args) == 1 and not e.keywords:
                a, ta = self.expr(e.args[0])
                if ta != 'int':
                    raise Refuse('%s: %s: abs of non-integer' % (self.fn.name, where(e)))
                return '(Int.natAbs %s : Int)' % a, 'int'
            if isinstance(e.func, ast.Name) and e.func.id == 'sysabs_unique' and len(e.args) == 2 and not e.keywords:
                a0, a1 = e.args
                if not (isinstance(a1, ast.Name) and self.params.get(a1.id) == ('syscond',)):
                    raise Refuse('%s: %s: second argument of sysabs_unique' % (self.fn.name, where(e)))
                if isinstance(a0, ast.Name) and self.params.get(a0.id) == ('hkl',):
                    hs = ['hkl0', 'hkl1', 'hkl2']
                elif isinstance(a0, ast.List) and len(a0.elts) == 3:
                    hs = []
                    for x in a0.elts:
                        t, ty = self.expr(x)
                        if ty != 'int':
                            raise Refuse('%s: %s: non-integer list element' % (self.fn.name, where(e)))
                        hs.append(t)
                else:
                    raise Refuse('%s: %s: first argument of sysabs_unique' % (self.fn.name, where(e)))
                return '(%s.sysabs_unique %s syscond)' % (self.ns, ' '.join(hs)), 'int'
            raise Refuse('%s: %s: call' % (self.fn.name, where(e)))
        if isinstance(e, ast.Compare):
            if len(e.ops) != 1 or not isinstance(e.ops[0], (ast.Eq, ast.NotEq)):
                raise Refuse('%s: %s: comparison other than a single == / !=' % (self.fn.name, where(e)))
            rhs = e.comparators[0]
            zero = isinstance(rhs, ast.Constant) and rhs.value == 0 and not isinstance(rhs.value, bool)
            a, ta = self.expr(e.left, mod_ok=zero)
            b, tb = self.expr(rhs)
            if ta != tb or ta == 'bool':
                raise Refuse('%s: %s: comparison of %s with %s' % (self.fn.name, where(e), ta, tb))
            return '(%s %s %s)' % (a, '==' if isinstance(e.ops[0], ast.Eq) else '!=', b), 'bool'
        if isinstance(e, ast.BoolOp):
            parts = []
            for v in e.values:
                t, ty = self.expr(v)
                if ty != 'bool':
                    raise Refuse('%s: %s: and/or of a non-comparison' % (self.fn.name, where(e)))
                parts.append(t)
            op = ' && ' if isinstance(e.op, ast.And) else ' || '
            return '(' + op.join(parts) + ')', 'bool'
        raise Refuse('%s: %s: expression %s' % (self.fn.name, where(e), type(e).__name__))

    # --- statements --------------------------------------------------------------------------
    def assign(self, name, text, cond):
        if name in self.params:
            raise Refuse('%s: assignment to parameter %s' % (self.fn.name, name))
        prev = name if name in self.defined else '0'
        if cond is None:
            self.lines.append('let %s : Int := %s' % (name, text))
        else:
            self.lines.append('let %s : Int := if %s then %s else %s' % (name, cond, text, prev))
        self.defined.add(name)
        self.scopes[-1].add(name)

    def guard_of_test(self, test):
        """i when test is `syscond[i] != 0`"""
        if isinstance(test, ast.Compare) and len(test.ops) == 1 and isinstance(test.ops[0], ast.NotEq) \
                and isinstance(test.left, ast.Subscript) and isinstance(test.left.value, ast.Name) \
                and self.params.get(test.left.value.id) == ('syscond',) \
                and isinstance(test.comparators[0], ast.Constant) and test.comparators[0].value == 0:
            return self.const_index(test.left)
        return None

    def block(self, stmts, cond, guard_idx=None):
        self.scopes.append(set())
        self.block_guard.append(guard_idx)
        saved_guard = dict(self.guard)
        for s in stmts:
            self.stmt(s, cond)
        self.guard = saved_guard
        self.block_guard.pop()
        return self.scopes.pop()

    def stmt(self, s, cond):
        if isinstance(s, ast.Expr) and isinstance(s.value, ast.Constant) and isinstance(s.value.value, str):
            return
        if isinstance(s, ast.Assign):
            if len(s.targets) != 1:
                raise Refuse('%s: %s: chained assignment' % (self.fn.name, where(s)))
            t = s.targets[0]
            if isinstance(t, ast.Name):
                text, ty = self.expr(s.value)
                if ty != 'int':
                    raise Refuse('%s: %s: assignment of a non-integer' % (self.fn.name, where(s)))
                self.assign(t.id, text, cond)
                # guard bookkeeping for `%`
                gi = self.block_guard[-1]
                v = s.value
                if gi is not None and isinstance(v, ast.Subscript) and isinstance(v.value, ast.Name) \
                        and self.params.get(v.value.id) == ('syscond',) and self.const_index(v) == gi:
                    self.guard[t.id] = gi
                else:
                    self.guard.pop(t.id, None)
                return
            if isinstance(t, ast.Tuple) and len(t.elts) == 3 and all(isinstance(x, ast.Name) for x in t.elts) \
                    and isinstance(s.value, ast.Name) and self.params.get(s.value.id) == ('hkl',):
                for i, x in enumerate(t.elts):
                    self.assign(x.id, 'hkl%d' % i, cond)
                    self.guard.pop(x.id, None)
                return
            raise Refuse('%s: %s: assignment target' % (self.fn.name, where(s)))
        if isinstance(s, ast.If):
            text, ty = self.expr(s.test)
            if ty != 'bool':
                raise Refuse('%s: %s: `if` on a non-comparison' % (self.fn.name, where(s)))
            self.ncond += 1
            c = 'c%d' % self.ncond
            self.lines.append('let %s : Bool := %s' % (c, text if cond is None else '%s && %s' % (cond, text)))
            a = self.block(s.body, c, self.guard_of_test(s.test))
            b = set()
            if s.orelse:
                self.ncond += 1
                nc = 'c%d' % self.ncond
                self.lines.append('let %s : Bool := %s' % (nc, ('!%s' % c) if cond is None else '%s && !%s' % (cond, c)))
                b = self.block(s.orelse, nc)
            # definitely assigned after the `if`: assigned on both branches
            self.scopes[-1] |= (a & b)
            # a guarded divisor does not survive the end of its block (restored by `block`)
            return
        raise Refuse('%s: %s: statement %s' % (self.fn.name, where(s), type(s).__name__))

    def run(self):
        import copy
        fn = _Normalise().visit(copy.deepcopy(self.fn))
        ast.fix_missing_locations(fn)
        body = strip_doc(fn.body)
        if not body or not isinstance(body[-1], ast.Return) or body[-1].value is None:
            raise Refuse('%s: does not end with `return <expr>`' % self.fn.name)
        for s in body[:-1]:
            for n in ast.walk(s):
                if isinstance(n, ast.Return):
                    raise Refuse('%s: %s: early return' % (self.fn.name, where(n)))
            self.stmt(s, None)
        text, ty = self.expr(body[-1].value)
        if ty != 'int':
            raise Refuse('%s: returns a non-integer' % self.fn.name)
        return self.lines, text


def param_names(fn):
    a = fn.args
    if a.vararg or a.kwarg or a.kwonlyargs or a.posonlyargs:
        raise Refuse('%s: unusual parameter list' % fn.name)
    return [x.arg for x in a.args], a.defaults


def translate_sysabs(fns, ns):
    out = ''
    fu = fns.get('sysabs_unique')
    fs = fns.get('sysabs')
    if fu is None or fs is None:
        raise Refuse('sysabs_unique / sysabs not found')
    names, defaults = param_names(fu)
    if names != ['hkl', 'syscond'] or defaults:
        raise Refuse('sysabs_unique: parameters %s' % names)
    lines, res = FnTranslator(fu, {'hkl': ('hkl',), 'syscond': ('syscond',)}, ns).run()
    out += 'def sysabs_unique (hkl0 hkl1 hkl2 : Int) (syscond : List Int) : Int :=\n'
    out += ''.join('  %s\n' % l for l in lines) + '  %s\n\n' % res
    names, defaults = param_names(fs)
    if names != ['hkl', 'syscond', 'crystal_system', 'cell_choice']:
        raise Refuse('sysabs: parameters %s' % names)
    if [getattr(d, 'value', None) for d in defaults] != ['triclinic', 'standard']:
        raise Refuse('sysabs: default values changed')
    lines, res = FnTranslator(fs, {'hkl': ('hkl',), 'syscond': ('syscond',), 'crystal_system': ('str', 'crystalSystem'),
                                   'cell_choice': ('str', 'cellChoice')}, ns).run()
    out += 'def sysabs (hkl0 hkl1 hkl2 : Int) (syscond : List Int) (crystalSystem cellChoice : String) : Int :=\n'
    out += ''.join('  %s\n' % l for l in lines) + '  %s\n' % res
    return out


# ------------------------------------------------------------------------------------------------
# (b) segm tables and the scale rule of genhkl_base

def laue_test(test, fname):
    """`Laue_class == 'L'` or `Laue_class == 'L' and cell_choice ==|!= 'C'`  ->  (L, None | (is_eq, C))"""
    def cmp_str(e, var):
        if isinstance(e, ast.Compare) and len(e.ops) == 1 and isinstance(e.left, ast.Name) and e.left.id == var \
                and isinstance(e.comparators[0], ast.Constant) and isinstance(e.comparators[0].value, str) \
                and isinstance(e.ops[0], (ast.Eq, ast.NotEq)):
            return isinstance(e.ops[0], ast.Eq), e.comparators[0].value
        return None
    r = cmp_str(test, 'Laue_class')
    if r is not None and r[0]:
        return r[1], None
    if isinstance(test, ast.BoolOp) and isinstance(test.op, ast.And) and len(test.values) == 2:
        r = cmp_str(test.values[0], 'Laue_class')
        c = cmp_str(test.values[1], 'cell_choice')
        if r is not None and r[0] and c is not None:
            return r[1], c
    return None


def is_logger_call(s):
    return isinstance(s, ast.Expr) and isinstance(s.value, ast.Call) and isinstance(s.value.func, ast.Attribute) \
        and isinstance(s.value.func.value, ast.Name) and s.value.func.value.id == 'logger'


def is_benign(s):
    if is_logger_call(s):
        return True
    if isinstance(s, ast.If) and not s.orelse and isinstance(s.test, ast.Compare) and len(s.test.ops) == 1 \
            and isinstance(s.test.left, ast.Subscript) and isinstance(s.test.left.value, ast.Name) and s.test.left.value.id == 'unit_cell' \
            and isinstance(s.test.comparators[0], ast.Subscript) and isinstance(s.test.comparators[0].value, ast.Name) \
            and s.test.comparators[0].value.id == 'unit_cell':
        return all(is_logger_call(x) for x in s.body)
    return False


def int_literal(e):
    if isinstance(e, ast.Constant) and isinstance(e.value, int) and not isinstance(e.value, bool):
        return e.value
    if isinstance(e, ast.UnaryOp) and isinstance(e.op, ast.USub) and isinstance(e.operand, ast.Constant) \
            and isinstance(e.operand.value, int) and not isinstance(e.operand.value, bool):
        return -e.operand.value
    raise Refuse('genhkl_base: %s: non-integer entry in a segm literal' % where(e))


def segm_literal(call):
    if not (isinstance(call, ast.Call) and isinstance(call.func, ast.Attribute) and call.func.attr == 'array'
            and len(call.args) == 1 and not call.keywords and isinstance(call.args[0], ast.List)):
        raise Refuse('genhkl_base: %s: segm is not `array(<literal>)`' % where(call))
    segs = []
    for seg in call.args[0].elts:
        if not (isinstance(seg, ast.List) and len(seg.elts) == 4):
            raise Refuse('genhkl_base: %s: a segment is not a list of four vectors' % where(seg))
        vs = []
        for v in seg.elts:
            if not (isinstance(v, ast.List) and len(v.elts) == 3):
                raise Refuse('genhkl_base: %s: a segment vector is not a list of three integers' % where(v))
            vs.append([int_literal(x) for x in v.elts])
        s, d1, d2, d3 = vs
        det = (d1[0] * (d2[1] * d3[2] - d2[2] * d3[1]) - d1[1] * (d2[0] * d3[2] - d2[2] * d3[0]) + d1[2] * (d2[0] * d3[1] - d2[1] * d3[0]))
        if det not in (1, -1):
            raise Refuse('genhkl_base: %s: direction matrix of a segment is not unimodular (det %d)' % (where(seg), det))
        segs.append(vs)
    if not segs:
        raise Refuse('genhkl_base: empty segm')
    return segs


def number_literal(e):
    if isinstance(e, ast.Constant) and isinstance(e.value, (int, float)) and not isinstance(e.value, bool):
        f = Fraction(Decimal(repr(e.value)))
        if f <= 0:
            raise Refuse('genhkl_base: non-positive sintl_scale')
        return f
    raise Refuse('genhkl_base: %s: sintl_scale is not a number literal' % where(e))


def norm_dump(nodes):
    """ast.dump of statements with docstrings removed and the numpy alias (n / np) normalised"""
    txt = '\n'.join(ast.dump(x, annotate_fields=False) for x in nodes)
    return txt.replace("Name('np'", "Name('n'")


def extract_segm(fns):
    fn = fns.get('genhkl_base')
    if fn is None:
        raise Refuse('genhkl_base not found')
    names, defaults = param_names(fn)
    if names != ['unit_cell', 'sysconditions', 'sintlmin', 'sintlmax', 'crystal_system', 'Laue_class', 'cell_choice', 'output_stl']:
        raise Refuse('genhkl_base: parameters %s' % names)
    body = strip_doc(fn.body)
    rules, scale_default, scale_rules = [], None, []
    rest = []
    phase = 0       # 0: before `segm = None`; 1: the rule `if`s; 2: after `if segm is None`
    for s in body:
        if phase == 0:
            if isinstance(s, ast.Assign) and len(s.targets) == 1 and isinstance(s.targets[0], ast.Name) and s.targets[0].id == 'segm' \
                    and isinstance(s.value, ast.Constant) and s.value.value is None:
                phase = 1
                continue
            raise Refuse('genhkl_base: %s: expected `segm = None` first' % where(s))
        if phase == 1:
            if isinstance(s, ast.If) and isinstance(s.test, ast.Compare) and isinstance(s.test.left, ast.Name) and s.test.left.id == 'segm' \
                    and isinstance(s.test.ops[0], ast.Is):
                phase = 2
                continue
            if not isinstance(s, ast.If) or s.orelse:
                raise Refuse('genhkl_base: %s: unexpected statement among the Laue-class rules' % where(s))
            t = laue_test(s.test, fn.name)
            if t is None:
                raise Refuse('genhkl_base: %s: unrecognised Laue-class test' % where(s))
            segs = None
            for b in s.body:
                if isinstance(b, ast.Assign) and len(b.targets) == 1 and isinstance(b.targets[0], ast.Name) and b.targets[0].id == 'segm':
                    if segs is not None:
                        raise Refuse('genhkl_base: %s: segm assigned twice in one rule' % where(b))
                    segs = segm_literal(b.value)
                elif not is_benign(b):
                    raise Refuse('genhkl_base: %s: unexpected statement inside a Laue-class rule' % where(b))
            if segs is None:
                raise Refuse('genhkl_base: %s: rule without segm' % where(s))
            rules.append((t[0], t[1], segs))
            continue
        # phase 2: pick the scale rule, fingerprint everything else
        if isinstance(s, ast.Assign) and len(s.targets) == 1 and isinstance(s.targets[0], ast.Name) and s.targets[0].id == 'sintl_scale':
            if scale_default is not None:
                raise Refuse('genhkl_base: %s: sintl_scale assigned twice unconditionally' % where(s))
            scale_default = number_literal(s.value)
            continue
        if isinstance(s, ast.If) and not s.orelse and len(s.body) == 1 and isinstance(s.body[0], ast.Assign) \
                and isinstance(s.body[0].targets[0], ast.Name) and s.body[0].targets[0].id == 'sintl_scale':
            t = laue_test(s.test, fn.name)
            if t is None or scale_default is None:
                raise Refuse('genhkl_base: %s: unrecognised sintl_scale rule' % where(s))
            scale_rules.append((t[0], t[1], number_literal(s.body[0].value)))
            continue
        for nd in ast.walk(s):
            if isinstance(nd, ast.Name) and nd.id == 'sintl_scale' and isinstance(nd.ctx, ast.Store):
                raise Refuse('genhkl_base: %s: sintl_scale assigned in an unrecognised way' % where(nd))
            if isinstance(nd, ast.Name) and nd.id == 'segm' and isinstance(nd.ctx, ast.Store):
                raise Refuse('genhkl_base: %s: segm assigned after the rules' % where(nd))
        rest.append(s)
    if phase != 2 or scale_default is None or not rules:
        raise Refuse('genhkl_base: structure not recognised (phase %d)' % phase)
    finger = hashlib.sha1(norm_dump(rest).encode()).hexdigest()
    return rules, scale_default, scale_rules, finger


def emit_cc(c):
    if c is None:
        return 'none'
    return 'some (%s, %s)' % ('true' if c[0] else 'false', lean_str(c[1]))


def emit_segm(rules, scale_default, scale_rules):
    t = 'def segmRules : List Hkl.SegRule := [\n'
    rows = []
    for laue, cc, segs in rules:
        ss = ',\n      '.join('⟨' + ', '.join('(%s, %s, %s)' % tuple(lean_int(x) for x in v) for v in seg) + '⟩' for seg in segs)
        rows.append('  { laue := %s, cc := %s,\n    segs := [\n      %s] }' % (lean_str(laue), emit_cc(cc), ss))
    t += ',\n'.join(rows) + ']\n\n'
    t += '/-- `sintl_scale` as (numerator, denominator): default, then the sequential override rules -/\n'
    t += 'def scaleDefault : Int × Nat := (%d, %d)\n\n' % (scale_default.numerator, scale_default.denominator)
    t += 'def scaleRules : List Hkl.ScaleRule := [\n'
    t += ',\n'.join('  { laue := %s, cc := %s, num := %d, den := %d }' % (lean_str(l), emit_cc(c), f.numerator, f.denominator)
                    for l, c, f in scale_rules) + ']\n'
    return t


SEGM_PRELUDE = '''/- GENERATED by harness/gen_hkl.py from genhkl_base of xfab/tools.py and xfab/laue.py — do not edit. -/

namespace Hkl

/-- one traversal segment of `genhkl_base`: start point and the three step directions (inner, middle, outer loop) -/
structure Segment where
  s : Int × Int × Int
  d1 : Int × Int × Int
  d2 : Int × Int × Int
  d3 : Int × Int × Int

/-- `if Laue_class == laue [and cell_choice ==/!= c]: segm = segs`; `cc = some (true, c)` means `cell_choice == c`,
    `some (false, c)` means `cell_choice != c`.  The rules are sequential `if`s: the last matching one wins. -/
structure SegRule where
  laue : String
  cc : Option (Bool × String)
  segs : List Segment

structure ScaleRule where
  laue : String
  cc : Option (Bool × String)
  num : Int
  den : Nat

end Hkl

'''


def fingerprint_fn(fn):
    return hashlib.sha1(norm_dump(strip_doc(fn.body)).encode()).hexdigest()


def main():
    mods = [('Tools', os.path.join(REPO, 'xfab', 'tools.py')), ('Laue', os.path.join(REPO, 'xfab', 'laue.py'))]
    sys_txt, seg_txt, meta = {}, {}, {'modules': {}}
    for ns, path in mods:
        fns = get_functions(path)
        sys_txt[ns] = translate_sysabs(fns, ns)
        rules, sd, sr, finger = extract_segm(fns)
        seg_txt[ns] = emit_segm(rules, sd, sr)
        for f in ('genhkl_all', 'genhkl_unique', 'sintl'):
            if f not in fns:
                raise Refuse('%s: %s not found' % (ns, f))
        meta['modules'][ns] = {
            'rules': [{'laue': l, 'cc': list(c) if c else None, 'segs': s} for l, c, s in rules],
            'scale_default': [sd.numerator, sd.denominator],
            'scale_rules': [{'laue': l, 'cc': list(c) if c else None, 'scale': [f.numerator, f.denominator]} for l, c, f in sr],
            'fingerprints': {'genhkl_base_loop': finger, 'genhkl_all': fingerprint_fn(fns['genhkl_all']),
                             'genhkl_unique': fingerprint_fn(fns['genhkl_unique']), 'sintl': fingerprint_fn(fns['sintl'])},
        }
    changed = 0
    # Sysabs.lean
    t = '/- GENERATED by harness/gen_hkl.py from sysabs_unique / sysabs of xfab/tools.py and xfab/laue.py — do not edit.\n'
    t += '   State-passing translation: `c<n>` is the full path condition of the n-th `if`; an assignment under it is\n'
    t += '   `let v := if c<n> then e else v`.  `%` is `Int.emod`; see the header of gen_hkl.py for the `% 0` guard. -/\n\n'
    t += 'set_option linter.unusedVariables false\n\n'
    t += 'namespace Tools\n\n' + sys_txt['Tools'] + '\nend Tools\n\nnamespace Laue\n\n'
    same_sys = sys_txt['Laue'].replace('Laue.sysabs_unique', 'Tools.sysabs_unique') == sys_txt['Tools']
    if same_sys:
        t += '/-- laue.py has literally the same code (after normalising the numpy alias) -/\n'
        t += 'abbrev sysabs_unique := @Tools.sysabs_unique\nabbrev sysabs := @Tools.sysabs\n'
    else:
        t += sys_txt['Laue']
    t += '\nend Laue\n'
    changed += write_if_changed(os.path.join(OUT, 'Sysabs.lean'), t)
    # Segm.lean
    t = SEGM_PRELUDE + 'namespace Tools\n\n' + seg_txt['Tools'] + '\nend Tools\n\nnamespace Laue\n\n'
    same_seg = seg_txt['Laue'] == seg_txt['Tools']
    if same_seg:
        t += 'abbrev segmRules := Tools.segmRules\nabbrev scaleDefault := Tools.scaleDefault\nabbrev scaleRules := Tools.scaleRules\n'
    else:
        t += seg_txt['Laue']
    t += '\nend Laue\n'
    changed += write_if_changed(os.path.join(OUT, 'Segm.lean'), t)
    meta['same_sysabs'] = same_sys
    meta['same_segm'] = same_seg
    warn = []
    for ns in meta['modules']:
        for k, v in meta['modules'][ns]['fingerprints'].items():
            if PINNED.get(k) and PINNED[k] != v:
                warn.append('%s.%s' % (ns, k))
    meta['hand_model_fingerprint_mismatch'] = warn
    write_if_changed(os.path.join(OUT, 'hkl_meta.json'), json.dumps(meta, indent=1, sort_keys=True))
    for w in warn:
        print('gen_hkl: WARNING: %s differs from the code the hand model was written against (correspondence decides)' % w)
    print('gen_hkl: sysabs %s, segm %s (%d rules), %d files changed' % (
        'identical in tools/laue' if same_sys else 'DIFFERENT in tools/laue', 'identical' if same_seg else 'DIFFERENT',
        len(meta['modules']['Tools']['rules']), changed))


if __name__ == '__main__':
    try:
        main()
    except Refuse as e:
        sys.stderr.write('TRANSLATOR-REFUSED: %s\n' % e)
        print('TRANSLATOR-REFUSED: %s' % e)
        sys.exit(3)
