#!/venv/bin/python
"""
Certificate generator for the names clause of property C04: every key of xfab.sg.sgdic, read as a Hermann-Mauguin symbol
(harness/hmsymbol.py), with a WITNESS operation for every element the symbol names.  Output:

    lean/XfabVerif/Gen/NameCerts.lean     chunks of (table, number, rhombohedral?, HM.Row) + one kernel-decided theorem per chunk
                                          + the list of keys, proved equal to the keys of the exported dictionary

The witnesses are untrusted: `HM.rowOk` (lean/XfabVerif/Model/HMCert.lean) re-checks every claim on the exported table.  A key for
which no reading is satisfied by its table gets a row WITHOUT witnesses for the failing element -- its theorem is then false, the
build breaks at that key, and the check's failing-input search (props/c04.py, the same reading in Python) reports the key.
Exit status 0; 3 (`TRANSLATOR-REFUSED`) when the dictionary or a table cannot be read at all.
"""
import os, sys, itertools, warnings
warnings.simplefilter('ignore')
REPO = os.environ.get('XFAB_REPO', '/repo')
HERE = os.path.dirname(os.path.abspath(__file__))
OUT = os.path.join(HERE, '..', 'lean', 'XfabVerif', 'Gen')
sys.path.insert(0, HERE)
sys.path.insert(0, REPO)
import hmsymbol as H

LAT = {'p': 0, 'a': 1, 'b': 2, 'c': 3, 'i': 4, 'f': 5, 'r': 6}
GLIDE = {'m': 0, 'a': 1, 'b': 2, 'c': 3, 'n': 4, 'd': 5, 'e': 6}


def ops24(o):
    out = []
    for i in range(int(o.nsymop)):
        R = tuple(tuple(int(round(float(x))) for x in r) for r in o.rot[i])
        t = tuple(int(round(24 * float(x))) % 24 for x in o.trans[i])
        out.append((R, t))
    return out


def mv(R, v):
    return tuple(sum(R[i][k] * v[k] for k in range(3)) for i in range(3))


def cross(a, b):
    return (a[1] * b[2] - a[2] * b[1], a[2] * b[0] - a[0] * b[2], a[0] * b[1] - a[1] * b[0])


def lattice_vectors(cent24):
    return [tuple(24 * l[i] + c[i] for i in range(3)) for l in itertools.product((0, 1, -1, 2, -2), repeat=3) for c in cent24]


def is_lat(cent24, v):
    return tuple(x % 24 for x in v) in cent24


def mden_of(cent24, d):
    for q in (6, 4, 3, 2):
        if all((24 * x) % q == 0 for x in d) and is_lat(cent24, tuple(24 * x // q for x in d)):
            return q
    return 1


def powers(R, N):
    P, out = H.I3, []
    for _ in range(N):
        out.append(P)
        P = H.mat_mul(P, R)
    return out


def rotation_witness(ops, cent24, lats, d, N, k):
    if N == 1:
        return None
    m = mden_of(cent24, d)
    v = next(e for e in ((1, 0, 0), (0, 1, 0), (0, 0, 1)) if cross(d, e) != (0, 0, 0))
    for idx, (R, t) in enumerate(ops):
        if H.det3(R) != 1 or H.order(R) != N or mv(R, d) != tuple(d):
            continue
        if N > 2 and sum(d[i] * cross(v, mv(R, v))[i] for i in range(3)) <= 0:
            continue
        Ps = powers(R, N)
        for l in lats:
            u = tuple(t[i] + l[i] for i in range(3))
            w = (0, 0, 0)
            for P in Ps:
                pu = mv(P, u)
                w = tuple(w[i] + pu[i] for i in range(3))
            if cross(w, d) != (0, 0, 0):
                continue
            if all(d[i] == 0 or (w[i] * m - 24 * k * d[i]) % (N * 24 * d[i]) == 0 for i in range(3)):
                return {'kind': 0, 'n': N, 'k': k, 'glide': 0, 'd': d, 'mden': m, 'op': idx, 'l': l, 'op2': 0, 'l2': (0, 0, 0)}
    return None


def rotoinv_witness(ops, d, N):
    for idx, (R, t) in enumerate(ops):
        if H.det3(R) != -1:
            continue
        M = H.neg(R)
        if (N == 1 and M == H.I3) or (N > 1 and H.order(M) == N and mv(M, d) == tuple(d)):
            return {'kind': 1, 'n': N, 'k': 0, 'glide': 0, 'd': d, 'mden': 1, 'op': idx, 'l': (0, 0, 0), 'op2': 0, 'l2': (0, 0, 0)}
    return None


def glide_class_ok(letter, g, d):
    ax = {(24, 0, 0): 1, (0, 24, 0): 2, (0, 0, 24): 3}.get(g, 0)
    if letter == 'm':
        return g == (0, 0, 0)
    if letter in 'abc':
        return ax == 'abc'.index(letter) + 1
    if letter == 'n':
        want = 2 if sum(1 for x in d if x) == 1 else 3
        return all(x in (0, 24, -24) for x in g) and sum(1 for x in g if x) == want
    if letter == 'd':
        return all(x % 12 == 0 for x in g) and sum(1 for x in g if x % 24 == 12) >= 2
    return False


def mirror_witness(ops, lats, d, letter):
    found_axial = {}
    for idx, (R, t) in enumerate(ops):
        if H.det3(R) != -1:
            continue
        M = H.neg(R)
        if H.order(M) != 2 or mv(M, d) != tuple(d):
            continue
        for l in lats:
            u = tuple(t[i] + l[i] for i in range(3))
            Ru = mv(R, u)
            g = tuple(u[i] + Ru[i] for i in range(3))
            if letter == 'e':
                ax = {(24, 0, 0): 1, (0, 24, 0): 2, (0, 0, 24): 3}.get(g, 0)
                if ax and ax not in found_axial:
                    found_axial[ax] = (idx, l)
                    if len(found_axial) == 2:
                        (i1, l1), (i2, l2) = list(found_axial.values())
                        return {'kind': 2, 'n': 2, 'k': 0, 'glide': 6, 'd': d, 'mden': 1, 'op': i1, 'l': l1, 'op2': i2, 'l2': l2}
            elif glide_class_ok(letter, g, d):
                return {'kind': 2, 'n': 2, 'k': 0, 'glide': GLIDE[letter], 'd': d, 'mden': 1, 'op': idx, 'l': l, 'op2': 0, 'l2': (0, 0, 0)}
    return None


def witnesses_for(tok, D, ops, cent24, lats, all_dirs=False):
    """list of witness elements for one symbol element (first direction of the class that shows it; all of them when all_dirs)"""
    out = []
    for d in D:
        es = []
        if tok[0] == 'rot':
            _, N, k, mir = tok
            if N == 1 and mir is None:
                return [{'kind': 3, 'n': 1, 'k': 0, 'glide': 0, 'd': d, 'mden': 1, 'op': 0, 'l': (0, 0, 0), 'op2': 0, 'l2': (0, 0, 0)}]
            w = rotation_witness(ops, cent24, lats, d, N, k) if N > 1 else None
            if N > 1 and w is None:
                continue
            es = [w] if w else []
            if mir is not None:
                w2 = mirror_witness(ops, lats, d, mir)
                if w2 is None:
                    continue
                es.append(w2)
        elif tok[0] == 'inv':
            w = rotoinv_witness(ops, d, tok[1])
            if w is None:
                continue
            es = [w]
        else:
            w = mirror_witness(ops, lats, d, tok[1])
            if w is None:
                continue
            es = [w]
        out += es
        if not all_dirs:
            break
    return out


def closure_size(ops, elems):
    gens = []
    for e in elems:
        if e['kind'] == 3:
            continue
        gens.append(ops[e['op']][0])
        if e['kind'] == 2 and e['glide'] == 6:
            gens.append(ops[e['op2']][0])
    return len(H.generated(gens))


def v3(v):
    return '(%d, %d, %d)' % tuple(v)


def lean_elem(e):
    return '⟨%d, %d, %d, %d, %s, %d, %d, %s, %d, %s⟩' % (e['kind'], e['n'], e['k'], e['glide'], v3(e['d']), e['mden'], e['op'], v3(e['l']), e['op2'], v3(e['l2']))


def main():
    from xfab import sg
    rows = []
    for key, cls in sg.sgdic.items():
        no = int(cls[2:])
        rr = key[:1] == 'r' and key[-1:] == 'r'
        o = sg.sg(sgno=no, cell_choice='rhombohedral' if rr else 'standard')
        ops = ops24(o)
        ok, why = H.consistent(key, H.ops_of(o), o.crystal_system, rr)
        lat_letter = key[0] if key[:1] in LAT else 'p'
        lat = 0 if (lat_letter == 'r' and rr) else LAT.get(lat_letter, 0)
        cent24 = sorted(set(t for R, t in ops if R == H.I3))
        lats = lattice_vectors(cent24)
        elems = []
        if ok:
            rd = dict(H.LAST_READING)
            for tok, D in zip(rd['tokens'], rd['directions']):
                elems += witnesses_for(tok, D, ops, cent24, lats)
            npg = len(set(R for R, t in ops))
            if closure_size(ops, elems) != npg:
                elems = []
                for tok, D in zip(rd['tokens'], rd['directions']):
                    elems += witnesses_for(tok, D, ops, cent24, lats, all_dirs=True)
        else:
            # no reading fits: a row that cannot be certified (kind 9 is rejected by HM.elemOk) -- the theorem of its chunk fails
            elems = [{'kind': 9, 'n': 0, 'k': 0, 'glide': 0, 'd': (0, 0, 1), 'mden': 1, 'op': 0, 'l': (0, 0, 0), 'op2': 0, 'l2': (0, 0, 0)}]
        rows.append((key, cls, no, rr, lat, elems))
    L = ['/- GENERATED by harness/gen_names.py from xfab/sg.py (sgdic) and xfab/sglib.py — witnesses are untrusted; the theorems are kernel-decided. -/',
         'import XfabVerif.Gen.Sg.All', 'import XfabVerif.Model.HMCert', '', 'namespace Gen.NameCerts', '',
         '/-- one certified key: the exported table of the group it resolves to, that group\'s number and setting, the class name, the reading -/',
         'structure Entry where', '  table : SgTable', '  no : Nat', '  rhomb : Bool', '  cls : String', '  row : HM.Row', '',
         '/-- the witnesses check on the table, the table is the one the exported dictionary sends the key to (number and setting) -/',
         'def entryOk (e : Entry) : Bool :=',
         '  HM.rowOk e.table e.row && e.table.no == e.no && ((e.table.cellChoice == "rhombohedral") == e.rhomb) &&',
         '  (Sg.sgdic.lookup e.row.key == some e.cls) && (e.cls == "Sg" ++ Nat.repr e.no)', '']
    CH = 8
    nchunks = (len(rows) + CH - 1) // CH
    for c in range(nchunks):
        L.append('def chunk%d : List Entry := [' % c)
        part = rows[c * CH:(c + 1) * CH]
        for i, (key, cls, no, rr, lat, elems) in enumerate(part):
            tab = 'Sg.Tables.n%d%s' % (no, 'r' if rr else '')
            L.append('  ⟨%s, %d, %s, "%s", ⟨"%s", %d, [%s]⟩⟩%s' % (tab, no, 'true' if rr else 'false', cls, key, lat,
                                                                  ', '.join(lean_elem(e) for e in elems), ',' if i + 1 < len(part) else ''))
        L.append(']')
        L.append('theorem ok%d : chunk%d.all entryOk = true := by decide +kernel' % (c, c))
        L.append('')
    L.append('def all : List Entry := ' + ' ++ '.join('chunk%d' % c for c in range(nchunks)))
    L.append('')
    L.append('theorem all_ok : all.all entryOk = true := by')
    L.append('  unfold all')
    L.append('  repeat rw [List.all_append]')
    L.append('  rw [%s]' % ', '.join('ok%d' % c for c in range(nchunks)))
    L.append('  rfl')
    L.append('')
    L.append('/-- the certified keys are exactly the keys of the exported dictionary, in its order -/')
    L.append('theorem keys_complete : all.map (fun e => e.row.key) = Sg.sgdic.map (fun p => p.1) := by decide +kernel')
    L.append('')
    L.append('end Gen.NameCerts')
    text = '\n'.join(L) + '\n'
    path = os.path.join(OUT, 'NameCerts.lean')
    changed = not (os.path.exists(path) and open(path).read() == text)
    if changed and not os.environ.get('GEN_DRY'):
        open(path, 'w').write(text)
    nbad = sum(1 for r in rows if r[5] and r[5][0]['kind'] == 9)
    print('gen_names: %d keys read as Hermann-Mauguin symbols, %d without a fitting reading, %d chunks, %s' % (
        len(rows), nbad, nchunks, 'NameCerts.lean changed' if changed else '0 files changed'))


if __name__ == '__main__':
    try:
        main()
    except Exception as e:
        sys.stderr.write('TRANSLATOR-REFUSED: gen_names: %s: %s\n' % (type(e).__name__, e))
        print('TRANSLATOR-REFUSED: gen_names: %s: %s' % (type(e).__name__, e))
        sys.exit(3)
