#!/venv/bin/python
"""
Exporter of the PDB spellings of the 230 space-group symbols (property C17).

  lean/XfabVerif/Gen/PdbSymbols.lean
      `CifPdb.pdbSymbolTable : List (String × String)`   (PDB spelling, sglib class) for the 230 groups
      `CifPdb.pdbSymbolCerts`   the same spellings as character lists, each with two untrusted evaluation certificates
                                (code points of the lower-cased concatenation of all tokens / of the tokens other than '1')
      `CifPdb.sgdicL`, `CifPdb.sgdicN`   `xfab.sg.sgdic` with its keys as character lists / lists of code points
  The copies exist only because the Lean kernel evaluates characters and numbers much faster than strings;
  C17.pdb_symbol_tables proves them equal to `pdbSymbolTable` and to `Sg.sgdic` (exported by gen_tables.py), and
  C17.pdb_symbol checks every certificate in the kernel.

How a PDB spelling is built (CRYST1 columns 56-66 carry the full Hermann-Mauguin symbol: lattice letter and
axis symbols separated by blanks, '1' place-holders for the axes without symmetry; wwPDB format 3.3, CRYST1):

 1. For no = 1..230 take `xfab.sglib.Sg<no>().name` (e.g. 'P21/c', 'P3121', 'Fd-3m') and its `crystal_system`;
    refuse unless `name.lower()` is a key of `xfab.sg.sgdic` mapping to 'Sg<no>'.
 2. Lattice letter = name[0].  The rest is cut into axis symbols.  An axis symbol is
       rotation  : N            N in 1 2 3 4 6
       inversion : -N           N in 1 3 4 6
       screw     : N m          1 <= m < N
       mirror    : one of m a b c d n e
       N/mirror, Nm/mirror      (only as the first axis symbol)
    All cuts of the rest into axis symbols are enumerated and filtered by the crystal system:
       triclinic     1 symbol  ('1' | '-1')
       monoclinic    1 symbol  (2 | 21 | mirror | 2/mirror | 21/mirror)
       orthorhombic  3 symbols, each 2 | 21 | mirror
       tetragonal    1 or 3 symbols; first 4 | 4m | -4 [/mirror]; others 2 | 21 | mirror
       trigonal P    1 or 3 symbols; first 3 | 3m | -3; others from {1, 2, m, c}, exactly one of them '1'
       trigonal R    1 or 2 symbols; first 3 | -3 (no screw); second 2 | m | c
       hexagonal     1 or 3 symbols; first 6 | 6m | -6 [/mirror]; others 2 | m | c
       cubic         2 or 3 symbols; first 2 | 21 | 4 | 4m | -4 | mirror; second 3 | -3; third 2 | m | n | c | d
    Exactly one cut must survive (otherwise the exporter refuses, exit 3).
 3. Spelling = lattice letter, then the axis symbols, separated by single blanks; monoclinic symbols are written
    in the unique-axis-b full form  'L 1 X 1'  (P 1 21 1, C 1 2/c 1).  Trigonal P symbols already contain their
    place-holder (P 3 1 2, P 3 2 1, P 31 2 1, P 3 m 1, P -3 1 m).  Rhombohedral groups are spelled 'R 3', 'R 3 2', ...
    (the PDB's alternative 'H 3' for hexagonal axes is not a key of sgdic and is not part of the table).
 4. Sanity: a hand-written list of well-known PDB spellings (KNOWN below) must be reproduced, and every spelling
    must fit the 11 columns of the CRYST1 field.

Exit status: 0 ok, 3 exporter refused something.
"""
import os, sys, re

REPO = os.environ.get('XFAB_REPO', '/repo')
sys.path.insert(0, REPO)
HERE = os.path.dirname(os.path.abspath(__file__))
OUT = os.path.join(HERE, '..', 'lean', 'XfabVerif', 'Gen', 'PdbSymbols.lean')

MIRROR = 'mabcdne'
KNOWN = {1: 'P 1', 2: 'P -1', 4: 'P 1 21 1', 5: 'C 1 2 1', 14: 'P 1 21/c 1', 15: 'C 1 2/c 1', 18: 'P 21 21 2',
         19: 'P 21 21 21', 20: 'C 2 2 21', 23: 'I 2 2 2', 62: 'P n m a', 92: 'P 41 21 2', 96: 'P 43 21 2', 98: 'I 41 2 2',
         114: 'P -4 21 c', 142: 'I 41/a c d', 143: 'P 3', 144: 'P 31', 146: 'R 3', 149: 'P 3 1 2', 150: 'P 3 2 1',
         151: 'P 31 1 2', 152: 'P 31 2 1', 153: 'P 32 1 2', 154: 'P 32 2 1', 155: 'R 3 2', 156: 'P 3 m 1', 157: 'P 3 1 m',
         162: 'P -3 1 m', 164: 'P -3 m 1', 167: 'R -3 c', 173: 'P 63', 178: 'P 61 2 2', 182: 'P 63 2 2', 194: 'P 63/m m c',
         195: 'P 2 3', 198: 'P 21 3', 199: 'I 21 3', 205: 'P a -3', 209: 'F 4 3 2', 210: 'F 41 3 2', 212: 'P 43 3 2',
         213: 'P 41 3 2', 216: 'F -4 3 m', 225: 'F m -3 m', 227: 'F d -3 m', 230: 'I a -3 d'}


class Refuse(Exception):
    pass


def axis_symbols_at(s, i):
    """all axis symbols that start at position i of s: list of (symbol, next position)"""
    out = []
    n = len(s)
    if i < n and s[i] in MIRROR:
        out.append((s[i], i + 1))
    base = []
    if i < n and s[i] in '12346':
        base.append((s[i], i + 1))
        if i + 1 < n and s[i + 1].isdigit() and 1 <= int(s[i + 1]) < int(s[i]):
            base.append((s[i:i + 2], i + 2))
    if i + 1 < n and s[i] == '-' and s[i + 1] in '1346':
        base.append((s[i:i + 2], i + 2))
    for sym, j in base:
        out.append((sym, j))
        if j + 1 < n and s[j] == '/' and s[j + 1] in MIRROR:
            out.append((sym + s[j:j + 2], j + 2))
    return out


def cuts(s, i=0):
    if i == len(s):
        yield []
        return
    for sym, j in axis_symbols_at(s, i):
        for rest in cuts(s, j):
            yield [sym] + rest


def is_mirror(t):
    return len(t) == 1 and t in MIRROR


def admissible(system, lattice, toks):
    k = len(toks)
    if any('/' in t for t in toks[1:]):
        return False
    first = toks[0].split('/')[0]
    if system == 'triclinic':
        return k == 1 and toks[0] in ('1', '-1')
    if system == 'monoclinic':
        return k == 1 and (first in ('2', '21') or is_mirror(toks[0]))
    if system == 'orthorhombic':
        return k == 3 and all(t in ('2', '21') or is_mirror(t) for t in toks)
    if system == 'tetragonal':
        return k in (1, 3) and first in ('4', '41', '42', '43', '-4') and all(t in ('2', '21') or is_mirror(t) for t in toks[1:])
    if system == 'trigonal' and lattice == 'R':
        return k in (1, 2) and toks[0] in ('3', '-3') and all(t in ('2', 'm', 'c') for t in toks[1:])
    if system == 'trigonal':
        return (k in (1, 3) and toks[0] in ('3', '31', '32', '-3') and all(t in ('1', '2', 'm', 'c') for t in toks[1:])
                and (k == 1 or toks[1:].count('1') == 1))
    if system == 'hexagonal':
        return (k in (1, 3) and first in ('6', '61', '62', '63', '64', '65', '-6')
                and all(t in ('2', 'm', 'c') for t in toks[1:]))
    if system == 'cubic':
        return (k in (2, 3) and (toks[0] in ('2', '21', '4', '41', '42', '43', '-4') or is_mirror(toks[0]))
                and toks[1] in ('3', '-3') and all(t in ('2', 'm', 'n', 'c', 'd') for t in toks[2:]))
    return False


def pdb_spelling(name, system):
    lattice, rest = name[0], name[1:]
    good = [c for c in cuts(rest) if admissible(system, lattice, c)]
    if len(good) != 1:
        raise Refuse('symbol %r (%s): %d admissible cuts into axis symbols: %r' % (name, system, len(good), good))
    toks = good[0]
    if ''.join(toks) != rest:
        raise Refuse('cut of %r does not re-assemble' % name)
    if system == 'monoclinic':
        toks = ['1', toks[0], '1']
    return ' '.join([lattice] + toks)


def pdb_symbols():
    """[(no, PDB spelling, sglib class name)] for no = 1..230"""
    from xfab import sglib, sg
    out = []
    for no in range(1, 231):
        cls = getattr(sglib, 'Sg%d' % no, None)
        if cls is None:
            raise Refuse('sglib has no class Sg%d' % no)
        obj = cls()
        if sg.sgdic.get(obj.name.lower()) != 'Sg%d' % no:
            raise Refuse('sglib name %r of Sg%d is not a key of sgdic for that class' % (obj.name, no))
        sp = pdb_spelling(obj.name, obj.crystal_system)
        if len(sp) > 11:
            raise Refuse('spelling %r does not fit the CRYST1 field' % sp)
        if no in KNOWN and KNOWN[no] != sp:
            raise Refuse('spelling %r of Sg%d differs from the known PDB spelling %r' % (sp, no, KNOWN[no]))
        out.append((no, sp, 'Sg%d' % no))
    return out


def lean_str(s):
    if not all(32 <= ord(c) < 127 and c not in '"\\' for c in s):
        raise Refuse('unexpected character in %r' % s)
    return '"%s"' % s


def lean_chars(s):
    if not all(32 <= ord(c) < 127 and c not in "'\\" for c in s):
        raise Refuse('unexpected character in %r' % s)
    return '[' + ', '.join("'%s'" % c for c in s) + ']'


def main():
    try:
        syms = pdb_symbols()
        from xfab import sg
        txt = '/- GENERATED by harness/gen_pdbsym.py — do not edit. -/\n\n'
        txt += '/-- (PDB spelling of the Hermann-Mauguin symbol, sglib class) for the 230 space groups -/\n'
        txt += 'def CifPdb.pdbSymbolTable : List (String × String) := [\n  '
        txt += ',\n  '.join('(%s, %s)' % (lean_str(sp), lean_str(k)) for _, sp, k in syms) + ']\n\n'
        txt += '/-- the same table with the spellings as character lists and two untrusted certificates per entry, which\n'
        txt += '    C17.pdb_symbol checks in the kernel: the code points of the lower-cased concatenation of all tokens and of the\n'
        txt += '    tokens other than "1" (spelling, full, reduced, class) -/\n'
        txt += 'def CifPdb.pdbSymbolCerts : List (List Char × List Nat × List Nat × String) := [\n  '

        def codes(t):
            return '[' + ', '.join(str(ord(c)) for c in t) + ']'
        txt += ',\n  '.join('(%s, %s, %s, %s)' % (lean_chars(sp), codes(''.join(sp.split()).lower()),
                                                  codes(''.join(t for t in sp.split() if t != '1').lower()), lean_str(k))
                            for _, sp, k in syms) + ']\n\n'
        txt += '/-- `xfab.sg.sgdic` with the keys as character lists (C17.pdb_symbol_tables proves that it is `Sg.sgdic`) -/\n'
        txt += 'def CifPdb.sgdicL : List (List Char × String) := [\n  '
        txt += ',\n  '.join('(%s, %s)' % (lean_chars(k), lean_str(v)) for k, v in sg.sgdic.items()) + ']\n\n'
        txt += '/-- `xfab.sg.sgdic` with the keys as lists of code points (C17.pdb_symbol_tables proves that these are the codes of `sgdicL`) -/\n'
        txt += 'def CifPdb.sgdicN : List (List Nat × String) := [\n  '
        txt += ',\n  '.join('(%s, %s)' % ('[' + ', '.join(str(ord(c)) for c in k) + ']', lean_str(v)) for k, v in sg.sgdic.items()) + ']\n'
    except Refuse as e:
        print('gen_pdbsym REFUSED: %s' % e)
        return 3
    changed = True
    if os.path.exists(OUT) and open(OUT).read() == txt:
        changed = False
    else:
        os.makedirs(os.path.dirname(OUT), exist_ok=True)
        open(OUT, 'w').write(txt)
    print('gen_pdbsym: %d PDB spellings (%s)' % (len(syms), 'rewritten' if changed else 'unchanged'))
    return 0


if __name__ == '__main__':
    sys.exit(main())
