#!/venv/bin/python
"""
Exporter of the point-group tables of xfab/symmetry.py (property C12).

Imports xfab.symmetry from /repo's working tree, calls permutations(s), rotations(s) and reads the cached
ROTATIONS[s] for the seven crystal systems and writes lean/XfabVerif/Gen/Symmetry.lean (core-only Lean data):

  Symm.perm s        : List (Symm.Mat Int)       permutations(s) verbatim (refused unless every entry is an integer)
  Symm.rot s         : List (Symm.Mat Symm.Z3)   rotations(s), every entry recognised as (a + b*sqrt3)/den,
  Symm.rotDen s      : Int                        stored scaled by the table's common denominator den (1, 2 or 4)
  Symm.cached s, Symm.cachedDen s                 the same for the module constant ROTATIONS[s]

rotations(5), rotations(6) are computed by the source in floating point (B.perm^-1.B^-1): an entry is accepted
when it lies within 1e-12 of exactly one candidate p + q*sqrt3 with p, q in {k/4 : |k| <= 8}.  The exporter does NOT
compare ROTATIONS with rotations(): both are emitted and the Lean theorem `rotations_cached` decides.

Exit status: 0 ok, 3 exporter refused something (`TRANSLATOR-REFUSED: ...` on stderr).
"""
import os, sys, math
from fractions import Fraction

REPO = os.environ.get('XFAB_REPO', '/repo')
sys.path.insert(0, REPO)
HERE = os.path.dirname(os.path.abspath(__file__))
OUT = os.path.join(HERE, '..', 'lean', 'XfabVerif', 'Gen', 'Symmetry.lean')
TOL = 1e-12
SQRT3 = math.sqrt(3.0)
CAND = [(Fraction(k, 4), Fraction(m, 4)) for k in range(-8, 9) for m in range(-8, 9)]
CANDF = [(float(p) + float(q) * SQRT3, p, q) for p, q in CAND]
NAMES = {1: 'triclinic', 2: 'monoclinic', 3: 'orthorhombic', 4: 'tetragonal', 5: 'trigonal', 6: 'hexagonal', 7: 'cubic'}


class Refuse(Exception):
    pass


def write_if_changed(path, text):
    if os.path.exists(path) and open(path).read() == text:
        return False
    os.makedirs(os.path.dirname(path), exist_ok=True)
    open(path, 'w').write(text)
    return True


def recognise(x, what):
    """float -> (p, q) with x = p + q*sqrt3 up to TOL; refuses when no or several candidates match"""
    x = float(x)
    if not math.isfinite(x):
        raise Refuse('%s: entry %r is not finite' % (what, x))
    hits = [(p, q) for v, p, q in CANDF if abs(v - x) <= TOL]
    if len(hits) != 1:
        raise Refuse('%s: entry %r is not within 1e-12 of exactly one p + q*sqrt3 (candidates: %r)' % (what, x, hits))
    return hits[0]


def as_stack(arr, what):
    import numpy as np
    a = np.asarray(arr)
    if a.ndim != 3 or a.shape[1:] != (3, 3) or a.shape[0] < 1:
        raise Refuse('%s: expected an array of shape (n,3,3), got %r' % (what, a.shape))
    if a.dtype.kind not in 'fiu':
        raise Refuse('%s: unexpected dtype %r' % (what, a.dtype))
    return a


def int_table(arr, what):
    a = as_stack(arr, what)
    out = []
    for k in range(a.shape[0]):
        m = []
        for x in a[k].ravel():
            if not math.isfinite(float(x)) or int(x) != x:
                raise Refuse('%s[%d]: entry %r is not an integer' % (what, k, x))
            m.append(int(x))
        out.append(m)
    return out


def z3_table(arr, what):
    """-> (den, [[(a, b) * 9]])  entries (a + b*sqrt3)/den"""
    a = as_stack(arr, what)
    mats = [[recognise(x, '%s[%d]' % (what, k)) for x in a[k].ravel()] for k in range(a.shape[0])]
    den = 1
    for m in mats:
        for p, q in m:
            den = max(den, p.denominator, q.denominator)
    out = []
    for m in mats:
        row = []
        for p, q in m:
            pa, qa = p * den, q * den
            if pa.denominator != 1 or qa.denominator != 1:
                raise Refuse('%s: no common denominator' % what)
            row.append((int(pa), int(qa)))
        out.append(row)
    return den, out


def li(x):
    return str(x) if x >= 0 else '(%d)' % x


def emit_int_mat(m):
    return '⟨' + ', '.join(li(x) for x in m) + '⟩'


def emit_z3_mat(m):
    return '⟨' + ', '.join('⟨%s, %s⟩' % (li(a), li(b)) for a, b in m) + '⟩'


def emit_fn(name, ty, default, rows):
    s = 'def %s : Nat → %s\n' % (name, ty)
    for k, v in rows:
        s += '  | %d => %s\n' % (k, v)
    s += '  | _ => %s\n\n' % default
    return s


def main():
    from xfab import symmetry
    cached = getattr(symmetry, 'ROTATIONS', None)
    if not isinstance(cached, (list, tuple)) or len(cached) != 8:
        raise Refuse('symmetry.ROTATIONS is not a list of length 8')
    perm, rot, rden, cac, cden = [], [], [], [], []
    for s in range(1, 8):
        P = int_table(symmetry.permutations(s), 'permutations(%d)' % s)
        d, R = z3_table(symmetry.rotations(s), 'rotations(%d)' % s)
        dc, C = z3_table(cached[s], 'ROTATIONS[%d]' % s)
        perm.append((s, '[\n      ' + ',\n      '.join(emit_int_mat(m) for m in P) + ']'))
        rot.append((s, '[\n      ' + ',\n      '.join(emit_z3_mat(m) for m in R) + ']'))
        cac.append((s, '[\n      ' + ',\n      '.join(emit_z3_mat(m) for m in C) + ']'))
        rden.append((s, str(d)))
        cden.append((s, str(dc)))
    t = '/- GENERATED by harness/gen_symmetry.py from xfab/symmetry.py — do not edit. -/\n'
    t += 'import XfabVerif.Model.Symm\n\n'
    t += '/-! crystal systems: ' + ', '.join('%d %s' % kv for kv in sorted(NAMES.items())) + '.\n'
    t += '    A `Symm.Z3` entry `⟨a, b⟩` of `Symm.rot s` / `Symm.cached s` stands for `(a + b·√3) / den` with\n'
    t += '    `den = Symm.rotDen s` / `Symm.cachedDen s`. -/\n\n'
    t += '/-- `xfab.symmetry.permutations(s)` -/\n' + emit_fn('Symm.perm', 'List (Symm.Mat Int)', '[]', perm)
    t += '/-- `xfab.symmetry.rotations(s)`, scaled by `Symm.rotDen s` -/\n' + emit_fn('Symm.rot', 'List (Symm.Mat Symm.Z3)', '[]', rot)
    t += emit_fn('Symm.rotDen', 'Int', '1', rden)
    t += '/-- the module constant `xfab.symmetry.ROTATIONS[s]`, scaled by `Symm.cachedDen s` -/\n'
    t += emit_fn('Symm.cached', 'List (Symm.Mat Symm.Z3)', '[]', cac)
    t += emit_fn('Symm.cachedDen', 'Int', '1', cden)
    ch = write_if_changed(OUT, t)
    print('gen_symmetry: 7 crystal systems, %d permutation and %d rotation matrices, %d files changed' % (
        sum(v.count('⟨') for _, v in perm), sum(v.count('⟩⟩') for _, v in rot), int(ch)))


if __name__ == '__main__':
    try:
        main()
    except Refuse as e:
        sys.stderr.write('TRANSLATOR-REFUSED: %s\n' % e)
        sys.exit(3)
