#!/venv/bin/python
"""
T5.1 exporter (property C05): for each of the space-group settings of xfab/sglib.py, a Lean proof that the
reflection-condition table (`sysabs` with the setting's `syscond`) agrees with the setting's own symmetry operations on
every hkl of the cones that `genhkl_base` traverses for its Laue class / cell choice -- for ALL integers, no box.

Reads the live tables by importing xfab from /repo (as gen_tables.py does) and the `segm` literals of `genhkl_base`
from the AST of xfab/tools.py and xfab/laue.py (as gen_hkl.py does).  Writes, only if changed:

  lean/XfabVerif/Gen/T51/Segs.lean   per segment rule: the segments, the cones as linear inequalities, `InCones -> Cone`
  lean/XfabVerif/Gen/T51/G<k>.lean   k = 0..15 (chunking of gen_tables: tables_meta.json["chunks"]); per setting `K`
                                     `theorem T51.ok_K` (the obligation) + `private` helper lemmas
  lean/XfabVerif/Gen/T51/All.lean    imports, `T51.all_ok : forall kt in Sg.allTables, T51.Holds kt.2`
  lean/XfabVerif/Gen/t51_meta.json   per setting: rule, branch, number of conditions / lemmas; "partial": settings whose
                                     statement fails on the sampled cone points (with witness hkl)

Structure of a per-setting proof (everything here is UNTRUSTED search; Lean checks the result for all hkl):
  (i)   normal form: `sysabs h k l .. = 0  <->  not NF_K h k l`; `NF_K` is the disjunction of the active conditions of the
        concrete `syscond` on the index triples that the branch of `sysabs` looks at (proved from `sysabs_zero_iff`,
        `sysabs_cascade` by `simp` with the concrete list);
  (ii)  extinct -> absent: one lemma per operation of the table; the generator chooses the disjuncts of `NF_K` that cover
        the reflections extinguished by the operation (found on sample points), `omega` proves it for all hkl;
  (iii) absent -> extinct: one lemma per disjunct of `NF_K` with certificate operations (indices into the table) chosen
        on the sample points; `omega` proves that one of them extinguishes every hkl of the disjunct in the cones.

A setting whose statement is false on the sample points (a defect of the library's table) gets no `ok_` theorem: the
directions that do hold on the samples are emitted as `T51.ok_K_partial_*` and the setting is listed under "partial"
with the witness.  Never a `sorry`.

Exit status: 0 ok, 3 refused (`TRANSLATOR-REFUSED`): the generator's picture of `sysabs_unique` / `sysabs` no longer matches
the implementation, tools.py and laue.py differ, a segment rule is missing, ...
"""
import os, sys, json

REPO = os.environ.get('XFAB_REPO', '/repo')
HERE = os.path.dirname(os.path.abspath(__file__))
sys.path.insert(0, HERE)
sys.path.insert(0, REPO)
OUT = os.path.join(HERE, '..', 'lean', 'XfabVerif', 'Gen')

import numpy as np
import gen_tables
import gen_hkl

NCHUNK = gen_tables.NCHUNK
BOX = 12          # sample box for the choice of certificates (all periods of the conditions divide 24)
BOX_IMPL = 5      # smaller box on which the generator's picture of `sysabs` is compared with the implementation


class Refuse(Exception):
    pass


def write_if_changed(path, text):
    if os.path.exists(path) and open(path).read() == text:
        return False
    os.makedirs(os.path.dirname(path), exist_ok=True)
    open(path, 'w').write(text)
    return True


# ------------------------------------------------------------------------------------------------
# the generator's picture of sysabs_unique: slot -> (guards, x) as coefficient vectors over (a, b, c); checked by Lean
# against `C05.absentSpec` (lemma nfu_K) and here against the implementation on a box.

SLOTS = {
    0: ([], (1, 1, 0)), 1: ([], (1, 0, 1)), 2: ([], (0, 1, 1)),
    4: ([], (1, 1, 1)), 5: ([], (-1, 1, 1)),
    6: ([(1, -1, 0)], (1, 0, 0)), 7: ([(1, -1, 0)], (0, 0, 1)), 8: ([(1, -1, 0)], (1, 0, 1)), 9: ([(1, -1, 0)], (2, 0, 1)),
    10: ([(1, 0, 0)], (0, 1, 0)), 11: ([(1, 0, 0)], (0, 0, 1)), 12: ([(1, 0, 0)], (0, 1, 1)),
    13: ([(0, 1, 0)], (1, 0, 0)), 14: ([(0, 1, 0)], (0, 0, 1)), 15: ([(0, 1, 0)], (1, 0, 1)),
    16: ([(0, 0, 1)], (1, 0, 0)), 17: ([(0, 0, 1)], (0, 1, 0)), 18: ([(0, 0, 1)], (1, 1, 0)),
    19: ([(0, 0, 1), (1, -1, 0)], (1, 0, 0)),
    20: ([(0, 1, 0), (0, 0, 1)], (1, 0, 0)), 21: ([(1, 0, 0), (0, 0, 1)], (0, 1, 0)), 22: ([(1, 0, 0), (0, 1, 0)], (0, 0, 1)),
    23: ([(1, 1, 0)], (1, 0, 0)), 24: ([(1, 1, 0)], (0, 0, 1)), 25: ([(1, 1, 0)], (1, 0, 1)),
}
GUARD_TXT = {(1, -1, 0): '{A} - {B} = 0', (1, 0, 0): '{A} = 0', (0, 1, 0): '{B} = 0', (0, 0, 1): '{C} = 0',
             (1, 1, 0): '{A} + {B} = 0'}
X_TXT = {(1, 1, 0): '{A} + {B}', (1, 0, 1): '{A} + {C}', (0, 1, 1): '{B} + {C}', (1, 1, 1): '{A} + {B} + {C}',
         (-1, 1, 1): '-{A} + {B} + {C}', (1, 0, 0): '{A}', (0, 1, 0): '{B}', (0, 0, 1): '{C}', (2, 0, 1): '{A} + {A} + {C}'}

# index triples looked at by `sysabs`: names for the text, matrices (rows = a, b, c in terms of h, k, l) for evaluation
BRANCH = {
    'plain': [(('h', 'k', 'l'), ((1, 0, 0), (0, 1, 0), (0, 0, 1)))],
    'cyc': [(('h', 'k', 'l'), ((1, 0, 0), (0, 1, 0), (0, 0, 1))),
            (('k', 'l', 'h'), ((0, 1, 0), (0, 0, 1), (1, 0, 0))),
            (('l', 'h', 'k'), ((0, 0, 1), (1, 0, 0), (0, 1, 0)))],
    'hex': [(('h', 'k', 'l'), ((1, 0, 0), (0, 1, 0), (0, 0, 1))),
            (('(-(h + k))', 'h', 'l'), ((-1, -1, 0), (1, 0, 0), (0, 0, 1))),
            (('k', '(-(h + k))', 'l'), ((0, 1, 0), (-1, -1, 0), (0, 0, 1)))],
}
BRANCH_LEMMA = {'plain': 'T51.sysabs_zero_plain', 'cyc': 'T51.sysabs_zero_cyc', 'hex': 'T51.sysabs_zero_hex'}


def branch_of(cs, cc):
    if cc == 'rhombohedral' or cs == 'cubic':
        return 'cyc'
    if cs in ('trigonal', 'hexagonal'):
        return 'hex'
    return 'plain'


def unique_disjuncts(sc):
    """[(guards, x, m)] in the order of `C05.absentSpec`"""
    if len(sc) != 26:
        raise Refuse('syscond has %d entries' % len(sc))
    for v in sc:
        if v < 0:
            raise Refuse('negative entry in syscond')
    out = []
    if sc[3] != 0:
        # slot 3 active: the whole first group of `absentSpec` is `¬ reset3` (slots 0-2 no longer matter)
        out.append(('r3', None, sc[3]))
    else:
        out += [([], SLOTS[i][1], sc[i]) for i in (0, 1, 2) if sc[i] != 0]
    for i in range(4, 26):
        if sc[i] != 0:
            g, x = SLOTS[i]
            out.append((list(g), x, sc[i]))
    return out


def disj_text(d, names):
    A, B, C = names
    g, x, m = d
    if g == 'r3':
        return '¬((%s) %% %d = 0 ∧ (%s) %% %d = 0 ∧ (%s) %% %d = 0)' % (
            X_TXT[(1, 1, 0)].format(A=A, B=B, C=C), m, X_TXT[(1, 0, 1)].format(A=A, B=B, C=C), m, X_TXT[(0, 1, 1)].format(A=A, B=B, C=C), m)
    parts = [GUARD_TXT[t].format(A=A, B=B, C=C) for t in g]
    parts.append('(%s) %% %d ≠ 0' % (X_TXT[x].format(A=A, B=B, C=C), m))
    return ' ∧ '.join(parts)


def disj_eval(d, T, P):
    """truth of the disjunct on the sample points P (n x 3) for the triple with matrix T"""
    g, x, m = d
    abc = P @ np.array(T).T
    if g == 'r3':
        return ~(((abc @ np.array((1, 1, 0))) % m == 0) & ((abc @ np.array((1, 0, 1))) % m == 0) & ((abc @ np.array((0, 1, 1))) % m == 0))
    ok = (abc @ np.array(x)) % m != 0
    for t in g:
        ok &= (abc @ np.array(t)) == 0
    return ok


# ------------------------------------------------------------------------------------------------
# segments

def det3(m):
    return (m[0][0] * (m[1][1] * m[2][2] - m[1][2] * m[2][1]) - m[0][1] * (m[1][0] * m[2][2] - m[1][2] * m[2][0])
            + m[0][2] * (m[1][0] * m[2][1] - m[1][1] * m[2][0]))


def inv_unimodular(D):
    d = det3(D)
    if d not in (1, -1):
        raise Refuse('direction matrix not unimodular')
    c = [[0] * 3 for _ in range(3)]
    for i in range(3):
        for j in range(3):
            mi = [[D[a][b] for b in range(3) if b != i] for a in range(3) if a != j]
            c[i][j] = (-1) ** (i + j) * (mi[0][0] * mi[1][1] - mi[0][1] * mi[1][0]) * d
    return c


def lin_text(coefs, const):
    """text of c0 + c1 h + c2 k + c3 l"""
    t = ''
    for c, v in zip(coefs, 'hkl'):
        if c == 0:
            continue
        mag = v if abs(c) == 1 else '%d * %s' % (abs(c), v)
        if not t:
            t = mag if c > 0 else '-' + mag
        else:
            t += (' + ' if c > 0 else ' - ') + mag
    if const != 0 or not t:
        if not t:
            t = str(const) if const >= 0 else '(%d)' % const
        else:
            t += (' + %d' % const) if const > 0 else (' - %d' % -const)
    return t


def seg_ineqs(seg):
    """n_j = sum_i (p_i - s_i) Dinv[i][j] >= 0 -> [(coefs, const)]"""
    s, d1, d2, d3 = seg
    Dinv = inv_unimodular([d1, d2, d3])
    out = []
    for j in range(3):
        coefs = [Dinv[i][j] for i in range(3)]
        const = -sum(s[i] * Dinv[i][j] for i in range(3))
        out.append((coefs, const))
    return out


def rule_matches(laue, cc, L, C):
    if L != laue:
        return False
    if cc is None:
        return True
    return (C == cc[1]) if cc[0] else (C != cc[1])


def rule_for(rules, L, C):
    r = None
    for i, (laue, cc, segs) in enumerate(rules):
        if rule_matches(laue, cc, L, C):
            r = i
    return r


def lean_vec(v):
    return '(%s, %s, %s)' % tuple(gen_hkl.lean_int(x) for x in v)


def emit_segs(rules, used):
    t = '/- GENERATED by harness/gen_t51.py from the `segm` literals of genhkl_base (xfab/tools.py, xfab/laue.py) — do not edit. -/\n'
    t += 'import XfabVerif.Lemmas.T51\n\nset_option linter.unusedVariables false\nset_option linter.style.longLine false\nset_option linter.unusedSimpArgs false\n\n'
    for r in sorted(used):
        laue, cc, segs = rules[r]
        ccs = '' if cc is None else ', cell_choice %s %s' % ('==' if cc[0] else '!=', cc[1])
        t += '/-- rule %d of `Tools.segmRules`: Laue class %s%s -/\n' % (r, laue, ccs)
        t += 'abbrev T51.segs_r%d : List Hkl.Segment := [\n  ' % r
        t += ',\n  '.join('⟨' + ', '.join(lean_vec(v) for v in seg) + '⟩' for seg in segs) + ']\n\n'
        conj = []
        for seg in segs:
            conj.append('(' + ' ∧ '.join('0 ≤ ' + lin_text(c, k) for c, k in seg_ineqs(seg)) + ')')
        t += '/-- the cones of `T51.segs_r%d` as linear inequalities (each direction matrix is unimodular) -/\n' % r
        t += 'def T51.Cone_r%d (h k l : Int) : Prop :=\n  %s\n\n' % (r, ' ∨\n  '.join(conj))
        t += 'lemma T51.cone_r%d (h k l : Int) (hc : Hkl.InCones T51.segs_r%d h k l) : T51.Cone_r%d h k l := by\n' % (r, r, r)
        t += '  obtain ⟨sg, hm, n1, n2, n3, e1, e2, e3⟩ := hc\n'
        t += '  simp only [T51.segs_r%d, List.mem_cons, List.not_mem_nil, or_false] at hm\n' % r
        t += '  rcases hm with %s\n' % ' | '.join(['rfl'] * len(segs))
        t += '  all_goals (dsimp only at e1 e2 e3; unfold T51.Cone_r%d; omega)\n\n' % r
        t += 'lemma T51.cone_conv_r%d (h k l : Int) (c : T51.Cone_r%d h k l) : Hkl.InCones T51.segs_r%d h k l := by\n' % (r, r, r)
        t += '  unfold T51.Cone_r%d at c\n' % r
        if len(segs) > 1:
            t += '  rcases c with %s\n' % ' | '.join(['⟨c1, c2, c3⟩'] * len(segs))
        else:
            t += '  obtain ⟨c1, c2, c3⟩ := c\n'
        for i, seg in enumerate(segs):
            iq = seg_ineqs(seg)
            t += '  · refine ⟨T51.segs_r%d[%d], by simp [T51.segs_r%d], (%s).toNat, (%s).toNat, (%s).toNat, ?_, ?_, ?_⟩ <;>\n' % (
                r, i, r, lin_text(*iq[0]), lin_text(*iq[1]), lin_text(*iq[2]))
            t += '      simp only [T51.segs_r%d, List.getElem_cons_succ, List.getElem_cons_zero] <;> omega\n' % r
        t += '\n'
    return t


# ------------------------------------------------------------------------------------------------
# samples

def box_points(B):
    r = np.arange(-B, B + 1)
    return np.array(np.meshgrid(r, r, r, indexing='ij')).reshape(3, -1).T


def in_cones(P, segs):
    ok = np.zeros(len(P), dtype=bool)
    for seg in segs:
        m = np.ones(len(P), dtype=bool)
        for coefs, const in seg_ineqs(seg):
            m &= (P @ np.array(coefs) + const) >= 0
        ok |= m
    return ok


def ext_by(op, P):
    R, t = op
    R = np.array(R)
    return np.all(P @ R == P, axis=1) & ((P @ np.array(t)) % 24 != 0)


def greedy_cover(target, cands):
    """indices of candidate masks covering `target` (greedy); None if impossible"""
    rest = target.copy()
    chosen = []
    while rest.any():
        best, bn = None, 0
        for i, m in enumerate(cands):
            n = int((m & rest).sum())
            if n > bn:
                best, bn = i, n
        if best is None:
            return None
        chosen.append(best)
        rest &= ~cands[best]
    return chosen


def _forms():
    out = []
    rng = (0, 1, -1, 2, -2)
    for a in rng:
        for b in rng:
            for c in rng:
                v = (a, b, c)
                nz = [x for x in v if x != 0]
                if not nz or nz[0] < 0 or np.gcd.reduce([abs(x) for x in nz]) != 1:
                    continue
                out.append(v)
    out.sort(key=lambda v: (sum(abs(x) for x in v), sum(1 for x in v if x), v))
    return out


FORMS = _forms()


def rank(rows):
    if len(rows) == 0:
        return 0
    return int(np.linalg.matrix_rank(np.array(rows, dtype=float)))


def implied_eqs(F, base_forms):
    """omega (no dark / grey shadows) is weak on equalities that only follow from the cone inequalities.  F = the sample
       points of the cones on which the linear part of a lemma's hypotheses holds; base_forms = the linear forms those
       hypotheses state as equalities.  When the cones cut the solution space down further, return independent linear forms
       vanishing on F; the lemma first proves each `form = 0` by a purely linear `omega` call."""
    rF = rank(F)
    if rF >= 3 - rank(base_forms):
        return []
    chosen = []
    for v in FORMS:
        if len(chosen) == 3 - rF:
            break
        if not (F @ np.array(v)).any() and rank(chosen + [v]) == len(chosen) + 1:
            chosen.append(v)
    return chosen


def emit_eqs(forms):
    return ''.join('  have q%d : %s = 0 := by omega\n' % (n, lin_text(v, 0)) for n, v in enumerate(forms))


# ------------------------------------------------------------------------------------------------
# per-setting emission

def op_lit(op):
    R, t = op
    return '⟨' + ', '.join(str(x) for row in R for x in row) + ', ' + ', '.join(str(x) for x in t) + '⟩'


def inj_term(pos, n, inner):
    """term of type D0 ∨ D1 ∨ ... ∨ D(n-1) from `inner : D pos`"""
    if n == 1:
        return inner
    if pos == n - 1:
        s = inner
        for _ in range(n - 1):
            s = 'Or.inr (%s)' % s
        return s
    s = 'Or.inl (%s)' % inner
    for _ in range(pos):
        s = 'Or.inr (%s)' % s
    return s


def build_setting(key, o, rules, Pbox, Pimpl, tools):
    sc = [int(x) for x in o.syscond]
    cs, cc, laue = o.crystal_system, o.cell_choice, o.Laue
    r = rule_for(rules, laue, cc)
    if r is None:
        raise Refuse('%s: no segment rule for Laue class %r / cell choice %r' % (key, laue, cc))
    segs = rules[r][2]
    br = branch_of(cs, cc)
    triples = BRANCH[br]
    ud = unique_disjuncts(sc)
    ops = [gen_tables.op_of(R, t) for R, t in zip(o.rot, o.trans)]
    # --- the generator's picture of sysabs against the implementation (small box, cone or not)
    model = np.zeros(len(Pimpl), dtype=bool)
    for names, T in triples:
        for d in ud:
            model |= disj_eval(d, T, Pimpl)
    for p, mv in zip(Pimpl, model):
        iv = tools.sysabs([int(p[0]), int(p[1]), int(p[2])], o.syscond, cs, cc) != 0
        if bool(mv) != bool(iv):
            raise Refuse('%s: the generator\'s picture of sysabs differs from xfab.tools.sysabs at hkl=%s' % (key, p.tolist()))
    # --- samples in the cones
    P = Pbox[in_cones(Pbox, segs)]
    dmask = [[disj_eval(d, T, P) for d in ud] for names, T in triples]
    omask = [ext_by(op, P) for op in ops]
    absent = np.zeros(len(P), dtype=bool)
    for row in dmask:
        for m in row:
            absent |= m
    extinct = np.zeros(len(P), dtype=bool)
    for m in omask:
        extinct |= m
    bad_ea = extinct & ~absent      # extinct by an operation, allowed by the table
    bad_ae = absent & ~extinct      # absent by the table, no operation extinguishes it
    info = {'rule': r, 'branch': br, 'nops': len(ops), 'nconditions': len(ud), 'ndisjuncts': len(ud) * len(triples)}
    partial = None
    if bad_ea.any() or bad_ae.any():
        def witnesses(mask):
            w = [P[i].tolist() for i in np.nonzero(mask)[0]]
            w.sort(key=lambda v: (sum(x * x for x in v), v))
            return w[:5]
        partial = {'reason': 'sysabs and the operations disagree on sampled cone points (|h|,|k|,|l| <= %d)' % BOX,
                   'extinct_but_allowed': witnesses(bad_ea), 'absent_but_not_extinct': witnesses(bad_ae)}
    K = key
    T = 'Sg.Tables.%s' % K
    cone = 'T51.Cone_r%d' % r
    nd = len(ud)
    nt = len(triples)
    s = '/-! ### %s  (%s, no. %d, %s, Laue %s, cell choice %s): %d operations, %d active conditions × %d index triples -/\n\n' % (
        K, o.name, o.no, cs, laue, cc, len(ops), nd, nt)
    # normal form
    s += '/-- the active conditions of `%s.syscond` on one index triple -/\n' % T
    s += 'def T51.NFu_%s (a b c : Int) : Prop :=\n  %s\n\n' % (K, ' ∨\n  '.join('(%s)' % disj_text(d, ('a', 'b', 'c')) for d in ud) if ud else 'False')
    s += 'private theorem T51.nfu_%s (a b c : Int) : Tools.sysabs_unique a b c %s.syscond = 0 ↔ ¬ T51.NFu_%s a b c := by\n' % (K, T, K)
    s += '  rw [T51.unique_zero_iff]\n  apply not_congr\n'
    s += '  simp [C05.absentSpec, C05.fires, C05.reset3, %s, T51.NFu_%s, T51.natAbs_emod_eq_zero, T51.natAbs_add_natAbs_eq_zero, and_assoc]\n' % (T, K)
    s += '\n'
    s += '/-- the conditions on all index triples that `sysabs` looks at for this setting -/\n'
    s += 'def T51.NF_%s (h k l : Int) : Prop :=\n  %s\n\n' % (K, ' ∨ '.join('T51.NFu_%s %s' % (K, ' '.join(n)) for n, _ in triples))
    s += 'private theorem T51.nf_%s (h k l : Int) :\n    Tools.sysabs h k l %s.syscond %s.crystalSystem %s.cellChoice = 0 ↔ ¬ T51.NF_%s h k l := by\n' % (K, T, T, T, K)
    s += '  rw [%s h k l _ _ _ (by decide)]\n  simp only [T51.nfu_%s]\n' % (BRANCH_LEMMA[br], K)
    s += '  exact %s\n\n' % ('Iff.rfl' if nt == 1 else 'T51.not3')
    want_ea = not bad_ea.any()
    want_ae = not bad_ae.any()
    nlem = 0
    # (ii) extinct -> absent, one lemma per operation
    if want_ea:
        flat = [(j, i) for j in range(nt) for i in range(nd)]
        for n, (op, m) in enumerate(zip(ops, omask)):
            s += 'private theorem T51.op_%s_%d (h k l : Int) (c : %s h k l) (e : Sg.ExtinctBy %s h k l) : T51.NF_%s h k l := by\n' % (
                K, n, cone, op_lit(op), K)
            nlem += 1
            if op[1] == (0, 0, 0):
                s += '  exact absurd e (Sg.not_extinctBy_of_t0 _ h k l rfl rfl rfl)\n\n'
                continue
            s += '  simp only [Sg.ExtinctBy, %s] at e c\n' % cone
            Rm = np.array(op[0])
            s += emit_eqs(implied_eqs(P[np.all(P @ Rm == P, axis=1)], [tuple(col) for col in (Rm - np.eye(3, dtype=int)).T if any(col)]))
            if not m.any():
                s += '  exfalso; omega\n\n'
                continue
            cov = greedy_cover(m, [dmask[j][i] for j, i in flat])
            sel = [flat[x] for x in cov]
            texts = ['(%s)' % disj_text(ud[i], triples[j][0]) for j, i in sel]
            s += '  have d : %s := by omega\n' % ' ∨ '.join(texts)
            if len(sel) > 1:
                s += '  rcases d with %s\n' % ' | '.join(['d'] * len(sel))
            terms = [inj_term(j, nt, inj_term(i, nd, 'd')) for j, i in sel]
            s += '  exacts [%s]\n\n' % ', '.join(terms)
        s += 'private theorem T51.opsEq_%s : Sg.opsOf %s = [\n    %s] := by rfl\n\n' % (K, T, ',\n    '.join(op_lit(op) for op in ops))
        s += 'private theorem T51.ext_%s (h k l : Int) (c : %s h k l) :\n    ∀ a ∈ Sg.opsOf %s, Sg.ExtinctBy a h k l → T51.NF_%s h k l := by\n' % (K, cone, T, K)
        s += '  rw [T51.opsEq_%s]\n' % K
        for n in range(len(ops)):
            s += '  refine List.forall_mem_cons.2 ⟨T51.op_%s_%d h k l c, ?_⟩\n' % (K, n)
        s += '  exact fun _ hx => absurd hx List.not_mem_nil\n\n'
    # (iii) absent -> extinct, one lemma per disjunct and triple
    if want_ae:
        for j, (names, Tm) in enumerate(triples):
            for i, d in enumerate(ud):
                s += 'private theorem T51.abs_%s_%d_%d (h k l : Int) (c : %s h k l) (d : %s) :\n    Sg.Extinct (Sg.opsOf %s) h k l := by\n' % (
                    K, j, i, cone, disj_text(d, names), T)
                nlem += 1
                s += '  simp only [%s] at c\n' % cone
                m = dmask[j][i]
                gforms = [] if d[0] == 'r3' else [tuple(int(x) for x in np.array(g) @ np.array(Tm)) for g in d[0]]
                Fm = np.ones(len(P), dtype=bool)
                for g in gforms:
                    Fm &= (P @ np.array(g)) == 0
                s += emit_eqs(implied_eqs(P[Fm], gforms))
                if not m.any():
                    s += '  exfalso; omega\n\n'
                    continue
                cov = greedy_cover(m, omask)
                s += '  have e : %s := by\n    simp only [Sg.ExtinctBy]; omega\n' % ' ∨ '.join('Sg.ExtinctBy %s h k l' % op_lit(ops[x]) for x in cov)
                if len(cov) > 1:
                    s += '  rcases e with %s\n' % ' | '.join(['e'] * len(cov))
                s += '  exacts [%s]\n\n' % ', '.join('Sg.extinct_of_getElem? %d rfl e' % x for x in cov)
        s += 'private theorem T51.abs_%s (h k l : Int) (c : %s h k l) (n : T51.NF_%s h k l) : Sg.Extinct (Sg.opsOf %s) h k l := by\n' % (K, cone, K, T)
        if nd == 0:
            s += '  unfold T51.NF_%s T51.NFu_%s at n\n  simp only [or_self] at n\n\n' % (K, K)
        else:
            if nt > 1:
                s += '  rcases n with %s\n' % ' | '.join(['n'] * nt)
            for j in range(nt):
                s += '  · '
                if nd > 1:
                    s += 'rcases n with %s\n    ' % ' | '.join(['d'] * nd)
                    s += 'exacts [%s]\n' % ', '.join('T51.abs_%s_%d_%d h k l c d' % (K, j, i) for i in range(nd))
                else:
                    s += 'exact T51.abs_%s_%d_0 h k l c n\n' % (K, j)
            s += '\n'
    stmt_head = '∀ h k l : Int, Hkl.InCones T51.segs_r%d h k l →\n    ' % r
    lhs = 'Tools.sysabs h k l %s.syscond %s.crystalSystem %s.cellChoice = 0' % (T, T, T)
    rhs = 'Sg.Extinct (Sg.opsOf %s) h k l' % T
    if partial is None:
        s += '/-- C05 / T5.1 for %s (%s): on the traversed cones the reflection-condition table agrees with the operators, for all hkl -/\n' % (K, o.name)
        s += 'theorem T51.ok_%s : %s(%s ↔ ¬ %s) := by\n' % (K, stmt_head, lhs, rhs)
        s += '  intro h k l hc\n  have c := T51.cone_r%d h k l hc\n  rw [T51.nf_%s]\n' % (r, K)
        s += '  exact not_congr ⟨T51.abs_%s h k l c, fun ⟨a, ha, e⟩ => T51.ext_%s h k l c a ha e⟩\n\n' % (K, K)
        s += 'lemma T51.holds_%s : T51.Holds %s := T51.holds_of rfl T51.ok_%s\n\n' % (K, T, K)
    else:
        if want_ea:
            s += '/-- C05 / T5.1 for %s (%s), PARTIAL: only "allowed by the table → not extinguished by any operation"; the converse is FALSE\n' % (K, o.name)
            s += '    at hkl = %s (absent by the table, no operation extinguishes it) -/\n' % partial['absent_but_not_extinct'][0]
            s += 'theorem T51.ok_%s_partial_sound : %s(%s → ¬ %s) := by\n' % (K, stmt_head, lhs, rhs)
            s += '  intro h k l hc\n  have c := T51.cone_r%d h k l hc\n  rw [T51.nf_%s]\n' % (r, K)
            s += '  exact fun hn ⟨a, ha, e⟩ => hn (T51.ext_%s h k l c a ha e)\n\n' % K
        if want_ae:
            s += '/-- C05 / T5.1 for %s (%s), PARTIAL: only "not extinguished by any operation → allowed by the table"; the converse is FALSE\n' % (K, o.name)
            s += '    at hkl = %s (extinguished by an operation, allowed by the table) -/\n' % partial['extinct_but_allowed'][0]
            s += 'theorem T51.ok_%s_partial_complete : %s(¬ %s → %s) := by\n' % (K, stmt_head, rhs, lhs)
            s += '  intro h k l hc\n  have c := T51.cone_r%d h k l hc\n  rw [T51.nf_%s]\n' % (r, K)
            s += '  exact fun hne hn => hne (T51.abs_%s h k l c hn)\n\n' % K
        partial['emitted'] = [x for x, w in (('ok_%s_partial_sound' % K, want_ea), ('ok_%s_partial_complete' % K, want_ae)) if w]
    info['nlemmas'] = nlem
    info['nsamples'] = int(len(P))
    return s, info, partial, r


HEADER = '''/- GENERATED by harness/gen_t51.py from xfab/sglib.py (tables), genhkl_base (segments) — do not edit.
   Certificates (which conditions an operation implies, which operations extinguish a condition) are untrusted search
   results on sample points; every lemma is proved for all integers h k l. -/
import XfabVerif.Gen.T51.Segs
import XfabVerif.Gen.Sg.Data%d

set_option linter.unusedVariables false
set_option linter.style.longLine false
set_option linter.unusedSimpArgs false
set_option linter.unreachableTactic false
set_option linter.unusedTactic false

'''


def main(argv):
    only = None
    outdir = os.path.join(OUT, 'T51')
    for a in argv:
        if a.startswith('--only='):
            only = set(a[7:].split(','))
        elif a.startswith('--out='):
            outdir = a[6:]
    # segments: tools.py and laue.py must agree (the Laue versions of the theorems are obtained through `abbrev`)
    ft = gen_hkl.get_functions(os.path.join(REPO, 'xfab', 'tools.py'))
    fl = gen_hkl.get_functions(os.path.join(REPO, 'xfab', 'laue.py'))
    rules = gen_hkl.extract_segm(ft)[0]
    if gen_hkl.extract_segm(fl)[0] != rules:
        raise Refuse('segm tables of tools.py and laue.py differ')
    if gen_hkl.translate_sysabs(fl, 'Laue').replace('Laue.sysabs_unique', 'Tools.sysabs_unique') != gen_hkl.translate_sysabs(ft, 'Tools'):
        raise Refuse('sysabs / sysabs_unique of tools.py and laue.py differ')
    from xfab import tools
    settings = gen_tables.load_settings()
    meta_t = json.load(open(os.path.join(OUT, 'tables_meta.json')))
    chunks = meta_t['chunks']
    if set(chunks) != set(k for k, _ in settings):
        raise Refuse('tables_meta.json is stale (run gen_tables.py first)')
    Pbox = box_points(BOX)
    Pimpl = box_points(BOX_IMPL)
    per_chunk = [[] for _ in range(NCHUNK)]
    meta = {'settings': {}, 'partial': {}, 'box': BOX}
    used = set()
    ok_keys = []
    for key, o in settings:
        if only is not None and key not in only:
            continue
        text, info, partial, r = build_setting(key, o, rules, Pbox, Pimpl, tools)
        used.add(r)
        info['chunk'] = chunks[key]
        info['status'] = 'ok' if partial is None else 'partial'
        meta['settings'][key] = info
        if partial is not None:
            meta['partial'][key] = partial
        else:
            ok_keys.append(key)
        per_chunk[chunks[key]].append(text)
    changed = 0
    changed += write_if_changed(os.path.join(outdir, 'Segs.lean'), emit_segs(rules, used))
    for k in range(NCHUNK):
        changed += write_if_changed(os.path.join(outdir, 'G%d.lean' % k), (HEADER % k) + ''.join(per_chunk[k]))
    a = '/- GENERATED by harness/gen_t51.py — do not edit. -/\n'
    a += ''.join('import XfabVerif.Gen.T51.G%d\n' % k for k in range(NCHUNK))
    a += 'import XfabVerif.Gen.Sg.All\n\nset_option linter.style.longLine false\n\n'
    a += '/-- the settings with a full `T51.ok_<key>` theorem -/\ndef T51.okKeys : List String := [%s]\n\n' % ', '.join(gen_tables.lean_str(k) for k in ok_keys)
    a += '/-- the settings for which T5.1 fails on sampled cone points (see Gen/t51_meta.json) -/\ndef T51.partialKeys : List String := [%s]\n\n' % ', '.join(
        gen_tables.lean_str(k) for k in meta['partial'])
    if only is None:
        if not meta['partial']:
            a += '/-- C05 / T5.1, every table of `Sg.allTables` -/\ntheorem T51.all_ok : ∀ kt ∈ Sg.allTables, T51.Holds kt.2 := by\n  unfold Sg.allTables\n'
            for key, _ in settings:
                a += '  refine List.forall_mem_cons.2 ⟨T51.holds_%s, ?_⟩\n' % key
            a += '  exact fun _ hx => absurd hx List.not_mem_nil\n'
        else:
            a += '/-- C05 / T5.1, PARTIAL: every table of `Sg.allTables` except the settings of `T51.partialKeys`, where the statement is false -/\n'
            a += 'theorem T51.all_ok_partial : ∀ kt ∈ Sg.allTables, kt.1 ∉ T51.partialKeys → T51.Holds kt.2 := by\n  unfold Sg.allTables\n'
            for key, _ in settings:
                if key in meta['partial']:
                    a += '  refine List.forall_mem_cons.2 ⟨fun hn => absurd (by decide) hn, ?_⟩\n'
                else:
                    a += '  refine List.forall_mem_cons.2 ⟨fun _ => T51.holds_%s, ?_⟩\n' % key
            a += '  exact fun _ hx => absurd hx List.not_mem_nil\n'
    changed += write_if_changed(os.path.join(outdir, 'All.lean'), a)
    if outdir == os.path.join(OUT, 'T51'):
        write_if_changed(os.path.join(OUT, 't51_meta.json'), json.dumps(meta, indent=1, sort_keys=True))
    print('gen_t51: %d settings (%d ok, %d partial: %s), %d operation lemmas + condition lemmas, %d files changed' % (
        len(meta['settings']), len(ok_keys), len(meta['partial']), ','.join(meta['partial']) or '-',
        sum(v['nlemmas'] for v in meta['settings'].values()), changed))


if __name__ == '__main__':
    try:
        main(sys.argv[1:])
    except (Refuse, gen_tables.Refuse, gen_hkl.Refuse) as e:
        sys.stderr.write('TRANSLATOR-REFUSED: %s\n' % e)
        print('TRANSLATOR-REFUSED: %s' % e)
        sys.exit(3)
