#!/venv/bin/python
"""
T5.4 exporter (properties C05 / C06): for each (Laue class, setting) variant that `genhkl_base` distinguishes, a Lean
proof that the union of the variant's segment cones is a TRANSVERSAL of the orbits of the Laue group P u -P acting on row
vectors (h -> h.R) -- for ALL integer hkl, no box -- and the transfer of that statement to every table of sglib.py.

Reads the live tables by importing xfab from /repo (as gen_tables.py does) and the `segm` literals of `genhkl_base` from
the AST of xfab/tools.py and xfab/laue.py (as gen_hkl.py does).  Writes, only if changed:

  lean/XfabVerif/Gen/T54/V<r>.lean   r = index of the rule in `Tools.segmRules`; per variant:
        `T54.segs_<v>`, `T54.rots_<v>` (literals), the cones as linear inequalities, and the theorems
        `T54.group_<v>` (closure of the rotation list, kernel-decided with an index certificate), `T54.fixed_<v>` (one `omega`
        lemma per rotation), `T54.disjoint_<v>`, `T54.unique_<v>`, `T54.exists_<v>` (decision tree on the signs of linear
        forms, one `omega` lemma per leaf), `T54.transversal_<v>`, and per table of the variant `T54.holds_<key>`,
        `T54.isGroup_<key>` (kernel-decided `sameRotsB`).
  lean/XfabVerif/Gen/T54/All.lean    imports, `T54.all_hold : forall kt in Sg.allTables, T54.Holds kt.2 /\\ T54.IsGroup (rots kt.2)`
  lean/XfabVerif/Gen/t54_meta.json   per variant: name, rule, representative, tables, sizes; sampled counterexamples if any

Everything computed here is UNTRUSTED search (choice of the representative, certificates, the decision tree, which
rotation / segment covers a leaf); Lean checks the result for all hkl.  If the statement is false on the live source (a
point in two cones, two equivalent points in the cones, an orbit without member) the generator still emits the full
statement; the corresponding `omega` lemma then fails in Lean, and the sampled witness is recorded in t54_meta.json.

Exit status: 0 ok, 3 refused (`TRANSLATOR-REFUSED`): tools.py and laue.py differ, a direction matrix is not unimodular,
a setting without segment rule, tables of one rule with different Laue groups, rotation entries outside {-1,0,1}, ...
"""
import os, sys, json

REPO = os.environ.get('XFAB_REPO', '/repo')
HERE = os.path.dirname(os.path.abspath(__file__))
sys.path.insert(0, HERE)
sys.path.insert(0, REPO)
OUT = os.path.join(HERE, '..', 'lean', 'XfabVerif', 'Gen')

import numpy as np
import gen_tables
import gen_hkl

BOX = 7           # sample box for the search of the decision tree and the sanity checks


class Refuse(Exception):
    pass


write_if_changed = gen_hkl.write_if_changed
lean_int = gen_hkl.lean_int

# suggested representatives (centrosymmetric, primitive); only used when they belong to the variant
PREFERRED = ['n2', 'n10', 'n47', 'n83', 'n123', 'n147', 'n148r', 'n162', 'n164', 'n166r', 'n175', 'n191', 'n200', 'n221']


# ------------------------------------------------------------------------------------------------
# small integer linear algebra

def det3(m):
    return (m[0][0] * (m[1][1] * m[2][2] - m[1][2] * m[2][1]) - m[0][1] * (m[1][0] * m[2][2] - m[1][2] * m[2][0])
            + m[0][2] * (m[1][0] * m[2][1] - m[1][1] * m[2][0]))


def inv_unimodular(D):
    d = det3(D)
    if d not in (1, -1):
        raise Refuse('direction matrix %r is not unimodular' % (D,))
    c = [[0] * 3 for _ in range(3)]
    for i in range(3):
        for j in range(3):
            mi = [[D[a][b] for b in range(3) if b != i] for a in range(3) if a != j]
            c[i][j] = (-1) ** (i + j) * (mi[0][0] * mi[1][1] - mi[0][1] * mi[1][0]) * d
    return c


def mat_mul(a, b):
    return tuple(tuple(sum(a[i][k] * b[k][j] for k in range(3)) for j in range(3)) for i in range(3))


ID = ((1, 0, 0), (0, 1, 0), (0, 0, 1))


def seg_ineqs(seg):
    """n_j = sum_i (p_i - s_i) Dinv[i][j] >= 0 -> [(coefs, const)]  (coefs over h k l)"""
    s, d1, d2, d3 = seg
    Dinv = inv_unimodular([d1, d2, d3])
    out = []
    for j in range(3):
        coefs = tuple(Dinv[i][j] for i in range(3))
        const = -sum(s[i] * Dinv[i][j] for i in range(3))
        out.append((coefs, const))
    return out


def pull_back(R, ineq):
    """the inequality `coefs . (h R) + const >= 0` as an inequality on h"""
    coefs, const = ineq
    return (tuple(sum(R[i][j] * coefs[j] for j in range(3)) for i in range(3)), const)


def lin_text(coefs, const):
    """text of c1 h + c2 k + c3 l + const"""
    t = ''
    for c, v in zip(coefs, 'hkl'):
        if c == 0:
            continue
        mag = v if abs(c) == 1 else '%d * %s' % (abs(c), v)
        if not t:
            t = mag if c > 0 else '-' + mag
        else:
            t += (' + ' if c > 0 else ' - ') + mag
    if const != 0 or not t:
        if not t:
            t = str(const) if const >= 0 else '(%d)' % const
        else:
            t += (' + %d' % const) if const > 0 else (' - %d' % -const)
    return t


def lean_vec(v):
    return '(%s, %s, %s)' % tuple(lean_int(x) for x in v)


def lean_rot(R):
    return '(' + ', '.join(lean_vec(r) for r in R) + ')'


def lean_seg(seg):
    return '⟨' + ', '.join(lean_vec(v) for v in seg) + '⟩'


# ------------------------------------------------------------------------------------------------
# rules, variants

def rule_matches(laue, cc, L, C):
    if L != laue:
        return False
    if cc is None:
        return True
    return (C == cc[1]) if cc[0] else (C != cc[1])


def rule_for(rules, L, C):
    r = None
    for i, (laue, cc, segs) in enumerate(rules):
        if rule_matches(laue, cc, L, C):
            r = i
    return r


def variant_name(laue, cc):
    n = laue.replace('-', 'bar').replace('/', '')
    if not n.isalnum():
        raise Refuse('Laue class %r cannot be turned into an identifier' % laue)
    if cc is not None:
        if cc[1] != 'rhombohedral':
            raise Refuse('cell-choice condition %r not foreseen' % (cc,))
        n += '_rh' if cc[0] else '_hex'
    return n


def rots_of(o):
    """P u -P without repetitions, in the order of `Hkl.rots`"""
    P = []
    for R in o.rot[:o.nuniq]:
        m = tuple(tuple(int(round(float(x))) for x in row) for row in R)
        if any(abs(float(R[i][j]) - m[i][j]) > 1e-9 or m[i][j] not in (-1, 0, 1) for i in range(3) for j in range(3)):
            raise Refuse('rotation with an entry outside {-1,0,1}')
        P.append(m)
    out = []
    for R in P + [tuple(tuple(-x for x in row) for row in R) for R in P]:
        if R not in out:
            out.append(R)
    return out


# ------------------------------------------------------------------------------------------------
# samples

def box_points(B):
    r = np.arange(-B, B + 1)
    return np.array(np.meshgrid(r, r, r, indexing='ij')).reshape(3, -1).T


def ineq_mask(P, ineq):
    coefs, const = ineq
    return (P @ np.array(coefs) + const) >= 0


def cone_mask(P, ineqs):
    m = np.ones(len(P), dtype=bool)
    for q in ineqs:
        m &= ineq_mask(P, q)
    return m


def canon_atom(ineq):
    """an inequality and its complement (-f - 1 >= 0) describe the same split; keep the one whose first non-zero
       coefficient is positive"""
    coefs, const = ineq
    nz = [c for c in coefs if c != 0]
    if not nz:
        return None
    if nz[0] < 0:
        return (tuple(-c for c in coefs), -const - 1)
    return (tuple(coefs), const)


class Tree:
    def __init__(self, atom=None, yes=None, no=None, leaf=None):
        self.atom, self.yes, self.no, self.leaf = atom, yes, no, leaf


def build_tree(P, idx, cands, atoms, atom_masks, path, leaves, bad):
    """idx: indices (into P) of the sample points of the region; cands: [(ri, sj, mask)]"""
    for ri, sj, m in cands:
        if m[idx].all():
            leaves.append((list(path), ri, sj))
            return Tree(leaf=len(leaves) - 1)
    best, bs = None, None
    # how many sample points of the region can be covered by ONE candidate after the split: prefer splits that make the
    # children coverable, then balanced ones
    for a, am in enumerate(atom_masks):
        y = am[idx]
        ny = int(y.sum())
        if ny == 0 or ny == len(idx):
            continue
        iy, in_ = idx[y], idx[~y]
        cy = max(int(m[iy].sum()) for _, _, m in cands) / len(iy)
        cn = max(int(m[in_].sum()) for _, _, m in cands) / len(in_)
        score = (cy + cn, min(ny, len(idx) - ny))
        if bs is None or score > bs:
            best, bs = a, score
    if best is None:
        # no single rotation/segment covers the region and no atom splits it: the statement fails on the samples
        # (or the box is too small); emit a leaf that Lean will reject, record the witness
        bad.append({'region': [(lin_text(*atoms[a]), s) for a, s in path], 'witness': [int(x) for x in P[idx[0]]]})
        leaves.append((list(path), None, None))
        return Tree(leaf=len(leaves) - 1)
    y = atom_masks[best][idx]
    t_yes = build_tree(P, idx[y], cands, atoms, atom_masks, path + [(best, True)], leaves, bad)
    t_no = build_tree(P, idx[~y], cands, atoms, atom_masks, path + [(best, False)], leaves, bad)
    return Tree(atom=best, yes=t_yes, no=t_no)


# ------------------------------------------------------------------------------------------------
# Lean text of one variant

HEADER = '''/- GENERATED by harness/gen_t54.py from the `segm` literals of genhkl_base (xfab/tools.py, xfab/laue.py) and the tables
   of xfab/sglib.py — do not edit.  Theorem T5.4 (properties C05 / C06) for one (Laue class, setting) variant. -/
import XfabVerif.Lemmas.T54

set_option linter.unusedVariables false
set_option linter.style.longLine false
set_option linter.unusedSimpArgs false
set_option maxRecDepth 100000

namespace T54

open Hkl

'''


def mem_term(j):
    """proof term of `x_j ∈ [x_0, ..., x_n]`"""
    t = 'List.mem_cons_self'
    for _ in range(j):
        t = 'List.mem_cons_of_mem _ (%s)' % t
    return t


def or_term(j, n, inner):
    """inner : A_j  |-  A_0 ∨ ... ∨ A_{n-1}"""
    t = inner
    if j < n - 1:
        t = 'Or.inl (%s)' % t
    for _ in range(j):
        t = 'Or.inr (%s)' % t
    return t


def rmul_args(R):
    r = lean_rot(R)
    return '(rmul (h, k, l) %s).1 (rmul (h, k, l) %s).2.1 (rmul (h, k, l) %s).2.2' % (r, r, r)


def emit_variant(v, P, meta):
    name, r, laue, cc, segs, Rs, rep, keys = v['name'], v['rule'], v['laue'], v['cc'], v['segs'], v['rots'], v['rep'], v['keys']
    ns, nr = len(segs), len(Rs)
    ccs = '' if cc is None else ', cell_choice %s %s' % ('==' if cc[0] else '!=', cc[1])
    t = HEADER
    t += '/-! ## variant `%s`: rule %d of `Tools.segmRules` (Laue class %s%s), %d segment(s), Laue group of order %d (representative table %s) -/\n\n' % (
        name, r, laue, ccs, ns, nr, rep)
    t += '/-- the segments of rule %d -/\nabbrev segs_%s : List Segment := [\n  %s]\n\n' % (r, name, ',\n  '.join(lean_seg(s) for s in segs))
    t += '/-- the Laue group `P ∪ −P` of the variant (rotations acting on row vectors), as listed by `Hkl.rots` for `Sg.Tables.%s` -/\n' % rep
    t += 'abbrev rots_%s : List Rot := [\n  %s]\n\n' % (name, ',\n  '.join(lean_rot(R) for R in Rs))
    # group certificate
    index = {R: i for i, R in enumerate(Rs)}
    inv, tbl = [], []
    for a in Rs:
        ii = [i for i, b in enumerate(Rs) if mat_mul(a, b) == ID]
        if not ii:
            raise Refuse('variant %s: rotation without inverse in the list' % name)
        inv.append(ii[0])
        row = []
        for c in Rs:
            p = mat_mul(Rs[ii[0]], c)
            if p not in index:
                raise Refuse('variant %s: rotation list not closed' % name)
            row.append(index[p])
        tbl.append(row)
    t += '/-- untrusted certificate: indices of the inverses, and of the products `Rs[inv i]·Rs[j]` -/\n'
    t += 'def invCert_%s : List Nat := %s\n\n' % (name, inv)
    t += 'def prodCert_%s : List (List Nat) := [\n  %s]\n\n' % (name, ',\n  '.join(str(row) for row in tbl))
    t += '/-- the rotation list contains the identity and is closed under `R⁻¹S` -/\n'
    t += 'theorem group_%s : IsGroup rots_%s :=\n  groupB_spec (inv := invCert_%s) (tbl := prodCert_%s) (by decide +kernel)\n\n' % (name, name, name, name)
    # cones
    iq = [seg_ineqs(s) for s in segs]
    for j, s in enumerate(segs):
        t += '/-- the cone of segment %d as linear inequalities (the direction matrix is unimodular) -/\n' % j
        t += 'def C_%s_%d (h k l : Int) : Prop := %s\n\n' % (name, j, ' ∧ '.join('0 ≤ ' + lin_text(*q) for q in iq[j]))
        t += 'theorem cone_%s_%d (h k l : Int) (c : InSeg %s h k l) : C_%s_%d h k l := by\n' % (name, j, lean_seg(s), name, j)
        t += '  obtain ⟨n1, n2, n3, e1, e2, e3⟩ := c\n  dsimp only at e1 e2 e3\n  unfold C_%s_%d; omega\n\n' % (name, j)
        t += 'theorem cone_conv_%s_%d (h k l : Int) (c : C_%s_%d h k l) : InSeg %s h k l := by\n' % (name, j, name, j, lean_seg(s))
        t += '  unfold C_%s_%d at c\n' % (name, j)
        t += '  refine ⟨(%s).toNat, (%s).toNat, (%s).toNat, ?_, ?_, ?_⟩ <;> dsimp only <;> omega\n\n' % tuple(lin_text(*q) for q in iq[j])
    t += '/-- the union of the cones -/\ndef InC_%s (h k l : Int) : Prop := %s\n\n' % (name, ' ∨ '.join('C_%s_%d h k l' % (name, j) for j in range(ns)))
    unf = ', '.join(['InC_%s' % name] + ['C_%s_%d' % (name, j) for j in range(ns)])
    t += 'theorem inC_%s (h k l : Int) (c : InCones segs_%s h k l) : InC_%s h k l := by\n' % (name, name, name)
    t += '  obtain ⟨sg, hm, c⟩ := c\n  simp only [List.mem_cons, List.not_mem_nil, or_false] at hm\n'
    t += '  rcases hm with %s\n' % ' | '.join(['rfl'] * ns)
    for j in range(ns):
        t += '  · exact %s\n' % or_term(j, ns, 'cone_%s_%d _ _ _ c' % (name, j))
    t += '\ntheorem inC_conv_%s (h k l : Int) (c : InC_%s h k l) : InCones segs_%s h k l := by\n' % (name, name, name)
    if ns > 1:
        t += '  rcases c with %s\n' % ' | '.join(['c'] * ns)
    for j in range(ns):
        t += '  · exact ⟨_, %s, cone_conv_%s_%d _ _ _ c⟩\n' % (mem_term(j), name, j)
    t += '\n'
    # disjoint segments
    t += '/-! ### no point lies in two segments -/\n\n'
    for i in range(ns):
        for j in range(i + 1, ns):
            t += 'private theorem d_%s_%d_%d (h k l : Int) (a : C_%s_%d h k l) (b : C_%s_%d h k l) : False := by\n' % (name, i, j, name, i, name, j)
            t += '  unfold C_%s_%d at a; unfold C_%s_%d at b; omega\n\n' % (name, i, name, j)
    t += '/-- T5.4 (`%s`): the cones of different segments do not meet -/\n' % name
    t += 'theorem disjoint_%s : SegsDisjoint segs_%s := by\n' % (name, name)
    t += '  unfold SegsDisjoint\n'
    for i in range(ns):
        t += '  refine List.Pairwise.cons (fun b hb => ?_) ?_\n'
        t += '  · simp only [List.mem_cons, List.not_mem_nil, or_false] at hb\n'
        if i < ns - 1:
            t += '    rcases hb with %s\n' % ' | '.join(['rfl'] * (ns - 1 - i))
            for j in range(i + 1, ns):
                t += '    · exact fun h k l a b => d_%s_%d_%d h k l (cone_%s_%d _ _ _ a) (cone_%s_%d _ _ _ b)\n' % (name, i, j, name, i, name, j)
    t += '  exact List.Pairwise.nil\n\n'
    # fixed
    t += '/-! ### uniqueness: a rotation of the group moves a cone point out of the cones or leaves it fixed -/\n\n'
    for ri, R in enumerate(Rs):
        t += 'private theorem u_%s_%d (h k l : Int) (a : InC_%s h k l) (b : InC_%s %s) :\n' % (name, ri, name, name, rmul_args(R))
        rr = lean_rot(R)
        t += '    (rmul (h, k, l) %s).1 = h ∧ (rmul (h, k, l) %s).2.1 = k ∧ (rmul (h, k, l) %s).2.2 = l := by\n' % (rr, rr, rr)
        t += '  simp only [rmul, %s] at a b ⊢\n  omega\n\n' % unf
    t += '/-- T5.4 (`%s`), uniqueness in the one-rotation form -/\n' % name
    t += 'theorem fixed_%s : Fixed rots_%s segs_%s := by\n  unfold Fixed\n' % (name, name, name)
    for ri in range(nr):
        t += '  refine List.forall_mem_cons.2 ⟨fixed_of_components inC_%s _ u_%s_%d, ?_⟩\n' % (name, name, ri)
    t += '  exact fun _ hx => absurd hx List.not_mem_nil\n\n'
    t += '/-- T5.4 (`%s`), uniqueness: two members of one orbit that lie in the cones are equal -/\n' % name
    t += 'theorem unique_%s : Unique rots_%s segs_%s := unique_of_fixed group_%s fixed_%s\n\n' % (name, name, name, name, name)
    # existence
    cands = []
    atoms, seen = [], {}
    for ri, R in enumerate(Rs):
        for sj in range(ns):
            pb = [pull_back(R, q) for q in iq[sj]]
            cands.append((ri, sj, cone_mask(P, pb)))
            for q in pb:
                a = canon_atom(q)
                if a is not None and a not in seen:
                    seen[a] = len(atoms)
                    atoms.append(a)
    # simple atoms first (they give the more readable trees when scores tie)
    order = sorted(range(len(atoms)), key=lambda a: (sum(abs(c) for c in atoms[a][0]), abs(atoms[a][1]), atoms[a]))
    atoms = [atoms[a] for a in order]
    atom_masks = [ineq_mask(P, a) for a in atoms]
    leaves, bad = [], []
    tree = build_tree(P, np.arange(len(P)), cands, atoms, atom_masks, [], leaves, bad)
    t += '/-! ### existence: decision tree on the signs of linear forms, one leaf lemma per region (%d leaves) -/\n\n' % len(leaves)
    for n, (path, ri, sj) in enumerate(leaves):
        hyps = ' '.join('(c%d : %s0 ≤ %s)' % (i, '' if s else '¬ ', lin_text(*atoms[a])) for i, (a, s) in enumerate(path))
        t += 'private theorem e_%s_%d (h k l : Int) %s :\n' % (name, n, hyps)
        t += '    ∃ R ∈ rots_%s, InC_%s (rmul (h, k, l) R).1 (rmul (h, k, l) R).2.1 (rmul (h, k, l) R).2.2 := by\n' % (name, name)
        if ri is None:
            t += '  -- the sampled region has no single covering rotation/segment: the statement fails on the samples\n'
            t += '  exfalso; omega\n\n'
            continue
        t += '  refine ⟨%s, List.mem_of_getElem? (i := %d) rfl, %s⟩\n' % (lean_rot(Rs[ri]), ri, or_term(sj, ns, '?_'))
        t += '  simp only [rmul, InC_%s, C_%s_%d]\n  omega\n\n' % (name, name, sj)

    def tree_lines(tr, path_len):
        if tr.leaf is not None:
            return ['exact e_%s_%d h k l %s' % (name, tr.leaf, ' '.join('c%d' % i for i in range(path_len)))]
        out = ['by_cases c%d : 0 ≤ %s' % (path_len, lin_text(*atoms[tr.atom]))]
        for sub in (tr.yes, tr.no):
            ls = tree_lines(sub, path_len + 1)
            out.append('· ' + ls[0])
            out += ['  ' + x for x in ls[1:]]
        return out

    t += 'private theorem ex_%s (h k l : Int) :\n' % name
    t += '    ∃ R ∈ rots_%s, InC_%s (rmul (h, k, l) R).1 (rmul (h, k, l) R).2.1 (rmul (h, k, l) R).2.2 := by\n' % (name, name)
    t += ''.join('  ' + x + '\n' for x in tree_lines(tree, 0)) + '\n'
    t += '/-- T5.4 (`%s`), existence: every `h` (also 0) has an orbit member in the cones -/\n' % name
    t += 'theorem exists_%s : Exists rots_%s segs_%s := exists_of_components inC_conv_%s ex_%s\n\n' % (name, name, name, name, name)
    t += '/-- T5.4 (`%s`): the cones of rule %d contain exactly one member of every orbit of the Laue group, and do not overlap -/\n' % (name, r)
    t += 'theorem transversal_%s : Transversal rots_%s segs_%s := ⟨exists_%s, unique_%s, disjoint_%s⟩\n\n' % (name, name, name, name, name, name)
    # transfer
    t += '/-! ### transfer to the %d table(s) of the variant: same segments (`rfl`), same Laue group (kernel-decided) -/\n\n' % len(keys)
    for key in keys:
        t += 'theorem same_%s : sameRotsB Sg.Tables.%s rots_%s = true := by decide +kernel\n' % (key, key, name)
        t += 'theorem holds_%s : Holds Sg.Tables.%s := holds_of (S := segs_%s) rfl same_%s transversal_%s\n' % (key, key, name, key, name)
        t += 'theorem isGroup_%s : IsGroup (rots Sg.Tables.%s) := isGroup_congr (sameRotsB_spec same_%s) group_%s\n\n' % (key, key, key, name)
    t += 'end T54\n'
    meta.update({'leaves': len(leaves), 'atoms': len(atoms), 'existence_bad': bad})
    return t


# ------------------------------------------------------------------------------------------------

def sanity(v, P):
    """brute force on the box: points in two segments; pairs of different equivalent cone points; orbits without member"""
    segs, Rs = v['segs'], v['rots']
    masks = [cone_mask(P, seg_ineqs(s)) for s in segs]
    out = {'two_segments': [], 'equivalent_pair': [], 'no_member': []}
    cnt = np.sum(masks, axis=0)
    for p in P[cnt > 1][:5]:
        out['two_segments'].append([int(x) for x in p])
    union = cnt > 0
    inside = {tuple(int(x) for x in p) for p in P[union]}
    B = int(np.abs(P).max())
    for R in Rs:
        Q = P @ np.array(R)
        for p, q in zip(P[union], Q[union]):
            tq = tuple(int(x) for x in q)
            if tq in inside and tq != tuple(int(x) for x in p) and len(out['equivalent_pair']) < 5:
                out['equivalent_pair'].append([[int(x) for x in p], list(tq)])
    covered = np.zeros(len(P), dtype=bool)
    for R in Rs:
        Q = P @ np.array(R)
        m = np.zeros(len(P), dtype=bool)
        for s in segs:
            m |= cone_mask(Q, seg_ineqs(s))
        covered |= m
    for p in P[~covered][:5]:
        out['no_member'].append([int(x) for x in p])
    return out


def main(argv):
    outdir = os.path.join(OUT, 'T54')
    metapath = os.path.join(OUT, 't54_meta.json')
    for a in argv:
        if a.startswith('--out='):
            outdir = a[6:]
            metapath = os.path.join(outdir, 't54_meta.json')
    ft = gen_hkl.get_functions(os.path.join(REPO, 'xfab', 'tools.py'))
    fl = gen_hkl.get_functions(os.path.join(REPO, 'xfab', 'laue.py'))
    rules = gen_hkl.extract_segm(ft)[0]
    if gen_hkl.extract_segm(fl)[0] != rules:
        raise Refuse('segm tables of tools.py and laue.py differ')
    settings = gen_tables.load_settings()
    variants = {}
    for key, o in settings:
        r = rule_for(rules, o.Laue, o.cell_choice)
        if r is None:
            raise Refuse('setting %s (%s, %s) has no segment rule' % (key, o.Laue, o.cell_choice))
        Rs = rots_of(o)
        v = variants.setdefault(r, {'rule': r, 'keys': [], 'groups': {}})
        v['keys'].append(key)
        v['groups'].setdefault(frozenset(Rs), []).append((key, Rs))
    names = set()
    P = box_points(BOX)
    meta = {'box': BOX, 'variants': {}}
    changed = 0
    order = []
    for r in sorted(variants):
        v = variants[r]
        if len(v['groups']) != 1:
            raise Refuse('the tables of rule %d do not share one Laue group: %s' % (
                r, [[k for k, _ in g][:3] for g in v['groups'].values()]))
        laue, cc, segs = rules[r]
        name = variant_name(laue, cc)
        if name in names:
            raise Refuse('two used rules with the same variant name %s' % name)
        names.add(name)
        members = list(v['groups'].values())[0]
        rep = next(((k, Rs) for k, Rs in members if k in PREFERRED), members[0])
        v.update({'name': name, 'laue': laue, 'cc': cc, 'segs': [tuple(tuple(x) for x in s) for s in segs],
                  'rots': rep[1], 'rep': rep[0]})
        m = {'rule': r, 'laue': laue, 'cc': cc, 'representative': rep[0], 'tables': v['keys'], 'segments': len(segs),
             'order': len(rep[1]), 'sanity': sanity(v, P)}
        text = emit_variant(v, P, m)
        meta['variants'][name] = m
        changed += write_if_changed(os.path.join(outdir, 'V%d.lean' % r), text)
        order.append((r, name))
    a = '/- GENERATED by harness/gen_t54.py — do not edit. -/\n'
    a += ''.join('import XfabVerif.Gen.T54.V%d\n' % r for r, _ in order)
    a += '\nset_option linter.style.longLine false\n\n'
    a += '/-- the (Laue class, setting) variants of `genhkl_base`, with the rule index in `Tools.segmRules` -/\n'
    a += 'def T54.variants : List (String × Nat) := [%s]\n\n' % ', '.join('(%s, %d)' % (gen_tables.lean_str(n), r) for r, n in order)
    a += '/-- C05 / C06, T5.4 for every table of `Sg.allTables`: the cones traversed for the table are a transversal of the orbits\n'
    a += '    of its Laue group `rots t`, which is closed under `R⁻¹S` -/\n'
    a += 'theorem T54.all_hold : ∀ kt ∈ Sg.allTables, T54.Holds kt.2 ∧ T54.IsGroup (Hkl.rots kt.2) := by\n  unfold Sg.allTables\n'
    for key, _ in settings:
        a += '  refine List.forall_mem_cons.2 ⟨⟨T54.holds_%s, T54.isGroup_%s⟩, ?_⟩\n' % (key, key)
    a += '  exact fun _ hx => absurd hx List.not_mem_nil\n'
    changed += write_if_changed(os.path.join(outdir, 'All.lean'), a)
    write_if_changed(metapath, json.dumps(meta, indent=1, sort_keys=True))
    nbad = sum(1 for m in meta['variants'].values() if any(m['sanity'].values()) or m['existence_bad'])
    print('gen_t54: %d variants, %d tables, %d leaves, %d variants failing on the samples, %d files changed' % (
        len(order), len(settings), sum(m['leaves'] for m in meta['variants'].values()), nbad, changed))


if __name__ == '__main__':
    try:
        main(sys.argv[1:])
    except (Refuse, gen_hkl.Refuse, gen_tables.Refuse) as e:
        sys.stderr.write('TRANSLATOR-REFUSED: %s\n' % e)
        sys.exit(3)
