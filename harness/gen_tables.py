#!/venv/bin/python
"""
M1 — table exporter.  Imports the modules of /repo's working tree and dumps their literal tables as Lean data:

  lean/XfabVerif/Gen/Sg/Data<k>.lean    the 237 space-group settings (rot, trans in micro-units, metadata, syscond)
  lean/XfabVerif/Gen/Sg/Check<k>.lean   untrusted certificates + one kernel-decided theorem per setting
  lean/XfabVerif/Gen/Sg/All.lean        list of all settings, sgdic
  lean/XfabVerif/Gen/tables_meta.json   index used by the harness

Exit status: 0 ok, 3 exporter refused something (message on stderr).
"""
import os, sys, json, ast, importlib, itertools
from fractions import Fraction
from decimal import Decimal

REPO = os.environ.get('XFAB_REPO', '/repo')
sys.path.insert(0, REPO)
HERE = os.path.dirname(os.path.abspath(__file__))
OUT = os.path.join(HERE, '..', 'lean', 'XfabVerif', 'Gen')
NCHUNK = 16


class Refuse(Exception):
    pass


def write_if_changed(path, text):
    if os.path.exists(path) and open(path).read() == text:
        return False
    os.makedirs(os.path.dirname(path), exist_ok=True)
    open(path, 'w').write(text)
    return True


def micro(x):
    f = Fraction(Decimal(repr(float(x))))
    v = f * 1000000
    if v.denominator != 1:
        raise Refuse('translation %r is not a 6-digit decimal' % (x,))
    return int(v)


def load_settings():
    """[(key, obj)] for the 237 settings, in (number, setting) order"""
    from xfab import sglib
    out = []
    for no in range(1, 231):
        cls = getattr(sglib, 'Sg%d' % no, None)
        if cls is None:
            raise Refuse('sglib has no class Sg%d' % no)
        std = cls(cell_choice='standard')
        out.append(('n%d' % no, std))
        rh = cls(cell_choice='rhombohedral')
        if rh.cell_choice == 'rhombohedral':
            out.append(('n%dr' % no, rh))
    return out


def snap24(t):
    return ((24 * t + 500000) // 1000000) % 24


def mat_mul(a, b):
    return tuple(tuple(sum(a[i][k] * b[k][j] for k in range(3)) for j in range(3)) for i in range(3))


def op_of(rot, trans):
    r = tuple(tuple(int(x) for x in row) for row in rot)
    for row in rot:
        for x in row:
            if int(x) != x:
                raise Refuse('non-integer rotation entry %r' % (x,))
    t = tuple(snap24(micro(x)) for x in trans)
    return (r, t)


def comp(a, b):
    r = mat_mul(a[0], b[0])
    t = tuple((sum(a[0][i][k] * b[1][k] for k in range(3)) + a[1][i]) % 24 for i in range(3))
    return (r, t)


ID = (((1, 0, 0), (0, 1, 0), (0, 0, 1)), (0, 0, 0))


def certificate(ops):
    """untrusted certificate; on any failure falls back to dummy indices (the Lean check then fails)"""
    n = len(ops)
    index = {}
    for i, o in enumerate(ops):
        index.setdefault(o, i)
    id_idx = index.get(ID, 0)
    gens = []

    def closure(gs):
        seen = {id_idx: (None, None, 0)}
        frontier = [id_idx]
        while frontier:
            nxt = []
            for i in frontier:
                for k, g in enumerate(gs):
                    j = index.get(comp(ops[i], ops[g]))
                    if j is not None and j not in seen:
                        seen[j] = (i, k, seen[i][2] + 1)
                        nxt.append(j)
            frontier = nxt
        return seen
    seen = closure(gens)
    for i in range(n):
        if len(seen) == n:
            break
        if i not in seen:
            gens.append(i)
            seen = closure(gens)
    prod = [[index.get(comp(ops[i], ops[g]), 0) for g in gens] for i in range(n)]
    parent = [(seen[i][0] if i in seen and seen[i][0] is not None else 0,
               seen[i][1] if i in seen and seen[i][1] is not None else 0) for i in range(n)]
    depth = [seen[i][2] if i in seen else 0 for i in range(n)]
    inv = []
    for i in range(n):
        j = next((j for j in range(n) if comp(ops[i], ops[j]) == ID), 0)
        inv.append(j)
    return {'idIdx': id_idx, 'gens': gens, 'prod': prod, 'parent': parent, 'depth': depth, 'inv': inv}


def lean_str(s):
    return '"' + s.replace('\\', '\\\\').replace('"', '\\"') + '"'


def lean_int(x):
    return str(x) if x >= 0 else '(%d)' % x


def emit_table(key, o):
    if len(o.rot) != len(o.trans):
        raise Refuse('%s: rot/trans length mismatch' % key)
    ops = []
    for r, t in zip(o.rot, o.trans):
        flat = [int(x) for row in r for x in row] + [micro(x) for x in t]
        ops.append('⟨' + ', '.join(str(v) for v in flat) + '⟩')
    sc = [int(x) for x in o.syscond]
    s = 'def Sg.Tables.%s : SgTable :=\n' % key
    s += '  { no := %d, name := %s, crystalSystem := %s, laue := %s, nsymop := %d, nuniq := %d, cellChoice := %s,\n' % (
        o.no, lean_str(o.name), lean_str(o.crystal_system), lean_str(o.Laue), o.nsymop, o.nuniq, lean_str(o.cell_choice))
    s += '    syscond := [%s],\n' % ', '.join(str(v) for v in sc)
    s += '    ops := [\n      ' + ',\n      '.join(ops) + '] }\n'
    return s


def emit_cert(key, c):
    s = 'def Sg.Certs.%s : Sg.Cert :=\n' % key
    s += '  { idIdx := %d, gens := %s,\n' % (c['idIdx'], c['gens'])
    s += '    prod := %s,\n' % ('[' + ', '.join('[' + ', '.join(map(str, r)) + ']' for r in c['prod']) + ']')
    s += '    parent := [%s],\n' % ', '.join('(%d, %d)' % p for p in c['parent'])
    s += '    depth := %s,\n' % c['depth']
    s += '    inv := %s }\n' % c['inv']
    return s


ELEMENTS = ("H HE LI BE B C N O F NE NA MG AL SI P S CL AR K CA SC TI V CR MN FE CO NI CU ZN GA GE AS SE BR KR RB SR Y ZR "
            "NB MO TC RU RH PD AG CD IN SN SB TE I XE CS BA LA CE PR ND PM SM EU GD TB DY HO ER TM YB LU HF TA W RE OS IR PT "
            "AU HG TL PB BI PO AT RN FR RA AC TH PA U NP PU").split()
ZNUM = {el: i + 1 for i, el in enumerate(ELEMENTS)}


def dec(x):
    """exact decimal literal of a Python float as written in the source"""
    d = Decimal(repr(float(x)))
    s = format(d, 'f')
    if '.' not in s:
        s += '.0'
    return '(%s : ℝ)' % s if d >= 0 else '(-%s : ℝ)' % s.lstrip('-')


def emit_atomlib():
    from xfab import atomlib
    ff = atomlib.formfactor
    t = '/- GENERATED by harness/gen_tables.py from xfab/atomlib.py — do not edit. -/\n'
    t += 'import XfabVerif.Lemmas.C16Generic\n\nset_option linter.style.longLine false\nnoncomputable section\n\n'
    t += '/-- what property C16 asks of one row of the form-factor table -/\n'
    t += 'def C16.RowOk (data : Fin 9 → ℝ) (Z : ℝ) : Prop :=\n'
    t += '  (∀ s, Structure.FormFactor data s = data 0 * Real.exp (-(data 4) * s ^ 2) + data 1 * Real.exp (-(data 5) * s ^ 2)\n'
    t += '      + data 2 * Real.exp (-(data 6) * s ^ 2) + data 3 * Real.exp (-(data 7) * s ^ 2) + data 8) ∧\n'
    t += '  |Structure.FormFactor data 0 - Z| ≤ 0.1 ∧ (∀ s ∈ Set.Icc (0 : ℝ) 2, 0 < Structure.FormFactor data s) ∧\n'
    t += '  StrictAntiOn (Structure.FormFactor data) (Set.Ici 0)\n\n'
    names = []
    for el, row in ff.items():
        if el not in ZNUM:
            raise Refuse('atomlib: unknown element key %r' % (el,))
        if len(row) != 9:
            raise Refuse('atomlib: row %s has %d entries' % (el, len(row)))
        a, b, c = row[:4], row[4:8], row[8]
        ks = ['true' if (1 - 4 * bi) > 0 else 'false' for bi in b]
        lits = [dec(x) for x in row]
        nm = 'atom_' + el
        names.append((el, nm))
        t += 'def Atomlib.%s : Fin 9 → ℝ := ![%s]\n' % (el, ', '.join(lits))
        t += 'theorem %s : C16.RowOk Atomlib.%s %d := by\n' % (nm, el, ZNUM[el])
        t += '  have h := C16.ff_row %s %d %s\n' % (' '.join(lits), ZNUM[el], ' '.join(ks))
        t += '    (by norm_num) (by norm_num) (by norm_num) (by norm_num) (by norm_num) (by norm_num) (by norm_num) (by norm_num)\n'
        t += '    (by norm_num [abs_le]) (by norm_num)\n'
        t += '  simpa [C16.RowOk, Atomlib.%s] using h\n\n' % el
    t += 'def Atomlib.elements : List String := [%s]\n\n' % ', '.join(lean_str(el) for el, _ in names)
    t += '/-- every row of the table with the atomic number of its key -/\n'
    t += 'def Atomlib.table : List ((Fin 9 → ℝ) × ℝ) := [%s]\n\n' % ', '.join('(Atomlib.%s, %d)' % (el, ZNUM[el]) for el, _ in names)
    term = '(fun _ h => absurd h List.not_mem_nil)'
    for el, nm in reversed(names):
        term = '(List.forall_mem_cons.mpr ⟨%s, %s⟩)' % (nm, term)
    t += 'theorem atomlib_all_rows_ok : ∀ p ∈ Atomlib.table, C16.RowOk p.1 p.2 :=\n  %s\n\nend\n' % term
    ch = write_if_changed(os.path.join(OUT, 'Atomlib.lean'), t)
    missing = [el for el in ELEMENTS if el not in ff]
    return ch, [el for el, _ in names], missing


def main():
    settings = load_settings()
    from xfab import sg as sgmod
    # balance chunks by number of operations
    loads = [0] * NCHUNK
    chunks = [[] for _ in range(NCHUNK)]
    for key, o in sorted(settings, key=lambda ko: -len(ko[1].rot)):
        k = loads.index(min(loads))
        chunks[k].append((key, o))
        loads[k] += len(o.rot) ** 1 + 5
    order = {key: i for i, (key, _) in enumerate(settings)}
    changed = 0
    meta = {'settings': [], 'chunks': {}}
    for k, ch in enumerate(chunks):
        ch.sort(key=lambda ko: order[ko[0]])
        d = '/- GENERATED by harness/gen_tables.py from xfab/sglib.py — do not edit. -/\nimport XfabVerif.Model.SgModel\n\n'
        c = '/- GENERATED by harness/gen_tables.py — certificates are untrusted; the theorems are kernel-decided. -/\n'
        c += 'import XfabVerif.Gen.Sg.Data%d\n\n' % k
        for key, o in ch:
            d += emit_table(key, o) + '\n'
            ops = [op_of(r, t) for r, t in zip(o.rot, o.trans)]
            c += emit_cert(key, certificate(ops)) + '\n'
            c += 'theorem Sg.ok_%s : Sg.checkTable Sg.Tables.%s Sg.Certs.%s = true := by decide +kernel\n\n' % (key, key, key)
            meta['chunks'][key] = k
        changed += write_if_changed(os.path.join(OUT, 'Sg', 'Data%d.lean' % k), d)
        changed += write_if_changed(os.path.join(OUT, 'Sg', 'Check%d.lean' % k), c)
    a = '/- GENERATED by harness/gen_tables.py — do not edit. -/\n'
    a += ''.join('import XfabVerif.Gen.Sg.Data%d\n' % k for k in range(NCHUNK))
    a += '\ndef Sg.allTables : List (String × SgTable) := [\n  '
    a += ',\n  '.join('(%s, Sg.Tables.%s)' % (lean_str(key), key) for key, _ in settings) + ']\n\n'
    a += 'def Sg.sgdic : List (String × String) := [\n  '
    a += ',\n  '.join('(%s, %s)' % (lean_str(k), lean_str(v)) for k, v in sgmod.sgdic.items()) + ']\n'
    changed += write_if_changed(os.path.join(OUT, 'Sg', 'All.lean'), a)
    # names as code points (kernel-friendly: no String operations in the decided statements)
    nm = '/- GENERATED by harness/gen_tables.py from xfab/sg.py (sgdic) and xfab/sglib.py (names) — do not edit. -/\n\n'
    ents = []
    for k, v in sgmod.sgdic.items():
        if not (isinstance(v, str) and v.startswith('Sg') and v[2:].isdigit()):
            raise Refuse('sgdic value %r is not a class name Sg<number>' % (v,))
        if not k.isascii():
            raise Refuse('sgdic key %r is not ASCII' % (k,))
        ents.append('(%s, %d)' % ([ord(c) for c in k], int(v[2:])))
    nm += '/-- `sgdic`: key (code points) ↦ number N of the class `SgN` -/\ndef Sg.dicL : List (List Nat × Nat) := [\n  ' + ',\n  '.join(ents) + ']\n\n'
    sets = []
    for key, o in settings:
        if not o.name.isascii():
            raise Refuse('table name %r is not ASCII' % (o.name,))
        sets.append('(%d, %s, %s)' % (o.no, 'true' if o.cell_choice == 'rhombohedral' else 'false', [ord(c) for c in o.name]))
    nm += '/-- parallel to `Sg.allTables`: (number, rhombohedral setting?, name as code points) -/\n'
    nm += 'def Sg.settingsL : List (Nat × Bool × List Nat) := [\n  ' + ',\n  '.join(sets) + ']\n'
    changed += write_if_changed(os.path.join(OUT, 'Sg', 'Names.lean'), nm)
    ca = '/- GENERATED by harness/gen_tables.py — do not edit. -/\n'
    ca += ''.join('import XfabVerif.Gen.Sg.Check%d\n' % k for k in range(NCHUNK))
    changed += write_if_changed(os.path.join(OUT, 'Sg', 'CheckAll.lean'), ca)
    ch, els, missing = emit_atomlib()
    changed += ch
    meta['atomlib'] = {'elements': els, 'missing': missing}
    for key, o in settings:
        meta['settings'].append({'key': key, 'no': o.no, 'name': o.name, 'cs': o.crystal_system, 'laue': o.Laue,
                                 'cell_choice': o.cell_choice, 'nsymop': o.nsymop, 'nuniq': o.nuniq})
    write_if_changed(os.path.join(OUT, 'tables_meta.json'), json.dumps(meta, indent=1, sort_keys=True))
    print('gen_tables: %d settings, %d operations, %d files changed' % (len(settings), sum(len(o.rot) for _, o in settings), changed))


if __name__ == '__main__':
    try:
        main()
    except Refuse as e:
        sys.stderr.write('TRANSLATOR-REFUSED: %s\n' % e)
        sys.exit(3)
