"""Seeded structured generators shared by correspondence streams and oracles."""
import math
import numpy as np


def gram_d(al, be, ga):
    ca, cb, cg = (math.cos(math.radians(x)) for x in (al, be, ga))
    return 1 - ca * ca - cb * cb - cg * cg + 2 * ca * cb * cg


def cell(rng, kind=None, dmin=0.02, scaled=False):
    """valid cell with Gram factor D >= dmin; kinds: ortho, near, oblique, random"""
    kind = kind or rng.choice(['near', 'oblique', 'random', 'random', 'ortho', 'nearortho', 'special', 'special', 'rhombo'])
    for _ in range(10000):
        a, b, c = (rng.uniform(2.0, 25.0) for _ in range(3))
        if kind == 'ortho':
            al = be = ga = 90.0
        elif kind == 'near':
            al, be, ga = (90 + rng.uniform(-8, 8) for _ in range(3))
        elif kind == 'nearortho':
            # within 1e-7 .. 1e-3 degrees of 90 (some angles exactly 90): tolerance-keyed "orthogonal" shortcuts live here
            al, be, ga = (90.0 if rng.random() < 0.3 else 90 + rng.choice([-1, 1]) * 10 ** rng.uniform(-7, -3) for _ in range(3))
        elif kind == 'special':
            # exact special values: equal axes, angles of exactly 60/90/120 degrees
            a = rng.uniform(2.0, 25.0)
            b = a if rng.random() < 0.5 else b
            c = a if rng.random() < 0.3 else c
            # every multiple of 15 degrees that can occur (a table of exact cosines has a row for each of them)
            al, be, ga = (rng.choice([90.0, 90.0, 60.0, 120.0, 30.0, 45.0, 75.0, 105.0, 135.0, 150.0, 90 + rng.uniform(-8, 8)]) for _ in range(3))
        elif kind == 'rhombo':
            # rhombohedral axes: three equal edges, three equal angles that are NOT 90 degrees ("all equal" is not "cubic")
            b = c = a
            al = be = ga = rng.choice([rng.uniform(40.0, 88.0), rng.uniform(92.0, 115.0), 60.0])
        elif kind == 'oblique':
            al, be, ga = (rng.uniform(35, 145) for _ in range(3))
            d = gram_d(al, be, ga)
            if not (dmin <= d <= 0.2):
                continue
        else:
            al, be, ga = (rng.uniform(20, 160) for _ in range(3))
        if gram_d(al, be, ga) >= dmin:
            if scaled and rng.random() < 0.12:
                # the properties quantify over all a, b, c > 0: very small and very large cells (a common factor 1e-5 .. 1e3) --
                # an ABSOLUTE tolerance somewhere in the code (isclose(volume, 0), allclose against zeros) only shows there
                # half of them at the extremes (unit-carrying absolute tolerances sit at volumes below 1e-8 or above 1e8 A^3)
                f = 10.0 ** rng.choice([rng.uniform(-5.0, 3.0), rng.uniform(-5.0, -3.5), rng.uniform(2.0, 3.0)])
                a, b, c = a * f, b * f, c * f
            return [a, b, c, al, be, ga], kind
    raise RuntimeError('cell generator exhausted')


def conforming_cell(rng, crystal_system, cell_choice='standard', orth=False):
    a, b, c = (rng.uniform(3.0, 9.0) for _ in range(3))
    cs = crystal_system
    if cs == 'triclinic':
        if orth:
            return [a, b, c, 90.0, 90.0, 90.0]
        while True:
            al, be, ga = (rng.uniform(60, 120) for _ in range(3))
            if gram_d(al, be, ga) > 0.3:
                return [a, b, c, al, be, ga]
    if cs == 'monoclinic':
        return [a, b, c, 90.0, 90.0 if orth else rng.uniform(91, 125), 90.0]
    if cs == 'orthorhombic':
        return [a, b, c, 90.0, 90.0, 90.0]
    if cs == 'tetragonal':
        return [a, a, c, 90.0, 90.0, 90.0]
    if cs in ('trigonal', 'hexagonal'):
        if cell_choice == 'rhombohedral':
            al = rng.uniform(50, 110)
            return [a, a, a, al, al, al]
        return [a, a, c, 90.0, 90.0, 120.0]
    if cs == 'cubic':
        return [a, a, a, 90.0, 90.0, 90.0]
    raise ValueError(cs)


def quat_to_u(q):
    w, x, y, z = q
    return np.array([[1 - 2 * (y * y + z * z), 2 * (x * y - z * w), 2 * (x * z + y * w)],
                     [2 * (x * y + z * w), 1 - 2 * (x * x + z * z), 2 * (y * z - x * w)],
                     [2 * (x * z - y * w), 2 * (y * z + x * w), 1 - 2 * (x * x + y * y)]])


def rz(t):
    c, s = math.cos(t), math.sin(t)
    return np.array([[c, -s, 0], [s, c, 0], [0, 0, 1.0]])


def rx(t):
    c, s = math.cos(t), math.sin(t)
    return np.array([[1.0, 0, 0], [0, c, -s], [0, s, c]])


def ry(t):
    c, s = math.cos(t), math.sin(t)
    return np.array([[c, 0, s], [0, 1.0, 0], [-s, 0, c]])


def rotation(rng, kind=None):
    """proper rotation; kinds: uniform, axis (signed permutation), lock0, lockpi, nearlock"""
    kind = kind or rng.choice(['uniform', 'uniform', 'uniform', 'axis', 'lock0', 'lockpi', 'nearlock'])
    if kind == 'uniform':
        q = np.array([rng.gauss(0, 1) for _ in range(4)])
        q /= np.linalg.norm(q)
        return quat_to_u(q), kind
    if kind == 'axis':
        import itertools
        while True:
            p = rng.sample(range(3), 3)
            s = [rng.choice([-1, 1]) for _ in range(3)]
            m = np.zeros((3, 3))
            for i in range(3):
                m[i, p[i]] = s[i]
            if np.linalg.det(m) > 0:
                return m, kind
    p1, p2 = rng.uniform(0, 2 * math.pi), rng.uniform(0, 2 * math.pi)
    if kind == 'lock0':
        return rz(p1) @ rx(0.0) @ rz(p2), kind
    if kind == 'lockpi':
        return rz(p1) @ rx(math.pi) @ rz(p2), kind
    eps = 10 ** rng.uniform(-12, -3)
    base = rng.choice([0.0, math.pi])
    PHI = base + eps if base == 0.0 else base - eps
    return rz(p1) @ rx(PHI) @ rz(p2), kind


def hkl(rng, m=12):
    while True:
        h = [rng.randint(-m, m) for _ in range(3)]
        if any(h):
            return h


def fresh_str(x):
    """the same string in a new, non-interned object (what json / argparse / a config parser hand over): `x is LITERAL` is False for it"""
    return ''.join(list(x)) if isinstance(x, str) and x else x


def flag(value, k):
    """a boolean flag as callers pass it: True/False, 1/0, numpy.bool_ (k selects the form)"""
    import numpy as np
    return [bool(value), int(bool(value)), np.bool_(bool(value))][k % 3]
