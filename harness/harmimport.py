#!/venv/bin/python
"""import sub-agent deliverables /tmp/harmout/<name>/{patch.diff,equiv.py,notes.md} into /verif/harmless/<name>/ with a meta.json;
the checks to run are read from /tmp/harm_prompts/<name>.checks (comma separated) or given as name:C01,C02"""
import sys, os, json, shutil
VERIF = os.path.dirname(os.path.dirname(os.path.abspath(__file__)))
for arg in sys.argv[1:]:
    name, _, checks = arg.partition(':')
    src = os.path.join('/tmp/harmout', name)
    dst = os.path.join(VERIF, 'harmless', name)
    if not all(os.path.exists(os.path.join(src, f)) for f in ('patch.diff', 'equiv.py', 'notes.md')):
        print(name, 'incomplete deliverables'); continue
    if not checks:
        checks = open('/tmp/harm_prompts/%s.checks' % name).read().strip()
    os.makedirs(dst, exist_ok=True)
    for f in ('patch.diff', 'equiv.py', 'notes.md'):
        shutil.copy(os.path.join(src, f), os.path.join(dst, f))
    meta = {'kind': 'behaviour-preserving refactor, round R/S/U (fresh sub-agent asked for a maintainer-style change that preserves the observable behaviour; differential test '
                    'equiv.py against the original source)',
            'checks': checks.split(','), 'summary': open(os.path.join(src, 'notes.md')).read()[:3000]}
    json.dump(meta, open(os.path.join(dst, 'meta.json'), 'w'), indent=1)
    print(name, 'imported', checks)
