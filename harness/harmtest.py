#!/venv/bin/python
"""
Run registered checks against a BEHAVIOUR-PRESERVING refactor kept under /verif/harmless/<name>/ (patch.diff, equiv.py, notes.md, meta.json):
the property still holds, so every check should stay quiet (exit 0).  usage: harness/harmtest.py <name> [--checks C01,C14]
The patch is applied to /repo with `git apply`, the checks run, and the patch is undone straight afterwards.
Writes /verif/harmless/<name>/result.json.
"""
import sys, os, json, subprocess, time, argparse
VERIF = os.path.dirname(os.path.dirname(os.path.abspath(__file__)))
REPO = os.environ.get('SEED_REPO', '/repo')
PYTEST = ['/venv/bin/python', '-m', 'pytest', '-q', '-p', 'no:cacheprovider', '--timeout=900', '-x']


def sh(cmd, cwd=None, env=None, timeout=7200):
    p = subprocess.run(cmd, cwd=cwd, env=env, stdout=subprocess.PIPE, stderr=subprocess.STDOUT, text=True, timeout=timeout)
    return p.returncode, p.stdout


def main():
    ap = argparse.ArgumentParser()
    ap.add_argument('name')
    ap.add_argument('--checks')
    a = ap.parse_args()
    d = os.path.join(VERIF, 'harmless', a.name)
    meta = json.load(open(os.path.join(d, 'meta.json')))
    checks = a.checks.split(',') if a.checks else meta['checks']
    env = dict(os.environ, PYTHONPATH=REPO, PYTHONWARNINGS='ignore')
    rc, out = sh(['git', '-C', REPO, 'status', '--porcelain'])
    if out.strip():
        print('refusing: /repo is not clean:\n' + out)
        return 2
    res = {'name': a.name, 'checks': {}}
    try:
        rc, out = sh(['git', '-C', REPO, 'apply', os.path.join(d, 'patch.diff')])
        if rc != 0:
            print('patch does not apply:\n' + out)
            return 2
        rc1, o1 = sh(PYTEST, cwd=REPO, env=env, timeout=1800)
        res['pytest_rc'], res['pytest_tail'] = rc1, o1.strip().split('\n')[-1]
        for c in checks:
            t0 = time.time()
            rc, out = sh([os.path.join(VERIF, 'bin', 'check'), c, '--tier', 'quick'], cwd=VERIF,
                         env=dict(os.environ, VERIF_SEED=os.environ.get('VERIF_SEED', '0'), XFAB_REPO=REPO, VERIF_EVIDENCE_DIR='/tmp/harm_evidence'))
            lines = [l for l in out.split('\n') if l.startswith('VIOLATION') or l.startswith('INFRA') or l.startswith('  broken') or l.startswith('  {')
                     or l.startswith('pins changed') or l.startswith('unexercised')]
            res['checks'][c] = {'rc': rc, 'wall_s': round(time.time() - t0, 1), 'lines': [l[:500] for l in lines[:8]]}
            print('%s on %s: rc=%d %.0fs %s' % (c, a.name, rc, time.time() - t0, ' | '.join(lines[:3])[:300]))
    finally:
        sh(['git', '-C', REPO, 'checkout', '--', '.'])
        # the checks regenerated lean/XfabVerif/Gen from the changed tree: put the model of the reviewed tree back
        sh(['/venv/bin/python', '-c', 'import sys; sys.path.insert(0, %r); import check; [check.restore_generated(g) for g in check.GEN_FILES]'
            % os.path.join(VERIF, 'harness')], env=dict(os.environ, PYTHONPATH=REPO, PYTHONWARNINGS='ignore'))
        rc, out = sh(['git', '-C', REPO, 'status', '--porcelain'])
        if out.strip():
            print('WARNING: /repo not clean after undo:\n' + out)
    json.dump(res, open(os.path.join(d, 'result.json'), 'w'), indent=1)
    quiet = all(v['rc'] == 0 for v in res['checks'].values())
    print('HARMLESS %s: %s' % (a.name, 'QUIET' if quiet else 'ALARM by ' + ','.join(k for k, v in res['checks'].items() if v['rc'] != 0)))
    return 0


if __name__ == '__main__':
    sys.exit(main())
