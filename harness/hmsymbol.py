"""
Independent reading of a Hermann-Mauguin space-group symbol (the keys of xfab.sg.sgdic) against a set of operations.

`xfab.sg.sg(sgname=...)` resolves a name through the dictionary sgdic.  Property C04 says "lookup by any accepted name and by number
give the same group": the dictionary itself cannot be the judge of which group a NAME means.  The judge here is the symbol: a
Hermann-Mauguin symbol is a lattice letter followed by one symmetry element per symmetry direction of the crystal system
(International Tables A, section 2.2.4), and each element is a statement about the operations that can be decided exactly:

    N, N_k     a rotation by +360/N degrees about the direction with screw component k/N of the shortest lattice vector along it
    -N         a rotoinversion of order N about the direction
    m a b c    a reflection whose plane is perpendicular to the direction, with glide vector 0, a/2, b/2, c/2
    n d e      ... with a diagonal glide (half a face/body diagonal), a quarter diagonal, two axial glides at once
    X/y        both;   1   no element along the direction

`consistent(key, ops, system, setting)` parses the key (all tokenisations, '21' vs '2 1') and tests every element on the operations
`ops = [(R, t)]` (integer matrices, Fraction translations; x' = R x + t) in exact rational arithmetic.  It is a NECESSARY condition for
the name to denote the group (a few pairs of groups share all their elements and differ only in where they sit: I222 / I212121,
I23 / I213 -- `ambiguous_with` lists what else a key is consistent with, measured on the reviewed tables, and the check uses it as the
set of admissible targets).
"""
from fractions import Fraction as Fr
import itertools

I3 = ((1, 0, 0), (0, 1, 0), (0, 0, 1))
LAST_READING = {}          # the tokenisation / directions of the last successful `consistent` call (used by gen_names.py)


def mat_mul(A, B):
    return tuple(tuple(sum(A[i][k] * B[k][j] for k in range(3)) for j in range(3)) for i in range(3))


def mat_vec(A, v):
    return tuple(sum(A[i][k] * v[k] for k in range(3)) for i in range(3))


def det3(A):
    return (A[0][0] * (A[1][1] * A[2][2] - A[1][2] * A[2][1]) - A[0][1] * (A[1][0] * A[2][2] - A[1][2] * A[2][0])
            + A[0][2] * (A[1][0] * A[2][1] - A[1][1] * A[2][0]))


def neg(A):
    return tuple(tuple(-x for x in r) for r in A)


def order(R):
    P = R
    for k in range(1, 7):
        if P == I3:
            return k
        P = mat_mul(P, R)
    return None


def mod1(v):
    return tuple(x - (x.numerator // x.denominator) for x in map(Fr, v))


CENTRING = {
    'p': [(0, 0, 0)],
    'a': [(0, 0, 0), (0, Fr(1, 2), Fr(1, 2))],
    'b': [(0, 0, 0), (Fr(1, 2), 0, Fr(1, 2))],
    'c': [(0, 0, 0), (Fr(1, 2), Fr(1, 2), 0)],
    'i': [(0, 0, 0), (Fr(1, 2), Fr(1, 2), Fr(1, 2))],
    'f': [(0, 0, 0), (0, Fr(1, 2), Fr(1, 2)), (Fr(1, 2), 0, Fr(1, 2)), (Fr(1, 2), Fr(1, 2), 0)],
    'r': [(0, 0, 0), (Fr(2, 3), Fr(1, 3), Fr(1, 3)), (Fr(1, 3), Fr(2, 3), Fr(2, 3))],
}

DIRECTIONS = {
    'triclinic': [[(0, 0, 1)]],
    'monoclinic3': [[(1, 0, 0)], [(0, 1, 0)], [(0, 0, 1)]],
    'monoclinic1': [[(0, 1, 0), (0, 0, 1), (1, 0, 0)]],
    'orthorhombic': [[(1, 0, 0)], [(0, 1, 0)], [(0, 0, 1)]],
    'tetragonal': [[(0, 0, 1)], [(1, 0, 0), (0, 1, 0)], [(1, -1, 0), (1, 1, 0)]],
    'hexagonal': [[(0, 0, 1)], [(1, 0, 0), (0, 1, 0), (1, 1, 0)], [(1, -1, 0), (1, 2, 0), (2, 1, 0)]],
    'rhombohedral': [[(1, 1, 1)], [(1, -1, 0), (0, 1, -1), (-1, 0, 1)]],
    'cubic': [[(1, 0, 0), (0, 1, 0), (0, 0, 1)], [(1, 1, 1), (1, -1, -1), (-1, 1, -1), (-1, -1, 1)],
              [(1, -1, 0), (1, 1, 0), (0, 1, -1), (0, 1, 1), (-1, 0, 1), (1, 0, 1)]],
}


def tokenise(s):
    """all ways of cutting the symbol body into elements; an element is ('rot', N, k, mirror|None), ('inv', N), ('mir', letter)"""
    out = []

    def rec(i, acc):
        if i == len(s):
            out.append(list(acc))
            return
        ch = s[i]
        if ch == '-' and i + 1 < len(s) and s[i + 1] in '1346':
            N = int(s[i + 1])
            j = i + 2
            if j + 1 < len(s) and s[j] == '/' and s[j + 1] in 'mabcnde':          # -N/m does not occur, kept for completeness
                rec(j + 2, acc + [('inv', N, s[j + 1])])
            rec(j, acc + [('inv', N, None)])
            return
        if ch in '12346':
            N = int(ch)
            opts = [(i + 1, 0)]
            if i + 1 < len(s) and s[i + 1].isdigit() and 1 <= int(s[i + 1]) < N:
                opts.append((i + 2, int(s[i + 1])))
            for j, k in opts:
                if j + 1 < len(s) and s[j] == '/' and s[j + 1] in 'mabcnde':
                    rec(j + 2, acc + [('rot', N, k, s[j + 1])])
                rec(j, acc + [('rot', N, k, None)])
            return
        if ch in 'mabcnde':
            rec(i + 1, acc + [('mir', ch)])
            return
        # anything else: not a symbol
    rec(0, [])
    return out


class Group:
    def __init__(self, ops):
        self.ops = [(tuple(tuple(int(x) for x in r) for r in R), tuple(Fr(x).limit_denominator(48) for x in t)) for R, t in ops]
        self.cent = sorted(set(mod1(t) for R, t in self.ops if R == I3))
        self.lat = [tuple(a + b for a, b in zip(l, c)) for l in itertools.product((-2, -1, 0, 1, 2), repeat=3) for c in self.cent]
        self.witness = set()
        self.screw_exception = False
        self.point_group = set(R for R, t in self.ops)

    def is_lattice(self, v):
        return mod1(v) in set(self.cent)

    def mu(self, d):
        """smallest positive mu with mu*d a lattice vector"""
        for m in (Fr(1, 6), Fr(1, 4), Fr(1, 3), Fr(1, 2)):
            if self.is_lattice(tuple(m * x for x in d)):
                return m
        return Fr(1)

    def has_rotation(self, d, N, k):
        if N == 1:
            return True
        mu = self.mu(d)
        for R, t in self.ops:
            if det3(R) != 1 or order(R) != N or mat_vec(R, d) != tuple(d):
                continue
            if N > 2:
                v = next(e for e in ((1, 0, 0), (0, 1, 0), (0, 0, 1)) if _cross(d, e) != (0, 0, 0))
                if det3(tuple(zip(d, v, mat_vec(R, v)))) <= 0:        # columns d, v, Rv: positive for a rotation by +360/N about d
                    continue
            # projector on the axis
            P, Q = I3, I3
            S = [[Fr(0)] * 3 for _ in range(3)]
            for _ in range(N):
                for i in range(3):
                    for j in range(3):
                        S[i][j] += Q[i][j]
                Q = mat_mul(Q, R)
            S = tuple(tuple(x / N for x in r) for r in S)
            i0 = next(i for i in range(3) if d[i] != 0)
            for l in self.lat:
                w = mat_vec(S, tuple(a + b for a, b in zip(t, l)))
                lam = w[i0] / d[i0]
                if any(w[i] != lam * d[i] for i in range(3)):
                    continue
                frac = (lam / mu)
                frac = frac - (frac.numerator // frac.denominator)
                if frac == Fr(k, N):
                    self.witness.add(R)
                    return True
        return False

    def has_rotoinversion(self, d, N):
        for R, t in self.ops:
            if det3(R) != -1:
                continue
            M = neg(R)
            if N == 1:
                if M == I3:
                    self.witness.add(R)
                    return True
                continue
            if order(M) == N and mat_vec(M, d) == tuple(d):
                self.witness.add(R)
                return True
        return False

    def glides(self, d):
        """glide vectors of all reflections whose plane is perpendicular to d (over the lattice translations enumerated)"""
        G = set()
        for R, t in self.ops:
            if det3(R) != -1:
                continue
            M = neg(R)
            if order(M) != 2 or mat_vec(M, d) != tuple(d):
                continue
            for l in self.lat:
                u = tuple(a + b for a, b in zip(t, l))
                Ru = mat_vec(R, u)
                G.add(tuple((a + b) / 2 for a, b in zip(u, Ru)))
        return G

    def has_mirror(self, d, letter):
        ok = self._has_mirror(d, letter)
        if ok:
            for R, t in self.ops:
                if det3(R) == -1 and order(neg(R)) == 2 and mat_vec(neg(R), d) == tuple(d):
                    self.witness.add(R)
        return ok

    def _has_mirror(self, d, letter):
        G = self.glides(d)
        if not G:
            return False
        h = Fr(1, 2)
        axial = {'a': (h, 0, 0), 'b': (0, h, 0), 'c': (0, 0, h)}
        if letter == 'm':
            return (0, 0, 0) in G
        if letter in axial:
            return axial[letter] in G
        if letter == 'e':
            return sum(1 for v in axial.values() if v in G) >= 2
        if letter == 'n':
            # half a face diagonal for a plane perpendicular to an axis, half the body diagonal for a diagonal plane (tetragonal, cubic)
            want = 2 if sum(1 for x in d if x != 0) == 1 else 3
            return any(all((2 * x).denominator == 1 and abs(2 * x) <= 1 for x in g) and sum(1 for x in g if x != 0) == want for g in G)
        if letter == 'd':
            return any(all((4 * x).denominator == 1 for x in g) and sum(1 for x in g if (4 * x) % 2 == 1) >= 2 for g in G)
        return False

    def twofold_axes_intersect(self):
        """do a two-fold rotation axis along a and one along b (pure rotations, any lattice translate) meet in a point?
        (tells I222 from I212121 and I23 from I213, whose symbols name the same elements)"""
        Ra, Rb = ((1, 0, 0), (0, -1, 0), (0, 0, -1)), ((-1, 0, 0), (0, 1, 0), (0, 0, -1))
        za, zb = set(), set()
        for R, t in self.ops:
            if R not in (Ra, Rb):
                continue
            for l in self.lat:
                u = tuple(a + b for a, b in zip(t, l))
                if R == Ra and u[0] == 0:
                    za.add(u[2] / 2)          # the axis is the line y = u_y/2, z = u_z/2
                if R == Rb and u[1] == 0:
                    zb.add(u[2] / 2)          # ... x = u_x/2, z = u_z/2
        return bool(za & zb)

    def has_any_element(self, d):
        for R, t in self.ops:
            M = R if det3(R) == 1 else neg(R)
            if M != I3 and mat_vec(M, d) == tuple(d):
                return True
        return False


def _cross(a, b):
    return (a[1] * b[2] - a[2] * b[1], a[2] * b[0] - a[0] * b[2], a[0] * b[1] - a[1] * b[0])


def element_holds(g, D, tok):
    """the element is among the operations for some direction of the class D; the rotation parts of the operations that show it (for
    every direction of the class) are collected in g.witness"""
    if tok[0] == 'rot':
        _, N, k, mir = tok
        if N == 1 and mir is None:
            return not any(g.has_any_element(d) for d in D)
        if k and not g.screw_exception and any(g.has_rotation(d, N, 0) for d in D):
            return False        # a symbol names the rotation axis, not the screw axis, when both run along the direction (ITA 2.2.4)
        return any([g.has_rotation(d, N, k) and (mir is None or g.has_mirror(d, mir)) for d in D])
    if tok[0] == 'inv':
        return any([g.has_rotoinversion(d, tok[1]) for d in D])
    if tok[0] == 'mir':
        return any([g.has_mirror(d, tok[1]) for d in D])
    return False


def generated(mats):
    S = {I3} | set(mats)
    while True:
        new = set(mat_mul(a, b) for a in S for b in S) - S
        if not new or len(S) > 48:
            return S
        S |= new


def direction_scheme(system, lattice, ntok, rhombohedral_axes):
    if system == 'triclinic':
        return ['triclinic'] if ntok == 1 else []
    if system == 'monoclinic':
        return {1: ['monoclinic1'], 3: ['monoclinic3']}.get(ntok, [])
    if system == 'orthorhombic':
        return ['orthorhombic'] if ntok == 3 else []
    if system == 'tetragonal':
        return ['tetragonal'] if ntok in (1, 3) else []
    if system in ('trigonal', 'hexagonal'):
        if lattice == 'r':
            if ntok not in (1, 2):
                return []
            return ['rhombohedral'] if rhombohedral_axes else ['hexagonal']
        return ['hexagonal'] if ntok in (1, 3) else []
    if system == 'cubic':
        return ['cubic'] if ntok in (2, 3) else []
    return []


def system_of(toks):
    """the crystal system a symbol belongs to, from its own elements"""
    def N(t):
        return t[1] if t[0] in ('rot', 'inv') else 2
    if len(toks) >= 2 and toks[1][0] in ('rot', 'inv') and toks[1][1] == 3:
        # two-element cubic symbols (23, m-3) start with an element of order 2; with a four-fold axis the symbol has three elements
        return ['cubic'] if (len(toks) == 3 or N(toks[0]) == 2) else []
    n1 = N(toks[0])
    if n1 == 4:
        return ['tetragonal']
    if n1 == 6:
        return ['hexagonal']
    if n1 == 3:
        return ['trigonal']
    ones = sum(1 for t in toks if t[0] == 'rot' and t[1] == 1 and t[3] is None)
    if len(toks) == 1:
        return ['triclinic'] if (toks[0][0] in ('rot', 'inv') and toks[0][1] == 1 and toks[0][-1] is None) else ['monoclinic']
    if len(toks) == 3:
        return ['monoclinic'] if ones == 2 else (['orthorhombic'] if ones == 0 else [])
    return []


def consistent(key, ops, system, rhombohedral_axes=False):
    """(True, tokenisation) when some reading of the key is satisfied by the operations, else (False, reason)"""
    k = ''.join(key.split()).lower()
    if not k or k[0] not in CENTRING:
        return False, 'no lattice letter'
    lattice, body = k[0], k[1:]
    if lattice == 'r' and body[-1:] in ('h', 'r') and len(body) > 1:
        body = body[:-1]
    g = Group(ops)
    # the two conventional exceptions to the priority of rotation over screw axes: I212121 and I213 (named to tell them from I222, I23)
    g.screw_exception = (lattice == 'i' and body in ('212121', '213'))
    want = [(0, 0, 0)] if (lattice == 'r' and rhombohedral_axes) else [tuple(map(Fr, c)) for c in CENTRING[lattice]]
    if sorted(g.cent) != sorted(mod1(c) for c in want):
        return False, 'lattice letter %s but centring translations %s' % (lattice.upper(), [tuple(str(x) for x in c) for c in g.cent])
    reasons = []
    for toks in tokenise(body):
        if system not in system_of(toks):
            reasons.append('read as %s the symbol belongs to the %s system, the group is %s' % ([show(t) for t in toks], system_of(toks), system))
            continue
        for scheme in direction_scheme(system, lattice, len(toks), rhombohedral_axes):
            dirs = DIRECTIONS[scheme]
            if system == 'cubic' and toks[1] not in (('rot', 3, 0, None), ('inv', 3, None)):
                continue
            bad = None
            g.witness = set()
            for pos, tok in enumerate(toks):
                if pos >= len(dirs):
                    bad = 'too many elements'
                    break
                if not element_holds(g, dirs[pos], tok):
                    bad = 'element %s (position %d, directions %s) is not among the operations' % (show(tok), pos + 1, dirs[pos])
                    break
            if bad is None:
                # the elements named must GENERATE the point group: otherwise the operations form a larger group that merely contains
                # the named one (P2 names a subgroup of P2/m)
                ng = len(generated(g.witness))
                if ng != len(g.point_group):
                    bad = 'the named elements generate a point group of order %d, the operations have %d rotation parts' % (ng, len(g.point_group))
            if bad is None and lattice == 'i' and body in ('222', '23', '212121', '213'):
                if g.twofold_axes_intersect() != (body in ('222', '23')):
                    bad = 'the two-fold axes along a and b %s, the symbol %s says otherwise' % (
                        'intersect' if g.twofold_axes_intersect() else 'do not intersect', key)
            if bad is None:
                LAST_READING.clear()
                LAST_READING.update({'lattice': lattice, 'tokens': list(toks), 'directions': [list(dirs[i]) for i in range(len(toks))],
                                     'rhombohedral_axes': bool(lattice == 'r' and rhombohedral_axes)})
                return True, [show(t) for t in toks]
            reasons.append(bad)
    return False, reasons[0] if reasons else 'the symbol cannot be read as %s' % system


def show(tok):
    if tok[0] == 'rot':
        return '%d%s%s' % (tok[1], ('_%d' % tok[2]) if tok[2] else '', ('/' + tok[3]) if tok[3] else '')
    if tok[0] == 'inv':
        return '-%d' % tok[1]
    return tok[1]


def ops_of(o):
    """(R, t) pairs of a space-group object (rot, trans, nsymop)"""
    out = []
    for i in range(int(o.nsymop)):
        R = tuple(tuple(int(round(float(x))) for x in r) for r in o.rot[i])
        t = tuple(Fr(float(x)).limit_denominator(48) for x in o.trans[i])
        out.append((R, t))
    return out
