#!/usr/bin/env python3
"""Writes /verif/MANIFEST.json from the table below (run after adding/removing a property module)."""
import json, os

VERIF = os.path.dirname(os.path.dirname(os.path.abspath(__file__)))

COMMON_NOTE = ("Trusted: Lean 4.33 kernel; axioms propext/Classical.choice/Quot.sound only (audited per obligation, no native_decide, no sorry); "
               "Mathlib definitions; the translators (symbolic tracer / table exporter), validated each run by executing the generated Float/Int twin "
               "against the implementation; numpy primitives modelled over the reals (rounding not modelled). ")

TR = "Lean 4 theorems over ℝ about the traced model (regenerated from the Python source each run by the symbolic tracer) + Float-twin correspondence"
P = {
 'C01': dict(tech=TR,
             text="Machine-checked proofs, for every valid cell and every (real) hkl, that the traced form_a_mat/form_b_mat/cell_volume/sintl/cell_invert/a_to_cell/b_to_cell of both modules satisfy the metric identities and inverse laws; the model is re-traced from /repo on every run and its Float twin is run against the implementation.",
             note="IEEE rounding not modelled.", ref="DESIGN.md §6 C01"),
 'C02': dict(tech=TR + "; QR step as a parameter with the numpy.linalg.qr contract as hypothesis",
             text="Theorems for every proper rotation and valid cell: UBI·(U·B·h)=k'h, ubi_to_cell/ubi_to_u/ubi_to_u_b invert u_to_ubi; for ub_to_u_b: for ANY (Q,R) meeting the QR contract the code's sign normalisation yields the unique (rotation, upper-triangular positive) factorisation (existence + uniqueness proved).",
             note="numpy.linalg.qr is modelled by its contract (QᵀQ=I, R upper triangular, QR=M), asserted on every correspondence case; a Gram–Schmidt Float model + the exact normalisation is compared with the implementation.", ref="DESIGN.md §6 C02"),
 'C03': dict(tech=TR,
             text="Theorems for all real arguments: every constructor equals the documented composition and is a proper rotation; Rodrigues axis/angle reading; u_to_rod/rod_to_u mutual inverses for every proper rotation; u_to_euler never raises on a proper rotation, returns angles in range and rebuilds the matrix within 1e-6 (exact off the zeroing zones), including at and near gimbal lock.",
             note="partial w.r.t. rounding: arccos near ±1 and the 1e-8 thresholds are decided in exact real arithmetic; the oracle checks the 1e-6 bound on the implementation.", ref="DESIGN.md §6 C03"),
 'C04': dict(tech="Lean 4: kernel-decided certificate check per exported table (decide +kernel) lifted to all pairs by a proved soundness theorem; hand model of the name lookup with correspondence",
             text="For each of the 237 exported settings the kernel evaluates a Boolean check (identity, no duplicates, products with generators, spanning tree, inverses, nuniq/centring bookkeeping, Laue order, metric preservation) and Lemmas/SgSound proves that it implies closure of ALL pairs, inverses, nodup; metric preservation is lifted to every conforming real cell; all 244 names resolve (kernel-decided) and lookup factors through normalisation.",
             note="translations snapped to 24ths (each decimal proved within 5e-7); Laue class checked by order + compatibility + metric preservation; certificates untrusted (re-checked).", ref="DESIGN.md §6 C04"),
 'C05': dict(tech="Lean 4 theorems about an executable model of genhkl_base/genhkl_all (sysabs translated from the AST, segment tables and space-group tables exported, per-setting proofs generated) + line-protocol correspondence on all Laue variants",
             text="sysabs/sysabs_unique are translated from the Python AST into Lean Int functions; the traversal and orbit expansion are hand-modelled over exact rationals and tied to the code by correspondence (the model reproduces the code incl. its traversal defect). Proved for ALL 237 settings, ALL integer hkl, every conforming metric, shell and (sufficient) fuel: sysabs = 0 iff no operator of the group extinguishes hkl on the traversed cones (T5.1); the loops visit exactly the cone points whose path stays inside the scaled shell and terminate for positive-definite forms (T5.3); the cones are a transversal of the Laue orbits (T5.4); extinction and the metric are invariant under the Laue group; hence genhkl_all returns no extra row (unconditionally), no repeated row, and exactly the allowed reflections of the shell whenever PathClosed holds (proved for orthogonal metrics in 8 Laue classes and for every hexagonal-axes cell); hexagonal and rhombohedral settings of the 7 R groups give the same reflections under the obverse transformation.",
             note="PARTIAL in one respect only: 'none missing' needs PathClosed, which is FALSE for oblique triclinic/monoclinic and rhombohedral metrics (known finding C05-D2; proved as genhkl_all_incomplete_example about the model and reproduced on the code at every run). numpy's RNG in the de-duplication is a generic-weights hypothesis.", ref="DESIGN.md §6 C05, §11.3"),
 'C06': dict(tech="as C05",
             text="Proved about the model tied to the code by correspondence: rows sorted by non-decreasing stl, 4th column = stl of the row, min exclusive / max inclusive, integrality; two rows of genhkl_unique that are Laue-equivalent are the same row (all 237 settings); under PathClosed genhkl_unique holds exactly one member of every allowed family in the shell and nothing else (genhkl_unique_exact); genhkl_all = union of the families of genhkl_unique rows.",
             note="'every family has a representative' needs PathClosed (false for oblique cells: known finding C06-D2, same traversal defect as C05-D2).", ref="DESIGN.md §6 C06, §11.3"),
 'C07': dict(tech=TR + "; outer double sum hand-modelled over the exported tables",
             text="The per-(atom,operation) summand of StructureFactor is traced from the source; the transformation law F(hR)=F(h)exp(-2πi h·t), Friedel and extinction corollaries are theorems about the sum over any operation list that is a group modulo the lattice, instantiated for all 237 tables; with the 6-digit tabulated translations the code actually uses, the law holds to 2π·5e-7·(|h|₁+|hR|₁)·Σ|summand| (sf_transform_tabulated_tables), which is the tolerance of the search oracle.",
             note="IEEE rounding not modelled.", ref="DESIGN.md §6 C07, §11.3"),
 'C08': dict(tech="as C07",
             text="Theorems: StructureFactor equals the direct sum over the operations for general positions, lattice-shift invariance, linearity in occupancy, F(000) with zero ADP; the direct P1-expansion oracle with exact orbits runs on the implementation.",
             note="see evidence.obligation_names for _partial items (special positions / isotropic-equivalent Uani may be partial).", ref="DESIGN.md §6 C08"),
 'C09': dict(tech=TR,
             text="Soundness of each returned (omega, eta) under the module's own rotation matrix, omega in (-π,π], completeness (two solutions iff reachable, none otherwise), agreement of the solvers where tilts coincide, and tth/tth2 relations — theorems for all g, 2θ, tilts under explicit non-degeneracy guards; both modules.",
             note="guards: a²+b²≠0, sin2θ≠0, g≠0 (measure-zero exclusions, stated in the theorems); the tangent case d=0 of find_omega is recorded as plain_tangent_gap.", ref="DESIGN.md §6 C09"),
 'C10': dict(tech=TR,
             text="det_coor = det_coor2 on the same ray, the pixel maps back (detector_to_lab) onto the ray through the grain position for every orthonormal tilt matrix, pixel sizes ≠ 0 and non-grazing geometry; detect_tilt is a proper rotation.",
             note="rounding not modelled.", ref="DESIGN.md §6 C10"),
 'C11': dict(tech="Lean 4 theorems about a hand model of the image flips (all shapes) tied by correspondence + theorems over ℝ about the traced coordinate maps",
             text="valid_iff (exactly 8 of 81 matrices accepted by each function), inverse-mode round trips for every shape and image, pixel-map agreement with the integer closed forms, cast lemmas tying the integer model to the traced ℝ maps, mutual inverses and closed forms of xy_to_detyz/detyz_to_xy, eta/radius inverses.",
             note="trans_orientation/image_flipping are hand-modelled (numpy transpose/flip as index maps) and tied by an exhaustive small-shape correspondence.", ref="DESIGN.md §6 C11"),
 'C12': dict(tech="Lean 4: exported exact tables in ℤ[√3] with kernel-decided group checks lifted to ℝ; Umis hand-modelled",
             text="Per crystal system: permutations and rotations are groups of the stated order (integer unimodular resp. proper), ROTATIONS = rotations, pairing rot[i]·B·perm[i]=B for every conforming cell with the traced form_b_mat; Umis formula, range, and multiset invariances proved for any finite matrix group of rotations.",
             note="rotations(5/6) are exported by snapping floats to ℚ(√3) within 1e-12; Umis is a hand model tied by correspondence.", ref="DESIGN.md §6 C12"),
 'C13': dict(tech=TR,
             text="epsilon_to_b/b_to_epsilon (and the _old pair) are mutual inverses for every upper-triangular positive B0 and strains with 1+ε_ii≠0, zero strain, definition of the strain, and ubi_to_u_and_eps returns (U, ε) in laue; for tools the exact wrong value 2π(ε+I)−I is proved (known finding) with a concrete witness.",
             note="known finding C13-TOOLS-UBI (pinned by an upstream test).", ref="DESIGN.md §6 C13"),
 'C14': dict(tech="Lean 4: rfl-equalities / scale laws between the traced Tools.* and Laue.* models, kernel-checked equality of exported AST hashes for the untraced identical functions",
             text="Each of the 41 shared functions is covered by a Lean equality of the two traced models, a 2π scale law, or (31 syntactically identical definitions) equality of normalised ASTs exported on every run; completeness of the coverage list is decided in Lean.",
             note="AST identity is decided by the exporter and compared in Lean through SHA-256 values; ubi_to_u_b is covered by the runtime comparison only; known finding C14-TOOLS-UBI.", ref="DESIGN.md §6 C14"),
 'C15': dict(tech="Lean 4 theorems about an exact rational hand model of multiplicity over the exported tables + exhaustive grid correspondence",
             text="multiplicity = number of distinct images modulo the lattice (the scan is a de-duplication), bounds, lattice-shift invariance, orbit–stabiliser count·|stab| = |G| for any operation list that is a group, and soundness of the float tolerance test.",
             note="hand model tied by correspondence (exhaustive 12³ grid × 237 settings in the thorough tier).", ref="DESIGN.md §6 C15"),
 'C16': dict(tech="Lean 4: generic analytic lemmas about the traced FormFactor + one generated norm_num obligation per table row",
             text="For each of the 94 rows a kernel-checked theorem (generated from the literal table) gives |f(0)-Z|<=0.1, f>0 on [0,2] and strict decrease on [0,inf) for all real s, through lemmas proved once about the traced FormFactor; no grid.",
             note="atomic numbers are the exporter's list; exp modelled by Real.exp.", ref="DESIGN.md §6 C16"),
 'C17': dict(tech="Lean 4 theorems about a hand model of CIFread/PDBread field extraction + correspondence through real files and PyCifRW",
             text="Field-by-field extraction theorems (cell, symbol, labels, positions, adp kinds and order, occupancy default, multiplicity precedence, dispersion, block choice, PDB column slices, SCALE), remove_esd, and kernel-checked resolution of all 230 PDB symbol spellings to the intended group.",
             note="PyCifRW's grammar, float(str) and the computed multiplicity are parameters of the model.", ref="DESIGN.md §6 C17"),
 'C18': dict(tech="Lean 4 theorems over ℝ (traced form_a_mat/a_to_cell) + exact hand model of the vector selection tied by correspondence",
             text="Metric/volume of a cell built from an integer change of basis, unimodular ⇒ same lattice, exact description of what the code returns (Gram of the row-stacked matrix), volume preservation, a proved negation of the property on a concrete witness (known finding), and soundness of the selection model.",
             note="known finding C18-ROWS (pinned by an upstream test); that successive minima form a basis is not proved (computed per input).", ref="DESIGN.md §6 C18"),
 'C19': dict(tech="Lean 4 refinement proof of a hand model of parameters (state machine) to a plain map spec, by induction over call histories + correspondence on random histories",
             text="refines_dict (every history agrees with the abstract map), varied_follow_varylist, save/load round trip under the repr round-trip hypothesis, load coercion and line handling — for all histories, no length bound.",
             note="float(str)/repr are parameters (tokens); ASCII only.", ref="DESIGN.md §6 C19"),
 'C20': dict(tech="Lean 4: induction over assignment histories for the switch model, kernel-decided guard-site table extracted from the AST, theorems over ℝ about the traced check functions",
             text="switch_last_valid for every history; every listed API carries the required guard and the switch is used nowhere else (exported table); accept/reject characterisations incl. acceptance of every rotation perturbed entrywise by ≤1e-7 and rejection of clear violations.",
             note="__debug__ modelled as true; an arbitrary 1e-3..1 perturbation can produce another rotation, so rejection is proved for specific shapes.", ref="DESIGN.md §6 C20"),
}

PENDING_REASON = "check under construction in this round (model and theorems not yet registered); see DESIGN.md §6"


def main():
    props = [json.loads(l) for l in open(os.path.join(VERIF, 'properties.jsonl'))]
    checks, na = [], []
    for p in props:
        pid = p['id']
        mod = os.path.join(VERIF, 'harness', 'props', pid.lower() + '.py')
        if pid in P and os.path.exists(mod):
            d = P[pid]
            checks.append({
                'property_id': pid,
                'quick_cmd': 'bin/check %s --tier quick' % pid,
                'thorough_cmd': 'bin/check %s --tier thorough' % pid,
                'evidence_file': 'evidence/%s.json' % pid,
                'replay_cmd_template': 'bin/check %s --replay {path}' % pid,
                'engine': 'lean4-proof',
                'level_claimed': {'category': 'proof', 'text': d['text'], 'design_ref': d['ref']},
                'level_note': COMMON_NOTE + d['note'],
                'technique': d['tech'],
            })
        else:
            na.append({'property_id': pid, 'reason': PENDING_REASON})
    m = {
        'version': 1,
        'setup_cmd': 'bin/setup',
        'hooks': {'guard': 'FABLE_3DXRD_XFAB_VERIF', 'enable': 'export FABLE_3DXRD_XFAB_VERIF=1 (no source hooks are needed: every observation is a return value or an exception)',
                  'baseline_off_cmd': 'cd /repo && /venv/bin/python -m pytest -ra -q -p no:cacheprovider --timeout=900 --continue-on-collection-errors',
                  'source_commits': [], 'add_only': True},
        'engines': [{'name': 'lean4-proof', 'path': 'lean/', 'serves_properties': [c['property_id'] for c in checks],
                     'kind_free_text': 'Lean 4 + Mathlib theorems about a model regenerated from /repo (symbolic tracer, table exporter) or hand-written and tied by a line-protocol correspondence; bin/check drives regenerate -> lake build -> axiom audit -> correspondence -> failing-input search'}],
        'checks': checks,
        'not_applicable': na,
        'notes': 'See DESIGN.md. known_findings.json lists genuine defects that are recorded rather than repaired; fix: commits in /repo repair the others.',
    }
    json.dump(m, open(os.path.join(VERIF, 'MANIFEST.json'), 'w'), indent=1)
    print('MANIFEST: %d checks, %d not_applicable' % (len(checks), len(na)))


if __name__ == '__main__':
    main()
