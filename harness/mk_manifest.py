#!/usr/bin/env python3
"""Writes /verif/MANIFEST.json from the table below (run after adding/removing a property module)."""
import json, os

VERIF = os.path.dirname(os.path.dirname(os.path.abspath(__file__)))

COMMON_NOTE = ("Trusted: Lean 4.33 kernel; axioms propext/Classical.choice/Quot.sound only (audited per obligation, no native_decide, no sorry); "
               "Mathlib definitions; the translators (symbolic tracer / table exporter), validated each run by executing the generated Float/Int twin "
               "against the implementation; numpy primitives modelled over the reals (rounding not modelled). ")

P = {
 'C01': dict(tech="Lean 4 theorems over ℝ about the traced model of tools/laue (regenerated from source each run) + Float-twin correspondence",
             text="Machine-checked proofs, for every valid cell and every hkl, that the traced form_a_mat/form_b_mat/cell_volume/sintl/cell_invert/a_to_cell/b_to_cell of both modules satisfy the metric identities; the model is re-traced from /repo on every run and its Float twin is run against the implementation.",
             note="partial where a theorem is named _partial (see evidence.obligation_names); IEEE rounding not modelled.", ref="DESIGN.md §6 C01"),
 'C16': dict(tech="Lean 4: generic analytic lemmas about the traced FormFactor + one generated norm_num obligation per table row",
             text="For each of the 94 rows a kernel-checked theorem (generated from the literal table) gives |f(0)-Z|<=0.1, f>0 on [0,2] and strict decrease on [0,inf) for all real s, through lemmas proved once about the traced FormFactor; no grid.",
             note="atomic numbers are the exporter's list; exp modelled by Real.exp.", ref="DESIGN.md §6 C16"),
}

PENDING_REASON = "check under construction in this round (model and theorems not yet registered); see DESIGN.md §6"


def main():
    props = [json.loads(l) for l in open(os.path.join(VERIF, 'properties.jsonl'))]
    checks, na = [], []
    for p in props:
        pid = p['id']
        mod = os.path.join(VERIF, 'harness', 'props', pid.lower() + '.py')
        if pid in P and os.path.exists(mod):
            d = P[pid]
            checks.append({
                'property_id': pid,
                'quick_cmd': 'bin/check %s --tier quick' % pid,
                'thorough_cmd': 'bin/check %s --tier thorough' % pid,
                'evidence_file': 'evidence/%s.json' % pid,
                'replay_cmd_template': 'bin/check %s --replay {path}' % pid,
                'engine': 'lean4-proof',
                'level_claimed': {'category': 'proof', 'text': d['text'], 'design_ref': d['ref']},
                'level_note': COMMON_NOTE + d['note'],
                'technique': d['tech'],
            })
        else:
            na.append({'property_id': pid, 'reason': PENDING_REASON})
    m = {
        'version': 1,
        'setup_cmd': 'bin/setup',
        'hooks': {'guard': 'FABLE_3DXRD_XFAB_VERIF', 'enable': 'export FABLE_3DXRD_XFAB_VERIF=1 (no source hooks are needed: every observation is a return value or an exception)',
                  'baseline_off_cmd': 'cd /repo && /venv/bin/python -m pytest -ra -q -p no:cacheprovider --timeout=900 --continue-on-collection-errors',
                  'source_commits': [], 'add_only': True},
        'engines': [{'name': 'lean4-proof', 'path': 'lean/', 'serves_properties': [c['property_id'] for c in checks],
                     'kind_free_text': 'Lean 4 + Mathlib theorems about a model regenerated from /repo (symbolic tracer, table exporter) or hand-written and tied by a line-protocol correspondence; bin/check drives regenerate -> lake build -> axiom audit -> correspondence -> failing-input search'}],
        'checks': checks,
        'not_applicable': na,
        'notes': 'See DESIGN.md. known_findings.json lists genuine defects that are recorded rather than repaired; fix: commits in /repo repair the others.',
    }
    json.dump(m, open(os.path.join(VERIF, 'MANIFEST.json'), 'w'), indent=1)
    print('MANIFEST: %d checks, %d not_applicable' % (len(checks), len(na)))


if __name__ == '__main__':
    main()
