#!/bin/sh
# usage: harness/parrun.sh <slot> <seed|harm> <name> [extra args]
# Runs harness/seedtest.py or harness/harmtest.py for one kept change in an ISOLATED copy of /verif (/tmp/pv<slot>, own Lean build
# tree, own lock) against an isolated git worktree of /repo (/tmp/pr<slot>), so that several changes can be examined at the same time
# without touching /repo; the result.json is copied back to /verif/<seeded|harmless>/<name>/.
slot="$1"; kind="$2"; name="$3"; shift 3
PV=/tmp/pv$slot; PR=/tmp/pr$slot
[ -d "$PR" ] || git -C /repo worktree add --detach "$PR" HEAD >/dev/null 2>&1
git -C "$PR" checkout -q -- . 2>/dev/null
mkdir -p "$PV"
# the copy is the COMMITTED state of /verif (edits in progress in the working tree must not leak into a running regression);
# PARRUN_WORKTREE=1 takes the working tree instead (trying an uncommitted change of the machinery on one kept change)
if [ -n "$PARRUN_WORKTREE" ]; then
  rsync -a --delete --exclude .git --exclude replays --exclude 'lean/.lake' /verif/ "$PV"/
else
  SRC=/tmp/pvsrc$slot; rm -rf "$SRC"; mkdir -p "$SRC"
  git -C /verif archive HEAD | tar -x -C "$SRC"
  rsync -a --delete --exclude replays --exclude 'lean/.lake' "$SRC"/ "$PV"/
  rm -rf "$SRC"
fi
[ -d "$PV/lean/.lake" ] || rsync -a /verif/lean/.lake "$PV/lean/"
# the generated model of the copy (and its gen_clean) must be the one of the reviewed tree: regenerate from the clean worktree
( cd "$PV" && XFAB_REPO="$PR" bin/setup >/dev/null 2>&1 )
if [ "$kind" = seed ]; then dir=seeded; tool=seedtest.py; else dir=harmless; tool=harmtest.py; fi
( cd "$PV" && SEED_REPO="$PR" /venv/bin/python harness/$tool "$name" "$@" 2>&1 | grep -v '^WARNING' )
cp "$PV/$dir/$name/result.json" "/verif/$dir/$name/result.json" 2>/dev/null
git -C "$PR" checkout -q -- . 2>/dev/null
