#!/venv/bin/python
"""
Pins for HAND-WRITTEN models (M3).  A hand model is tied to the code only by its correspondence stream, so it is
valid for the source text it was written against.  Each property lists the definitions its hand model mirrors
(`PINS` in harness/props/cxx.py: "xfab/tools.py:genhkl_all", "xfab/parameters.py:parameters" (a class),
"xfab/__init__.py:*" (whole module)); their normalised-AST hashes (docstrings dropped, comments/whitespace vanish)
with assigned locals renamed canonically and the numpy alias unified) are stored in harness/pins.json.  When the
source of a pinned definition changes, the check re-establishes the tie on the spot: correspondence and failing-input
search run with their large budgets; only a disagreement or a failing input is an alarm (see check.py).  After
reviewing the model against the new source, re-pin with:   harness/pins.py --update [Cxx ...]
"""
import ast, hashlib, importlib, json, os, sys, warnings
warnings.filterwarnings("ignore")

HERE = os.path.dirname(os.path.abspath(__file__))
PINFILE = os.path.join(HERE, 'pins.json')


class _Strip(ast.NodeTransformer):
    def _doc(self, node):
        self.generic_visit(node)
        b = node.body
        if b and isinstance(b[0], ast.Expr) and isinstance(getattr(b[0], 'value', None), ast.Constant) and isinstance(b[0].value.value, str):
            node.body = b[1:] or [ast.Pass()]
        return node
    visit_FunctionDef = _doc
    visit_ClassDef = _doc
    visit_Module = _doc


class _Alpha(ast.NodeTransformer):
    """rename the assigned local variables of every function (not its parameters, not globals, not attributes) to
    l0, l1, ... in order of first appearance, and unify the numpy alias: a rename of a local is not a change"""
    def visit_FunctionDef(self, node):
        params = {a.arg for a in node.args.posonlyargs + node.args.args + node.args.kwonlyargs}
        if node.args.vararg:
            params.add(node.args.vararg.arg)
        if node.args.kwarg:
            params.add(node.args.kwarg.arg)
        declared = set()
        for sub in ast.walk(node):
            if isinstance(sub, (ast.Global, ast.Nonlocal)):
                declared.update(sub.names)
        order = []

        class Collect(ast.NodeVisitor):
            def visit_Name(s, n):
                if isinstance(n.ctx, (ast.Store, ast.Del)) and n.id not in params and n.id not in declared and n.id not in order:
                    order.append(n.id)

            def visit_FunctionDef(s, n):
                if n is not node:
                    return          # nested definitions keep their own scope
                s.generic_visit(n)
            visit_Lambda = lambda s, n: None
            visit_ClassDef = lambda s, n: None
        Collect().visit(node)
        ren = {name: 'l%d' % i for i, name in enumerate(order)}

        class Ren(ast.NodeTransformer):
            def visit_Name(s, n):
                if n.id in ren:
                    return ast.copy_location(ast.Name(id=ren[n.id], ctx=n.ctx), n)
                return n

            def visit_FunctionDef(s, n):
                if n is not node:
                    return n
                return s.generic_visit(n)
            visit_ClassDef = lambda s, n: n
        node = Ren().visit(node)
        # nested functions / methods
        node.body = [self.visit(b) if isinstance(b, (ast.FunctionDef, ast.ClassDef)) else b for b in node.body]
        return node

    def visit_Name(self, node):
        if node.id == 'np':
            return ast.copy_location(ast.Name(id='n', ctx=node.ctx), node)
        return node


def pin_hash(repo, spec):
    path, name = spec.split(':')
    tree = ast.parse(open(os.path.join(repo, path)).read())
    if name == '*':
        node = tree
    else:
        node = None
        scope = tree.body
        for part in name.split('.'):
            node = next((n for n in scope if isinstance(n, (ast.FunctionDef, ast.ClassDef)) and n.name == part), None)
            if node is None:
                return 'MISSING'
            scope = node.body
    node = _Strip().visit(ast.parse(ast.unparse(node)))
    node = _Alpha().visit(node)
    node = ast.parse(ast.unparse(ast.fix_missing_locations(node)).replace('np.', 'n.'))
    return hashlib.sha256(ast.dump(node, include_attributes=False).encode()).hexdigest()[:24]


def load():
    return json.load(open(PINFILE)) if os.path.exists(PINFILE) else {}


def changed(pid, specs, repo):
    """[(spec, pinned, current)] of pinned definitions whose source no longer matches"""
    pins = load().get(pid, {})
    out = []
    for spec in specs:
        cur = pin_hash(repo, spec)
        if pins.get(spec) != cur:
            out.append((spec, pins.get(spec), cur))
    return out


def main():
    sys.path.insert(0, HERE)
    repo = os.environ.get('XFAB_REPO', '/repo')
    args = [a for a in sys.argv[1:] if not a.startswith('-')]
    update = '--update' in sys.argv
    pins = load()
    for i in range(1, 21):
        pid = 'C%02d' % i
        if args and pid not in args:
            continue
        try:
            mod = importlib.import_module('props.' + pid.lower())
        except Exception as e:
            continue
        specs = getattr(mod, 'PINS', [])
        if not specs:
            continue
        cur = {s: pin_hash(repo, s) for s in specs}
        diff = [s for s in specs if pins.get(pid, {}).get(s) != cur[s]]
        print(pid, '%d pins' % len(specs), ('CHANGED: ' + ', '.join(diff)) if diff else 'ok')
        if update:
            pins[pid] = cur
    if update:
        json.dump(pins, open(PINFILE, 'w'), indent=1, sort_keys=True)
        print('pins.json updated')


if __name__ == '__main__':
    main()
