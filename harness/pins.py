#!/venv/bin/python
"""
Pins for HAND-WRITTEN models (M3).  A hand model is tied to the code only by its correspondence stream, so it is
valid for the source text it was written against.  Each property lists the definitions its hand model mirrors
(`PINS` in harness/props/cxx.py: "xfab/tools.py:genhkl_all", "xfab/parameters.py:parameters" (a class),
"xfab/__init__.py:*" (whole module)); their normalised-AST hashes (docstrings dropped, comments/whitespace vanish)
are stored in harness/pins.json.  When the source of a pinned definition changes, the check treats the tie as
BROKEN: the failing-input search runs with its large budget and, if it finds nothing, the check still reports
`VIOLATION … no-failing-input-found` (the property is no longer shown to hold for the new text).  After reviewing
the model against the new source, re-pin with:   harness/pins.py --update [Cxx ...]
"""
import ast, hashlib, importlib, json, os, sys, warnings
warnings.filterwarnings("ignore")

HERE = os.path.dirname(os.path.abspath(__file__))
PINFILE = os.path.join(HERE, 'pins.json')


class _Strip(ast.NodeTransformer):
    def _doc(self, node):
        self.generic_visit(node)
        b = node.body
        if b and isinstance(b[0], ast.Expr) and isinstance(getattr(b[0], 'value', None), ast.Constant) and isinstance(b[0].value.value, str):
            node.body = b[1:] or [ast.Pass()]
        return node
    visit_FunctionDef = _doc
    visit_ClassDef = _doc
    visit_Module = _doc


def pin_hash(repo, spec):
    path, name = spec.split(':')
    tree = ast.parse(open(os.path.join(repo, path)).read())
    if name == '*':
        node = tree
    else:
        node = None
        scope = tree.body
        for part in name.split('.'):
            node = next((n for n in scope if isinstance(n, (ast.FunctionDef, ast.ClassDef)) and n.name == part), None)
            if node is None:
                return 'MISSING'
            scope = node.body
    node = _Strip().visit(ast.parse(ast.unparse(node)))
    return hashlib.sha256(ast.dump(node, include_attributes=False).encode()).hexdigest()[:24]


def load():
    return json.load(open(PINFILE)) if os.path.exists(PINFILE) else {}


def changed(pid, specs, repo):
    """[(spec, pinned, current)] of pinned definitions whose source no longer matches"""
    pins = load().get(pid, {})
    out = []
    for spec in specs:
        cur = pin_hash(repo, spec)
        if pins.get(spec) != cur:
            out.append((spec, pins.get(spec), cur))
    return out


def main():
    sys.path.insert(0, HERE)
    repo = os.environ.get('XFAB_REPO', '/repo')
    args = [a for a in sys.argv[1:] if not a.startswith('-')]
    update = '--update' in sys.argv
    pins = load()
    for i in range(1, 21):
        pid = 'C%02d' % i
        if args and pid not in args:
            continue
        try:
            mod = importlib.import_module('props.' + pid.lower())
        except Exception as e:
            continue
        specs = getattr(mod, 'PINS', [])
        if not specs:
            continue
        cur = {s: pin_hash(repo, s) for s in specs}
        diff = [s for s in specs if pins.get(pid, {}).get(s) != cur[s]]
        print(pid, '%d pins' % len(specs), ('CHANGED: ' + ', '.join(diff)) if diff else 'ok')
        if update:
            pins[pid] = cur
    if update:
        json.dump(pins, open(PINFILE, 'w'), indent=1, sort_keys=True)
        print('pins.json updated')


if __name__ == '__main__':
    main()
