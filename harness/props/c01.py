"""C01 — cell parameters, A/B matrices, volume and sin(theta)/lambda share one metric."""
import math
import numpy as np
import gens, floatcorr

GEN = ['numeric']
LEAN_MODULES = ['XfabVerif.Proofs.C01']
LEAN_DRIVER_MODULES = ['XfabVerif.Gen.FloatDispatch']
RULE = ("cells from five seeded generators (orthogonal, near-orthogonal, strongly oblique with Gram factor in [0.02,0.2], random); "
        "hkl uniform in [-12,12]^3 minus 0; a case is non-trivial when the cell is not orthogonal; distinct = distinct (cell,hkl) tuples")
ASSUMPTIONS = ["IEEE rounding inside numpy is not modelled: theorems are over the reals; the Float twin and the oracle compare to 1e-9 relative"]

FNS = ['cell_volume', 'form_a_mat', 'form_b_mat', 'form_a_mat_inv', 'cell_invert', 'sintl', 'a_to_cell', 'b_to_cell']


def _mods():
    from xfab import tools, laue
    return (('Tools', tools), ('Laue', laue))


def correspondence(ctx):
    cases = []
    n = ctx.n(60, 3000)
    for i in range(n):
        c, kind = gens.cell(ctx.rng, scaled=True)
        h = gens.hkl(ctx.rng)
        for mn, m in _mods():
            for f in ('cell_volume', 'form_a_mat', 'form_b_mat', 'form_a_mat_inv', 'cell_invert'):
                cases.append({'fn': '%s.%s' % (mn, f), 'args': list(c), 'py': (lambda m=m, f=f, c=c: getattr(m, f)(list(c))),
                              'rtol': 1e-9, 'atol': 1e-13, 'scale': 'auto' if f.startswith('form_') else None})
            cases.append({'fn': '%s.sintl' % mn, 'args': list(c) + h, 'py': (lambda m=m, c=c, h=h: m.sintl(list(c), h))})
            A = m.form_a_mat(c)
            B = m.form_b_mat(c)
            cases.append({'fn': '%s.a_to_cell' % mn, 'args': list(A.ravel()), 'py': (lambda m=m, A=A: m.a_to_cell(A)), 'rtol': 1e-8})
            cases.append({'fn': '%s.b_to_cell' % mn, 'args': list(B.ravel()), 'py': (lambda m=m, B=B: m.b_to_cell(B)), 'rtol': 1e-7})
    ncase, dis, stats = floatcorr.compare(cases)
    return {'cases': ncase, 'disagreements': dis, 'stats': stats,
            'samples': [{'fn': cases[0]['fn'], 'args': cases[0]['args']}]}


def metric(c):
    a, b, cc, al, be, ga = c
    ca, cb, cg = (math.cos(math.radians(x)) for x in (al, be, ga))
    return np.array([[a * a, a * b * cg, a * cc * cb], [a * b * cg, b * b, b * cc * ca], [a * cc * cb, b * cc * ca, cc * cc]])


def check_cell(mn, m, c, hs, tol=2e-8):
    """returns list of violation dicts for one cell"""
    k = 2 * math.pi if mn == 'Tools' else 1.0
    G = metric(c)
    Gi = np.linalg.inv(G)
    cond = np.linalg.cond(G)
    out = []

    def bad(what, obs, exp, scale=1.0):
        out.append({'fn': '%s.%s' % (mn.lower(), what), 'cell': list(c), 'observed': np.asarray(obs).tolist(),
                    'expected': np.asarray(exp).tolist(), 'known_id': None})

    def far(x, y, t=tol):
        x, y = np.asarray(x, float), np.asarray(y, float)
        return not np.all(np.abs(x - y) <= t * max(1.0, cond ** 0.5) * (np.abs(y).max() + 1e-300))
    try:
        A = m.form_a_mat(c)
        B = m.form_b_mat(c)
        V = m.cell_volume(c)
        m.a_to_cell(A), m.b_to_cell(B), m.cell_invert(m.cell_invert(c)), m.form_a_mat_inv(c), m.sintl(c, hs[0])
    except (ValueError, ZeroDivisionError, FloatingPointError, np.linalg.LinAlgError) as e:
        bad('raised', '%s: %s' % (type(e).__name__, e), 'no exception on a valid cell')
        return out
    for M_, nm in ((A, 'form_a_mat'), (B, 'form_b_mat')):
        if abs(M_[1, 0]) + abs(M_[2, 0]) + abs(M_[2, 1]) != 0 or min(M_[0, 0], M_[1, 1], M_[2, 2]) <= 0:
            bad(nm + ':upper-triangular-positive-diagonal', M_, 'upper triangular, positive diagonal')
    if far(A.T @ A, G):
        bad('form_a_mat:AtA=G', A.T @ A, G)
    if far(B.T @ B, k * k * Gi):
        bad('form_b_mat:BtB=k^2 G^-1', B.T @ B, k * k * Gi)
    if far(np.linalg.det(A), V) or far(V * V, np.linalg.det(G), 1e-7):
        bad('cell_volume:detA=V,V^2=detG', [np.linalg.det(A), V * V], [V, np.linalg.det(G)])
    for h in hs:
        s = m.sintl(c, h)
        e = math.sqrt(np.array(h) @ Gi @ np.array(h)) / 2
        e2 = np.linalg.norm(B @ np.array(h)) / (2 * k)
        if far(s, e) or far(s, e2):
            bad('sintl', s, [e, e2])
    if far(m.a_to_cell(A), c):
        bad('a_to_cell(form_a_mat)', m.a_to_cell(A), c)
    if far(m.b_to_cell(B), c, 1e-7):
        bad('b_to_cell(form_b_mat)', m.b_to_cell(B), c)
    if far(m.cell_invert(m.cell_invert(c)), c, 1e-7):
        bad('cell_invert(cell_invert)', m.cell_invert(m.cell_invert(c)), c)
    if far(m.form_a_mat_inv(c) @ A, np.eye(3)):
        bad('form_a_mat_inv', m.form_a_mat_inv(c) @ A, np.eye(3))
    return out


def oracle(ctx, hints=()):
    n = ctx.n(150, 20000, boost=3000)
    viol, seen, nontriv, evals = [], set(), 0, 0
    kinds = {}
    sample = None
    for i in range(n):
        c, kind = gens.cell(ctx.rng, scaled=True)
        hs = [gens.hkl(ctx.rng) for _ in range(3)]
        kinds[kind] = kinds.get(kind, 0) + 1
        key = tuple(round(x, 9) for x in c)
        if key not in seen:
            seen.add(key)
            if kind != 'ortho':
                nontriv += 1
        sample = sample or {'cell': c, 'hkl': hs[0]}
        for mn, m in _mods():
            evals += 1
            viol += check_cell(mn, m, c, hs)
        if len(viol) > 20:
            break
    return {'evaluations': evals, 'distinct_nontrivial': nontriv, 'violations': viol, 'samples': [sample],
            'stats': {'generator_kinds': kinds}}


def replay(payload):
    from xfab import tools, laue
    v = payload.get('violation')
    if not v:
        print('replay: broken obligation, no input stored:', payload.get('broken'))
        return 1
    mn = 'Tools' if v['fn'].startswith('tools') else 'Laue'
    m = tools if mn == 'Tools' else laue
    res = check_cell(mn, m, v['cell'], [[1, 2, 3]])
    print('replay C01 on', v['cell'], '->', 'VIOLATION' if res else 'holds', res[:1])
    return 1 if res else 0
