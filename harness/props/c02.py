"""C02 — U / B / UBI conversions: u_to_ubi, ubi_to_cell, ubi_to_u, ubi_to_rod, ubi_to_u_b, ub_to_u_b (tools and laue)."""
import math
import numpy as np
import gens, floatcorr
from check import run_model_driver, f2b, b2f

GEN = ['numeric']
LEAN_MODULES = ['XfabVerif.Proofs.C02', 'XfabVerif.Proofs.C02Traced']
# definitions the hand-written model mirrors (see harness/pins.py): a source change breaks the tie
PINS = ['xfab/tools.py:ub_to_u_b', 'xfab/laue.py:ub_to_u_b', 'xfab/tools.py:ubi_to_u_b', 'xfab/laue.py:ubi_to_u_b']
LEAN_DRIVER_MODULES = ['XfabVerif.Gen.FloatDispatch', 'XfabVerif.Model.QR']
RULE = ("(U, cell) pairs: U from gens.rotation (uniform quaternion, signed axis permutations, Euler gimbal-lock 0/pi and "
        "near-lock), cell from gens.cell (orthogonal, near-orthogonal, strongly oblique, random; Gram factor >= 0.02); "
        "hkl uniform in [-12,12]^3 minus 0; matrices for ub_to_u_b: U*B with B = form_b_mat(cell) or a random upper-triangular "
        "matrix with positive diagonal, Gaussian matrices and SVD-built matrices with condition number up to 1e6, all with "
        "det > 0; a case is non-trivial when U is not the identity and the cell is not orthogonal (resp. the matrix is not "
        "triangular); distinct = distinct rounded inputs")
ASSUMPTIONS = [
    "IEEE rounding inside numpy is not modelled: theorems are over the reals; Float twins and the oracle compare to 1e-9 relative (times the condition number where an inverse or a QR factorisation is involved)",
    "numpy.linalg.qr is modelled by its contract only (Q^T Q = 1, R upper triangular, Q R = M); the contract is asserted on every "
    "correspondence case; theorem qr_unique makes the result of ub_to_u_b independent of the QR algorithm, which is why the "
    "Gram-Schmidt hand model (Model/QR.lean) must agree with LAPACK's Householder QR after the sign normalisation",
    "the traced twins are the function bodies with xfab.CHECKS deactivated; on proper rotations / valid cells the checks "
    "pass, so the behaviour with CHECKS.activated = True (kept throughout) is the same",
]
TRUSTED_EXTRA = ["hand model lean/XfabVerif/Model/QR.lean + lean/QRDriver.lean of ub_to_u_b (not traced: calls numpy.linalg.qr); "
                 "its sign normalisation is additionally replayed bit for bit on numpy's own QR output"]


QR_TOL = 1e-12     # Gram-Schmidt vs Householder: observed <= ~1e-16 * cond, allowed 1e-12 * cond


def _mods():
    from xfab import tools, laue
    return (('Tools', tools, 2 * math.pi), ('Laue', laue, 1.0))


def metric(c):
    a, b, cc, al, be, ga = c
    ca, cb, cg = (math.cos(math.radians(x)) for x in (al, be, ga))
    return np.array([[a * a, a * b * cg, a * cc * cb], [a * b * cg, b * b, b * cc * ca], [a * cc * cb, b * cc * ca, cc * cc]])


# ------------------------------------------------------------------------------------------------
# input streams

def upper_pos(rng):
    """random upper-triangular matrix with positive diagonal, condition number below ~1e4"""
    d = [10 ** rng.uniform(-1.5, 1.0) for _ in range(3)]
    s = max(d)
    return np.array([[d[0], rng.uniform(-s, s), rng.uniform(-s, s)], [0.0, d[1], rng.uniform(-s, s)], [0.0, 0.0, d[2]]])


def det_pos_matrix(rng):
    """(matrix with det > 0 and cond < 1e6, kind)"""
    kind = rng.choice(['ub-cell', 'ub-upper', 'gauss', 'gauss', 'svd', 'svd', 'posdiag', 'negdiag'])
    while True:
        if kind == 'ub-cell':
            U, _ = gens.rotation(rng)
            c, _ = gens.cell(rng, scaled=True)
            from xfab import tools, laue
            M = U @ rng.choice([tools, laue]).form_b_mat(c)
        elif kind == 'ub-upper':
            U, _ = gens.rotation(rng)
            M = U @ upper_pos(rng)
        elif kind == 'gauss':
            M = np.array([[rng.gauss(0, 1) for _ in range(3)] for _ in range(3)]) * 10 ** rng.uniform(-2, 2)
        elif kind == 'svd':
            U1, _ = gens.rotation(rng, 'uniform')
            U2, _ = gens.rotation(rng, 'uniform')
            s = [10 ** rng.uniform(-5.5, 0) for _ in range(3)]
            M = U1 @ np.diag(s) @ U2 * 10 ** rng.uniform(-1, 2)
        elif kind == 'posdiag':
            M = upper_pos(rng)            # already triangular: Q = +-1 on the diagonal
        else:
            M = upper_pos(rng).T          # lower triangular
        if np.linalg.det(M) <= 0:
            M = M.copy()
            M[:, 0] = -M[:, 0]
        if np.linalg.det(M) > 0 and np.linalg.cond(M) < 1e6:
            return M, kind


# ------------------------------------------------------------------------------------------------
# correspondence

def _qr_contract(M, Q, R):
    """violations of the contract that the theorems assume about numpy.linalg.qr"""
    bad = []
    if not np.allclose(Q.T @ Q, np.eye(3), rtol=0, atol=1e-12):
        bad.append('QtQ != 1')
    if R[1, 0] != 0 or R[2, 0] != 0 or R[2, 1] != 0:
        bad.append('R not upper triangular')
    if not np.all(np.abs(Q @ R - M) <= 1e-12 * np.abs(M).max()):
        bad.append('QR != M')
    return bad


def _parse_qr(line):
    p = line.split()
    if p[0] != 'ok':
        return p[0], None, None
    v = [b2f(x) for x in p[1:]]
    return 'ok', np.array(v[:9]).reshape(3, 3), np.array(v[9:]).reshape(3, 3)


def corr_qr(ctx, n):
    """QRDriver (Gram–Schmidt + sign normalisation) vs tools/laue.ub_to_u_b; numpy QR contract; bit-exact normalisation"""
    from xfab import tools, laue
    mats = [det_pos_matrix(ctx.rng) for _ in range(n)]
    # a few matrices with negative determinant: both sides must raise ValueError (check_rotation_matrix)
    neg = []
    for _ in range(max(2, n // 20)):
        M, k = det_pos_matrix(ctx.rng)
        if np.linalg.cond(M) < 1e3:
            M = M.copy()
            M[:, 1] = -M[:, 1]
            neg.append((M, 'neg-' + k))
    mats += neg
    lines = []
    for M, _ in mats:
        Q, R = np.linalg.qr(M)
        lines.append(' '.join(f2b(x) for x in M.ravel()))
        lines.append(' '.join(f2b(x) for x in list(Q.ravel()) + list(R.ravel())))
    res = run_model_driver('QRDriver.lean', lines)
    dis, cases = [], 0
    stats = {'n': 0, 'raise': 0, 'max_err_over_cond': 0.0, 'max_cond': 0.0, 'kinds': {}, 'flips_in_numpy_R': 0}
    for idx, (M, kind) in enumerate(mats):
        stats['kinds'][kind] = stats['kinds'].get(kind, 0) + 1
        Q, R = np.linalg.qr(M)
        stats['flips_in_numpy_R'] += int(sum(1 for i in range(3) if R[i, i] < 0))
        cond = np.linalg.cond(M)
        stats['max_cond'] = max(stats['max_cond'], float(cond))
        for why in _qr_contract(M, Q, R):
            dis.append({'fn': 'numpy.linalg.qr contract', 'M': M.tolist(), 'why': why})
        full = _parse_qr(res[2 * idx])
        post = _parse_qr(res[2 * idx + 1])
        for mn, m in (('tools', tools), ('laue', laue)):
            cases += 1
            stats['n'] += 1
            try:
                U, B = m.ub_to_u_b(M.copy())
                py = 'ok'
            except ValueError:
                U = B = None
                py = 'raise:ValueError'
            if py != 'ok' or full[0] != 'ok' or post[0] != 'ok':
                stats['raise'] += 1
                if not (py == full[0] == post[0]):
                    dis.append({'fn': '%s.ub_to_u_b' % mn, 'M': M.tolist(), 'model': [full[0], post[0]], 'impl': py})
                continue
            # (a) exact: the model's sign normalisation applied to numpy's own (Q, R)
            if not (np.array_equal(post[1], U) and np.array_equal(post[2], B)):
                dis.append({'fn': '%s.ub_to_u_b:normalise' % mn, 'M': M.tolist(), 'model': [post[1].tolist(), post[2].tolist()],
                            'impl': [U.tolist(), B.tolist()]})
            # (b) up to rounding: Gram–Schmidt model vs LAPACK Householder (equal by the uniqueness theorem)
            eu = np.abs(full[1] - U).max()
            eb = np.abs(full[2] - B).max() / np.abs(M).max()
            err = max(eu, eb)
            stats['max_err_over_cond'] = max(stats['max_err_over_cond'], float(err / cond))
            if not err <= QR_TOL * cond:
                dis.append({'fn': '%s.ub_to_u_b' % mn, 'M': M.tolist(), 'model': [full[1].tolist(), full[2].tolist()],
                            'impl': [U.tolist(), B.tolist()], 'err': float(err), 'cond': float(cond)})
    return cases, dis, stats


def _no_check(f, *a):
    """the traced twin models the value computation (guards off); the guard sites are C20's business"""
    import xfab
    was = xfab.CHECKS.activated
    xfab.CHECKS.activated = False
    try:
        return f(*a)
    finally:
        xfab.CHECKS.activated = was


def correspondence(ctx):
    cases = []
    n = ctx.n(40, 2000)
    sample = None
    seen = set()
    for i in range(n):
        U, uk = gens.rotation(ctx.rng)
        c, ck = gens.cell(ctx.rng, scaled=True)
        if uk != 'axis' and ck != 'ortho':
            seen.add(tuple(np.round(U.ravel(), 9)) + tuple(np.round(c, 9)))
        for mn, m, k in _mods():
            ubi = m.u_to_ubi(U, c)
            sc = float(np.abs(ubi).max())
            cases.append({'fn': '%s.u_to_ubi' % mn, 'args': list(U.ravel()) + list(c),
                          'py': (lambda m=m, U=U, c=c: m.u_to_ubi(U, list(c))), 'rtol': 1e-9, 'atol': 1e-10, 'scale': sc})
            cases.append({'fn': '%s.ubi_to_cell' % mn, 'args': list(ubi.ravel()), 'py': (lambda m=m, ubi=ubi: m.ubi_to_cell(ubi)),
                          'rtol': 1e-8, 'atol': 1e-10})
            cases.append({'fn': '%s.ubi_to_u' % mn, 'args': list(ubi.ravel()), 'py': (lambda m=m, ubi=ubi: m.ubi_to_u(ubi)),
                          'rtol': 1e-9, 'atol': 1e-9})
            # the Rodrigues vector is (U - U^T)/(1 + trace): ill-conditioned (and the raise decision |1+tr| < 1e-16 is
            # rounding dependent) near rotations by pi; compared where 1 + trace is not small
            if abs(1 + np.trace(U)) > 1e-3:
                r = m.u_to_rod(U)
                cases.append({'fn': '%s.ubi_to_rod' % mn, 'args': list(ubi.ravel()), 'py': (lambda m=m, ubi=ubi: m.ubi_to_rod(ubi)),
                              'rtol': 1e-8, 'atol': 1e-9, 'scale': float(1 + np.abs(r).max())})
            # ub_to_u_b: the generated model takes numpy's own (Q, R) as parameters (numpy.linalg.qr is an external call), so
            # everything the function does after the factorisation is compared bit for bit
            if i % 2 == 0:
                kindm = ctx.rng.choice(['UB', 'UB', 'axis', 'triangular', 'random'])
                if kindm == 'UB':
                    M = U @ m.form_b_mat(c)
                elif kindm == 'axis':
                    M = gens.rotation(ctx.rng, 'axis')[0] @ m.form_b_mat(c)
                elif kindm == 'triangular':
                    M = np.triu(np.array([[ctx.rng.uniform(-2, 2) for _ in range(3)] for _ in range(3)]))
                    if np.linalg.det(M) < 0:
                        M[0] = -M[0]
                else:
                    M = np.array([[ctx.rng.uniform(-2, 2) for _ in range(3)] for _ in range(3)])
                    if np.linalg.det(M) < 0:
                        M[[0, 1]] = M[[1, 0]]
                if abs(np.linalg.det(M)) > 1e-6:
                    Q, R = np.linalg.qr(np.asarray(M, float))
                    cases.append({'fn': '%s.ub_to_u_b' % mn, 'args': list(M.ravel()) + list(Q.ravel()) + list(R.ravel()),
                                  'py': (lambda m=m, M=M: _no_check(m.ub_to_u_b, M.copy())), 'rtol': 0.0, 'atol': 0.0})
        sample = sample or {'fn': 'Tools.u_to_ubi', 'args': list(U.ravel()) + list(c)}
    ncase, dis, stats = floatcorr.compare(cases)
    nq, disq, statq = corr_qr(ctx, ctx.n(60, 3000))
    stats['ub_to_u_b(QRDriver)'] = statq
    return {'cases': ncase + nq, 'disagreements': dis + disq, 'stats': stats, 'samples': [sample],
            'distinct_nontrivial': len(seen)}


# ------------------------------------------------------------------------------------------------
# oracle: the property itself on the real code

def _viol(mn, what, inp, obs, exp):
    d = {'fn': '%s.%s' % (mn.lower(), what), 'observed': np.asarray(obs).tolist(), 'expected': np.asarray(exp).tolist(),
         'known_id': None}
    d.update(inp)
    return d


def _far(x, y, tol, scale=None):
    x, y = np.asarray(x, float), np.asarray(y, float)
    if x.shape != y.shape or not np.all(np.isfinite(x)):
        return True
    s = np.abs(y).max() if scale is None else scale
    return not np.all(np.abs(x - y) <= tol * (s + 1e-300))


def check_ubi(mn, m, k, U, c, hs):
    """the UBI clauses of C02 for one module, one proper rotation, one valid cell; returns violation dicts"""
    U = np.asarray(U, float)
    out = []
    inp = {'U': U.tolist(), 'cell': list(c)}
    G = metric(c)
    cond = max(1.0, np.linalg.cond(G) ** 0.5)       # = cond(B) = cond(A)
    tol = 1e-9 * cond
    try:
        ubi = m.u_to_ubi(U, list(c))
        B = m.form_b_mat(list(c))
        # rows of UBI are the real-space lattice vectors, independent of form_b_mat: UBI UBI^T = G
        if _far(ubi @ ubi.T, G, tol):
            out.append(_viol(mn, 'u_to_ubi:UBI.UBI^T=metric', inp, ubi @ ubi.T, G))
        for h in hs:
            h = np.array(h, float)
            g = U @ B @ h
            if _far(ubi @ g, k * h, tol, scale=k * np.abs(h).max()):
                out.append(_viol(mn, 'u_to_ubi:UBI.(U.B.hkl)=k.hkl', dict(inp, hkl=h.tolist()), ubi @ g, k * h))
        c2 = m.ubi_to_cell(ubi)
        if _far(c2, c, tol):
            out.append(_viol(mn, 'ubi_to_cell(u_to_ubi)', inp, c2, c))
        U2 = m.ubi_to_u(ubi)
        if _far(U2, U, tol, scale=1.0):
            out.append(_viol(mn, 'ubi_to_u(u_to_ubi)', inp, U2, U))
        U3, B3 = m.ubi_to_u_b(ubi)
        if _far(U3, U, tol, scale=1.0) or _far(B3, B, tol):
            out.append(_viol(mn, 'ubi_to_u_b(u_to_ubi)', inp, [np.asarray(U3).tolist(), np.asarray(B3).tolist()],
                             [U.tolist(), B.tolist()]))
        if abs(1 + np.trace(U)) > 1e-3:
            r0 = m.u_to_rod(U)
            r = m.ubi_to_rod(ubi)
            if _far(r, r0, tol * 10 / abs(1 + np.trace(U)), scale=1 + np.abs(r0).max()):
                out.append(_viol(mn, 'ubi_to_rod(u_to_ubi)', inp, r, r0))
    except (ValueError, np.linalg.LinAlgError, ZeroDivisionError, FloatingPointError) as e:
        out.append(_viol(mn, 'raised', inp, '%s: %s' % (type(e).__name__, e), 'no exception on a proper rotation and a valid cell'))
    return out


def check_qr(mn, m, M, expect=None):
    """ub_to_u_b on a matrix with positive determinant: proper rotation times upper-triangular with positive diagonal,
    product M; `expect` = (U, B) known factors (uniqueness)"""
    M = np.asarray(M, float)
    out = []
    inp = {'M': M.tolist()}
    cond = max(1.0, np.linalg.cond(M))
    tol = 1e-9 * cond
    try:
        U, B = m.ub_to_u_b(M.copy())
        U, B = np.asarray(U), np.asarray(B)
        if _far(U.T @ U, np.eye(3), 1e-9, scale=1.0) or abs(np.linalg.det(U) - 1) > 1e-9:
            out.append(_viol(mn, 'ub_to_u_b:U proper rotation', inp, [(U.T @ U).tolist(), float(np.linalg.det(U))], 'U^T U = 1, det U = +1'))
        if B[1, 0] != 0 or B[2, 0] != 0 or B[2, 1] != 0 or not (B[0, 0] > 0 and B[1, 1] > 0 and B[2, 2] > 0):
            out.append(_viol(mn, 'ub_to_u_b:B upper triangular, positive diagonal', inp, B, 'upper triangular, positive diagonal'))
        if _far(U @ B, M, 1e-9):
            out.append(_viol(mn, 'ub_to_u_b:U.B=UB', inp, U @ B, M))
        if expect is not None:
            U0, B0 = expect
            if _far(U, U0, tol, scale=1.0) or _far(B, B0, tol):
                out.append(_viol(mn, 'ub_to_u_b(U.B)=(U,B)', inp, [U.tolist(), B.tolist()], [np.asarray(U0).tolist(), np.asarray(B0).tolist()]))
    except (ValueError, np.linalg.LinAlgError) as e:
        out.append(_viol(mn, 'ub_to_u_b:raised', inp, '%s: %s' % (type(e).__name__, e), 'no exception on a matrix with det > 0'))
    return out


def oracle(ctx, hints=()):
    import xfab
    assert xfab.CHECKS.activated, 'xfab.CHECKS must be active'
    n = ctx.n(150, 20000, boost=3000)
    viol, seen, evals = [], set(), 0
    kinds = {}
    sample = None
    try:
        for i in range(n):
            U, uk = gens.rotation(ctx.rng)
            c, ck = gens.cell(ctx.rng, scaled=True)
            hs = [gens.hkl(ctx.rng) for _ in range(2)]
            kinds[uk + '/' + ck] = kinds.get(uk + '/' + ck, 0) + 1
            if ck != 'ortho' and not np.allclose(U, np.eye(3)):
                seen.add(tuple(np.round(U.ravel(), 9)) + tuple(np.round(c, 9)))
            sample = sample or {'U': U.tolist(), 'cell': c, 'hkl': hs[0]}
            try:
                M, mk = det_pos_matrix(ctx.rng)
            except (ValueError, ZeroDivisionError, FloatingPointError, np.linalg.LinAlgError) as e:
                # form_b_mat raised on a valid cell while the harness was building U.B
                viol.append(_viol('tools/laue', 'form_b_mat:raised', {'cell': 'valid cell drawn by gens.cell(scaled=True)'},
                                  '%s: %s' % (type(e).__name__, e), 'no exception on a valid cell'))
                M, mk = np.eye(3), 'posdiag'
            kinds['M:' + mk] = kinds.get('M:' + mk, 0) + 1
            if mk not in ('posdiag',):
                seen.add(tuple(np.round(M.ravel() / np.abs(M).max(), 9)))
            U0, _ = gens.rotation(ctx.rng)
            B0 = upper_pos(ctx.rng)
            for mn, m, k in _mods():
                evals += 3
                viol += check_ubi(mn, m, k, U, c, hs)
                viol += check_qr(mn, m, M)
                viol += check_qr(mn, m, U0 @ B0, expect=(U0, B0))
            if len(viol) > 20:
                break
    finally:
        xfab.CHECKS.activated = True
    return {'evaluations': evals, 'distinct_nontrivial': len(seen), 'violations': viol, 'samples': [sample],
            'stats': {'generator_kinds': kinds}, 'exhaustive': False}


def replay(payload):
    import xfab
    from xfab import tools, laue
    xfab.CHECKS.activated = True
    v = payload.get('violation')
    if not v:
        print('replay: broken obligation, no input stored:', payload.get('broken'))
        return 1
    mn = 'Tools' if v['fn'].startswith('tools') else 'Laue'
    m, k = (tools, 2 * math.pi) if mn == 'Tools' else (laue, 1.0)
    if 'M' in v:
        exp = v['expected'] if '(U.B)=(U,B)' in v['fn'] else None
        res = check_qr(mn, m, v['M'], expect=exp)
        print('replay C02 ub_to_u_b on', v['M'], '->', 'VIOLATION' if res else 'holds')
    else:
        res = check_ubi(mn, m, k, v['U'], v['cell'], [v.get('hkl', [1, 2, 3]), [1, 2, 3]])
        print('replay C02 on U =', v['U'], 'cell =', v['cell'], '->', 'VIOLATION' if res else 'holds')
    for r in res[:3]:
        print('  %s: observed %s expected %s' % (r['fn'], r['observed'], r['expected']))
    return 1 if res else 0
