"""C03 — every orientation parametrisation yields a proper rotation and inverts exactly."""
import math
import numpy as np
import gens, floatcorr

GEN = ['numeric']
LEAN_MODULES = ['XfabVerif.Proofs.C03']
LEAN_DRIVER_MODULES = ['XfabVerif.Gen.FloatDispatch']
RULE = ("angles uniform in [-10,10] rad (constructors) / Euler triples incl. PHI exactly 0 or pi and PHI within 1e-12..1e-3 of 0 or pi (log-uniform); "
        "Rodrigues vectors with |r| log-uniform up to 1e3; proper rotations from gens.rotation (uniform SO(3), axis-aligned, lock, near lock); "
        "non-trivial = not the identity / not axis aligned; distinct = distinct inputs")
ASSUMPTIONS = ["partial w.r.t. IEEE rounding: arccos near +-1 and the 1e-8 gimbal thresholds are decided in exact real arithmetic in the theorems; "
               "the oracle checks the 1e-6 rebuild bound on the implementation"]


def _mods():
    from xfab import tools, laue
    return (('Tools', tools), ('Laue', laue))


def euler_case(rng, i):
    p1, p2 = rng.uniform(0, 2 * math.pi), rng.uniform(0, 2 * math.pi)
    k = i % 6
    if k == 0:
        P = 0.0
    elif k == 1:
        P = math.pi
    elif k == 2:
        P = 10 ** rng.uniform(-12, -3)
    elif k == 3:
        P = math.pi - 10 ** rng.uniform(-12, -3)
    else:
        P = rng.uniform(0, math.pi)
    return p1, P, p2


def rod_case(rng, i):
    v = np.array([rng.gauss(0, 1) for _ in range(3)])
    v /= np.linalg.norm(v)
    mag = 0.0 if i % 25 == 0 else 10 ** rng.uniform(-6, 3)
    return list(v * mag)


def correspondence(ctx):
    import xfab
    cases = []
    try:
        for i in range(ctx.n(60, 3000)):
            e = euler_case(ctx.rng, i)
            r = rod_case(ctx.rng, i)
            w = [ctx.rng.uniform(-10, 10) for _ in range(3)]
            U, kind = gens.rotation(ctx.rng)
            for mn, m in _mods():
                cases.append({'fn': '%s.euler_to_u' % mn, 'args': list(e), 'py': (lambda m=m, e=e: m.euler_to_u(*e)), 'atol': 1e-15})
                cases.append({'fn': '%s.rod_to_u' % mn, 'args': r, 'py': (lambda m=m, r=r: m.rod_to_u(r)), 'atol': 1e-15})
                cases.append({'fn': '%s.form_omega_mat' % mn, 'args': [w[0]], 'py': (lambda m=m, w=w: m.form_omega_mat(w[0])), 'atol': 1e-15})
                cases.append({'fn': '%s.form_omega_mat_general' % mn, 'args': w, 'py': (lambda m=m, w=w: m.form_omega_mat_general(*w)), 'atol': 1e-15})
                cases.append({'fn': '%s.quart_to_omega' % mn, 'args': [w[0] * 30, w[1] / 10, w[2] / 10],
                              'py': (lambda m=m, w=w: m.quart_to_omega(w[0] * 30, w[1] / 10, w[2] / 10)), 'atol': 1e-15})
                cases.append({'fn': '%s.detect_tilt' % mn, 'args': w, 'py': (lambda m=m, w=w: m.detect_tilt(*w)), 'atol': 1e-15})
                cases.append({'fn': '%s.u_to_euler' % mn, 'args': list(U.ravel()), 'py': (lambda m=m, U=U: m.u_to_euler(U)), 'rtol': 1e-9, 'atol': 1e-12})
                if abs(1 + np.trace(U)) > 1e-3:
                    cases.append({'fn': '%s.u_to_rod' % mn, 'args': list(U.ravel()), 'py': (lambda m=m, U=U: m.u_to_rod(U)), 'rtol': 1e-12, 'atol': 1e-14})
                y, x = ctx.rng.gauss(0, 1), ctx.rng.gauss(0, 1)
                if i % 5 == 0:
                    y *= 10 ** ctx.rng.uniform(-12, -6)
                cases.append({'fn': '%s._arctan2' % mn, 'args': [y, x], 'py': (lambda m=m, y=y, x=x: m._arctan2(y, x)), 'rtol': 1e-13, 'atol': 1e-300})
        n, dis, stats = floatcorr.compare(cases)
    finally:
        xfab.CHECKS.activated = True
    return {'cases': n, 'disagreements': dis, 'stats': stats, 'samples': [{'fn': cases[0]['fn'], 'args': cases[0]['args']}]}


def proper(M, tol=1e-12):
    return np.abs(M.T @ M - np.eye(3)).max() < tol and abs(np.linalg.det(M) - 1) < tol


def check_constructors(mn, m, e, r, w):
    out = []

    def bad(what, inp, obs, exp):
        out.append({'fn': '%s.%s' % (mn.lower(), what), 'input': inp, 'observed': np.asarray(obs).tolist(), 'expected': np.asarray(exp).tolist(), 'known_id': None})
    U = m.euler_to_u(*e)
    exp = gens.rz(e[0]) @ gens.rx(e[1]) @ gens.rz(e[2])
    if not proper(U) or np.abs(U - exp).max() > 1e-12:
        bad('euler_to_u', list(e), U, exp)
    G = m.form_omega_mat_general(*w)
    exp = gens.rx(w[1]) @ gens.ry(w[2]) @ gens.rz(w[0])
    if not proper(G) or np.abs(G - exp).max() > 1e-12:
        bad('form_omega_mat_general', w, G, exp)
    O = m.form_omega_mat(w[0])
    if np.abs(O - gens.rz(w[0])).max() > 1e-12:
        bad('form_omega_mat', w[:1], O, gens.rz(w[0]))
    wq = [w[0] * 30, w[1] / 10, w[2] / 10]
    Q = m.quart_to_omega(*wq)
    P = gens.rx(wq[1]) @ gens.ry(wq[2])
    exp = P @ gens.rz(math.radians(wq[0])) @ P.T
    if not proper(Q) or np.abs(Q - exp).max() > 1e-12:
        bad('quart_to_omega', wq, Q, exp)
    T = m.detect_tilt(*w)
    exp = gens.rx(w[0]) @ gens.ry(w[1]) @ gens.rz(w[2])
    if not proper(T) or np.abs(T - exp).max() > 1e-12:
        bad('detect_tilt', w, T, exp)
    R = m.rod_to_u(r)
    n2 = float(np.dot(r, r))
    if n2 == 0:
        exp = np.eye(3)
    else:
        th = 2 * math.atan(math.sqrt(n2))
        u = np.array(r) / math.sqrt(n2)
        K = np.array([[0, -u[2], u[1]], [u[2], 0, -u[0]], [-u[1], u[0], 0]])
        act = math.cos(th) * np.eye(3) + (1 - math.cos(th)) * np.outer(u, u) + math.sin(th) * K
        exp = act.T
    if not proper(R, 1e-10) or np.abs(R - exp).max() > 1e-10:
        bad('rod_to_u', list(r), R, exp)
    # u_to_rod inverts rod_to_u (rotation angle within 1e-6 of 180 deg excluded)
    if n2 < (1 / math.tan(0.5e-6)) ** 2 * 0.25:
        back = m.u_to_rod(R)
        if not np.all(np.isfinite(back)) or np.abs(back - np.array(r)).max() > 1e-6 * max(1.0, n2):
            bad('u_to_rod(rod_to_u)', list(r), back, r)
    return out


def check_inverse(mn, m, U):
    out = []

    def bad(what, obs, exp):
        out.append({'fn': '%s.%s' % (mn.lower(), what), 'input': U.tolist(), 'observed': np.asarray(obs).tolist() if obs is not None else None,
                    'expected': exp, 'known_id': None})
    try:
        e = m.u_to_euler(U)
    except ValueError as ex:
        bad('u_to_euler raised', None, 'angles (%s)' % ex)
        return out
    if not (0 <= e[0] <= 2 * math.pi and 0 <= e[1] <= math.pi and 0 <= e[2] <= 2 * math.pi):
        bad('u_to_euler range', e, '[0,2pi]x[0,pi]x[0,2pi]')
    else:
        # (angles outside the range are rejected by euler_to_u's own input check: nothing to rebuild)
        try:
            back = m.euler_to_u(*e)
            if np.abs(back - U).max() > 1e-6:
                bad('euler_to_u(u_to_euler)', back, U.tolist())
        except ValueError as ex:
            bad('euler_to_u(u_to_euler) raised', e, 'the input matrix (%s)' % ex)
    tr = np.trace(U)
    ang = math.acos(max(-1, min(1, (tr - 1) / 2)))
    if abs(ang - math.pi) > 1e-6:
        r = m.u_to_rod(U)
        if not np.all(np.isfinite(r)):
            bad('u_to_rod finite', r, 'finite vector')
        else:
            b2 = m.rod_to_u(r)
            # conditioning ~ 1/(pi - angle)^2
            tol = 1e-6
            if np.abs(b2 - U).max() > tol:
                bad('rod_to_u(u_to_rod)', b2, U.tolist())
    return out


def oracle(ctx, hints=()):
    import xfab
    viol, ev, nontriv = [], 0, 0
    kinds = {}
    sample = None
    try:
        tilt = [ctx.rng.uniform(-10, 10), ctx.rng.uniform(-10, 10)]
        recent_w = []
        for i in range(ctx.n(300, 60000, boost=10000)):
            e = euler_case(ctx.rng, i)
            r = rod_case(ctx.rng, i)
            # scan-like stream: the tilt pair (chi, wedge) stays fixed for a run of calls while omega varies, then changes --
            # to a new pair, to an untilted or half-tilted setting (exact zeros), or back to an earlier one
            u = ctx.rng.random()
            if u < 0.12:
                tilt = [ctx.rng.uniform(-10, 10), ctx.rng.uniform(-10, 10)]
            elif u < 0.20:
                tilt = [0.0, 0.0]
            elif u < 0.26:
                tilt = [ctx.rng.uniform(-1, 1), 0.0] if ctx.rng.random() < 0.5 else [0.0, ctx.rng.uniform(-1, 1)]
            w = [0.0 if ctx.rng.random() < 0.05 else ctx.rng.uniform(-10, 10)] + list(tilt)
            recent_w = (recent_w + [list(w)])[-4:]
            U, kind = gens.rotation(ctx.rng)
            kinds[kind] = kinds.get(kind, 0) + 1
            if kind not in ('axis',):
                nontriv += 1
            sample = sample or {'euler': e, 'rod': r, 'U': U.tolist()}
            for mn, m in _mods():
                ev += 3
                vc = check_constructors(mn, m, e, r, w)
                for v in vc:
                    v['constructor_case'] = {'e': list(e), 'r': list(r), 'recent_w': recent_w}
                viol += vc
                viol += check_inverse(mn, m, U)
                # the Euler stream itself as matrices (exact and near lock)
                viol += check_inverse(mn, m, m.euler_to_u(*e))
            if len(viol) > 20:
                break
    finally:
        xfab.CHECKS.activated = True
    return {'evaluations': ev, 'distinct_nontrivial': nontriv, 'violations': viol, 'samples': [sample], 'stats': {'rotation_kinds': kinds}}


def replay(payload):
    v = payload.get('violation')
    if not v:
        print('replay: broken obligation, no input stored:', payload.get('broken'))
        return 1
    from xfab import tools, laue
    m = tools if v['fn'].startswith('tools') else laue
    mn = 'Tools' if m is tools else 'Laue'
    inp = v['input']
    if isinstance(inp, list) and len(inp) == 3 and isinstance(inp[0], list):
        res = check_inverse(mn, m, np.array(inp))
    elif v.get('constructor_case'):
        cc = v['constructor_case']
        res = []
        for w in cc['recent_w']:        # the last settings of the scan-like stream, in order (state left by earlier calls matters)
            res = check_constructors(mn, m, cc['e'], cc['r'], w)
        res = [x for x in res if x['fn'] == v['fn']]
    else:
        res = [v]
        print('replay: constructor case without stored stream')
    print('replay C03 ->', 'VIOLATION' if res else 'holds', res[:1])
    return 1 if res else 0
