"""C04 — each tabulated space group is a group consistent with its metadata and names."""
import itertools, re
from fractions import Fraction
import numpy as np
import check

GEN = ['tables']
LEAN_MODULES = ['XfabVerif.Proofs.C04', 'XfabVerif.Proofs.C04Names']
# definitions the hand-written model mirrors (see harness/pins.py): a source change breaks the tie
PINS = ['xfab/sg.py:sg']
EXTRA_OBLIGATION_FILES = ['XfabVerif/Gen/Sg/Check%d.lean' % k for k in range(16)]
AUDIT_FILES = ['XfabVerif/Lemmas/SgSound.lean', 'XfabVerif/Lemmas/C04Metric.lean', 'XfabVerif/Model/SgModel.lean', 'XfabVerif/Model/SgLookup.lean']
LEAN_DRIVER_MODULES = ['XfabVerif.Model.SgLookup', 'XfabVerif.Gen.Sg.All']
RULE = ("finite and exhaustive on the table side: all 237 settings (one kernel-decided certificate check each) and all 244 dictionary keys; "
        "the search recomputes closure/inverses/duplicates/metadata by brute force on all 237 settings (all n^2 products); name variants: every key "
        "x random whitespace/case variants; every case is non-trivial; distinct = distinct (setting) + distinct name strings")
ASSUMPTIONS = ["translations are compared after snapping the 6-digit decimals to 24ths (each decimal proved within 5e-7 of its 24th)",
               "the Laue class is checked through its order, the crystal-system compatibility table and metric preservation (not an axis-direction analysis)",
               "non-ASCII names are outside the lookup model"]
TRUSTED_EXTRA = ["certificates (generators, product indices, spanning tree, inverses) are produced by the exporter but untrusted: Sg.checkTable re-checks them in the kernel and Lemmas/SgSound lifts them to closure of all pairs",
                 "name lookup is a hand model (Model/SgLookup.lean) tied to sg.sg.__init__ by the line-protocol correspondence"]

LAUE_ORDER = {'-1': 2, '2/m': 4, 'mmm': 8, '4/m': 8, '4/mmm': 16, '-3': 6, '-3m': 12, '-3m1': 12, '-31m': 12, '6/m': 12, '6/mmm': 24, 'm-3': 24, 'm-3m': 48}
SYSTEM_LAUE = {'triclinic': {'-1'}, 'monoclinic': {'2/m'}, 'orthorhombic': {'mmm'}, 'tetragonal': {'4/m', '4/mmm'},
               'trigonal': {'-3', '-3m', '-3m1', '-31m'}, 'hexagonal': {'6/m', '6/mmm'}, 'cubic': {'m-3', 'm-3m'}}


def settings():
    from xfab import sglib
    out = []
    for no in range(1, 231):
        std = getattr(sglib, 'Sg%d' % no)(cell_choice='standard')
        out.append((no, False, std))
        rh = getattr(sglib, 'Sg%d' % no)(cell_choice='rhombohedral')
        if rh.cell_choice == 'rhombohedral':
            out.append((no, True, rh))
    return out


def checksum(o):
    m = 1000000007
    acc = 7
    for r, t in zip(o.rot, o.trans):
        for x in [int(v) for row in r for v in row] + [int(round(float(v) * 1000000)) for v in t]:
            acc = (acc * 31 + (x + 2000000)) % m
    return acc


def hexs(s):
    return ''.join('%02x' % ord(c) for c in s) or '-'


def variant(rng, key):
    out = []
    for c in key:
        if rng.random() < 0.3:
            out.append(rng.choice([' ', '\t', '  ', '\n']))
        out.append(c.upper() if rng.random() < 0.5 else c)
    if rng.random() < 0.3:
        out.append(' ')
    return ''.join(out)


def correspondence(ctx):
    from xfab import sg
    sets = settings()
    reqs, exp, meta = [], [], []
    # table export (translator validation): Lean data vs the live tables
    for i, (no, rh, o) in enumerate(sets):
        reqs.append('table %d' % i)
        exp.append('ok %d %d %d %d %d %s %s %s' % (o.no, o.nsymop, o.nuniq, len(o.rot), checksum(o), o.Laue, o.crystal_system, o.cell_choice))
        meta.append({'fn': 'table-export', 'setting': [no, rh]})
    index = {(no, rh): i for i, (no, rh, _) in enumerate(sets)}

    def py_lookup(**kw):
        try:
            s = sg.sg(**kw)
        except KeyError:
            return 'key-error'
        except Exception as e:            # "No SgX class in sglib"
            return 'no-class'
        rh = s.cell_choice == 'rhombohedral'
        i = index.get((s.no, rh))
        if i is None or sets[i][2].nsymop != s.nsymop or len(s.rot) != len(sets[i][2].rot):
            return 'unexpected %s %s' % (s.no, s.cell_choice)
        return 'ok %d %d %d' % (i, s.no, 1 if rh else 0)
    nvar = ctx.n(2, 30)
    keys = list(sg.sgdic.keys())
    for k in keys:
        for v in [k] + [variant(ctx.rng, k) for _ in range(nvar)]:
            for cc in ('standard', 'rhombohedral'):
                reqs.append('name %s %d' % (hexs(v), 1 if cc == 'rhombohedral' else 0))
                exp.append(py_lookup(sgname=v, cell_choice=cc))
                meta.append({'fn': 'sg.sg(sgname)', 'name': v, 'cell_choice': cc})
    for bad in ['zz', 'p 1 1', 'P2_1', 'pmmmm', 'r3', 'r-3m', 'x' + keys[5], keys[7] + '1']:
        reqs.append('name %s 0' % hexs(bad))
        exp.append(py_lookup(sgname=bad))
        meta.append({'fn': 'sg.sg(sgname)', 'name': bad, 'cell_choice': 'standard'})
    for no in list(range(1, 231)) + [231, 1000]:
        for cc in ('standard', 'rhombohedral'):
            reqs.append('no %d %d' % (no, 1 if cc == 'rhombohedral' else 0))
            exp.append(py_lookup(sgno=no, cell_choice=cc))
            meta.append({'fn': 'sg.sg(sgno)', 'no': no, 'cell_choice': cc})
    ans = check.run_model_driver('SgLookupDriver.lean', reqs)
    dis = []
    for r, a, e, m in zip(reqs, ans, exp, meta):
        if a != e:
            d = dict(m)
            d.update({'request': r, 'model': a, 'impl': e})
            dis.append(d)
    return {'cases': len(reqs), 'disagreements': dis, 'stats': {'tables': len(sets), 'names': len(reqs) - len(sets)},
            'samples': [{'request': reqs[300], 'answer': ans[300]}], 'distinct_nontrivial': len(set(reqs))}


def snap(x):
    f = Fraction(repr(float(x)))
    k = round(f * 24)
    return k, abs(f - Fraction(k, 24)) <= Fraction(5, 10 ** 7)


def table_violations(no, rh, o):
    out = []

    def bad(what, obs, exp):
        out.append({'fn': 'sglib.Sg%d' % no, 'setting': 'rhombohedral' if rh else 'standard', 'what': what, 'observed': obs, 'expected': exp, 'known_id': None})
    n = o.nsymop
    if len(o.rot) != n or len(o.trans) != n:
        bad('exactly nsymop entries', [len(o.rot), len(o.trans)], n)
        return out
    ops = []
    for R, t in zip(o.rot, o.trans):
        Rm = tuple(tuple(int(x) for x in row) for row in R)
        ks = [snap(x) for x in t]
        if not all(k[1] for k in ks):
            bad('translation is a 24th to 6 digits', list(map(float, t)), 'k/24')
        ops.append((Rm, tuple(k[0] % 24 for k in ks)))
    S = {op: i for i, op in enumerate(ops)}
    if len(S) != n:
        dup = [i for i, op in enumerate(ops) if S[op] != i][0]
        bad('no duplicates', [S[ops[dup]], dup], 'distinct operations')
    ident = (((1, 0, 0), (0, 1, 0), (0, 0, 1)), (0, 0, 0))
    if ident not in S:
        bad('identity present', None, 'identity')

    def comp(a, b):
        R = tuple(tuple(sum(a[0][i][k] * b[0][k][j] for k in range(3)) for j in range(3)) for i in range(3))
        t = tuple((sum(a[0][i][k] * b[1][k] for k in range(3)) + a[1][i]) % 24 for i in range(3))
        return (R, t)
    for i, a in enumerate(ops):
        hasinv = False
        for j, b in enumerate(ops):
            c = comp(a, b)
            if c not in S:
                bad('closed under composition', [i, j], 'product in the table')
                return out
            if c == ident:
                hasinv = True
        if not hasinv:
            bad('inverses present', i, 'an inverse')
            return out
    rots = [op[0] for op in ops]
    uniq = rots[:o.nuniq]
    if len(set(uniq)) != o.nuniq or set(rots) != set(uniq):
        bad('first nuniq rotations are the distinct point-group rotations', o.nuniq, len(set(rots)))
    ncen = sum(1 for r in rots if r == ident[0])
    if n != o.nuniq * ncen:
        bad('nsymop = nuniq x centrings', [n, o.nuniq, ncen], 'n = nuniq*ncen')
    neg = lambda R: tuple(tuple(-x for x in row) for row in R)
    if len(set(uniq) | set(neg(r) for r in uniq)) != LAUE_ORDER.get(o.Laue, -1):
        bad('Laue class order', len(set(uniq) | set(neg(r) for r in uniq)), [o.Laue, LAUE_ORDER.get(o.Laue)])
    if o.Laue not in SYSTEM_LAUE.get(o.crystal_system, ()):
        bad('Laue class belongs to the crystal system', o.Laue, o.crystal_system)
    # metric preservation for a generic conforming cell (exact rationals)
    cs = o.crystal_system
    a2, b2, c2, p, q, r = Fraction(7), Fraction(11), Fraction(13), Fraction(1, 2), Fraction(3, 5), Fraction(2, 7)
    if cs == 'triclinic':
        G = [[a2, r, q], [r, b2, p], [q, p, c2]]
    elif cs == 'monoclinic':
        G = [[a2, 0, q], [0, b2, 0], [q, 0, c2]]
    elif cs == 'orthorhombic':
        G = [[a2, 0, 0], [0, b2, 0], [0, 0, c2]]
    elif cs == 'tetragonal':
        G = [[a2, 0, 0], [0, a2, 0], [0, 0, c2]]
    elif cs in ('trigonal', 'hexagonal'):
        G = [[a2, p, p], [p, a2, p], [p, p, a2]] if rh else [[a2, -a2 / 2, 0], [-a2 / 2, a2, 0], [0, 0, c2]]
    else:
        G = [[a2, 0, 0], [0, a2, 0], [0, 0, a2]]
    for R in uniq:
        RtGR = [[sum(R[k][i] * G[k][l] * R[l][j] for k in range(3) for l in range(3)) for j in range(3)] for i in range(3)]
        if RtGR != G:
            bad('rotations preserve the conforming metric', [list(map(list, R))], 'R^T G R = G')
            break
    if len(o.syscond) != 26:
        bad('26 reflection-condition slots', len(o.syscond), 26)
    return out


def oracle(ctx, hints=()):
    from xfab import sg
    viol, ev = [], 0
    sets = settings()
    for no, rh, o in sets:
        ev += 1
        if o.no != no:
            viol.append({'fn': 'sglib.Sg%d' % no, 'what': 'class number', 'observed': o.no, 'expected': no, 'known_id': None})
        viol += table_violations(no, rh, o)
        # what a user gets is the xfab.sg.sg instance, not the sglib class: it must carry the tabulated group unchanged
        ev += 1
        try:
            a = sg.sg(sgno=no, cell_choice='rhombohedral' if rh else 'standard')
            diff = [k for k in ('no', 'name', 'nsymop', 'nuniq', 'Laue', 'crystal_system', 'cell_choice')
                    if getattr(a, k, None) != getattr(o, k, None)]
            for k in ('rot', 'trans', 'syscond'):
                if not np.array_equal(np.asarray(getattr(a, k, None), dtype=float), np.asarray(getattr(o, k), dtype=float)):
                    diff.append(k)
        except Exception as e:
            viol.append({'fn': 'sg.sg', 'sgno': no, 'setting': 'rhombohedral' if rh else 'standard', 'what': 'lookup by number',
                         'observed': '%s: %s' % (type(e).__name__, e), 'expected': 'the tabulated group', 'known_id': None})
            continue
        if diff:
            tv = [dict(v, fn='sg.sg(sgno=%d)' % no, differs_from_table_in=diff) for v in table_violations(no, rh, a)]
            viol += tv or [{'fn': 'sg.sg', 'sgno': no, 'setting': 'rhombohedral' if rh else 'standard',
                            'what': 'sg.sg instance carries the tabulated group', 'observed': 'attributes differ: %s' % diff,
                            'expected': 'identical to sglib.Sg%d' % no, 'known_id': None}]
    # names: every key, with variants, gives the same group as its number
    nvar = ctx.n(2, 20, boost=10)
    for k, cls in sg.sgdic.items():
        no = int(cls[2:])
        for v in [k] + [variant(ctx.rng, k) for _ in range(nvar)]:
            ev += 1
            try:
                a = sg.sg(sgname=v)
                rr = k[0] == 'r' and k[-1] == 'r'
                b = sg.sg(sgno=no, cell_choice='rhombohedral' if rr else 'standard')
                same = (a.no == b.no == no and a.cell_choice == b.cell_choice and np.array_equal(a.rot, b.rot) and np.array_equal(a.trans, b.trans)
                        and a.name == b.name and (a.cell_choice == 'rhombohedral') == rr)
                if k[0] == 'r' and k[-1] == 'h' and a.cell_choice != 'hexagonal':
                    same = False
            except Exception as e:
                same = False
            if not same:
                viol.append({'fn': 'sg.sg', 'name': v, 'what': 'lookup by name = lookup by number', 'observed': 'differs/raises', 'expected': cls, 'known_id': None})
    for no, rh, o in sets:
        key = re.sub(r'\s+', '', o.name).lower()
        if sg.sgdic.get(key) != 'Sg%d' % no:
            viol.append({'fn': 'sg.sgdic', 'name': o.name, 'what': "a table's own name is an accepted name of the same group", 'observed': sg.sgdic.get(key), 'expected': 'Sg%d' % no, 'known_id': None})
    return {'evaluations': ev, 'distinct_nontrivial': len(sets) + len(sg.sgdic), 'violations': viol[:30], 'exhaustive': True,
            'samples': [{'setting': [225, False], 'nsymop': 192}], 'stats': {'settings': len(sets), 'keys': len(sg.sgdic)}}


def replay(payload):
    v = payload.get('violation')
    if not v:
        print('replay: broken obligation, no input stored:', payload.get('broken'))
        return 1
    if v['fn'].startswith('sg.sg(sgno='):
        from xfab import sg
        no = int(v['fn'][11:-1])
        rh = v.get('setting') == 'rhombohedral'
        res = table_violations(no, rh, sg.sg(sgno=no, cell_choice='rhombohedral' if rh else 'standard'))
    elif v['fn'].startswith('sglib.Sg'):
        no = int(v['fn'][8:])
        from xfab import sglib
        rh = v.get('setting') == 'rhombohedral'
        o = getattr(sglib, 'Sg%d' % no)(cell_choice='rhombohedral' if rh else 'standard')
        res = table_violations(no, rh, o)
    else:
        res = [v]
    print('replay C04 ->', 'VIOLATION' if res else 'holds', res[:1])
    return 1 if res else 0
