"""C05 — genhkl_all returns exactly the allowed reflections in the shell (shared machinery for C06)."""
import os, json, math, itertools
from fractions import Fraction
import numpy as np
import check, gens

GEN = ['tables', 'hkl', 't51', 't54']
LEAN_MODULES = ['XfabVerif.Proofs.C05', 'XfabVerif.Proofs.C05T51', 'XfabVerif.Proofs.C06T54', 'XfabVerif.Proofs.C05Final', 'XfabVerif.Proofs.C05HexRhomb']
EXTRA_OBLIGATION_FILES = ['XfabVerif/Gen/T51/G%d.lean' % k for k in range(16)] + ['XfabVerif/Gen/T51/All.lean']
AUDIT_FILES = ['XfabVerif/Lemmas/T51.lean', 'XfabVerif/Gen/T51/Segs.lean', 'XfabVerif/Lemmas/T53.lean', 'XfabVerif/Lemmas/T53Term.lean',
               'XfabVerif/Lemmas/ConformQ.lean', 'XfabVerif/Lemmas/ExtInv.lean', 'XfabVerif/Lemmas/HexRhomb.lean']
# definitions the hand-written model mirrors (see harness/pins.py): a source change breaks the tie
PINS = ['xfab/tools.py:genhkl_base', 'xfab/laue.py:genhkl_base', 'xfab/tools.py:genhkl_all', 'xfab/laue.py:genhkl_all', 'xfab/sg.py:sg']
LEAN_DRIVER_MODULES = ['XfabVerif.Model.Hkl']
RULE = ("60 settings sampled stratified over the 16 (Laue class, cell choice, crystal system) strata (quick) / all 237 (thorough); "
        "conforming cells random within the crystal system (a,b,c in [3,9], oblique angles 60-125 deg, rhombohedral 50-110 deg) plus "
        "orthogonal-metric cells for triclinic/monoclinic groups; shells max in [0.9,2.6]/max(a,b,c), min 0 or uniform in [0,0.7 max]; "
        "a case is skipped unless every lattice point of the enclosing box keeps its sin(theta)/lambda >= 1e-9 (relative) away from "
        "min, max and scale*max; non-trivial = non-orthogonal metric or a group with extinctions; distinct = (setting, cell, shell)")
ASSUMPTIONS = [
    "shell bounds within 1e-9 (relative) of a lattice point's sin(theta)/lambda are excluded (quantifier of the property); inside that "
    "margin the float comparisons of the code and the rational comparisons of the model coincide",
    "the random weights drawn by genhkl_all separate distinct rows (true with probability 1); checked empirically with 3 numpy seeds",
    "numpy int64 indices do not overflow",
]
TRUSTED_EXTRA = [
    "harness/gen_hkl.py (AST translator of sysabs_unique / sysabs to Lean Int functions; exporter of the segm literals and the "
    "sintl_scale rule): unverified, validated on every run by the correspondence of the Lean model with genhkl_unique / genhkl_all",
    "the hand model lean/XfabVerif/Model/Hkl.lean of the traversal loops of genhkl_base and the expansion of genhkl_all "
    "(fingerprints of the modelled source in Gen/hkl_meta.json)",
]

GENDIR = os.path.join(check.LEAN, 'XfabVerif', 'Gen')
MARGIN = 1e-9
# obverse setting: a_h = a_r - b_r, b_h = b_r - c_r, c_h = a_r + b_r + c_r; indices transform like the basis (row vector times M)
M_OBV = np.array([[1, 0, 1], [-1, 1, 1], [0, -1, 1]])
R_GROUPS = [146, 148, 155, 160, 161, 166, 167]


# ------------------------------------------------------------------------------------------------
# inputs

def mods():
    from xfab import tools, laue
    return (('tools', tools), ('laue', laue))


def module(name):
    return dict(mods())[name]


_cache = {}


def settings():
    if 'settings' not in _cache:
        _cache['settings'] = json.load(open(os.path.join(GENDIR, 'tables_meta.json')))['settings']
    return _cache['settings']


def hkl_meta(modname='tools'):
    if 'meta' not in _cache:
        _cache['meta'] = json.load(open(os.path.join(GENDIR, 'hkl_meta.json')))
    return _cache['meta']['modules']['Tools' if modname == 'tools' else 'Laue']


def call_cc(s):
    """cell_choice argument that selects setting s"""
    return 'rhombohedral' if s['cell_choice'] == 'rhombohedral' else 'standard'


def spg(s):
    from xfab import sg
    k = ('spg', s['key'])
    if k not in _cache:
        _cache[k] = sg.sg(sgno=s['no'], cell_choice=call_cc(s))
    return _cache[k]


def name_variants(s):
    """ways of selecting the setting by name: (sgname, cell_choice)"""
    nm = s['name']
    if s['cell_choice'] == 'rhombohedral':
        # the rhombohedral tables are named 'R-3r'; sg.sg switches to the rhombohedral setting for names r...r
        base = nm[:-1] if nm.lower().endswith('r') and len(nm) > 2 else nm
        return [(base, 'rhombohedral'), (base + 'r', 'standard'), (' ' + base.upper() + ' R', 'standard'), (base + 'r', 'rhombohedral')]
    return [(nm, 'standard'), (' '.join(nm), 'standard')]


def rule_matches(laue, cc, s):
    if laue != s['laue']:
        return False
    if cc is None:
        return True
    return (s['cell_choice'] == cc[1]) if cc[0] else (s['cell_choice'] != cc[1])


def frozen_model():
    """segment tables and scale rule of the REVIEWED tree (harness/d2_defect_model.json, committed, never regenerated): the oracle
    and the defect model of the known finding D2 must not follow the source they are judging (a change that drops the 1.1
    over-scan of the -3 rhombohedral walk would otherwise re-define the known finding and be excused by it)"""
    if 'frozen' not in _cache:
        _cache['frozen'] = json.load(open(os.path.join(os.path.dirname(os.path.dirname(os.path.abspath(__file__))), 'd2_defect_model.json')))
    return _cache['frozen']


def segments(s, modname='tools'):
    """segm of genhkl_base for the setting (sequential ifs: last matching rule) and the scale as a Fraction -- of the reviewed tree"""
    m = frozen_model()
    segs = None
    for r in m['rules']:
        if rule_matches(r['laue'], r['cc'], s):
            segs = r['segs']
    sc = Fraction(*m['scale_default'])
    for r in m['scale_rules']:
        if rule_matches(r['laue'], r['cc'], s):
            sc = Fraction(*r['scale'])
    return segs, sc


def exact_form(cell):
    """the rational quadratic form whose float evaluation is 4*sintl(h)^2: same float cosines as tools.sintl, exact afterwards.
    Order g11 g22 g33 g23 g13 g12."""
    a, b, c = (Fraction(float(x)) for x in cell[:3])
    ca, cb, cg = (Fraction(float(np.cos(x * np.pi / 180.))) for x in cell[3:])
    p2 = 1 - (ca ** 2 + cb ** 2 + cg ** 2) + 2 * ca * cb * cg
    return ((1 - ca ** 2) / a ** 2 / p2, (1 - cb ** 2) / b ** 2 / p2, (1 - cg ** 2) / c ** 2 / p2,
            (cb * cg - ca) / (b * c) / p2, (ca * cg - cb) / (a * c) / p2, (ca * cb - cg) / (a * b) / p2)


def q_exact(G, h):
    g11, g22, g33, g23, g13, g12 = G
    x, y, z = int(h[0]), int(h[1]), int(h[2])
    return g11 * x * x + g22 * y * y + g33 * z * z + 2 * (g23 * y * z + g13 * x * z + g12 * x * y)


def box_points(cell, smax):
    """all integer points of a box that contains {h : sintl(h) <= smax}: |h_i| <= 2*smax*a_i (h_i = a_i . g, |g| = 2 stl)"""
    bs = [int(math.floor(2 * smax * float(cell[i]) * (1 + 1e-9))) + 1 for i in range(3)]
    r = [np.arange(-b, b + 1) for b in bs]
    H = np.array(np.meshgrid(*r, indexing='ij')).reshape(3, -1).T
    return H, bs


def stl_float(G, H):
    g = [float(x) for x in G]
    h, k, l = H[:, 0].astype(float), H[:, 1].astype(float), H[:, 2].astype(float)
    q = g[0] * h * h + g[1] * k * k + g[2] * l * l + 2 * (g[3] * k * l + g[4] * h * l + g[5] * h * k)
    return np.sqrt(np.maximum(q, 0)) / 2


class Case:
    """one (setting, cell, shell) with everything the oracle needs; ok=False when the 1e-9 margin is violated"""

    def __init__(self, s, cell, smin, smax):
        self.s, self.cell, self.smin, self.smax = s, [float(x) for x in cell], float(smin), float(smax)
        self.segs, self.scale = segments(s)
        self.G = exact_form(self.cell)
        self.sscaled = self.smax * float(self.scale)
        self.H, self.bs = box_points(self.cell, self.sscaled)
        self.stl = stl_float(self.G, self.H)
        self.ok = True
        for b in {self.smin, self.smax, self.sscaled}:
            if b > 0 and np.any(np.abs(self.stl - b) <= MARGIN * b):
                self.ok = False
        # the implementation's own float sintl must agree with the exact form far inside the margin (sample of the box)
        from xfab import tools
        for i in range(0, len(self.H), max(1, len(self.H) // 16)):
            st = float(tools.sintl(self.cell, [int(v) for v in self.H[i]]))
            if abs(st - self.stl[i]) > 1e-12 * max(self.stl[i], 1e-300) and np.any(self.H[i] != 0):
                self.ok = False
        self.nontrivial = (any(abs(x - 90.0) > 1e-12 for x in self.cell[3:]) or any(int(x) != 0 for x in spg(s).syscond))

    def ident(self):
        return {'sgno': self.s['no'], 'sgname': self.s['name'], 'cell_choice': self.s['cell_choice'], 'setting': self.s['key'],
                'cell': self.cell, 'sintlmin': self.smin, 'sintlmax': self.smax}

    def ops24(self):
        g = spg(self.s)
        out = []
        for R, t in zip(g.rot, g.trans):
            Ri = np.rint(R).astype(int)
            t24 = np.rint(np.asarray(t, float) * 24).astype(int)
            if np.abs(R - Ri).max() > 0 or np.abs(np.asarray(t, float) * 24 - t24).max() > 1e-4:
                raise check.Infra('table %s: non-integer rotation or translation not a 24th' % self.s['key'])
            out.append((Ri, t24))
        return out

    def extinct_mask(self, H):
        """operator-based extinction: exists (R,t): h R = h (row vector) and h.t not an integer"""
        ext = np.zeros(len(H), bool)
        for R, t24 in self.ops24():
            ext |= np.all(H @ R == H, axis=1) & ((H @ t24) % 24 != 0)
        return ext

    def expected(self):
        """set of allowed hkl != 000 in the shell (tuples)"""
        if not hasattr(self, '_exp'):
            inshell = (self.stl > self.smin) & (self.stl <= self.smax) & np.any(self.H != 0, axis=1)
            Hs = self.H[inshell]
            keep = ~self.extinct_mask(Hs)
            self._exp = set(map(tuple, Hs[keep].tolist()))
        return self._exp

    def laue_rots(self):
        g = spg(self.s)
        P = [np.rint(R).astype(int) for R in g.rot[:g.nuniq]]
        return P + [-R for R in P]

    def orbit(self, h):
        h = np.array(h, int)
        return set(tuple(int(x) for x in (h @ R)) for R in self.laue_rots())

    def in_scaled_shell(self, h):
        """exact: Q(h) <= (2*scale*max)^2 (the stop test of the traversal)"""
        return q_exact(self.G, h) <= 4 * (self.scale * Fraction(self.smax)) ** 2

    def placements(self, fam):
        """[(x, segment index, (n1,n2,n3))]: members x of the family lying in a segment cone x = s + n1 d1 + n2 d2 + n3 d3, n >= 0"""
        out = []
        for i, (s0, d1, d2, d3) in enumerate(self.segs):
            D = np.array([d1, d2, d3])
            Dinv = np.rint(np.linalg.inv(D)).astype(int)
            for x in fam:
                n = (np.array(x) - np.array(s0)) @ Dinv
                if np.all(n >= 0) and np.all(n @ D + np.array(s0) == np.array(x)):
                    out.append((x, i, tuple(int(v) for v in n)))
        return out

    def path_inside(self, seg_index, n, scale=None):
        """does the traversal as coded reach s + n1 d1 + n2 d2 + n3 d3: every point of the path s (+d3)* (+d2)* (+d1)* after the
        start passes the stop test Q <= (2*scale*max)^2"""
        s0, d1, d2, d3 = (np.array(v) for v in self.segs[seg_index])
        n1, n2, n3 = n
        p = s0.copy()
        lim = 4 * ((self.scale if scale is None else scale) * Fraction(self.smax)) ** 2
        for d, cnt in ((d3, n3), (d2, n2), (d1, n1)):
            for _ in range(cnt):
                p = p + d
                if q_exact(self.G, p) > lim:
                    return False
        return True

    def scale_sensitive(self):
        """some allowed family of the shell is reached by the traversal with the (reviewed) over-scan factor of this setting but
        would not be reached with the default factor: the case exercises the scale rule"""
        default = Fraction(*frozen_model()['scale_default'])
        if self.scale == default:
            return False
        for fam in families(self, self.expected()):
            pl = self.placements(fam)
            if any(self.path_inside(i, n) for _x, i, n in pl) and not any(self.path_inside(i, n, default) for _x, i, n in pl):
                return True
        return False

    def classify_missing_family(self, fam):
        """'D2' when no member of the family is reachable by the traversal as coded (its path leaves the scaled shell),
        else a description of why it is not explained"""
        pl = self.placements(fam)
        if not pl:
            return 'no member of the family lies in a segment cone'
        for x, i, n in pl:
            if self.path_inside(i, n):
                return 'member %s is reached by the traversal (segment %d, n=%s) but was not emitted' % (list(x), i, list(n))
        return 'D2'


def conforming_cells(rng, s, n):
    """n conforming cells; for triclinic / monoclinic groups the second one has an orthogonal metric"""
    out = []
    for i in range(n):
        orth = (i % 3 == 1) and s['cs'] in ('triclinic', 'monoclinic')
        c = gens.conforming_cell(rng, s['cs'], 'rhombohedral' if s['cell_choice'] == 'rhombohedral' else 'standard', orth=orth)
        if i % 3 == 2:
            # whole-numbered cell (a caller writes [3, 3, 5, 90, 90, 120]); rounding keeps the cell conforming
            c = [float(max(2, round(x))) for x in c[:3]] + [float(round(x)) for x in c[3:]]
        out.append([float(round(x, 4)) for x in c])
    return out


def shell(rng, cell):
    smax = rng.uniform(0.9, 2.6) / max(cell[:3])
    u = rng.random()
    # a negative lower bound ("no lower limit", -1 in old scripts) puts the origin 000 inside the shell: it is no reflection
    smin = 0.0 if u < 0.4 else (-rng.choice([1.0, 0.1, rng.uniform(0.001, 0.5)]) if u < 0.55 else rng.uniform(0, 0.7) * smax)
    return float(round(smin, 5)), float(round(smax, 5))


def sweep_cases(ctx):
    out = []
    for s in settings():
        cc = 'rhombohedral' if s['cell_choice'] == 'rhombohedral' else 'standard'
        for _ in range(12):
            cell = gens.conforming_cell(ctx.rng, s['cs'], cc, orth=s['cs'] in ('triclinic', 'monoclinic'))
            m = min(cell[:3])
            cell = [float(round(min(x, 1.6 * m), 3)) for x in cell[:3]] + [float(round(x, 3)) for x in cell[3:]]
            if s['cs'] in ('tetragonal', 'trigonal', 'hexagonal') and cc == 'standard':
                cell[1] = cell[0]
            if s['cs'] == 'cubic' or cc == 'rhombohedral':
                cell[1] = cell[2] = cell[0]
            smax = float(round(ctx.rng.uniform(1.55, 2.3) / max(cell[:3]), 5))
            try:
                c = Case(s, cell, 0.0 if ctx.rng.random() < 0.6 else -1.0, smax)
            except Exception:
                continue
            if c.ok:
                out.append(c)
                break
    return out


def long_axis_cases(ctx, n=2):
    """one long axis (150..400 A: a layered compound, a protein) and a shell from 0 that reaches Miller indices of 100 and more -- anything
    that packs, truncates or formats indices works for |h| < 100 only.  Orthogonal and hexagonal settings (closed walks)."""
    out = []
    pool = [s for s in settings() if s['cs'] in ('orthorhombic', 'tetragonal', 'hexagonal') and s['cell_choice'] != 'rhombohedral']
    for s in ctx.rng.sample(pool, min(len(pool), 4 * n)):
        cell = gens.conforming_cell(ctx.rng, s['cs'], 'standard')
        cell = [float(round(min(cell[0], 5.0), 3)), float(round(min(cell[1], 5.0), 3)), float(round(ctx.rng.uniform(150.0, 400.0), 3))] + [float(round(x, 3)) for x in cell[3:]]
        if s['cs'] in ('tetragonal', 'hexagonal'):
            cell[1] = cell[0]
        smax = float(round(ctx.rng.uniform(100.5, 125.0) / (2.0 * cell[2]), 6))
        try:
            c = Case(s, cell, 0.0, smax)
        except Exception:
            continue
        if c.ok:
            out.append(c)
        if len(out) >= n:
            break
    return out


def scale_rule_cases(ctx, per_setting=2, tries=60):
    """cases on which the sintl_scale rule of genhkl_base decides whether a reflection is found (deep shells of acute cells in the
    settings the reviewed rule names): without them the rule is dead code for every stream"""
    out = []
    fm = frozen_model()
    for s in settings():
        if not any(rule_matches(r['laue'], r['cc'], s) for r in fm['scale_rules']):
            continue
        cc = 'rhombohedral' if s['cell_choice'] == 'rhombohedral' else 'standard'
        found = 0
        for _ in range(tries):
            cell = gens.conforming_cell(ctx.rng, s['cs'], cc)
            if cc == 'rhombohedral':
                al = round(ctx.rng.uniform(55.0, 85.0), 2)
                cell = [cell[0]] * 3 + [al] * 3
            cell = [float(round(x, 3)) for x in cell]
            smax = float(round(ctx.rng.uniform(2.5, 4.2) / max(cell[:3]), 5))
            try:
                c = Case(s, cell, 0.0, smax)
            except Exception:
                continue
            if c.ok and c.scale_sensitive():
                out.append(c)
                found += 1
                if found >= per_setting:
                    break
    return out


def sample_settings(ctx, nquick):
    S = settings()
    if ctx.thorough or ctx.boost:
        # boost = an obligation, the correspondence or a translator broke: every table is looked at
        return list(S)
    strata = {}
    for s in S:
        strata.setdefault((s['laue'], s['cell_choice'], s['cs']), []).append(s)
    out = []
    for k in sorted(strata):
        out += ctx.rng.sample(strata[k], min(2, len(strata[k])))
    rest = [s for s in S if s not in out]
    out += ctx.rng.sample(rest, max(0, nquick - len(out)))
    return out


def long_axis_case(rng, s):
    """a conforming cell with one (or, where the system forces it, all) axis of 55-80 A and a thin shell near
    sin(theta)/lambda 0.4-0.5: reaches Miller indices of 50-80 while the output stays small"""
    cc = 'rhombohedral' if s['cell_choice'] == 'rhombohedral' else 'standard'
    cell = gens.conforming_cell(rng, s['cs'], cc, orth=(rng.random() < 0.5))
    L = rng.uniform(55.0, 80.0)
    cs = s['cs']
    if cs == 'cubic' or cc == 'rhombohedral':
        L = rng.uniform(52.0, 60.0)
        cell[0] = cell[1] = cell[2] = L
    elif cs in ('tetragonal', 'trigonal', 'hexagonal'):
        cell[2] = L
    else:
        cell[rng.randrange(3)] = L
    cell = [float(round(x, 4)) for x in cell]
    smax = rng.uniform(0.40, 0.50)
    thin = 0.004 if (cs == 'cubic' or cc == 'rhombohedral') else 0.02
    return cell, float(round(smax * (1 - thin), 5)), float(round(smax, 5))


def make_cases(ctx, ncells):
    cases, skipped = [], 0
    sets = sample_settings(ctx, 60)
    # high-index stream: every 6th sampled setting (all of them when something broke) also gets a long-axis cell
    for i, s in enumerate(sets):
        if i % (2 if ctx.boost else 6) == 0:
            for _ in range(10):
                cell, smin, smax = long_axis_case(ctx.rng, s)
                c = Case(s, cell, smin, smax)
                if c.ok:
                    c.long_axis = True
                    cases.append(c)
                    break
                skipped += 1
    for s in sets:
        # the oblique systems (where the traversal defect D2 lives) get three times as many cells
        oblique = s['cs'] in ('triclinic', 'monoclinic') or s['cell_choice'] == 'rhombohedral'
        for cell in conforming_cells(ctx.rng, s, ncells * (3 if oblique else 1)):
            for _ in range(20):
                smin, smax = shell(ctx.rng, cell)
                c = Case(s, cell, smin, smax)
                if c.ok:
                    cases.append(c)
                    break
                skipped += 1
    return cases, skipped


# ------------------------------------------------------------------------------------------------
# running the implementation

def rows_int(A):
    """rows of the first three columns as integer tuples; None when some index is not an integer"""
    A = np.asarray(A, float)
    if A.ndim != 2 or A.shape[1] < 3:
        return None
    I = np.rint(A[:, :3])
    if A.shape[0] and np.abs(A[:, :3] - I).max() != 0:
        return None
    return [tuple(int(v) for v in r) for r in I]


def run_py(modname, fn, c, by='no', seed=None, output_stl=False, variant=0):
    """one call of the implementation.  The call FORM is part of what a caller chooses: half of the calls (a fixed function of the case,
    so that a replay makes the same call) pass sgname, sgno, cell_choice, output_stl positionally, in the order of the reviewed
    signature (unit_cell, sintlmin, sintlmax, sgname=None, sgno=None, cell_choice='standard', output_stl=False)"""
    import zlib
    m = module(modname)
    if seed is not None:
        np.random.seed(seed)
    f = getattr(m, fn)
    cellarg = cell_argument(c, variant)
    h = zlib.crc32(('%s|%s|%s|%s|%s|%s' % (modname, fn, by, c.s['key'], output_stl, variant)).encode())
    positional = h % 2 == 1
    # strings arrive as run-time objects (never the interned literal of the library's default), flags as bool / int / numpy.bool_
    ostl = gens.flag(output_stl, h // 2)
    if by == 'no':
        if positional:
            return f(cellarg, c.smin, c.smax, None, c.s['no'], gens.fresh_str(call_cc(c.s)), ostl)
        return f(cellarg, c.smin, c.smax, sgno=c.s['no'], cell_choice=gens.fresh_str(call_cc(c.s)), output_stl=ostl)
    nv = name_variants(c.s)
    nm, cc = nv[variant % len(nv)]
    if positional:
        return f(cellarg, c.smin, c.smax, gens.fresh_str(nm), None, gens.fresh_str(cc), ostl)
    return f(cellarg, c.smin, c.smax, sgname=gens.fresh_str(nm), cell_choice=gens.fresh_str(cc), output_stl=ostl)


def cell_argument(c, variant=0):
    """the cell in the container / numeric type a caller may use: whole-numbered cells are passed as Python ints (list) or as an
    integer ndarray, the others as a list of floats or a float ndarray"""
    if all(float(x) == int(x) for x in c.cell):
        ints = [int(x) for x in c.cell]
        return ints if variant % 2 == 0 else np.array(ints)
    return [list(c.cell), tuple(c.cell), np.array(c.cell, dtype=float)][variant % 3]


def frac_str(f):
    f = Fraction(f)
    return '%d/%d' % (f.numerator, f.denominator)


def driver_line(modname, c, fn):
    # the model compares squares: sintlmin < s  <=>  sgn(sintlmin)*sintlmin^2 < s^2  for every real sintlmin and s >= 0 (a negative lower
    # bound is passed as a negative "square": every reflection is above it)
    smin = Fraction(c.smin)
    return ' '.join([modname, c.s['key']] + [frac_str(x) for x in c.G] + [frac_str(smin ** 2 if smin >= 0 else -(smin ** 2)), frac_str(Fraction(c.smax) ** 2), fn])


def parse_driver(ans):
    if not ans.startswith('ok'):
        return ans.strip()
    body = ans[2:].strip()
    if not body:
        return []
    return sorted(tuple(int(v) for v in r.split(',')) for r in body.split(';'))


def run_correspondence(ctx, fns, ncells_quick=2, ncells_thorough=3):
    cases, skipped = make_cases(ctx, ctx.n(ncells_quick, ncells_thorough, boost=1))
    lines, jobs = [], []
    for i, c in enumerate(cases):
        for j, (mn, _) in enumerate(mods()):
            for fn in fns:
                lines.append(driver_line(mn, c, fn))
                jobs.append((c, mn, fn, 'no' if (i + j) % 2 == 0 else 'name', i))
    answers = check.run_model_driver('HklDriver.lean', lines)
    dis, stats = [], {'distinct_cases': len(cases), 'skipped_margin': skipped, 'by_no': 0, 'by_name': 0, 'rows_compared': 0, 'seeds': 0}
    seeds = (0, 1, 2) if ctx.thorough else (0,)
    for (c, mn, fn, by, i), ans in zip(jobs, answers):
        model = parse_driver(ans)
        for seed in seeds:
            A = run_py(mn, 'genhkl_' + fn, c, by=by, seed=seed + 17 * i, variant=i)
            py = rows_int(A)
            py = sorted(py) if py is not None else 'non-integer rows'
            stats['seeds'] += 1
            if py != model:
                d = {'fn': '%s.genhkl_%s' % (mn, fn), 'by': by, 'numpy_seed': seed + 17 * i}
                d.update(c.ident())
                if isinstance(model, list) and isinstance(py, list):
                    d['only_model'] = sorted(set(model) - set(py))[:5]
                    d['only_python'] = sorted(set(py) - set(model))[:5]
                    d['len_model'], d['len_python'] = len(model), len(py)
                else:
                    d['model'], d['python'] = str(model)[:80], str(py)[:80]
                dis.append(d)
                break
        stats['by_' + by] += 1
        stats['rows_compared'] += len(model) if isinstance(model, list) else 0
    nontriv = sum(1 for c in cases if c.nontrivial)
    sample = [{'fn': 'tools.genhkl_%s' % fns[0], 'request': lines[0][:300], 'answer': answers[0][:200]}] if lines else []
    return {'cases': len(jobs), 'disagreements': dis, 'stats': stats, 'samples': sample, 'distinct_nontrivial': nontriv}


def correspondence(ctx):
    return run_correspondence(ctx, ['all'])


# ------------------------------------------------------------------------------------------------
# oracle (real code, independent of the model)

def violation(c, fn, what, observed, expected, known_id=None, **extra):
    v = {'fn': fn, 'what': what, 'observed': observed, 'expected': expected, 'known_id': known_id}
    v.update(c.ident())
    v.update(extra)
    return v


def families(c, hkls):
    """partition a set of hkl into Laue orbits (each restricted to the given set)"""
    left, fams = set(hkls), []
    while left:
        h = next(iter(left))
        o = c.orbit(h)
        fams.append(o)
        left -= o
    return fams


def check_all(c, modname, by, seeds, prop='C05', variant=0):
    """property C05 on one case: genhkl_all == allowed reflections in the shell, as multisets, for every seed.
    returns (violations, d2_hits)"""
    fn = '%s.genhkl_all' % modname
    viol, d2 = [], 0
    exp = c.expected()
    first = None
    for seed in seeds:
        A = run_py(modname, 'genhkl_all', c, by=by, seed=seed, variant=variant)
        rows = rows_int(A)
        if rows is None:
            viol.append(violation(c, fn, 'integer indices', 'non-integer entry', 'integers', numpy_seed=seed, by=by))
            return viol, d2
        if first is None:
            first = sorted(rows)
        elif sorted(rows) != first:
            viol.append(violation(c, fn, 'independent of numpy random state', 'output differs between seeds %s' % (list(seeds),),
                                  'same multiset', numpy_seed=seed, by=by))
            return viol, d2
    rows = first
    got = set(rows)
    if len(got) != len(rows):
        dup = sorted(r for r in got if rows.count(r) > 1)[:5]
        viol.append(violation(c, fn, 'none repeated', dup, 'each reflection once', by=by))
    extra = sorted(got - exp)
    if extra:
        h = extra[0]
        why = 'hkl = 000' if h == (0, 0, 0) else ('extinct by the operators' if c.extinct_mask(np.array([h]))[0] else 'outside the shell')
        viol.append(violation(c, fn, 'none extra', [list(x) for x in extra[:5]], 'not returned (%s)' % why, by=by))
    missing = exp - got
    if missing:
        for fam in families(c, missing):
            full = c.orbit(next(iter(fam)))
            if full & got:
                viol.append(violation(c, fn, 'none missing', [list(x) for x in sorted(fam)[:5]],
                                      'whole Laue family returned (part of it is)', by=by))
                continue
            why = c.classify_missing_family(full)
            if why == 'D2':
                d2 += 1
                viol.append(violation(c, fn, 'none missing', 'missing family of %s' % (list(sorted(fam)[-1]),), 'returned',
                                      known_id=prop + '-D2', missing_hkl=list(sorted(fam)[-1]), by=by))
            else:
                viol.append(violation(c, fn, 'none missing', 'missing family of %s' % (list(sorted(fam)[-1]),),
                                      'returned; not explained by D2: ' + why, missing_hkl=list(sorted(fam)[-1]), by=by))
    return viol, d2


def hex_cell_of(cell_rh):
    a, al = float(cell_rh[0]), float(cell_rh[3])
    ca = math.cos(math.radians(al))
    return [a * math.sqrt(2 - 2 * ca), a * math.sqrt(2 - 2 * ca), a * math.sqrt(3 + 6 * ca), 90.0, 90.0, 120.0]


def check_hex_rhomb(ctx, no, modname):
    """hexagonal vs rhombohedral setting of one R group under the obverse transformation.  returns (violations, d2, evaluated)"""
    S = {s['key']: s for s in settings()}
    sh, sr = S['n%d' % no], S['n%dr' % no]
    for _ in range(30):
        a = round(ctx.rng.uniform(3.5, 8.0), 4)
        al = round(ctx.rng.uniform(50, 110), 3)
        cell_r = [a, a, a, al, al, al]
        cell_h = hex_cell_of(cell_r)
        smax = round(ctx.rng.uniform(0.9, 2.2) / a, 5)
        smin = 0.0 if ctx.rng.random() < 0.5 else round(ctx.rng.uniform(0, 0.6) * smax, 5)
        cr, ch = Case(sr, cell_r, smin, smax), Case(sh, cell_h, smin, smax)
        if cr.ok and ch.ok:
            break
    else:
        return [], 0, 0
    fn = '%s.genhkl_all' % modname
    viol, d2 = [], 0
    # the tables of the two settings describe the same group: allowed sets correspond under M_OBV (pure table check)
    er = set(tuple(int(v) for v in (np.array(h) @ M_OBV)) for h in cr.expected())
    if er != ch.expected():
        viol.append(violation(cr, fn, 'hexagonal / rhombohedral tables equivalent under the obverse transformation',
                              [list(x) for x in sorted(er ^ ch.expected())[:5]], 'same allowed reflections', hex_cell=cell_h))
        return viol, d2, 1
    Ar = rows_int(run_py(modname, 'genhkl_all', cr, by='no', seed=1))
    Ah = rows_int(run_py(modname, 'genhkl_all', ch, by='name', seed=2))
    if Ar is None or Ah is None:
        viol.append(violation(cr, fn, 'integer indices', 'non-integer entry', 'integers'))
        return viol, d2, 1
    mapped = set(tuple(int(v) for v in (np.array(h) @ M_OBV)) for h in Ar)
    hexs = set(Ah)
    Minv3 = np.rint(np.linalg.inv(M_OBV) * 3).astype(int)
    for h in sorted(hexs - mapped):          # returned in the hexagonal setting, absent from the rhombohedral one
        hr = tuple(int(v) // 3 for v in (np.array(h) @ Minv3))
        fam = cr.orbit(hr)
        if fam & set(Ar):
            continue                          # reported by check_all as a partial family
        why = cr.classify_missing_family(fam) if hr in cr.expected() else 'not an allowed rhombohedral reflection'
        if why == 'D2':
            d2 += 1
            viol.append(violation(cr, fn, 'hexagonal and rhombohedral settings give the same reflections',
                                  'rhombohedral setting lacks %s (hexagonal %s)' % (list(hr), list(h)), 'returned in both',
                                  known_id='C05-D2', missing_hkl=list(hr), hex_cell=cell_h))
        else:
            viol.append(violation(cr, fn, 'hexagonal and rhombohedral settings give the same reflections',
                                  'rhombohedral setting lacks %s (hexagonal %s)' % (list(hr), list(h)), 'returned in both; ' + why,
                                  missing_hkl=list(hr), hex_cell=cell_h))
        break
    for h in sorted(mapped - hexs)[:1]:
        viol.append(violation(ch, fn, 'hexagonal and rhombohedral settings give the same reflections',
                              'hexagonal setting lacks %s' % (list(h),), 'returned in both', rhombohedral_cell=cell_r))
    return viol, d2, 1


def dedup_known(viol, limit=40):
    """keep every unexplained violation (up to limit) and one witness per known id"""
    out, seen = [], set()
    for v in viol:
        if v.get('known_id'):
            if v['known_id'] in seen:
                continue
            seen.add(v['known_id'])
        out.append(v)
    return out[:limit]


def oracle(ctx, hints=()):
    ncells = ctx.n(3, 4, boost=2)   # boost looks at all 237 settings (sample_settings), fewer cells each
    cases, skipped = make_cases(ctx, ncells)
    viol, d2, evals, nontriv = [], 0, 0, 0
    per_cs = {}
    for i, c in enumerate(cases):
        for j, (mn, _) in enumerate(mods()):
            by = 'no' if (i + j) % 2 == 0 else 'name'
            seeds = (3 * i, 3 * i + 1, 3 * i + 2) if (ctx.thorough or j == i % 2) else (3 * i,)
            v, k = check_all(c, mn, by, seeds, variant=i)
            viol += v
            d2 += k
            evals += len(seeds)
        nontriv += 1 if c.nontrivial else 0
        per_cs[c.s['cs']] = per_cs.get(c.s['cs'], 0) + 1
    # every setting, every run: one compact conforming cell and a shell from 0 that reaches indices of 3-5 (the sampled stream above
    # draws 60 of the 237 settings and often shallow shells: a change confined to ONE table or one branch of sysabs -- Pa-3's
    # transposed zone conditions -- was missed by it)
    sw = sweep_cases(ctx)
    for i, c in enumerate(sw):
        v, k = check_all(c, 'tools' if (i + ctx.seed) % 2 == 0 else 'laue', 'no' if (i // 2 + ctx.seed) % 2 == 0 else 'name', (i,), variant=0)
        viol += v
        d2 += k
        evals += 1
    sr = scale_rule_cases(ctx, per_setting=ctx.n(1, 4, boost=3)) + long_axis_cases(ctx, 2)
    for i, c in enumerate(sr):
        v, k = check_all(c, 'tools' if (i + ctx.seed) % 2 == 0 else 'laue', 'no', (i,), variant=0)
        viol += v
        d2 += k
        evals += 1
    nhr = 0
    for rep in range(ctx.n(1, 6, boost=3)):
        for no in R_GROUPS:
            v, k, e = check_hex_rhomb(ctx, no, 'tools' if (no + rep) % 2 else 'laue')
            viol += v
            d2 += k
            nhr += e
    evals += 2 * nhr
    c0 = cases[0]
    sample = dict(c0.ident(), n_expected=len(c0.expected()))
    return {'evaluations': evals, 'distinct_nontrivial': nontriv, 'violations': dedup_known(viol), 'samples': [sample],
            'stats': {'cases': len(cases), 'all_settings_sweep': len(sw), 'scale_rule_cases': len(sr), 'skipped_margin': skipped, 'D2_hits': d2, 'hex_rhomb_pairs': nhr, 'cases_per_crystal_system': per_cs},
            'exhaustive': False}


# ------------------------------------------------------------------------------------------------
# known finding / replay

def case_of_witness(w):
    S = [s for s in settings() if s['no'] == w['sgno'] and call_cc(s) == ('rhombohedral' if w.get('cell_choice') == 'rhombohedral' else 'standard')]
    if not S:
        return None
    return Case(S[0], w['cell'], w['sintlmin'], w['sintlmax'])


def check_known(finding):
    w = finding.get('witness') or {}
    try:
        c = case_of_witness(w)
    except Exception:
        return None
    if c is None:
        return None
    v, d2 = check_all(c, w.get('module', 'tools'), 'no', (0,), prop=finding.get('property', 'C05'))
    want = tuple(w.get('missing_hkl', ()))
    for x in v:
        if x.get('known_id') == finding['id'] and (not want or want in c.orbit(x['missing_hkl'])):
            return x
    return None


def replay(payload):
    v = payload.get('violation')
    if not v:
        print('replay C05: broken obligation, no input stored:', [b.get('what') for b in payload.get('broken', [])])
        return 1
    c = case_of_witness({'sgno': v['sgno'], 'cell_choice': v['cell_choice'], 'cell': v['cell'], 'sintlmin': v['sintlmin'], 'sintlmax': v['sintlmax']})
    mn = v['fn'].split('.')[0]
    res, d2 = check_all(c, mn, v.get('by', 'no'), (0, 1, 2))
    res = [x for x in res if x['known_id'] is None] or res
    print('replay C05 %s sgno=%s (%s) cell=%s shell=(%s, %s]: margin ok=%s' % (v['fn'], v['sgno'], v['cell_choice'], v['cell'], v['sintlmin'], v['sintlmax'], c.ok))
    if res:
        print('  VIOLATION:', res[0]['what'], '| observed:', res[0]['observed'], '| expected:', res[0]['expected'], '| known_id:', res[0]['known_id'])
        return 1
    print('  holds: genhkl_all returns exactly the %d allowed reflections' % len(c.expected()))
    return 0
