"""C06 — genhkl_unique: one reflection per Laue family, sorted; genhkl_all is the union of the families."""
import math
from fractions import Fraction
import numpy as np
import check
from props import c05

GEN = ['tables', 'hkl', 't54']
LEAN_MODULES = ['XfabVerif.Proofs.C06', 'XfabVerif.Proofs.C06T54', 'XfabVerif.Proofs.C05Final']
EXTRA_OBLIGATION_FILES = ['XfabVerif/Gen/T54/V%d.lean' % k for k in range(14)] + ['XfabVerif/Gen/T54/All.lean']
AUDIT_FILES = ['XfabVerif/Lemmas/T54.lean', 'XfabVerif/Lemmas/T54Nodup.lean', 'XfabVerif/Lemmas/T53.lean', 'XfabVerif/Lemmas/T53Term.lean',
               'XfabVerif/Lemmas/ConformQ.lean', 'XfabVerif/Lemmas/ExtInv.lean']
# definitions the hand-written model mirrors (see harness/pins.py): a source change breaks the tie
PINS = ['xfab/tools.py:genhkl_base', 'xfab/laue.py:genhkl_base', 'xfab/tools.py:genhkl_unique', 'xfab/laue.py:genhkl_unique', 'xfab/tools.py:genhkl_all', 'xfab/laue.py:genhkl_all']
LEAN_DRIVER_MODULES = ['XfabVerif.Model.Hkl']
RULE = c05.RULE + "; output_stl True and False"
ASSUMPTIONS = c05.ASSUMPTIONS + [
    "the fourth column is compared with sqrt(Q)/2 of the exact rational form built from the float cosines of the cell to 1e-12 relative",
]
TRUSTED_EXTRA = c05.TRUSTED_EXTRA


def correspondence(ctx):
    return c05.run_correspondence(ctx, ['unique', 'all'])


def stl_ref(c, h):
    q = c05.q_exact(c.G, h)
    return math.sqrt(float(q)) / 2


def large_shell_check(modname, rng):
    m = c05.module(modname)
    a = float(round(rng.uniform(29.0, 31.0), 3))
    smin, smax = 0.05, float(round(rng.uniform(0.680, 0.705), 4))
    inp = {'fn': '%s.genhkl_all' % modname, 'sgno': 221, 'cell_choice': 'standard', 'cell': [a, a, a, 90.0, 90.0, 90.0], 'sintlmin': smin,
           'sintlmax': smax, 'large_shell': True, 'known_id': None}
    np.random.seed(11)
    H = np.asarray(m.genhkl_all(inp['cell'], smin, smax, sgno=221, output_stl=True), float)
    n = int(math.floor(2 * a * smax)) + 1
    g = np.arange(-n, n + 1)
    hh, kk, ll = np.meshgrid(g, g, g, indexing='ij')
    stl = np.sqrt(hh * hh + kk * kk + ll * ll) / (2.0 * a)
    margin = np.minimum(np.abs(stl - smin), np.abs(stl - smax)).min()
    if margin < 1e-9:
        return []                                   # a reflection on the boundary: the comparison below would be rounding dependent
    want = int(np.count_nonzero((stl > smin) & (stl <= smax)))
    out = []
    if H.ndim != 2 or H.shape[1] != 4 or H.shape[0] != want:
        out.append(dict(inp, what='number of rows (every integer triple of the shell, Pm-3m has no extinctions)', observed=list(H.shape), expected=[want, 4]))
        return out
    col = np.sqrt((H[:, :3] ** 2).sum(axis=1)) / (2.0 * a)
    err = np.abs(H[:, 3] - col)
    if err.max() > 1e-9:
        k = int(np.argmax(err))
        out.append(dict(inp, what='fourth column = sin(theta)/lambda of the row (row %d, hkl %s)' % (k, H[k, :3].astype(int).tolist()),
                        observed=float(H[k, 3]), expected=float(col[k])))
    key = H[:, 0] * 1e6 + H[:, 1] * 1e3 + H[:, 2]
    if len(np.unique(key)) != len(key):
        out.append(dict(inp, what='no row twice', observed=int(len(key) - len(np.unique(key))), expected=0))
    return out


def check_unique(c, modname, by, seed=0, prop='C06', variant=0):
    """property C06 on one case. returns (violations, d2_hits)"""
    fu, fa = '%s.genhkl_unique' % modname, '%s.genhkl_all' % modname
    viol, d2 = [], 0
    V = lambda fn, what, obs, exp, known_id=None, **kw: viol.append(c05.violation(c, fn, what, obs, exp, known_id=known_id, by=by, **kw))
    U4 = np.asarray(c05.run_py(modname, 'genhkl_unique', c, by=by, output_stl=True, variant=variant), float)
    U3 = np.asarray(c05.run_py(modname, 'genhkl_unique', c, by=by, output_stl=False, variant=variant), float)
    A4 = np.asarray(c05.run_py(modname, 'genhkl_all', c, by=by, seed=seed, output_stl=True, variant=variant), float)
    A3 = np.asarray(c05.run_py(modname, 'genhkl_all', c, by=by, seed=seed + 1, output_stl=False, variant=variant), float)
    # shapes, optional fourth column
    if U4.ndim != 2 or U4.shape[1] != 4 or U3.ndim != 2 or U3.shape[1] != 3 or A4.ndim != 2 or A4.shape[1] != 4 or A3.ndim != 2 or A3.shape[1] != 3:
        V(fu, 'n x 3 rows, n x 4 with output_stl', [list(U4.shape), list(U3.shape), list(A4.shape), list(A3.shape)], '[n,4],[n,3],[m,4],[m,3]')
        return viol, d2
    if U3.shape[0] != U4.shape[0] or not np.array_equal(U3, U4[:, :3]):
        V(fu, 'output_stl=False returns the same rows without the fourth column', 'rows differ', 'equal rows')
    u = c05.rows_int(U4)
    a = c05.rows_int(A4)
    a3 = c05.rows_int(A3)
    if u is None or a is None or a3 is None:
        V(fu if u is None else fa, 'integer indices', 'non-integer entry', 'integers')
        return viol, d2
    if sorted(a3) != sorted(a):
        V(fa, 'output_stl=False returns the same rows without the fourth column', 'multisets differ', 'equal multisets')
    # fourth column = sin(theta)/lambda of the row
    for rows, A, fn in ((u, U4, fu), (a, A4, fa)):
        for h, st in zip(rows, A[:, 3]):
            ref = stl_ref(c, h)
            if not abs(st - ref) <= 1e-12 * ref:
                V(fn, 'fourth column = sin(theta)/lambda of the row', {'hkl': list(h), 'stl': float(st)}, ref)
                break
    # order
    for A, fn in ((U4, fu), (A4, fa)):
        if A.shape[0] > 1 and np.any(np.diff(A[:, 3]) < 0):
            i = int(np.argmax(np.diff(A[:, 3]) < 0))
            V(fn, 'rows ordered by non-decreasing sin(theta)/lambda', [float(A[i, 3]), float(A[i + 1, 3])], 'non-decreasing')
    # bounds: min exclusive, max inclusive
    for A, fn in ((U4, fu), (A4, fa)):
        badrow = [i for i in range(A.shape[0]) if not (A[i, 3] > c.smin and A[i, 3] <= c.smax)]
        if badrow:
            V(fn, 'sintlmin < sin(theta)/lambda <= sintlmax', {'hkl': list(map(int, A[badrow[0], :3])), 'stl': float(A[badrow[0], 3])},
              '(%r, %r]' % (c.smin, c.smax))
    # one representative of every allowed family, nothing else
    exp = c.expected()
    extra = [h for h in u if h not in exp]
    if extra:
        h = extra[0]
        why = 'hkl = 000' if h == (0, 0, 0) else ('extinct by the operators' if c.extinct_mask(np.array([h]))[0] else 'outside the shell')
        V(fu, 'only allowed reflections in the shell', [list(x) for x in extra[:5]], 'not returned (%s)' % why)
    reps = {}
    for h in u:
        k = min(c.orbit(h))
        reps.setdefault(k, []).append(h)
    multi = [v for v in reps.values() if len(v) > 1]
    if multi:
        V(fu, 'exactly one member of every Laue family', [list(x) for x in multi[0]], 'one representative')
    for fam in c05.families(c, exp):
        k = min(c.orbit(next(iter(fam))))
        if k in reps:
            continue
        full = c.orbit(k)
        why = c.classify_missing_family(full)
        wit = sorted(fam)[-1]
        if why == 'D2':
            d2 += 1
            V(fu, 'one member of every allowed Laue family', 'no representative of the family of %s' % (list(wit),), 'one representative',
              known_id=prop + '-D2', missing_hkl=list(wit))
        else:
            V(fu, 'one member of every allowed Laue family', 'no representative of the family of %s' % (list(wit),),
              'one representative; not explained by D2: ' + why, missing_hkl=list(wit))
    # genhkl_all = union of the families of the rows of genhkl_unique (same stl)
    union = {}
    for h, st in zip(u, U4[:, 3]):
        for x in c.orbit(h):
            union.setdefault(x, float(st))
    if len(set(a)) != len(a):
        V(fa, 'none repeated', [list(x) for x in sorted(set(r for r in a if a.count(r) > 1))[:5]], 'each reflection once')
    if set(a) != set(union):
        V(fa, 'genhkl_all is the union of the Laue families of genhkl_unique',
          {'only_all': [list(x) for x in sorted(set(a) - set(union))[:5]], 'only_union': [list(x) for x in sorted(set(union) - set(a))[:5]]}, 'equal sets')
    else:
        for h, st in zip(a, A4[:, 3]):
            if float(st) != union[h] and not abs(st - union[h]) <= 1e-12 * union[h]:
                V(fa, 'fourth column of genhkl_all = that of the family representative', {'hkl': list(h), 'stl': float(st)}, union[h])
                break
    return viol, d2


def boundary_checks(ctx):
    """'sintlmin is exclusive and sintlmax inclusive', tested only where floating point is exact: primitive groups
    with an orthogonal metric and h00 reflections whose sin(theta)/lambda the implementation itself computes
    bit-identically to the bound (verified per case, skipped otherwise)."""
    viol, n = [], 0
    groups = [(221, 'cubic'), (200, 'cubic'), (195, 'cubic'), (123, 'tetragonal'), (75, 'tetragonal'), (83, 'tetragonal'),
              (47, 'orthorhombic'), (16, 'orthorhombic'), (25, 'orthorhombic')]
    for mn, m in c05.mods():
        for sgno, cs in groups:
            a = ctx.rng.choice([2.0, 4.0, 8.0, 3.0, 5.0, 6.5])
            cell = {'cubic': [a, a, a], 'tetragonal': [a, a, 2 * a + 1], 'orthorhombic': [a, a + 1.5, 2 * a + 0.5]}[cs] + [90.0, 90.0, 90.0]
            h = ctx.rng.randint(1, 5)
            b = float(m.sintl(cell, [h, 0, 0]))
            inp = {'sgno': sgno, 'cell': cell, 'hkl': [h, 0, 0], 'bound': b}
            for fn in ('genhkl_unique', 'genhkl_all'):
                inc = np.asarray(getattr(m, fn)(cell, 0.0, b, sgno=sgno, output_stl=True), float)
                exc = np.asarray(getattr(m, fn)(cell, b, 1.6 * b, sgno=sgno, output_stl=True), float)
                n += 2
                has = lambda A: bool(len(A)) and bool(np.any((A[:, 3] == b) & (np.abs(A[:, 0]) == h) & (A[:, 1] == 0) & (A[:, 2] == 0)))
                if not has(inc):
                    viol.append({'fn': '%s.%s' % (mn, fn), 'what': 'sintlmax is inclusive', 'input': inp, 'observed': 'reflection on the upper bound missing',
                                 'expected': 'returned', 'known_id': None, 'boundary': True})
                if len(exc) and bool(np.any(exc[:, 3] == b)):
                    viol.append({'fn': '%s.%s' % (mn, fn), 'what': 'sintlmin is exclusive', 'input': inp, 'observed': 'reflection on the lower bound returned',
                                 'expected': 'not returned', 'known_id': None, 'boundary': True})
    return viol, n


def oracle(ctx, hints=()):
    ncells = ctx.n(3, 4, boost=2)   # boost looks at all 237 settings (sample_settings), fewer cells each
    cases, skipped = c05.make_cases(ctx, ncells)
    viol, d2, evals, nontriv = [], 0, 0, 0
    bv, bn = boundary_checks(ctx)
    viol += bv
    evals += bn
    per_cs = {}
    for i, c in enumerate(cases):
        for j, (mn, _) in enumerate(c05.mods()):
            if not ctx.thorough and not ctx.boost and j != i % 2:
                continue
            by = 'no' if (i + j) % 2 == 0 else 'name'
            v, k = check_unique(c, mn, by, seed=5 * i + j, variant=i)
            viol += v
            d2 += k
            evals += 4
        nontriv += 1 if c.nontrivial else 0
        per_cs[c.s['cs']] = per_cs.get(c.s['cs'], 0) + 1
    # every setting, every run (see props/c05.py sweep_cases)
    sw = c05.sweep_cases(ctx)
    for i, c in enumerate(sw):
        v, k = check_unique(c, 'laue' if (i + ctx.seed) % 2 == 0 else 'tools', 'name' if (i // 2 + ctx.seed) % 2 == 0 else 'no', seed=i, variant=0)
        viol += v
        d2 += k
        evals += 4
    sr = c05.scale_rule_cases(ctx, per_setting=ctx.n(1, 4, boost=3)) + c05.long_axis_cases(ctx, 2)
    for i, c in enumerate(sr):
        v, k = check_unique(c, 'laue' if (i + ctx.seed) % 2 == 0 else 'tools', 'no', seed=i, variant=0)
        viol += v
        d2 += k
        evals += 4
    # one LARGE list per run (more than 2^18 rows: block-wise expansion has its seams there): primitive cubic, no extinctions, so the
    # expected set is every integer triple of the shell and the fourth column is |h| / (2a) -- checked with plain numpy
    viol += large_shell_check('tools' if ctx.seed % 2 == 0 else 'laue', ctx.rng)
    evals += 1
    c0 = cases[0]
    sample = dict(c0.ident(), n_expected=len(c0.expected()))
    return {'evaluations': evals, 'distinct_nontrivial': nontriv, 'violations': c05.dedup_known(viol), 'samples': [sample],
            'stats': {'cases': len(cases), 'all_settings_sweep': len(sw), 'scale_rule_cases': len(sr), 'skipped_margin': skipped, 'D2_hits': d2, 'cases_per_crystal_system': per_cs}, 'exhaustive': False}


def check_known(finding):
    w = finding.get('witness') or {}
    try:
        c = c05.case_of_witness(w)
    except Exception:
        return None
    if c is None:
        return None
    v, d2 = check_unique(c, w.get('module', 'tools'), 'no', prop=finding.get('property', 'C06'))
    want = tuple(w.get('missing_hkl', ()))
    for x in v:
        if x.get('known_id') == finding['id'] and (not want or want in c.orbit(x['missing_hkl'])):
            return x
    return None


def replay(payload):
    v = payload.get('violation')
    if not v:
        print('replay C06: broken obligation, no input stored:', [b.get('what') for b in payload.get('broken', [])])
        return 1
    if v.get('large_shell'):
        import random
        class _R(random.Random):
            def uniform(self, a, b):            # reproduce the stored cell edge and upper bound
                return v['cell'][0] if a == 29.0 else v['sintlmax']
        res = large_shell_check(v['fn'].split('.')[0], _R(0))
        print('replay C06 %s large shell a=%s (%s, %s] ->' % (v['fn'], v['cell'][0], v['sintlmin'], v['sintlmax']), ('VIOLATION: ' + res[0]['what']) if res else 'holds')
        return 1 if res else 0
    c = c05.case_of_witness({'sgno': v['sgno'], 'cell_choice': v['cell_choice'], 'cell': v['cell'], 'sintlmin': v['sintlmin'], 'sintlmax': v['sintlmax']})
    mn = v['fn'].split('.')[0]
    res, d2 = check_unique(c, mn, v.get('by', 'no'))
    res = [x for x in res if x['known_id'] is None] or res
    print('replay C06 %s sgno=%s (%s) cell=%s shell=(%s, %s]: margin ok=%s' % (v['fn'], v['sgno'], v['cell_choice'], v['cell'], v['sintlmin'], v['sintlmax'], c.ok))
    if res:
        print('  VIOLATION:', res[0]['what'], '| observed:', res[0]['observed'], '| expected:', res[0]['expected'], '| known_id:', res[0]['known_id'])
        return 1
    print('  holds: genhkl_unique returns one sorted representative of each of the allowed families; genhkl_all is their union')
    return 0
