"""C07 — the structure factor transforms correctly under every space-group operation.

For any atom list (isotropic or anisotropic displacement, any occupancy) and any operation (R,t) of the space
group, F(hR) = F(h).exp(-2*pi*i*h.t); hence symmetry-equivalent reflections have equal |F| and every reflection
extinguished by the space group has F = 0.  Without dispersion F(-h) is the complex conjugate of F(h).

This module also holds the helpers shared with C08 (atom/request builders, the SFDriver correspondence,
the name -> table-key map).
"""
import os, re, json, math, cmath
import numpy as np
import check, gens
from check import f2b, b2f

GEN = ['numeric', 'tables']
LEAN_MODULES = ['XfabVerif.Proofs.C07', 'XfabVerif.Proofs.C07Tables', 'XfabVerif.Proofs.C07Perturb']
# definitions the hand-written model mirrors (see harness/pins.py): a source change breaks the tie
PINS = ['xfab/structure.py:StructureFactor']
LEAN_DRIVER_MODULES = ['XfabVerif.Model.SFFloat']
RULE = ("groups BY NAME: quick = 40 settings stratified over the seven crystal systems (always >= 1 rhombohedral setting and >= 1 "
        "F-centred cubic group with 192 operations), thorough = all 230 names + the 7 rhombohedral settings; cell conforming to the "
        "crystal system; 2-5 atoms at random general positions, element drawn from atomlib.formfactor, Uiso in (0,0.08) or a random "
        "positive-definite Uani, occupancy in (0,1], site multiplicity nsymop or a random positive value, dispersion table present in "
        "about half of the cases; hkl in [-8,8]^3 (half of them in [-3,3]^3) plus deliberately chosen operator-extinct reflections "
        "(hR = h, h.t not an integer) enumerated from the box; the law is checked for EVERY operation of the group. "
        "A case is non-trivial when the operation is not the identity and hkl != 0; distinct = distinct (setting, atoms, hkl, op).")
ASSUMPTIONS = [
    "the real-number model idealises the tabulated 6-digit translations (0.333333, 0.666667, 0.166667, 0.833333) to exact 24ths; "
    "the Float twin and the real code use the 6-digit decimals; the oracle tolerance accounts for it: "
    "2*(2*pi*delta*(|h|_1+|hR|_1))*SumS + 1e-9*SumS with delta = max |tabulated t - nearest 24th| of the group (0 or 3.4e-7) and "
    "SumS = sum occ*symmulti*(sum|a_i|+|c|+|f'|+|f''|) the total scattering power",
    "sin(theta)/lambda (hence f(s) and the isotropic Debye-Waller factor) is invariant under the group only for a cell conforming "
    "to the crystal system: hypothesis `hmetric` of the theorems; the oracle draws conforming cells",
    "IEEE rounding is not modelled: theorems are over the reals; the Float model is compared with the code to 1e-9*SumS",
]
TRUSTED_EXTRA = [
    "hand-written glue lean/XfabVerif/Model/SFFloat.lean (double loop over atoms x operations around the traced summand twins "
    "Structure.sf_term_*F; table translations = micro-units/1e6): validated on every run against structure.StructureFactor called by name",
    "name -> table-key map (tables_meta.json 'settings'): every name is resolved through sg.sgdic / sg.sg and number, cell choice "
    "and nsymop are compared on every run",
]

META_PATH = os.path.join(check.LEAN, 'XfabVerif', 'Gen', 'tables_meta.json')
SYSTEMS = ['triclinic', 'monoclinic', 'orthorhombic', 'tetragonal', 'trigonal', 'hexagonal', 'cubic']
QUICK_STRATA = {'triclinic': 2, 'monoclinic': 4, 'orthorhombic': 6, 'tetragonal': 7, 'trigonal': 7, 'hexagonal': 6, 'cubic': 8}


# ------------------------------------------------------------------------------------------------
# shared helpers (also used by C08)

def _x():
    from xfab import structure, sg, atomlib, tools
    return structure, sg, atomlib, tools


def settings():
    return json.load(open(META_PATH))['settings']


def name_key_map():
    """[(entry, problems)] : every setting of the exported tables with the NAME under which the Python reaches it.
    entry = dict(name, key, no, cs, cell_choice, nsymop).  problems = list of dicts (empty when the map is sound)."""
    structure, sg, atomlib, tools = _x()
    out, problems = [], []
    seen_no = set()
    for s in settings():
        name, key = s['name'], s['key']
        low = re.sub(r'\s+', '', name).lower()
        rhomb = key.endswith('r')
        if low not in sg.sgdic:
            problems.append({'fn': 'name->key', 'key': key, 'name': name, 'why': 'name not in sg.sgdic'})
            continue
        if sg.sgdic[low] != 'Sg%d' % s['no'] or key != 'n%d%s' % (s['no'], 'r' if rhomb else ''):
            problems.append({'fn': 'name->key', 'key': key, 'name': name, 'why': 'sgdic maps the name to %s' % sg.sgdic[low]})
            continue
        if rhomb != (low[0] == 'r' and low[-1] == 'r'):
            problems.append({'fn': 'name->key', 'key': key, 'name': name, 'why': 'rhombohedral selection rule of sg.py does not match the key'})
            continue
        o = sg.sg(sgname=name)
        got = (int(o.no), str(o.cell_choice), int(o.nsymop), str(o.crystal_system))
        exp = (s['no'], s['cell_choice'], s['nsymop'], s['cs'])
        if got != exp or (s['cell_choice'] == 'rhombohedral') != rhomb or len(o.rot) != o.nsymop or len(o.trans) != o.nsymop:
            problems.append({'fn': 'name->key', 'key': key, 'name': name, 'model': list(exp), 'impl': list(got)})
            continue
        seen_no.add(s['no'])
        out.append({'name': name, 'key': key, 'no': s['no'], 'cs': s['cs'], 'cell_choice': s['cell_choice'], 'nsymop': s['nsymop']})
    for no in range(1, 231):
        if no not in seen_no:
            problems.append({'fn': 'name->key', 'no': no, 'why': 'no usable name for this space-group number'})
    return out, problems


def stratified(rng, entries, thorough):
    """quick: ~40 settings over the crystal systems incl. a rhombohedral setting and a 192-operation cubic group"""
    if thorough:
        return list(entries)
    pick = []
    for cs in SYSTEMS:
        pool = [e for e in entries if e['cs'] == cs]
        k = min(QUICK_STRATA[cs], len(pool))
        forced = []
        if cs == 'trigonal':
            sub = [e for e in pool if e['cell_choice'] == 'rhombohedral']
            forced = [rng.choice(sub)] if sub else []
        if cs == 'cubic':
            sub = [e for e in pool if e['nsymop'] == 192]
            forced = [rng.choice(sub)] if sub else []
        rest = [e for e in pool if e not in forced]
        pick += forced + rng.sample(rest, max(0, k - len(forced)))
    return pick


def elements():
    structure, sg, atomlib, tools = _x()
    return list(atomlib.formfactor.keys())


def ff_row(el):
    structure, sg, atomlib, tools = _x()
    return [float(v) for v in atomlib.formfactor[el]]


def ff_abs0(el):
    r = ff_row(el)
    return sum(abs(v) for v in r[:4]) + abs(r[8])


def sigma_s(atoms, disper):
    """total scattering power: bound of sum over the cell of |occ*(f+f'+if'')| (the scale of every tolerance)"""
    tot = 0.0
    for a in atoms:
        d = None if disper is None else disper.get(a['atomtype'])
        tot += abs(a['occ'] * a['symmulti']) * (ff_abs0(a['atomtype']) + (abs(d[0]) + abs(d[1]) if d is not None else 0.0))
    return tot


def rand_uani(rng, scale=None):
    """random positive-definite symmetric tensor as [U11,U22,U33,U23,U13,U12], mean diagonal ~ scale"""
    scale = scale if scale is not None else rng.uniform(0.004, 0.05)
    m = np.array([[rng.gauss(0, 1) for _ in range(3)] for _ in range(3)])
    u = m @ m.T + 0.15 * np.eye(3)
    u *= scale * 3.0 / np.trace(u)
    return [float(u[0, 0]), float(u[1, 1]), float(u[2, 2]), float(u[1, 2]), float(u[0, 2]), float(u[0, 1])]


def rand_adp(rng, kinds=('Uiso', 'Uani', None)):
    t = rng.choice(list(kinds))
    if t == 'Uiso':
        return t, rng.uniform(0.0005, 0.08)
    if t == 'Uani':
        u = rng.random()
        if u < 0.12:
            # special tensors a refinement program writes for an atom refined "isotropically" in the anisotropic list: equal
            # diagonal, zero off-diagonal ([u,u,u,0,0,0] is NOT isotropic in an oblique cell), or diagonal only
            v = rng.uniform(0.002, 0.06)
            return t, [v, v, v, 0.0, 0.0, 0.0]
        if u < 0.2:
            return t, [rng.uniform(0.002, 0.06) for _ in range(3)] + [0.0, 0.0, 0.0]
        if u < 0.3:
            # needle / disc ellipsoid (one principal value 10^1..10^3 times the others): the displacement factor of one symmetry
            # mate underflows while the others stay of order 1 -- whatever is decided on the atom as listed is wrong for its mates
            v = np.array([rng.gauss(0, 1) for _ in range(3)]) if rng.random() < 0.6 else np.eye(3)[rng.randrange(3)]
            v = v / np.linalg.norm(v)
            big, small = 10 ** rng.uniform(-0.7, 0.5), rng.uniform(0.001, 0.01)
            um = big * np.outer(v, v) + small * np.eye(3)
            if rng.random() < 0.3:
                um = big * (np.eye(3) - np.outer(v, v)) + small * np.eye(3)
            return t, [float(um[0, 0]), float(um[1, 1]), float(um[2, 2]), float(um[1, 2]), float(um[0, 2]), float(um[0, 1])]
        return t, rand_uani(rng)
    return None, None


def rand_disper(rng, atoms, mode=None):
    """None | dict with a pair for every atom type | dict with some entries None (a key for EVERY atom type used)"""
    mode = mode or rng.choice(['absent', 'full', 'partial'])
    if mode == 'absent':
        return None
    d = {}
    types = sorted(set(a['atomtype'] for a in atoms))
    for k, t in enumerate(types):
        if mode == 'partial' and (k == 0 or rng.random() < 0.4):
            d[t] = None
        elif mode == 'allnone':
            d[t] = None
        else:
            d[t] = [rng.uniform(-3.0, 1.0), rng.uniform(0.0, 4.0)]
    return d


def rand_hkl(rng, m=8, allow_zero=True):
    while True:
        mm = m if rng.random() < 0.5 else min(3, m)
        h = [rng.randint(-mm, mm) for _ in range(3)]
        if allow_zero or any(h):
            return h


def build_atoms(atoms):
    """fresh atom_entry objects (StructureFactor mutates .adp when adp_type is None)"""
    structure, sg, atomlib, tools = _x()
    out = []
    for i, a in enumerate(atoms):
        adp = a['adp']
        adp = list(adp) if isinstance(adp, (list, tuple)) else adp
        out.append(structure.atom_entry(label='A%d' % i, atomtype=a['atomtype'], pos=[float(v) for v in a['pos']],
                                        adp_type=a['adp_type'], adp=adp, occ=a['occ'], symmulti=a['symmulti']))
    return out


def clean_disper(disper):
    if disper is None:
        return None
    return {k: (None if v is None else [float(v[0]), float(v[1])]) for k, v in disper.items()}


def spelled_name(sgname, hkl):
    """the group name as a caller may write it (sg.sg ignores case and white space): as tabulated, upper case (the setting suffix of
    'R-3r' included), padded as a value read from a file, every character separated -- a fixed function of the call"""
    import zlib
    k = zlib.crc32(repr((sgname, [int(v) for v in hkl])).encode()) % 4
    return [sgname, sgname.upper(), '  ' + sgname[:1].upper() + sgname[1:] + ' \n', ' '.join(sgname.upper())][k]


def SF(hkl, cell, sgname, atoms, disper):
    """the real code, called by NAME; result as a Python complex"""
    structure, sg, atomlib, tools = _x()
    r = structure.StructureFactor([int(v) for v in hkl], [float(v) for v in cell], spelled_name(sgname, hkl), build_atoms(atoms), clean_disper(disper))
    return complex(float(r[0]), float(r[1]))


def request_line(key, hkl, cell, atoms, disper):
    """SFDriver line protocol (see lean/XfabVerif/Model/SFFloat.lean)"""
    toks = [key] + [f2b(v) for v in hkl] + [f2b(v) for v in cell] + [str(len(atoms))]
    for a in atoms:
        var = 0 if a['adp_type'] == 'Uiso' else 1 if a['adp_type'] == 'Uani' else 2
        adp6 = [a['adp']] + [0.0] * 5 if var == 0 else list(a['adp']) if var == 1 else [0.0] * 6
        has = disper is not None and disper[a['atomtype']] is not None
        fp, fpp = disper[a['atomtype']] if has else (0.0, 0.0)
        toks += [str(var)] + [f2b(v) for v in a['pos']] + [f2b(a['occ']), f2b(a['symmulti'])]
        toks += [f2b(v) for v in ff_row(a['atomtype'])] + [f2b(v) for v in adp6] + ['1' if has else '0', f2b(fp), f2b(fpp)]
    assert len(toks) == 11 + 24 * len(atoms)
    return ' '.join(toks)


def corr_atom(rng, nsymop, flavour, kinds=('Uiso', 'Uani', None)):
    """random atom for the correspondence stream (any input the code accepts; no symmetry constraint needed)"""
    r = rng.random()
    if r < (0.35 if flavour == 'c08' else 0.15):
        pos = [rng.randint(0, 24) / 24.0 for _ in range(3)]                      # special-looking position
    elif r < 0.5:
        pos = [rng.randint(0, 24) / 24.0 if rng.random() < 0.5 else rng.uniform(-0.3, 1.3) for _ in range(3)]
    else:
        pos = [rng.uniform(-0.3, 1.3) for _ in range(3)]
    adp_type, adp = rand_adp(rng, kinds)
    sm = rng.choice([nsymop, rng.randint(1, max(1, nsymop)), max(1, nsymop // 2), rng.uniform(0.5, 4.0)])
    return {'atomtype': rng.choice(elements()), 'pos': pos, 'adp_type': adp_type, 'adp': adp,
            'occ': rng.choice([1.0, rng.uniform(0.05, 1.0)]), 'symmulti': sm}


def correspondence_sf(ctx, flavour, per_quick, per_thorough):
    """Lean Float model (SFDriver, table looked up by KEY) vs structure.StructureFactor (group looked up by NAME)"""
    rng = ctx.rng
    entries, problems = name_key_map()
    dis = list(problems)
    per = ctx.n(per_quick, per_thorough)
    cases = []
    todo = stratified(rng, entries, ctx.thorough)
    for e in todo:
        for i in range(per):
            if rng.random() < 0.5:
                cell = gens.conforming_cell(rng, e['cs'], e['cell_choice'])
            else:
                cell = gens.cell(rng)[0]
            nat = rng.randint(1, 4) if e['nsymop'] <= 48 else rng.randint(1, 3)
            atoms = []
            for k in range(nat):
                # every setting gets at least one anisotropic atom (first case)
                atoms.append(corr_atom(rng, e['nsymop'], flavour, ('Uani',) if i == 0 and k == 0 else ('Uiso', 'Uani', None)))
            rng.shuffle(atoms)
            disper = rand_disper(rng, atoms)
            hkl = [0, 0, 0] if rng.random() < 0.08 else rand_hkl(rng)
            cases.append({'name': e['name'], 'key': e['key'], 'nsymop': e['nsymop'], 'hkl': hkl, 'cell': cell, 'atoms': atoms, 'disper': disper})
    lines = [request_line(c['key'], c['hkl'], c['cell'], c['atoms'], c['disper']) for c in cases]
    # protocol self-test: malformed requests must be refused, never defaulted
    probes = []
    if lines:
        probes = ['n0 ' + lines[0].split(' ', 1)[1], ' '.join(lines[0].split(' ')[:-1]), lines[0] + ' 0',
                  lines[0].replace(' ', ' x', 1)]
    res = check.run_model_driver('SFDriver.lean', lines + probes)
    maxrel, nontriv, kinds, uani_cs = 0.0, 0, {}, {}
    cs_of = {e['key']: e['cs'] for e in entries}
    for c, r in zip(cases, res):
        inp = {k: c[k] for k in ('name', 'key', 'hkl', 'cell', 'atoms', 'disper')}
        try:
            f = SF(c['hkl'], c['cell'], c['name'], c['atoms'], c['disper'])
        except Exception as ex:      # the generator only produces inputs the code accepts (a table with nsymop > len(rot) raises)
            if r.strip() == 'raise:' + type(ex).__name__:
                continue
            dis.append({'fn': 'Structure.StructureFactor', 'input': inp, 'model': r, 'impl': 'raise:' + type(ex).__name__})
            continue
        parts = r.split()
        if parts[0] != 'ok' or len(parts) != 3:
            dis.append({'fn': 'Structure.StructureFactor', 'input': inp, 'model': r, 'impl': [f.real, f.imag]})
            continue
        m = complex(b2f(parts[1]), b2f(parts[2]))
        scale = sigma_s(c['atoms'], c['disper'])
        tol = 1e-9 * scale + 1e-13
        d = abs(m - f)
        if not (d <= tol):       # also catches nan
            dis.append({'fn': 'Structure.StructureFactor', 'input': inp, 'model': [m.real, m.imag], 'impl': [f.real, f.imag],
                        'absdiff': d, 'tol': tol})
            continue
        maxrel = max(maxrel, d / max(scale, 1e-300))
        if c['nsymop'] > 1 and any(c['hkl']):
            nontriv += 1
        for a in c['atoms']:
            has = c['disper'] is not None and c['disper'][a['atomtype']] is not None
            k = '%s%s' % (a['adp_type'] or 'none', '+disp' if has else '')
            kinds[k] = kinds.get(k, 0) + 1
            if a['adp_type'] == 'Uani':
                uani_cs[cs_of[c['key']]] = uani_cs.get(cs_of[c['key']], 0) + c['nsymop']
    for p, r in zip(probes, res[len(cases):]):
        if r.strip() != 'bad':
            dis.append({'fn': 'SFDriver protocol', 'request': p[:200], 'model': r, 'impl': 'malformed request must be answered bad'})
    s0 = cases[0] if cases else {}
    return {'cases': len(cases) + len(probes), 'disagreements': dis,
            'stats': {'settings': len(set(c['key'] for c in cases)), 'settings_in_map': len(entries), 'max_absdiff_over_SumS': maxrel,
                      'twin_usage_atoms': kinds, 'uani_terms_per_crystal_system': uani_cs, 'malformed_probes': len(probes)},
            'samples': [{'fn': 'Structure.StructureFactor', 'name': s0.get('name'), 'key': s0.get('key'), 'hkl': s0.get('hkl'),
                         'cell': s0.get('cell'), 'natoms': len(s0.get('atoms', []))}],
            'distinct_nontrivial': nontriv}


def correspondence(ctx):
    return correspondence_sf(ctx, 'c07', 8, 25)


# ------------------------------------------------------------------------------------------------
# the real group, as the code sees it

def direct_table(sgname):
    """the table the NAME states, built from the sglib class itself (not through sg.sg, whose look-up is part of what
    StructureFactor does): number from sgdic under the normalised name, rhombohedral setting iff the normalised name
    starts and ends with 'r' (the documented rule of sg.py)"""
    structure, sg, atomlib, tools = _x()
    from xfab import sglib
    low = re.sub(r'\s+', '', sgname).lower()
    klass = getattr(sglib, sg.sgdic[low])
    cc = 'rhombohedral' if (low[0] == 'r' and low[-1] == 'r') else 'standard'
    return klass(cell_choice=cc)


def group(sgname):
    """operations of sg.sg(sgname=...) : integer rotations, tabulated translations, translations in 24ths, delta"""
    structure, sg, atomlib, tools = _x()
    o = direct_table(sgname)
    rot = np.asarray(o.rot, dtype=float)[:o.nsymop]
    R = np.rint(rot).astype(int)
    if not np.array_equal(R, rot):
        raise ValueError('non-integer rotation in table of %s' % sgname)
    t = np.asarray(o.trans, dtype=float)[:o.nsymop]
    t24 = np.rint(24 * t).astype(int)
    delta = float(np.abs(t - t24 / 24.0).max()) if len(t) else 0.0
    return {'name': sgname, 'no': int(o.no), 'cs': str(o.crystal_system), 'cell_choice': str(o.cell_choice), 'nsymop': int(o.nsymop),
            'R': R, 't': t, 't24': t24, 'delta': delta}


def oracle_names():
    """names taken from the implementation's own dictionary: one per (number, cell choice); plus the numbers without a name"""
    structure, sg, atomlib, tools = _x()
    def setting_of(nm):
        try:
            o = direct_table(nm)
            return o, (int(o.no), str(o.cell_choice))
        except Exception:
            return None, None
    seen, out = set(), []
    for low in sg.sgdic:
        o, k = setting_of(low)
        if o is None or k in seen:
            continue
        seen.add(k)
        # prefer the table's own spelling of the name when it selects the same setting
        name = str(o.name) if setting_of(str(o.name))[1] == k else low
        out.append({'name': name, 'no': k[0], 'cs': str(o.crystal_system), 'cell_choice': k[1], 'nsymop': int(o.nsymop)})
    have = set(k[0] for k in seen)
    missing = [no for no in range(1, 231) if no not in have]
    return out, missing


def extinct_in_box(G, m=8):
    """reflections of the box extinguished by an operator: hR = h and h.t not an integer (t exact in 24ths)"""
    r = np.arange(-m, m + 1)
    H = np.array(np.meshgrid(r, r, r, indexing='ij')).reshape(3, -1).T
    ext = np.zeros(len(H), dtype=bool)
    for j in range(G['nsymop']):
        fixed = np.all(H @ G['R'][j] == H, axis=1)
        ext |= fixed & ((H @ G['t24'][j]) % 24 != 0)
    return H[ext]


def l1(h):
    return float(sum(abs(int(v)) for v in h))


def law_tol(G, h, hp, scale):
    """|F~(hR) - F~(h) e^{-2 pi i h.t}| for the code's F~ (6-digit translations t~ = t + d, |d_i| <= delta):
    every summand's phase moves by 2 pi h.d_k, so |F~(h) - F(h)| <= 2 pi delta |h|_1 SumS; the ideal F obeys the law exactly;
    hence the residual is <= 2 pi delta (|h|_1 + |hR|_1) SumS.  Factor 2 of head-room, plus 1e-9 SumS for rounding."""
    return 2.0 * (2 * math.pi * G['delta'] * (l1(h) + l1(hp))) * scale + 1e-9 * scale + 1e-300


def check_hkl(G, inp, h, only_op=None):
    """the transformation law for reflection h and EVERY operation; returns (violations, evaluations, stats)"""
    cell, atoms, disper, name = inp['cell'], inp['atoms'], inp['disper'], inp['sgname']
    scale = sigma_s(atoms, disper)
    cache = {}

    def F(hh, dd=disper, tag='d'):
        k = (tag,) + tuple(int(v) for v in hh)
        if k not in cache:
            cache[k] = SF(hh, cell, name, atoms, dd)
        return cache[k]
    viol, ev = [], 0
    st = {'law': 0.0, 'law_exact': 0.0, 'ext': 0.0, 'friedel': 0.0, 'n_ext': 0, 'n_nonsym_uani': 0, 'n_nontrivial': 0}
    has_uani = any(a['adp_type'] == 'Uani' for a in atoms)
    h = [int(v) for v in h]
    Fh = F(h)
    base = {'sgname': name, 'cell': list(cell), 'hkl': h, 'atoms': atoms, 'disper': disper}
    extinct_seen = False
    for j in range(G['nsymop']):
        if only_op is not None and j != only_op:
            continue
        Rj = G['R'][j]
        hp = [int(v) for v in (np.array(h) @ Rj)]
        n24 = int(np.array(h) @ G['t24'][j]) % 24
        ph = cmath.exp(-2j * math.pi * n24 / 24.0)
        Fp = F(hp)
        tol = law_tol(G, h, hp, scale)
        err = abs(Fp - Fh * ph)
        ev += 1
        if any(h) and not np.array_equal(Rj, np.eye(3, dtype=int)):
            st['n_nontrivial'] += 1
        if has_uani and not np.array_equal(Rj, Rj.T):
            st['n_nonsym_uani'] += 1
        st['law_exact' if G['delta'] == 0.0 else 'law'] = max(st['law_exact' if G['delta'] == 0.0 else 'law'], err / tol)
        if not (err <= tol):
            viol.append(dict(base, fn='structure.StructureFactor:F(hR)=F(h)exp(-2 pi i h.t)', op=j, rot=Rj.tolist(),
                             trans=[float(v) for v in G['t'][j]], hR=hp, observed=[Fp.real, Fp.imag],
                             expected=[(Fh * ph).real, (Fh * ph).imag], tol=tol, known_id=None))
        elif not (abs(abs(Fp) - abs(Fh)) <= tol):
            viol.append(dict(base, fn='structure.StructureFactor:|F(hR)|=|F(h)|', op=j, hR=hp, observed=abs(Fp), expected=abs(Fh),
                             tol=tol, known_id=None))
        if hp == h and n24 != 0:
            # operator-extinct: F(h)(1 - e^{-2 pi i h.t}) = 0
            bound = tol / abs(1 - ph)
            st['ext'] = max(st['ext'], abs(Fh) / bound)
            extinct_seen = True
            ev += 1
            if not (abs(Fh) <= bound):
                viol.append(dict(base, fn='structure.StructureFactor:extinct F=0', op=j, rot=Rj.tolist(),
                                 trans=[float(v) for v in G['t'][j]], observed=[Fh.real, Fh.imag], expected=[0.0, 0.0], tol=bound,
                                 known_id=None))
        if len(viol) >= 3:
            break
    if extinct_seen:
        st['n_ext'] = 1
    if only_op is None:
        # Friedel pair without dispersion
        F0 = F(h, None, 'n')
        F0m = F([-v for v in h], None, 'n')
        s0 = sigma_s(atoms, None)
        tolf = 1e-9 * s0 + 1e-300
        ev += 1
        st['friedel'] = abs(F0m - F0.conjugate()) / tolf
        if not (abs(F0m - F0.conjugate()) <= tolf):
            viol.append(dict(base, disper=None, fn='structure.StructureFactor:Friedel F(-h)=conj F(h)', observed=[F0m.real, F0m.imag],
                             expected=[F0.real, -F0.imag], tol=tolf, known_id=None))
    return viol, ev, st


def general_atoms(rng, G, nat, force_uani=False):
    atoms = []
    for i in range(nat):
        if force_uani and i == 0:
            adp_type, adp = 'Uani', rand_uani(rng, rng.uniform(0.01, 0.05))
        else:
            adp_type, adp = rand_adp(rng, ('Uiso', 'Uani'))
        sm = G['nsymop'] if rng.random() < 0.6 else rng.choice([rng.randint(1, G['nsymop']), rng.uniform(0.3, 5.0)])
        atoms.append({'atomtype': rng.choice(elements()), 'pos': [rng.uniform(0.0, 1.0) for _ in range(3)], 'adp_type': adp_type,
                      'adp': adp, 'occ': rng.choice([1.0, rng.uniform(0.05, 1.0)]), 'symmulti': sm})
    return atoms


def oracle(ctx, hints=()):
    rng = ctx.rng
    names, missing = oracle_names()
    viol = [{'fn': 'sg.sgdic', 'no': no, 'observed': 'no name resolves to this space-group number', 'expected': 'all 230 groups by name',
             'known_id': None} for no in missing]
    todo = stratified(rng, names, ctx.thorough or ctx.boost)
    ncase = ctx.n(2, 4, boost=3)
    ngen = ctx.n(2, 4, boost=3)
    next_ = ctx.n(2, 4, boost=3)
    ev, nontriv, sample = 0, 0, None
    agg = {'law': 0.0, 'law_exact': 0.0, 'ext': 0.0, 'friedel': 0.0, 'n_ext': 0, 'n_nonsym_uani': 0}
    per_cs, groups_with_ext = {}, 0
    for e in todo:
        G = group(e['name'])
        per_cs[G['cs']] = per_cs.get(G['cs'], 0) + 1
        ext = extinct_in_box(G)
        groups_with_ext += 1 if len(ext) else 0
        for c in range(ncase):
            cell = gens.conforming_cell(rng, G['cs'], G['cell_choice'])
            nat = rng.randint(2, 5) if G['nsymop'] <= 48 or ctx.thorough else rng.randint(2, 3)
            atoms = general_atoms(rng, G, nat, force_uani=G['cs'] in ('trigonal', 'hexagonal', 'cubic'))
            disper = rand_disper(rng, atoms, rng.choice(['absent', 'absent', 'full', 'partial']))
            hs = [rand_hkl(rng, 8, allow_zero=(rng.random() < 0.05)) for _ in range(ngen)]
            if len(ext):
                hs += [[int(v) for v in ext[rng.randrange(len(ext))]] for _ in range(next_)]
            inp = {'sgname': e['name'], 'cell': cell, 'atoms': atoms, 'disper': disper}
            sample = sample or {'sgname': e['name'], 'cell': cell, 'hkl': hs[0], 'natoms': nat}
            for h in hs:
                v, n, st = check_hkl(G, inp, h)
                viol += v
                ev += n
                nontriv += st['n_nontrivial']
                for k in ('law', 'law_exact', 'ext', 'friedel'):
                    agg[k] = max(agg[k], st[k])
                agg['n_ext'] += st['n_ext']
                agg['n_nonsym_uani'] += st['n_nonsym_uani']
            if len(viol) > 20:
                break
        if len(viol) > 20:
            break
    # a structure of protein size: several hundred atoms in one list (a blocked / vectorised evaluation has its seams at 256, 512 ...),
    # in groups whose rotation matrices are not symmetric (tetragonal, trigonal, hexagonal) and in a monoclinic one
    nlong = 0
    small = [e for e in todo if group(e['name'])['nsymop'] <= 12]
    pick = [e for e in small if group(e['name'])['cs'] in ('tetragonal', 'trigonal', 'hexagonal')][:2] + \
           [e for e in small if group(e['name'])['cs'] == 'monoclinic'][:1]
    for e, nat in zip(pick, (rng.randint(258, 330), rng.randint(515, 640), rng.randint(258, 800))):
        if len(viol) > 20:
            break
        G = group(e['name'])
        cell = gens.conforming_cell(rng, G['cs'], G['cell_choice'])
        atoms = general_atoms(rng, G, nat, force_uani=True)
        inp = {'sgname': e['name'], 'cell': cell, 'atoms': atoms, 'disper': rand_disper(rng, atoms, 'full')}
        for h in [rand_hkl(rng, 6, allow_zero=False) for _ in range(2)]:
            v, n, st = check_hkl(G, inp, h)
            viol += v
            ev += n
            nontriv += st['n_nontrivial']
        nlong += 1
    return {'evaluations': ev, 'distinct_nontrivial': nontriv, 'violations': viol, 'samples': [sample], 'exhaustive': False,
            'stats': {'settings': len(todo), 'per_crystal_system': per_cs, 'settings_with_operator_extinctions': groups_with_ext, 'long_atom_lists': nlong,
                      'extinct_reflections_checked': agg['n_ext'], 'uani_x_nonsymmetric_rotation_pairs': agg['n_nonsym_uani'],
                      'max_err_over_tol_law_6digit_groups': agg['law'], 'max_err_over_tol_law_exact_groups': agg['law_exact'],
                      'max_err_over_tol_extinct': agg['ext'], 'max_err_over_tol_friedel': agg['friedel']}}


def replay(payload):
    v = payload.get('violation')
    if not v:
        print('replay: broken obligation, no input stored:', payload.get('broken'))
        return 1
    if v.get('fn') == 'sg.sgdic':
        names, missing = oracle_names()
        print('replay C07 sg.sgdic: numbers without a name ->', missing)
        return 1 if v.get('no') in missing else 0
    if 'sgname' not in v or 'atoms' not in v:
        print('replay C07: violation without a concrete input:', json.dumps(v, default=str)[:400])
        return 1
    G = group(v['sgname'])
    inp = {'sgname': v['sgname'], 'cell': v['cell'], 'atoms': v['atoms'], 'disper': v.get('disper')}
    res, n, st = check_hkl(G, inp, v['hkl'])
    print('replay C07 %s hkl=%s cell=%s natoms=%d disper=%s' % (v['sgname'], v['hkl'], v['cell'], len(v['atoms']), v.get('disper')))
    print('  stored   : %s op=%s observed=%s expected=%s tol=%s' % (v.get('fn'), v.get('op'), v.get('observed'), v.get('expected'), v.get('tol')))
    if res:
        r = res[0]
        print('  now      : %s op=%s observed=%s expected=%s tol=%s  -> VIOLATION' % (r['fn'], r.get('op'), r['observed'], r['expected'], r['tol']))
        return 1
    print('  now      : holds for all %d operations (max err/tol %.3g)' % (G['nsymop'], max(st['law'], st['law_exact'], st['ext'], st['friedel'])))
    return 0
