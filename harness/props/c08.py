"""C08 — StructureFactor is the direct sum over the unit cell.

StructureFactor(hkl) equals the direct sum over every atom of the unit cell (the P1 expansion of the asymmetric
unit) of occupancy x (f(s)+f'+i f'') x Debye-Waller factor x exp(2*pi*i*h.r), with s = sin(theta)/lambda of hkl in
the given cell.  Consequently it is unchanged when an atom is shifted by a lattice vector, linear in occupancy,
identical for an isotropic U and the anisotropic tensor that represents the same isotropic motion, and with zero
displacement F(000) is the occupancy-weighted form-factor sum.

The oracle never goes through the Lean model: the orbit of every atom is built with exact rational arithmetic
from the operations the code itself uses (rotations as integers, translations snapped to 24ths), f(s), s and beta
are recomputed from the atomlib row and the metric tensor.  Shared helpers live in props/c07.py.
"""
import math, cmath, json
from fractions import Fraction
import numpy as np
import check, gens
from . import c07

GEN = ['numeric', 'tables']
LEAN_MODULES = ['XfabVerif.Proofs.C08', 'XfabVerif.Proofs.C08Tables']
# definitions the hand-written model mirrors (see harness/pins.py): a source change breaks the tie
PINS = ['xfab/structure.py:StructureFactor']
LEAN_DRIVER_MODULES = ['XfabVerif.Model.SFFloat']
RULE = ("groups BY NAME: quick = 40 settings stratified over the seven crystal systems (incl. a rhombohedral setting and a 192-operation "
        "cubic group), thorough = all 230 names + 7 rhombohedral settings; direct sum: oblique general cells (Gram factor >= 0.02), "
        "1-4 atoms, positions general (k/997) or special (24ths grid, x x x, x -x z, x 2x z, 0 0 z, 1/3 2/3 z, ... with the exact "
        "orbit size as site multiplicity), Uiso / Uani (positive definite; symmetrised over the site-symmetry group on special "
        "positions) / no ADP, dispersion table absent / complete / partially None, hkl in [-8,8]^3 incl. 000; exact consequences "
        "(lattice shift, occupancy linearity, additivity, Uiso == isotropic Uani on conforming cells, F(000), dispersion branches) "
        "real code vs real code. Non-trivial: hkl != 0 and nsymop > 1; distinct = distinct (check, setting, atoms, hkl).")
ASSUMPTIONS = [
    "the real-number model idealises the tabulated 6-digit translations (0.333333 etc.) to exact 24ths; the Float twin and the real "
    "code use the 6-digit decimals; the direct-sum oracle (exact 24ths) allows 2*(2*pi*delta*|h|_1)*SumS + 1e-8*SumS with delta = max "
    "|tabulated t - nearest 24th| of the group (0 or 3.4e-7), SumS = sum occ*symmulti*(sum|a_i|+|c|+|f'|+|f''|)",
    "sin(theta)/lambda is the one of hkl itself (the code evaluates f and the isotropic Debye-Waller factor once per reflection); its "
    "invariance under the group needs a cell conforming to the crystal system (hypothesis `hmetric` of the theorems): only the "
    "'Uiso == isotropic Uani' clause depends on it and is checked on conforming cells",
    "an anisotropic atom on a special position is given a tensor invariant under its site-symmetry group (otherwise the P1 expansion "
    "of the atom is not defined: the code then averages the Debye-Waller factors of the images)",
    "the site multiplicity passed to the code is the exact orbit size (the code does not compute it; C15 covers structure.multiplicity)",
    "IEEE rounding is not modelled: theorems are over the reals; Float model vs code 1e-9*SumS, exact consequences 1e-9*SumS",
]
TRUSTED_EXTRA = list(c07.TRUSTED_EXTRA)

TWO_PI = 2 * math.pi


def correspondence(ctx):
    return c07.correspondence_sf(ctx, 'c08', 8, 25)


# ------------------------------------------------------------------------------------------------
# independent ingredients

def metric(cell):
    a, b, c, al, be, ga = [float(v) for v in cell]
    ca, cb, cg = (math.cos(math.radians(x)) for x in (al, be, ga))
    return np.array([[a * a, a * b * cg, a * c * cb], [a * b * cg, b * b, b * c * ca], [a * c * cb, b * c * ca, c * c]])


def recip(cell):
    """(G^-1, a*_i, cos of the reciprocal angles [alpha*, beta*, gamma*])"""
    Gi = np.linalg.inv(metric(cell))
    astar = np.sqrt(np.diag(Gi))
    cosang = [Gi[1, 2] / (astar[1] * astar[2]), Gi[0, 2] / (astar[0] * astar[2]), Gi[0, 1] / (astar[0] * astar[1])]
    return Gi, astar, cosang


def umat(adp):
    return np.array([[adp[0], adp[5], adp[4]], [adp[5], adp[1], adp[3]], [adp[4], adp[3], adp[2]]], dtype=float)


def ulist(u):
    return [float(u[0, 0]), float(u[1, 1]), float(u[2, 2]), float(u[1, 2]), float(u[0, 2]), float(u[0, 1])]


def frac_pos(a):
    return tuple(Fraction(int(n), int(d)) for n, d in a['pos_frac'])


def orbit(G, x):
    """exact orbit of x (Fractions) under the operations of the code, translations snapped to 24ths:
    (distinct points mod 1 in table order, index of the first operation reaching each, stabiliser indices)"""
    imgs = []
    for j in range(G['nsymop']):
        R, t = G['R'][j], G['t24'][j]
        imgs.append(tuple((sum(int(R[i][k]) * x[k] for k in range(3)) + Fraction(int(t[i]), 24)) % 1 for i in range(3)))
    x1 = tuple(v % 1 for v in x)
    first, points = {}, []
    for j, r in enumerate(imgs):
        if r not in first:
            first[r] = j
            points.append(r)
    stab = [j for j, r in enumerate(imgs) if r == x1]
    return points, first, stab


def symmetrise_adp(G, stab, adp, cell):
    """U whose beta tensor is the mean of R beta R^T over the site-symmetry operations"""
    Gi, astar, _ = recip(cell)
    D = np.diag(astar)
    beta = D @ umat(adp) @ D
    bs = sum(G['R'][j] @ beta @ G['R'][j].T for j in stab) / float(len(stab))
    Di = np.diag(1.0 / astar)
    return ulist(Di @ bs @ Di)


def expected_direct(G, cell, hkl, atoms, disper):
    """sum over the P1 expansion; every image carries its own (rotated) tensor"""
    Gi, astar, _ = recip(cell)
    h = np.array([int(v) for v in hkl], dtype=float)
    s2 = max(0.25 * float(h @ Gi @ h), 0.0)
    tot = 0j
    for a in atoms:
        row = c07.ff_row(a['atomtype'])
        f = sum(row[i] * math.exp(-row[i + 4] * s2) for i in range(4)) + row[8]
        d = None if disper is None else disper[a['atomtype']]
        fc = complex(f + (d[0] if d is not None else 0.0), (d[1] if d is not None else 0.0))
        points, first, stab = orbit(G, frac_pos(a))
        if a['adp_type'] == 'Uani':
            D = np.diag(astar)
            beta = 2 * math.pi ** 2 * (D @ umat(a['adp']) @ D)
        acc = 0j
        for r in points:
            if a['adp_type'] == 'Uiso':
                T = math.exp(-8 * math.pi ** 2 * a['adp'] * s2)
            elif a['adp_type'] == 'Uani':
                Rj = G['R'][first[r]].astype(float)
                T = math.exp(-float(h @ (Rj @ beta @ Rj.T) @ h))
            else:
                T = 1.0
            hr = sum(int(hkl[i]) * r[i] for i in range(3)) % 1
            acc += T * cmath.exp(1j * TWO_PI * float(hr))
        tot += a['occ'] * fc * acc
    return tot


# ------------------------------------------------------------------------------------------------
# generators

def special_pos(rng):
    """(x,y,z) as Fractions: general (denominator 997) or one of the usual special-position patterns"""
    g = lambda: Fraction(rng.randint(1, 996), 997)
    q = lambda: Fraction(rng.randint(0, 23), 24)
    kind = rng.choice(['general', 'general', 'grid', 'grid', 'xxx', 'xxz', 'x-xz', 'x2xz', '00z', 'x00', '0y0', '1/3,2/3,z', 'x,x+1/2,z',
                       'x,1/4,1/4', 'mixed', 'origin', 'half', 'quarter', 'x,-x,0', 'x,0,1/2'])
    x, z = g(), g()
    if kind == 'general':
        p = (g(), g(), g())
    elif kind == 'grid':
        p = (q(), q(), q())
    elif kind == 'xxx':
        p = (x, x, x)
    elif kind == 'xxz':
        p = (x, x, z)
    elif kind == 'x-xz':
        p = (x, -x % 1, z)
    elif kind == 'x2xz':
        p = (x, 2 * x % 1, z)
    elif kind == '00z':
        p = (Fraction(0), Fraction(0), z)
    elif kind == 'x00':
        p = (x, Fraction(0), Fraction(0))
    elif kind == '0y0':
        p = (Fraction(0), x, Fraction(0))
    elif kind == '1/3,2/3,z':
        p = (Fraction(1, 3), Fraction(2, 3), z)
    elif kind == 'x,x+1/2,z':
        p = (x, (x + Fraction(1, 2)) % 1, z)
    elif kind == 'x,1/4,1/4':
        p = (x, Fraction(1, 4), Fraction(1, 4))
    elif kind == 'mixed':
        p = tuple(q() if rng.random() < 0.5 else g() for _ in range(3))
    elif kind == 'origin':
        p = (Fraction(0), Fraction(0), Fraction(0))
    elif kind == 'half':
        p = tuple(Fraction(rng.randint(0, 1), 2) for _ in range(3))
    elif kind == 'quarter':
        p = tuple(Fraction(rng.randint(0, 3), 4) for _ in range(3))
    elif kind == 'x,-x,0':
        p = (x, -x % 1, Fraction(0))
    else:
        p = (x, Fraction(0), Fraction(1, 2))
    return p, kind


def direct_atom(rng, G, cell, kinds=('Uiso', 'Uani', None)):
    p, pk = special_pos(rng)
    points, first, stab = orbit(G, p)
    adp_type, adp = c07.rand_adp(rng, kinds)
    if adp_type == 'Uani' and len(stab) > 1:
        adp = symmetrise_adp(G, stab, adp, cell)
    return {'atomtype': rng.choice(c07.elements()), 'pos': [float(v) for v in p], 'pos_frac': [[v.numerator, v.denominator] for v in p],
            'adp_type': adp_type, 'adp': adp, 'occ': rng.choice([1.0, 1.0, 1.0, rng.uniform(0.05, 1.0), rng.uniform(0.05, 1.0), 0.0]), 'symmulti': len(points),
            'pos_kind': pk, 'site_symmetry_order': len(stab)}


def shared_site(rng, a):
    """a second species on exactly the position of atom `a` (a mixed-occupancy site): same coordinates bit for bit, another element,
    another occupancy, the same kind of displacement parameters with other values (a tensor scaled by a factor keeps the symmetry of
    the site)"""
    b = dict(a)
    b['atomtype'] = rng.choice(c07.elements())
    b['occ'] = rng.uniform(0.05, 1.0)
    f = rng.uniform(0.3, 3.0)
    if a['adp_type'] == 'Uani':
        b['adp'] = [f * x for x in a['adp']]
    elif a['adp_type'] == 'Uiso':
        b['adp'] = f * a['adp']
    return b


def free_atom(rng, G, kinds=('Uiso', 'Uani', None)):
    """atom for the real-vs-real consequences: any position, any positive multiplicity"""
    adp_type, adp = c07.rand_adp(rng, kinds)
    pos = [rng.randint(0, 24) / 24.0 if rng.random() < 0.25 else rng.uniform(0.0, 1.0) for _ in range(3)]
    sm = rng.choice([G['nsymop'], rng.randint(1, G['nsymop']), rng.uniform(0.3, 5.0)])
    return {'atomtype': rng.choice(c07.elements()), 'pos': pos, 'adp_type': adp_type, 'adp': adp,
            'occ': rng.choice([1.0, 1.0, 1.0, rng.uniform(0.05, 1.0), rng.uniform(0.05, 1.0), 0.0]), 'symmulti': sm}


# ------------------------------------------------------------------------------------------------
# the checks: run_check(kind, inp) -> [(label, observed, expected, tol)]

def _c(z):
    return [float(z.real), float(z.imag)]


def run_check(kind, inp):
    name, cell, hkl, atoms, disper = inp['sgname'], inp['cell'], inp['hkl'], inp['atoms'], inp.get('disper')
    scale = c07.sigma_s(atoms, disper)
    F = lambda at, dd=disper, hh=hkl, cc=cell: c07.SF(hh, cc, name, at, dd)
    if kind == 'direct':
        G = c07.group(name)
        # code: 6-digit translations t~ = t + d, |d_i| <= delta: each of the (weighted) summands moves by <= 2 pi delta |h|_1,
        # so |F~ - F_direct| <= 2 pi delta |h|_1 SumS; factor 2 head-room; 1e-8 SumS for rounding (s via the inverse metric)
        tol = 2.0 * TWO_PI * G['delta'] * c07.l1(hkl) * scale + 1e-8 * scale + 1e-300
        return [('direct sum over the P1 expansion', F(atoms), expected_direct(G, cell, hkl, atoms, disper), tol)]
    tol = 1e-9 * scale + 1e-300
    if kind == 'shift':
        moved = [dict(a, pos=[a['pos'][i] + inp['shift'][k][i] for i in range(3)]) for k, a in enumerate(atoms)]
        return [('lattice-shift invariance', F(moved), F(atoms), tol)]
    if kind == 'occ_scale':
        c = inp['c']
        scaled = [dict(a, occ=a['occ'] * c) for a in atoms]
        return [('linear in occupancy', F(scaled), c * F(atoms), tol * max(1.0, abs(c)))]
    if kind == 'additive':
        k = inp['split']
        return [('additive over atoms', F(atoms), F(atoms[:k]) + F(atoms[k:]), tol)]
    if kind == 'iso_uani':
        _, _, cosang = recip(cell)
        ani = []
        for a in atoms:
            if a['adp_type'] == 'Uiso':
                u = a['adp']
                ani.append(dict(a, adp_type='Uani', adp=[u, u, u, u * cosang[0], u * cosang[1], u * cosang[2]]))
            else:
                ani.append(a)
        return [('Uiso == isotropic Uani', F(ani), F(atoms), tol)]
    if kind == 'f000':
        er = ei = 0.0
        for a in atoms:
            row = c07.ff_row(a['atomtype'])
            d = None if disper is None else disper[a['atomtype']]
            er += a['occ'] * a['symmulti'] * (sum(row[:4]) + row[8] + (d[0] if d is not None else 0.0))
            ei += a['occ'] * a['symmulti'] * (d[1] if d is not None else 0.0)
        return [('F(000) with zero displacement', c07.SF([0, 0, 0], cell, name, atoms, disper), complex(er, ei), tol)]
    if kind == 'disp_branches':
        types = sorted(set(a['atomtype'] for a in atoms))
        f0 = F(atoms, None)
        return [('disper=None == dict of None', F(atoms, {t: None for t in types}), f0, 1e-12 * scale + 1e-300),
                ('disper=None == dict of (0.0, 0.0)', F(atoms, {t: [0.0, 0.0] for t in types}), f0, 1e-12 * scale + 1e-300)]
    raise ValueError(kind)


def evaluate(kind, inp, stats):
    """-> list of violation dicts"""
    out = []
    key = kind
    if kind == 'direct':
        key = 'direct_6digit_groups' if c07.group(inp['sgname'])['delta'] > 0 else 'direct_exact_groups'
    for label, obs, exp, tol in run_check(kind, inp):
        err = abs(obs - exp)
        stats['max_err_over_tol'][key] = max(stats['max_err_over_tol'].get(key, 0.0), err / tol)
        stats['n'][key] = stats['n'].get(key, 0) + 1
        if not (err <= tol):
            out.append(dict(inp, fn='structure.StructureFactor:' + label, check=kind, observed=_c(obs), expected=_c(exp), tol=tol,
                            known_id=None))
    return out


def oracle(ctx, hints=()):
    rng = ctx.rng
    names, missing = c07.oracle_names()
    viol = [{'fn': 'sg.sgdic', 'no': no, 'observed': 'no name resolves to this space-group number', 'expected': 'all 230 groups by name',
             'known_id': None} for no in missing]
    todo = c07.stratified(rng, names, ctx.thorough or ctx.boost)
    nsets = ctx.n(4, 8, boost=6)       # atom sets per setting for the direct sum
    nh = ctx.n(3, 5, boost=4)          # reflections per atom set
    ncons = ctx.n(2, 4, boost=3)       # rounds of the exact consequences per setting
    stats = {'max_err_over_tol': {}, 'n': {}}
    ev, nontriv, sample = 0, 0, None
    pos_kinds, special_atoms, uani_special, per_cs = {}, 0, 0, {}
    shared_sites = 0
    for e in todo:
        G = c07.group(e['name'])
        per_cs[G['cs']] = per_cs.get(G['cs'], 0) + 1
        for _ in range(nsets):
            cell = gens.cell(rng)[0]
            nat = rng.randint(1, 4) if G['nsymop'] <= 48 or ctx.thorough else rng.randint(1, 2)
            atoms = [direct_atom(rng, G, cell) for _ in range(nat)]
            if nat >= 2 and rng.random() < 0.3:
                atoms[1] = shared_site(rng, atoms[0])
                shared_sites += 1
            for a in atoms:
                pos_kinds[a['pos_kind']] = pos_kinds.get(a['pos_kind'], 0) + 1
                special_atoms += 1 if a['site_symmetry_order'] > 1 else 0
                uani_special += 1 if a['site_symmetry_order'] > 1 and a['adp_type'] == 'Uani' else 0
            disper = c07.rand_disper(rng, atoms)
            hs = [[0, 0, 0]] if rng.random() < 0.25 else []
            hs += [c07.rand_hkl(rng, 8) for _ in range(nh - len(hs))]
            for h in hs:
                inp = {'sgname': e['name'], 'cell': cell, 'hkl': h, 'atoms': atoms, 'disper': disper}
                sample = sample or {'check': 'direct', 'sgname': e['name'], 'cell': cell, 'hkl': h, 'natoms': nat}
                viol += evaluate('direct', inp, stats)
                ev += 1
                nontriv += 1 if any(h) and G['nsymop'] > 1 else 0
        for _ in range(ncons):
            nat = rng.randint(2, 4) if G['nsymop'] <= 48 or ctx.thorough else 2
            cell = gens.cell(rng)[0]
            atoms = [free_atom(rng, G) for _ in range(nat)]
            if rng.random() < 0.3:
                atoms[-1] = shared_site(rng, atoms[0])
                shared_sites += 1
            disper = c07.rand_disper(rng, atoms)
            h = c07.rand_hkl(rng, 8)
            base = {'sgname': e['name'], 'cell': cell, 'hkl': h, 'atoms': atoms, 'disper': disper}
            viol += evaluate('shift', dict(base, shift=[[rng.randint(-3, 3) for _ in range(3)] for _ in atoms]), stats)
            viol += evaluate('occ_scale', dict(base, c=rng.choice([0.5, 0.25, 0.0, rng.uniform(0.05, 1.0)])), stats)
            viol += evaluate('additive', dict(base, split=rng.randint(1, nat - 1)), stats)
            viol += evaluate('disp_branches', dict(base, disper=None), stats)
            # Uiso == isotropic Uani: sin(theta)/lambda of hR must equal that of h -> conforming cell
            ccell = gens.conforming_cell(rng, G['cs'], G['cell_choice'])
            iso = [free_atom(rng, G, ('Uiso', 'Uiso', None)) for _ in range(nat)]
            iso[0] = free_atom(rng, G, ('Uiso',))
            viol += evaluate('iso_uani', dict(base, cell=ccell, atoms=iso, disper=c07.rand_disper(rng, iso)), stats)
            # F(000), zero displacement in each of its three spellings
            zero = []
            for k in range(nat):
                a = free_atom(rng, G, (None,))
                z = rng.choice(['none', 'uiso0', 'uani0'])
                if z == 'uiso0':
                    a.update(adp_type='Uiso', adp=0.0)
                elif z == 'uani0':
                    a.update(adp_type='Uani', adp=[0.0] * 6)
                zero.append(a)
            viol += evaluate('f000', dict(base, hkl=[0, 0, 0], atoms=zero, disper=c07.rand_disper(rng, zero)), stats)
            ev += 7
            nontriv += 5 if any(h) and G['nsymop'] > 1 else 0
        if len(viol) > 20:
            break
    # several hundred atoms in one list (block seams at 256, 512, ...): the direct sum for two small groups
    nlong = 0
    for e, nat in zip([e for e in todo if c07.group(e['name'])['nsymop'] <= 8][:2], (rng.randint(515, 780), rng.randint(258, 400))):
        if len(viol) > 20:
            break
        G = c07.group(e['name'])
        cell = gens.cell(rng)[0]
        atoms = [direct_atom(rng, G, cell, ('Uani', 'Uani', 'Uiso')) for _ in range(nat)]
        disper = c07.rand_disper(rng, atoms, 'full')
        for h in [c07.rand_hkl(rng, 6, allow_zero=False) for _ in range(2)]:
            viol += evaluate('direct', {'sgname': e['name'], 'cell': cell, 'hkl': h, 'atoms': atoms, 'disper': disper}, stats)
            ev += 1
        nlong += 1
    return {'evaluations': ev, 'distinct_nontrivial': nontriv, 'violations': viol, 'samples': [sample], 'exhaustive': False,
            'stats': {'settings': len(todo), 'per_crystal_system': per_cs, 'checks': stats['n'], 'long_atom_lists': nlong, 'max_err_over_tol': stats['max_err_over_tol'],
                      'position_kinds': pos_kinds, 'atoms_on_special_positions': special_atoms,
                      'uani_atoms_on_special_positions': uani_special, 'atom_sets_with_a_shared_site': shared_sites}}


def replay(payload):
    v = payload.get('violation')
    if not v:
        print('replay: broken obligation, no input stored:', payload.get('broken'))
        return 1
    if v.get('fn') == 'sg.sgdic':
        names, missing = c07.oracle_names()
        print('replay C08 sg.sgdic: numbers without a name ->', missing)
        return 1 if v.get('no') in missing else 0
    if 'check' not in v or 'atoms' not in v:
        print('replay C08: violation without a concrete input:', json.dumps(v, default=str)[:400])
        return 1
    print('replay C08 [%s] %s hkl=%s cell=%s natoms=%d disper=%s' % (v['check'], v['sgname'], v['hkl'], v['cell'], len(v['atoms']), v.get('disper')))
    print('  stored   : %s observed=%s expected=%s tol=%s' % (v.get('fn'), v.get('observed'), v.get('expected'), v.get('tol')))
    bad = 0
    for label, obs, exp, tol in run_check(v['check'], v):
        err = abs(obs - exp)
        ok = err <= tol
        print('  now      : %s observed=%s expected=%s |diff|=%.3g tol=%.3g -> %s' % (label, _c(obs), _c(exp), err, tol, 'holds' if ok else 'VIOLATION'))
        bad += 0 if ok else 1
    return 1 if bad else 0
