"""C09 — returned (omega, eta) satisfy the diffraction condition; no solution is missed."""
import math
import numpy as np
import gens, floatcorr

GEN = ['numeric']
LEAN_MODULES = ['XfabVerif.Proofs.C09', 'XfabVerif.Proofs.C09Extra']
LEAN_DRIVER_MODULES = ['XfabVerif.Gen.FloatDispatch']
RULE = ("g directions uniform on the sphere scaled to sin(theta), 2theta uniform in (0.5,150) deg, chi and wedge uniform in [-0.5,0.5] rad "
        "(both non-zero in 1/3 of the cases, both zero in 1/6); cases within 1e-6 (relative) of tangency excluded from the count claim; "
        "non-trivial = both tilts non-zero; distinct = distinct (g, 2theta, chi, wedge)")
ASSUMPTIONS = ["theorems over the reals with the stated non-degeneracy guards (a^2+b^2 != 0, sin 2theta != 0, g != 0); rounding not modelled"]


def _mods():
    from xfab import tools, laue
    return (('Tools', tools), ('Laue', laue))


def draw(rng, i):
    tth = math.radians(rng.uniform(0.5, 150))
    v = np.array([rng.gauss(0, 1) for _ in range(3)])
    # exact special directions (uniform draws have measure zero on them): g in a coordinate plane (one component exactly 0: h0l / hk0
    # reflections of an axis-aligned grain) in 1/4 of the cases, along a coordinate axis in 1/12; found by a seeded change whose
    # half-angle root q = b + sign(b) sqrt(d) is wrong exactly when g_y = 0
    k2 = (i // 6) % 12
    if k2 in (1, 4, 7):
        v[(1, 0, 2)[k2 // 3 % 3]] = 0.0
    elif k2 == 10:
        j = rng.randrange(3)
        v = np.array([1.0 if t == j else 0.0 for t in range(3)]) * rng.choice([-1.0, 1.0])
    v /= np.linalg.norm(v)
    k = i % 6
    if k == 0:
        chi = wedge = 0.0
    elif k in (1, 2):
        chi, wedge = rng.uniform(-0.5, 0.5), rng.uniform(-0.5, 0.5)
    elif k == 3:
        chi, wedge = rng.uniform(-0.5, 0.5), 0.0
    elif k == 4:
        chi, wedge = 0.0, rng.uniform(-0.5, 0.5)
    else:
        chi, wedge = rng.uniform(-0.5, 0.5), rng.uniform(-0.5, 0.5)
    # low scattering angles and reflections just OUTSIDE the blind cone of the rotation axis (both solutions exist, a degree or less
    # apart): the discriminant of the omega equation scales with sin^4(theta) there, so an absolute threshold on it eats real solutions
    m = i % 25
    if m in (3, 11, 19):
        tth = math.radians(10 ** rng.uniform(-1.0, 0.5))
        chi = wedge = 0.0
        s = math.sin(tth / 2) * (1.0 + 10 ** rng.uniform(-4.5, -2.0))
        phi = rng.uniform(0, 2 * math.pi)
        v = np.array([s * math.cos(phi), s * math.sin(phi), rng.choice([-1.0, 1.0]) * math.sqrt(1.0 - s * s)])
    elif m in (7, 15):
        tth = math.radians(10 ** rng.uniform(-1.0, 0.5))
    g = v * math.sin(tth / 2)
    return g, tth, chi, wedge


def correspondence(ctx):
    cases = []
    for i in range(ctx.n(80, 4000)):
        g, tth, chi, wedge = draw(ctx.rng, i)
        c, _ = gens.cell(ctx.rng, scaled=True)
        h = gens.hkl(ctx.rng, 6)
        lam = ctx.rng.uniform(0.1, 0.5)
        for mn, m in _mods():
            gl = list(g) if mn == 'Tools' else list(g * ctx.rng.uniform(0.2, 5))
            cases.append({'fn': '%s.find_omega_general' % mn, 'args': gl + [tth, chi, wedge],
                          'py': (lambda m=m, gl=gl, tth=tth, chi=chi, wedge=wedge: m.find_omega_general(np.array(gl), tth, chi, wedge)), 'rtol': 1e-8, 'atol': 1e-9})
            cases.append({'fn': '%s.find_omega_quart' % mn, 'args': gl + [tth, chi, wedge],
                          'py': (lambda m=m, gl=gl, tth=tth, chi=chi, wedge=wedge: m.find_omega_quart(np.array(gl), tth, chi, wedge)), 'rtol': 1e-8, 'atol': 1e-9})
            cases.append({'fn': '%s.find_omega_wedge' % mn, 'args': gl + [tth, wedge],
                          'py': (lambda m=m, gl=gl, tth=tth, wedge=wedge: m.find_omega_wedge(np.array(gl), tth, wedge)), 'rtol': 1e-8, 'atol': 1e-9})
            cases.append({'fn': '%s.find_omega' % mn, 'args': gl + [tth],
                          'py': (lambda m=m, gl=gl, tth=tth: m.find_omega(np.array(gl), tth)), 'rtol': 1e-8, 'atol': 1e-9})
            cases.append({'fn': '%s.tth' % mn, 'args': c + h + [lam], 'py': (lambda m=m, c=c, h=h, lam=lam: m.tth(c, h, lam)), 'rtol': 1e-12})
            cases.append({'fn': '%s.tth2' % mn, 'args': gl + [lam], 'py': (lambda m=m, gl=gl, lam=lam: m.tth2(np.array(gl), lam)), 'rtol': 1e-12})
    # near tangency the discriminant sign is rounding dependent: tolerate list-length differences there
    n, dis, stats = floatcorr.compare(cases)
    dis = [d for d in dis if not _near_tangent(d)]
    return {'cases': n, 'disagreements': dis, 'stats': stats, 'samples': [{'fn': cases[0]['fn'], 'args': cases[0]['args']}]}


def _near_tangent(d):
    a = d['args']
    if 'find_omega' not in d['fn'] or len(a) < 4:
        return False
    g = np.array(a[:3])
    tth = a[3]
    chi = a[4] if len(a) > 5 else 0.0
    wedge = a[5] if len(a) > 5 else (a[4] if len(a) == 5 else 0.0)
    if d['fn'].endswith('find_omega_wedge'):
        chi, wedge = 0.0, -wedge
    gs = g / np.linalg.norm(g) * math.sin(tth / 2)
    dd = abs(_disc(gs, chi, wedge))
    # below 3 degrees near the blind cone the solutions are ill-conditioned (cos(2 theta) - 1 has lost half its digits and the two roots are a
    # fraction of a degree apart): one ulp of difference between numpy's and Lean's libm shows at 1e-8 there -- same guard as in check_one
    return dd < 1e-6 or (tth <= math.radians(3.0) and dd < 0.1)


def _disc(g, chi, wedge):
    R = gens.rx(chi) @ gens.ry(wedge)
    a = g[0] * R[0, 0] + g[1] * R[0, 1]
    b = g[0] * R[0, 1] - g[1] * R[0, 0]
    c = -g @ g - g[2] * R[0, 2]
    return (a * a + b * b - c * c) / max(a * a + b * b, 1e-300)


def _plain(x):
    if isinstance(x, (list, tuple)):
        return [_plain(y) for y in x]
    if isinstance(x, np.ndarray):
        return x.tolist()
    if isinstance(x, np.generic):
        return x.item()
    return x


def cond_ok(M, g, tth, om, eta, tol=1e-7):
    gt = M @ g
    s2, st = math.sin(tth / 2) ** 2, math.sin(tth)
    exp = np.array([-s2, -st * math.sin(eta) / 2, st * math.cos(eta) / 2])
    return np.abs(gt - exp).max() <= tol and -math.pi - 1e-12 < om <= math.pi + 1e-12, gt, exp


def check_one(mn, m, g, tth, chi, wedge):
    out = []
    gin = g if mn == 'Tools' else g * 1.7      # laue rescales itself
    gs = g                                     # |gs| = sin(theta)
    inp = {'g': list(map(float, gin)), 'tth': tth, 'chi': chi, 'wedge': wedge}

    def bad(what, obs, exp):
        out.append({'fn': '%s.%s' % (mn.lower(), what), 'input': inp, 'observed': _plain(obs), 'expected': _plain(exp), 'known_id': None})
    disc = _disc(gs, chi, wedge)
    nsol = None if abs(disc) < 1e-6 else (2 if disc > 0 else 0)
    # general
    om, eta = m.find_omega_general(gin, tth, chi, wedge)
    for o, e in zip(om, eta):
        ok, gt, exp = cond_ok(m.form_omega_mat_general(o, chi, wedge), gs, tth, o, e)
        if not ok:
            bad('find_omega_general:condition', [o, e] + list(gt), exp)
    if nsol is not None and len(om) != nsol:
        bad('find_omega_general:count', len(om), nsol)
    if nsol == 2 and len(om) == 2 and abs(om[0] - om[1]) < 1e-9:
        bad('find_omega_general:distinct', list(om), 'two different solutions')
    # quart
    omq, etaq = m.find_omega_quart(gin, tth, chi, wedge)
    for o, e in zip(omq, etaq):
        ok, gt, exp = cond_ok(m.quart_to_omega(o * 180 / math.pi, chi, wedge), gs, tth, o, e)
        if not ok:
            bad('find_omega_quart:condition', [o, e] + list(gt), exp)
    Rq = gens.rx(chi) @ gens.ry(wedge)
    nq = Rq @ np.array([0, 0, 1.0])
    aq = gs[0] * (1 - nq[0] ** 2) - gs[1] * nq[0] * nq[1] - gs[2] * nq[0] * nq[2]
    bq = gs[2] * nq[1] - gs[1] * nq[2]
    cq = -gs @ gs - gs[0] * nq[0] ** 2 - gs[1] * nq[0] * nq[1] - gs[2] * nq[0] * nq[2]
    dq = (aq * aq + bq * bq - cq * cq) / max(aq * aq + bq * bq, 1e-300)
    if abs(dq) > 1e-6 and len(omq) != (2 if dq > 0 else 0):
        bad('find_omega_quart:count', len(omq), 2 if dq > 0 else 0)
    # wedge (GrainSpotter sign): matrix Ry(-wedge) Rz(omega)
    omw, etaw = m.find_omega_wedge(gin, tth, wedge)
    for o, e in zip(omw, etaw):
        ok, gt, exp = cond_ok(gens.ry(-wedge) @ gens.rz(o), gs, tth, o, e)
        if not ok:
            bad('find_omega_wedge:condition', [o, e] + list(gt), exp)
    dw = _disc(gs, 0.0, -wedge)
    if abs(dw) > 1e-6 and len(omw) != (2 if dw > 0 else 0):
        bad('find_omega_wedge:count', len(omw), 2 if dw > 0 else 0)
    # plain
    omp = m.find_omega(gin, tth)
    for o in omp:
        gt = gens.rz(o) @ gs
        if abs(gt[0] + math.sin(tth / 2) ** 2) > 1e-7 or not (-math.pi - 1e-12 < o <= math.pi + 1e-12):
            bad('find_omega:condition', [o] + list(gt), -math.sin(tth / 2) ** 2)
    d0 = _disc(gs, 0.0, 0.0)
    if abs(d0) > 1e-6 and len(omp) != (2 if d0 > 0 else 0):
        bad('find_omega:count', len(omp), 2 if d0 > 0 else 0)
    # agreement where tilts coincide
    # (below 3 degrees only away from the blind cone: there cos(2 theta) - 1 loses digits and the four algebraically different routes of the reviewed code agree to
    #  1e-5 only near the blind cone; the counts and the diffraction condition of every solution are still checked at those angles)
    if chi == 0 and wedge == 0 and abs(d0) > (1e-6 if tth > math.radians(3.0) else 0.1):
        sets = [sorted(np.asarray(x, float).tolist()) for x in (om, omq, omw, omp)]
        for s in sets[1:]:
            if len(s) != len(sets[0]) or any(abs(x - y) > 1e-7 for x, y in zip(s, sets[0])):
                bad('solvers agree at zero tilt', sets, sets[0])
                break
    if chi == 0 and abs(dw) > (1e-6 if tth > math.radians(3.0) else 0.1):          # same low-angle guard as above
        o2, e2 = m.find_omega_general(gin, tth, 0.0, -wedge)
        if sorted(np.asarray(o2).tolist()) != sorted(np.asarray(omw).tolist()) and \
                (len(o2) != len(omw) or any(abs(x - y) > 1e-7 for x, y in zip(sorted(o2), sorted(omw)))):
            bad('wedge(w) = general(chi=0, wedge=-w)', list(omw), list(o2))
    return out


def check_tth(mn, m, c, h, lam, U):
    out = []
    k = 2 * math.pi if mn == 'Tools' else 1.0
    s = m.sintl(c, h)
    if lam * s >= 1:
        return out
    t1 = m.tth(c, h, lam)
    t2 = m.tth2(U @ m.form_b_mat(c) @ np.array(h, float), lam)
    e = 2 * math.asin(lam * s)
    if abs(t1 - e) > 1e-12 or abs(t2 - e) > 1e-9:
        out.append({'fn': '%s.tth' % mn.lower(), 'input': {'cell': c, 'hkl': h, 'lam': lam}, 'observed': [t1, t2], 'expected': e, 'known_id': None})
    return out


def oracle(ctx, hints=()):
    viol, ev, nontriv = [], 0, 0
    sample = None
    for i in range(ctx.n(300, 50000, boost=10000)):
        g, tth, chi, wedge = draw(ctx.rng, i)
        sample = sample or {'g': g.tolist(), 'tth': tth, 'chi': chi, 'wedge': wedge}
        if chi and wedge:
            nontriv += 1
        c, _ = gens.cell(ctx.rng, scaled=True)
        h = gens.hkl(ctx.rng, 6)
        U, _ = gens.rotation(ctx.rng, 'uniform')
        for mn, m in _mods():
            ev += 1
            try:
                viol += check_one(mn, m, g, tth, chi, wedge)
            except AssertionError as ex:
                viol.append({'fn': mn.lower() + '.find_omega*', 'input': {'g': g.tolist(), 'tth': tth, 'chi': chi, 'wedge': wedge},
                             'observed': 'AssertionError %s' % ex, 'expected': 'solutions', 'known_id': None})
            viol += check_tth(mn, m, c, h, ctx.rng.uniform(0.1, 0.5), U)
        if len(viol) > 20:
            break
    return {'evaluations': ev, 'distinct_nontrivial': nontriv, 'violations': viol, 'samples': [sample], 'stats': {}}


def replay(payload):
    v = payload.get('violation')
    if not v:
        print('replay: broken obligation, no input stored:', payload.get('broken'))
        return 1
    from xfab import tools, laue
    m = tools if v['fn'].startswith('tools') else laue
    mn = 'Tools' if m is tools else 'Laue'
    i = v['input']
    if 'g' not in i:
        print('replay: tth case', v)
        return 1
    g = np.array(i['g'])
    g = g / np.linalg.norm(g) * math.sin(i['tth'] / 2)
    res = check_one(mn, m, g, i['tth'], i['chi'], i['wedge'])
    print('replay C09 ->', 'VIOLATION' if res else 'holds', res[:1])
    return 1 if res else 0
