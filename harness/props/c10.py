"""C10 — detector pixel of a reflection lies on its scattered ray on the tilted detector."""
import math
import numpy as np
import floatcorr

GEN = ['numeric']
LEAN_MODULES = ['XfabVerif.Proofs.C10']
LEAN_DRIVER_MODULES = ['XfabVerif.Gen.FloatDispatch']
RULE = ("seeded uniform draws from the property's box: 2theta in (0.5,60) deg, eta in [0,2pi), tilts in [-0.3,0.3] rad, distance 10..1000, a third of the draws with exact special values (zero tilts/offsets, eta a multiple of 90 deg, equal pixel sizes), "
        "pixel sizes 0.01..0.5, grain offsets +-2, beam centre +-2000; non-trivial = at least one tilt and one grain offset non-zero; distinct = distinct input tuples")
ASSUMPTIONS = ["theorems are over the reals; the Float twin and the oracle compare to 1e-9 relative"]


def draw(rng, trivial=False, special=False):
    """special=True: every component is, with probability 1/2, an exact special value (a tilt of exactly 0, an offset of
    exactly 0, eta a multiple of pi/2, equal pixel sizes, centred beam): value-keyed fast paths and degenerate branches
    have measure zero under the uniform draw"""
    tth = math.radians(rng.uniform(0.5, 60))
    eta = rng.uniform(0, 2 * math.pi)
    tilt = [0.0, 0.0, 0.0] if trivial else [rng.uniform(-0.3, 0.3) for _ in range(3)]
    L = rng.uniform(10, 1000)
    py, pz = rng.uniform(0.01, 0.5), rng.uniform(0.01, 0.5)
    yc, zc = rng.uniform(-2000, 2000), rng.uniform(-2000, 2000)
    t = [0.0, 0.0, 0.0] if trivial else [rng.uniform(-2, 2) for _ in range(3)]
    lam = rng.uniform(0.1, 1.5)
    if special:
        tilt = [0.0 if rng.random() < 0.5 else x for x in tilt]
        t = [0.0 if rng.random() < 0.5 else x for x in t]
        if rng.random() < 0.5:
            eta = rng.choice([0.0, 0.5 * math.pi, math.pi, 1.5 * math.pi])
        if rng.random() < 0.3:
            pz = py
        if rng.random() < 0.3:
            yc = zc = 0.0
        if rng.random() < 0.2:
            tth = math.radians(rng.choice([30.0, 45.0, 60.0]))
        if rng.random() < 0.25:
            # beyond the box of the quantifier, where the statement ("for every distance ...") still applies: back-scattering
            # (2theta > 90 deg, cos 2theta < 0), with the detector up-stream (negative distance) in half of these; the identities are
            # pure algebra there, a quantity rebuilt as +sqrt(1 - sin^2) is not
            tth = math.radians(rng.uniform(92.0, 150.0))
            if rng.random() < 0.5:
                L = -L
    return dict(tth=tth, eta=eta, tilt=tilt, L=L, py=py, pz=pz, yc=yc, zc=zc, t=t, lam=lam)


def sincos_eta(eta):
    """(sin eta, cos eta) with the EXACT values 0, 1, -1 at the multiples of pi/2: a g-vector lying in a coordinate plane has a
    component that is exactly zero (hkl along an axis of an axis-aligned crystal), not -1.2e-16"""
    for k, sc in enumerate(((0.0, 1.0), (1.0, 0.0), (0.0, -1.0), (-1.0, 0.0))):
        if eta == k * 0.5 * math.pi:
            return sc
    return math.sin(eta), math.cos(eta)


def correspondence(ctx):
    from xfab import detector, tools
    cases = []
    for i in range(ctx.n(80, 5000)):
        d = draw(ctx.rng, trivial=(i % 10 == 0), special=(i % 4 == 1))
        R = tools.detect_tilt(*d['tilt'])
        Rf = [float(x) for x in R.ravel()]
        k = 2 * math.pi / d['lam']
        se, ce = sincos_eta(d['eta'])
        Gt = [k * (math.cos(d['tth']) - 1), -k * math.sin(d['tth']) * se + 0.0, k * math.sin(d['tth']) * ce]
        tail = [d['L'], d['py'], d['pz'], d['yc'], d['zc']] + Rf + d['t']
        cases.append({'fn': 'Tools.detect_tilt', 'args': d['tilt'], 'py': (lambda d=d: tools.detect_tilt(*d['tilt']))})
        cases.append({'fn': 'Detector.det_coor', 'args': Gt + [math.cos(d['tth']), d['lam']] + tail,
                      'py': (lambda d=d, R=R, Gt=Gt: detector.det_coor(np.array(Gt), math.cos(d['tth']), d['lam'], d['L'], d['py'], d['pz'],
                                                                         d['yc'], d['zc'], R, *d['t'])), 'rtol': 1e-10, 'atol': 1e-9})
        cases.append({'fn': 'Detector.det_coor2', 'args': [d['tth'], d['eta']] + tail,
                      'py': (lambda d=d, R=R: detector.det_coor2(d['tth'], d['eta'], d['L'], d['py'], d['pz'], d['yc'], d['zc'], R, *d['t'])),
                      'rtol': 1e-10, 'atol': 1e-9})
        cases.append({'fn': 'Detector.det_v', 'args': Gt + [math.cos(d['tth']), d['lam']] + tail,
                      'py': (lambda d=d, R=R, Gt=Gt: detector.det_v(np.array(Gt), math.cos(d['tth']), d['lam'], d['L'], d['py'], d['pz'],
                                                                      d['yc'], d['zc'], R, *d['t']))})
        p = detector.det_coor2(d['tth'], d['eta'], d['L'], d['py'], d['pz'], d['yc'], d['zc'], R, *d['t'])
        cases.append({'fn': 'Detector.detector_to_lab', 'args': [p[0], p[1], d['L'], d['py'], d['pz'], d['yc'], d['zc']] + Rf,
                      'py': (lambda d=d, R=R, p=p: detector.detector_to_lab(p[0], p[1], d['L'], d['py'], d['pz'], d['yc'], d['zc'], R)),
                      'rtol': 1e-10, 'atol': 1e-9})
    n, dis, stats = floatcorr.compare(cases)
    return {'cases': n, 'disagreements': dis, 'stats': stats, 'samples': [{'fn': cases[1]['fn'], 'args': cases[1]['args']}]}


def check_one(d):
    from xfab import detector, tools
    out = []
    R = tools.detect_tilt(*d['tilt'])
    k = 2 * math.pi / d['lam']
    se, ce = sincos_eta(d['eta'])
    v = np.array([math.cos(d['tth']), -math.sin(d['tth']) * se + 0.0, math.sin(d['tth']) * ce])
    Gt = k * (v - np.array([1.0, 0, 0]))
    p1 = detector.det_coor(Gt, math.cos(d['tth']), d['lam'], d['L'], d['py'], d['pz'], d['yc'], d['zc'], R, *d['t'])
    p2 = detector.det_coor2(d['tth'], d['eta'], d['L'], d['py'], d['pz'], d['yc'], d['zc'], R, *d['t'])
    scale = 1.0 + max(abs(p2[0]), abs(p2[1]))

    def bad(what, obs, exp):
        out.append({'fn': 'detector.' + what, 'input': d, 'observed': np.asarray(obs).tolist(), 'expected': np.asarray(exp).tolist(), 'known_id': None})
    if max(abs(p1[0] - p2[0]), abs(p1[1] - p2[1])) > 1e-8 * scale:
        bad('det_coor=det_coor2', p1, p2)
    lab = np.array(detector.detector_to_lab(p2[0], p2[1], d['L'], d['py'], d['pz'], d['yc'], d['zc'], R))
    # independent ray/plane intersection: plane through (L,0,0) with normal R[:,0]; ray t0 + s v
    nrm = R[:, 0]
    t0 = np.array(d['t'])
    s = (nrm @ (np.array([d['L'], 0, 0]) - t0)) / (nrm @ v)
    exp = t0 + s * v
    if np.abs(lab - exp).max() > 1e-8 * (1 + np.abs(exp).max()):
        bad('detector_to_lab on ray', lab, exp)
    dv = detector.det_v(Gt, math.cos(d['tth']), d['lam'], d['L'], d['py'], d['pz'], d['yc'], d['zc'], R, *d['t'])
    if np.abs(np.asarray(dv) - v).max() > 1e-12:
        bad('det_v', dv, v)
    return out


def oracle(ctx, hints=()):
    viol, n, nontriv = [], ctx.n(400, 100000, boost=20000), 0
    sample = None
    for i in range(n):
        d = draw(ctx.rng, trivial=(i % 20 == 0), special=(i % 3 == 1))
        sample = sample or d
        if any(d['tilt']) and any(d['t']):
            nontriv += 1
        viol += check_one(d)
        if len(viol) > 20:
            break
    return {'evaluations': n, 'distinct_nontrivial': nontriv, 'violations': viol, 'samples': [sample], 'stats': {}}


def replay(payload):
    v = payload.get('violation')
    if not v:
        print('replay: broken obligation, no input stored:', payload.get('broken'))
        return 1
    res = check_one(v['input'])
    print('replay C10', v['input'], '->', 'VIOLATION' if res else 'holds', res[:1])
    return 1 if res else 0
