"""C11 — detector orientation: trans_orientation / image_flipping are undone by 'inverse', xy_to_detyz <-> detyz_to_xy are
mutual inverses and agree with where trans_orientation stores a pixel; only the 8 listed matrices are accepted;
(dety,detz) <-> (eta, radius) are mutual inverses."""
import math, itertools
import numpy as np
import floatcorr
from check import run_model_driver

GEN = ['numeric', 'flip']
LEAN_MODULES = ['XfabVerif.Proofs.C11', 'XfabVerif.Proofs.C11Real', 'XfabVerif.Proofs.C11Table']
# definitions the hand-written model mirrors (see harness/pins.py): a source change breaks the tie
PINS = ['xfab/detector.py:trans_orientation', 'xfab/detector.py:image_flipping']
LEAN_DRIVER_MODULES = ['XfabVerif.Model.Flip', 'XfabVerif.Gen.FloatDispatch']
RULE = ("all 81 matrices over {-1,0,1}^4 (8 accepted, 73 rejected, each by all four functions); raw images img[x,y] of every shape "
        "1..8 x 1..8 with distinct pixel values, EVERY pixel, plus seeded random non-square shapes up to 400 x 400 (corner + random pixels); "
        "sizes passed as detz_size = img.shape[0], dety_size = img.shape[1]; random real coordinates inside the detector; "
        "eta in [0,360] (incl. 0, 90, 180, 270, 360 and values within 1e-6 of them), radius in [1, 3000], centres in [0, 4000]; "
        "a case is non-trivial when the orientation is not the identity-like (0,1,1,0) / the shape is not 1x1; distinct = distinct "
        "(orientation, shape, pixel) or (eta, radius, centre) tuples")
ASSUMPTIONS = ["numpy.transpose / fliplr / flipud are modelled as index maps (Model/Flip.lean); the model is run against numpy on every check",
               "IEEE rounding is not modelled (C11Real is over the reals). The oracle compares coordinates to 1e-9 (relative to the detector size) and "
               "eta to 1e-9 degrees PLUS the conditioning bound of arccos near eta = 0/180/360: min(2D/|sin eta|, 2 sqrt(2D)) rad with "
               "D = 8 eps (1 + scale/radius) — detyz_to_eta_and_radpix computes eta through arccos and loses half the digits there",
               "in exact arithmetic eta = 360 comes back as 0 (C11Real.eta_rad_inverse); in floating point sin(2 pi) = -2.4e-16, so 360.0 or 0.0: both accepted"]
TRUSTED_EXTRA = ["hand model lean/XfabVerif/Model/Flip.lean of trans_orientation / image_flipping / the orientation test / the integer coordinate maps, "
                 "run against the implementation for all 81 matrices, both directions, every shape up to 8x8 (thorough) on every check"]

VALID = [(1, 0, 0, 1), (-1, 0, 0, 1), (1, 0, 0, -1), (-1, 0, 0, -1), (0, 1, 1, 0), (0, -1, -1, 0), (0, -1, 1, 0), (0, 1, -1, 0)]
ONAME = {(1, 0, 0, 1): 'pzzp', (-1, 0, 0, 1): 'mzzp', (1, 0, 0, -1): 'pzzm', (-1, 0, 0, -1): 'mzzm',
         (0, 1, 1, 0): 'zppz', (0, -1, -1, 0): 'zmmz', (0, -1, 1, 0): 'zmpz', (0, 1, -1, 0): 'zpmz'}
ALL81 = list(itertools.product((-1, 0, 1), repeat=4))
EPS = 2.220446049250313e-16


def _img(rng, nx, ny):
    """raw image with distinct pixel values, indexed img[x, y]"""
    off = rng.randint(-50, 50)
    if nx * ny > 100000:
        vals = np.random.default_rng(rng.getrandbits(32)).permutation(nx * ny)
        return vals.astype(np.int64).reshape(nx, ny) * 3 + off
    vals = list(range(nx * ny))
    rng.shuffle(vals)
    return np.array(vals, dtype=np.int64).reshape(nx, ny) * 3 + off


def _large_shapes(rng, n):
    out = []
    while len(out) < n:
        nx, ny = rng.randint(9, 60), rng.randint(9, 60)
        if nx != ny:
            out.append((nx, ny))
    return out


# ------------------------------------------------------------------------------------------------
# correspondence

def _py_img(fn, img, o, d):
    try:
        t = fn(img, *o, d)
    except ValueError:
        return 'raise:ValueError'
    t = np.asarray(t)
    return 'ok %d %d %s' % (t.shape[0], t.shape[1], ' '.join(str(int(v)) for v in t.ravel()))


def _py_coor(fn, o, sy, sz, p, q):
    try:
        c = fn(np.array([p, q]), *o, sy, sz)
    except ValueError:
        return 'raise:ValueError'
    c = [float(v) for v in c]
    if any(v != round(v) for v in c):
        return 'nonintegral %r' % (c,)
    return 'ok %d %d' % (int(round(c[0])), int(round(c[1])))


def correspondence(ctx):
    from xfab import detector as D
    rng = ctx.rng
    lines, expect, meta = [], [], []
    m = 8 if ctx.thorough else 4
    shapes = [(a, b) for a in range(1, m + 1) for b in range(1, m + 1)]
    big = _large_shapes(rng, ctx.n(3, 12))
    # (i) images: all 81 matrices x directions x small shapes; large shapes for the valid ones + a sample of invalid
    for (nx, ny) in shapes + big:
        img = _img(rng, nx, ny)
        flat = ' '.join(str(int(v)) for v in img.ravel())
        mats = ALL81 if (nx, ny) in shapes else VALID + rng.sample(ALL81, 4)
        for o in mats:
            dirs = ['forward', 'inverse'] + (['backward'] if rng.random() < 0.1 else [])
            for d in dirs:
                for cmd, fn in (('trans', D.trans_orientation), ('flip', D.image_flipping)):
                    lines.append('%s %d %d %d %d %s %d %d %s' % (cmd, *o, d, nx, ny, flat))
                    expect.append(_py_img(fn, img, o, d))
                    meta.append({'fn': 'Flip.' + cmd, 'o': list(o), 'dir': d, 'shape': [nx, ny]})
    # integer coordinate maps: all 81 matrices, small and random sizes, in-range and out-of-range integer points
    ncoor = ctx.n(6, 60)
    for o in ALL81:
        for k in range(ncoor if o in VALID else 1):
            if k < 2:
                sy, sz = rng.randint(1, 8), rng.randint(1, 8)
            else:
                sy, sz = rng.randint(1, 4096), rng.randint(1, 4096)
            p, q = rng.randint(-3, max(sy, sz) + 3), rng.randint(-3, max(sy, sz) + 3)
            for cmd, fn in (('xy2d', D.xy_to_detyz), ('d2xy', D.detyz_to_xy)):
                lines.append('%s %d %d %d %d %d %d %d %d' % (cmd, *o, sy, sz, p, q))
                expect.append(_py_coor(fn, o, sy, sz, p, q))
                meta.append({'fn': 'Flip.' + cmd, 'o': list(o), 'sizes': [sy, sz], 'point': [p, q]})
    model = run_model_driver('FlipDriver.lean', lines)
    dis = []
    stats = {'flip_driver_lines': len(lines), 'raise': sum(1 for e in expect if e.startswith('raise'))}
    for mm, e, mt in zip(model, expect, meta):
        if mm != e:
            d = dict(mt)
            d.update({'model': mm[:200], 'impl': e[:200]})
            dis.append(d)
    # (ii) Float twins of the traced coordinate functions
    cases = []
    n = ctx.n(40, 2500)
    for o in VALID:
        nm = ONAME[o]
        for i in range(n):
            sy, sz = (rng.randint(1, 4096), rng.randint(1, 4096)) if i % 4 else (rng.randint(1, 5), rng.randint(1, 5))
            if i % 3 == 0:
                c = [float(rng.randint(0, sz - 1)), float(rng.randint(0, sy - 1))]
            else:
                c = [rng.uniform(-0.5, max(sy, sz) - 0.5), rng.uniform(-0.5, max(sy, sz) - 0.5)]
            for f, fn in (('xy_to_detyz', D.xy_to_detyz), ('detyz_to_xy', D.detyz_to_xy)):
                cases.append({'fn': 'Detector.%s_%s' % (f, nm), 'args': c + [float(sy), float(sz)],
                              'py': (lambda fn=fn, c=c, o=o, sy=sy, sz=sz: fn(np.array(c), *o, sy, sz)), 'rtol': 1e-12, 'atol': 1e-9})
    ne = ctx.n(300, 20000)
    for i in range(ne):
        yc, zc = rng.uniform(0, 4000), rng.uniform(0, 4000)
        eta = rng.choice([0.0, 90.0, 180.0, 270.0, 360.0]) if i % 10 == 0 else rng.uniform(0, 360)
        r = rng.uniform(0, 3) if i % 7 == 0 else rng.uniform(1, 3000)
        cases.append({'fn': 'Detector.eta_and_radpix_to_detyz', 'args': [eta, r, yc, zc],
                      'py': (lambda a=(eta, r, yc, zc): D.eta_and_radpix_to_detyz(*a)), 'rtol': 1e-12, 'atol': 1e-9})
        if i % 5 == 0:
            c = [yc + rng.choice([0.0, 0.0, 1.0, -2.0, 0.25]), zc + rng.choice([0.0, 3.0, -1.0, 0.5])]      # on the axes / inside radius 1
        else:
            c = [yc + rng.uniform(-1, 1) * r, zc + rng.uniform(-1, 1) * r]
        rr = math.hypot(c[0] - yc, c[1] - zc)
        if 0.999999 < rr < 1.000001 and rr != 1.0:
            continue                                   # the `radpix < 1` branch point: one ulp decides
        # eta is computed through arccos: near 0/180/360 a last-bit difference of cos_eta is amplified; compare with that bound
        s = abs(c[0] - yc) / rr if rr > 0 else 1.0
        tol = 1e-9 + math.degrees(min(8 * EPS / max(s, 1e-300), 2 * math.sqrt(16 * EPS)))
        cases.append({'fn': 'Detector.detyz_to_eta_and_radpix', 'args': c + [yc, zc],
                      'py': (lambda c=c, yc=yc, zc=zc: D.detyz_to_eta_and_radpix(np.array(c), yc, zc)), 'rtol': 1e-12, 'atol': tol})
    nc, d2, st2 = floatcorr.compare(cases)
    dis += d2
    stats.update(st2)
    return {'cases': len(lines) + nc, 'disagreements': dis, 'stats': stats,
            'samples': [{'fn': meta[0]['fn'], 'line': lines[0][:120], 'answer': model[0][:120]}, {'fn': cases[0]['fn'], 'args': cases[0]['args']}],
            'distinct_nontrivial': len(lines) + nc}


# ------------------------------------------------------------------------------------------------
# oracle on the real code

def check_shape(o, img, pixels=None):
    """all clauses of C11 that involve an image, for one valid orientation and one raw image img[x, y]"""
    from xfab import detector as D
    nx, ny = img.shape
    out = []

    def bad(fn, what, observed, expected, pixel=None):
        out.append({'fn': fn, 'what': what, 'o': list(o), 'shape': [nx, ny], 'img': img.tolist() if nx * ny <= 64 else None,
                    'pixel': pixel, 'observed': observed, 'expected': expected, 'known_id': None})

    for name, fn in (('trans_orientation', D.trans_orientation), ('image_flipping', D.image_flipping)):
        for first, second in (('forward', 'inverse'), ('inverse', 'forward')):
            try:
                t = fn(img, *o, first)
                back = fn(t, *o, second)
            except Exception as e:
                bad('detector.' + name, '%s then %s' % (first, second), repr(e)[:200], 'the original image')
                continue
            back = np.asarray(back)
            if back.shape != img.shape or not np.array_equal(back, img):
                bad('detector.' + name, '%s then %s' % (first, second), {'shape': list(back.shape), 'values': back.tolist() if back.size <= 64 else None},
                    'the original image (exact array equality)')
            if np.asarray(t).size != img.size:
                bad('detector.' + name, first, list(np.asarray(t).shape), 'an array with the same number of pixels')
    try:
        T = np.asarray(D.trans_orientation(img, *o, 'forward'))
    except Exception as e:
        bad('detector.trans_orientation', 'forward', repr(e)[:200], 'an image')
        return out
    if pixels is None:
        pixels = [(x, y) for x in range(nx) for y in range(ny)]
    tol = 1e-9 * max(1, nx, ny)
    for (x, y) in pixels:
        try:
            c = np.asarray(D.xy_to_detyz(np.array([x, y]), *o, ny, nx), float)      # dety_size = img.shape[1], detz_size = img.shape[0]
            c2 = np.asarray(D.detyz_to_xy(c, *o, ny, nx), float)
            e = np.asarray(D.detyz_to_xy(np.array([x, y]), *o, ny, nx), float)
            e2 = np.asarray(D.xy_to_detyz(e, *o, ny, nx), float)
        except Exception as ex:
            bad('detector.xy_to_detyz', 'call', repr(ex)[:200], 'coordinates', [x, y])
            continue
        if c.shape != (2,) or np.abs(c2 - [x, y]).max() > tol:
            bad('detector.detyz_to_xy(xy_to_detyz)', 'round trip', c2.tolist(), [x, y], [x, y])
        if e.shape != (2,) or np.abs(e2 - [x, y]).max() > tol:
            bad('detector.xy_to_detyz(detyz_to_xy)', 'round trip', e2.tolist(), [x, y], [x, y])
        i, j = int(round(c[0])), int(round(c[1]))
        if abs(c[0] - i) > tol or abs(c[1] - j) > tol or not (0 <= i < T.shape[0] and 0 <= j < T.shape[1]):
            bad('detector.xy_to_detyz', 'pixel map: index inside trans_orientation(img)', c.tolist(),
                'integers in [0,%d) x [0,%d)' % (T.shape[0], T.shape[1]), [x, y])
        elif T[i, j] != img[x, y]:
            bad('detector.xy_to_detyz', 'pixel map: trans_orientation(img)[xy_to_detyz(x,y)] == img[x,y]', int(T[i, j]), int(img[x, y]), [x, y])
        if len(out) > 5:
            break
    return out


def check_reject(o):
    from xfab import detector as D
    out = []
    img = np.arange(6).reshape(2, 3)
    calls = [('trans_orientation forward', lambda: D.trans_orientation(img, *o)), ('trans_orientation inverse', lambda: D.trans_orientation(img, *o, 'inverse')),
             ('image_flipping forward', lambda: D.image_flipping(img, *o)), ('image_flipping inverse', lambda: D.image_flipping(img, *o, 'inverse')),
             ('xy_to_detyz', lambda: D.xy_to_detyz(np.array([1, 2]), *o, 3, 2)), ('detyz_to_xy', lambda: D.detyz_to_xy(np.array([1, 1]), *o, 3, 2))]
    for name, f in calls:
        try:
            r = f()
            obs = 'returned %r' % (np.asarray(r).tolist(),)
        except ValueError:
            continue
        except Exception as e:
            obs = 'raised ' + type(e).__name__
        out.append({'fn': 'detector.' + name.split()[0], 'what': 'rejection of a matrix that is not one of the eight orientations (' + name + ')',
                    'o': list(o), 'observed': obs, 'expected': 'ValueError', 'known_id': None})
    return out


def check_real(o, sy, sz, c):
    from xfab import detector as D
    out = []
    tol = 1e-9 * max(1, sy, sz)
    c = np.array(c, float)
    for a, b, nm in ((D.xy_to_detyz, D.detyz_to_xy, 'detyz_to_xy(xy_to_detyz)'), (D.detyz_to_xy, D.xy_to_detyz, 'xy_to_detyz(detyz_to_xy)')):
        try:
            r = np.asarray(b(a(c, *o, sy, sz), *o, sy, sz), float)
        except Exception as e:
            r = None
            obs = repr(e)[:200]
        if r is None or r.shape != (2,) or not np.all(np.abs(r - c) <= tol):
            out.append({'fn': 'detector.' + nm, 'what': 'round trip on real coordinates', 'o': list(o), 'sizes': [sy, sz], 'coor': c.tolist(),
                        'observed': obs if r is None else r.tolist(), 'expected': c.tolist(), 'known_id': None})
    return out


def _arccos_slack(s, scale, r):
    """bound (radians) of the error of arccos(cos_eta) when cos_eta carries a relative error D; s = |sin eta|"""
    Dl = 8 * EPS * (1 + scale / r)
    return min(2 * Dl / max(s, 1e-300), 2 * math.sqrt(2 * Dl))


def check_eta(eta, r, yc, zc):
    """eta, r -> detyz -> eta, r   and   detyz -> eta, r -> detyz (for the point reached)"""
    from xfab import detector as D
    out = []
    scale = max(1.0, abs(yc), abs(zc), r)
    slack = _arccos_slack(abs(math.sin(math.radians(eta))), scale, r)

    def bad(what, obs, exp):
        out.append({'fn': 'detector.' + what, 'what': what, 'eta': eta, 'radpix': r, 'center': [yc, zc], 'observed': obs, 'expected': exp, 'known_id': None})
    try:
        c = np.asarray(D.eta_and_radpix_to_detyz(eta, r, yc, zc), float)
        e2, r2 = (float(v) for v in D.detyz_to_eta_and_radpix(c, yc, zc))
        c3 = np.asarray(D.eta_and_radpix_to_detyz(e2, r2, yc, zc), float)
    except Exception as e:
        bad('eta_and_radpix_to_detyz', repr(e)[:200], 'values')
        return out
    # independent statement of the geometry: eta clockwise from 12 o'clock, i.e. (dety, detz) = centre + r (-sin eta, cos eta)
    exp_c = np.array([yc - r * math.sin(math.radians(eta)), zc + r * math.cos(math.radians(eta))])
    if not np.all(np.abs(c - exp_c) <= 1e-9 * scale):
        bad('eta_and_radpix_to_detyz', c.tolist(), exp_c.tolist())
    de = abs(e2 - eta) % 360.0
    de = min(de, 360.0 - de)                         # 0 and 360 identified
    if r2 < 1.0 and r <= 1.0 + 1e-9:
        # radius exactly 1: the detector point computed in floating point may lie a few ulp INSIDE the unit circle, where the
        # code's `radpix < 1` branch applies by design; that point is outside the quantifier (radius >= 1), only r is compared
        if not abs(r2 - r) <= 1e-9:
            bad('detyz_to_eta_and_radpix(eta_and_radpix_to_detyz)', [e2, r2], [eta, r])
        return out
    if not (0.0 <= e2 <= 360.0) or not (de <= 1e-9 + math.degrees(slack)) or not abs(r2 - r) <= 1e-9 * max(1.0, r):
        bad('detyz_to_eta_and_radpix(eta_and_radpix_to_detyz)', [e2, r2], [eta, r])
    if not np.all(np.abs(c3 - c) <= 1e-9 * scale + r * slack):
        bad('eta_and_radpix_to_detyz(detyz_to_eta_and_radpix)', c3.tolist(), c.tolist())
    return out


def check_detyz(c, yc, zc):
    """detyz -> eta, r -> detyz for an arbitrary detector point at radius >= 1"""
    from xfab import detector as D
    out = []
    c = np.array(c, float)
    dy, dz = c[0] - yc, c[1] - zc
    r = math.hypot(dy, dz)
    if r < 1.0 + 1e-9:
        return out
    scale = max(1.0, abs(yc), abs(zc), r)
    slack = _arccos_slack(abs(dy) / r, scale, r)
    try:
        e, rr = (float(v) for v in D.detyz_to_eta_and_radpix(c, yc, zc))
        c2 = np.asarray(D.eta_and_radpix_to_detyz(e, rr, yc, zc), float)
    except Exception as ex:
        return [{'fn': 'detector.detyz_to_eta_and_radpix', 'coor': c.tolist(), 'center': [yc, zc], 'observed': repr(ex)[:200], 'expected': 'values',
                 'known_id': None}]
    if not (0.0 <= e <= 360.0) or abs(rr - r) > 1e-9 * max(1.0, r) or not np.all(np.abs(c2 - c) <= 1e-9 * scale + r * slack):
        out.append({'fn': 'detector.eta_and_radpix_to_detyz(detyz_to_eta_and_radpix)', 'coor': c.tolist(), 'center': [yc, zc],
                    'observed': {'eta_radpix': [e, rr], 'back': c2.tolist()}, 'expected': {'radpix': r, 'back': c.tolist()}, 'known_id': None})
    return out


def oracle(ctx, hints=()):
    rng = ctx.rng
    viol, ev, nontriv = [], 0, 0
    stats = {}
    # the 73 other matrices
    for o in ALL81:
        if o not in VALID:
            viol += check_reject(o)
            ev += 6
    stats['rejected_matrices'] = len(ALL81) - len(VALID)
    # every shape 1..8 x 1..8, every pixel, all 8 orientations
    npix = 0
    for nx in range(1, 9):
        for ny in range(1, 9):
            img = _img(rng, nx, ny)
            for o in VALID:
                viol += check_shape(o, img)
                npix += nx * ny
                nontriv += nx * ny if (nx * ny > 1 and o != (0, 1, 1, 0)) else 0
    # large non-square shapes: corners, edges and random pixels
    for k in range(ctx.n(10, 150, boost=60)):
        nx, ny = rng.randint(9, 400), rng.randint(9, 400)
        if nx == ny:
            ny += 1
        img = _img(rng, nx, ny)
        px = [(0, 0), (nx - 1, 0), (0, ny - 1), (nx - 1, ny - 1)] + [(rng.randrange(nx), rng.randrange(ny)) for _ in range(20)]
        for o in VALID:
            viol += check_shape(o, img, px)
            npix += len(px)
            nontriv += len(px)
    # detector-sized frames (several Mpixel, wide and tall): what a tiled / blocked implementation treats differently from a toy image
    for nx, ny in ((1600 + rng.randint(0, 9), 2800 + rng.randint(0, 9)), (2527, 2463), (2881 + rng.randint(0, 9), 1475)):
        img = _img(rng, nx, ny)
        px = [(0, 0), (nx - 1, 0), (0, ny - 1), (nx - 1, ny - 1)] + [(rng.randrange(nx), rng.randrange(ny)) for _ in range(40)] \
            + [(nx - 1 - rng.randrange(64), ny - 1 - rng.randrange(64)) for _ in range(20)]
        for o in VALID:
            viol += check_shape(o, img, px)
            npix += len(px)
            nontriv += len(px)
    stats['detector_sized_frames'] = 3
    ev += npix * 5
    stats['pixels'] = npix
    # real coordinates inside the detector
    nreal = ctx.n(1500, 60000, boost=20000)
    for i in range(nreal):
        o = VALID[i % 8]
        sy, sz = rng.randint(1, 4096), rng.randint(1, 4096)
        c = [rng.uniform(-0.5, sz - 0.5), rng.uniform(-0.5, sy - 0.5)] if i % 2 else [rng.uniform(-0.5, sy - 0.5), rng.uniform(-0.5, sz - 0.5)]
        viol += check_real(o, sy, sz, c)
    ev += 2 * nreal
    nontriv += nreal
    # eta / radius
    neta = ctx.n(3000, 150000, boost=40000)
    specials = [0.0, 90.0, 180.0, 270.0, 360.0]
    for i in range(neta):
        yc, zc = rng.uniform(0, 4000), rng.uniform(0, 4000)
        if i % 10 == 0:
            eta = rng.choice(specials)
        elif i % 10 == 1:
            eta = min(360.0, max(0.0, rng.choice(specials) + rng.choice([-1, 1]) * 10 ** rng.uniform(-12, -1)))
        else:
            eta = rng.uniform(0, 360)
        r = 1.0 if i % 50 == 0 else 10 ** rng.uniform(0, math.log10(3000))
        viol += check_eta(eta, r, yc, zc)
        if i % 3 == 0:
            if i % 6 == 0:
                c = [float(rng.randint(0, 4000)), float(rng.randint(0, 4000))]
                yc, zc = round(yc * 2) / 2.0, round(zc * 2) / 2.0                 # pixel grid, (half-)integer centre
                if i % 12 == 0:                                                   # exactly on one of the axes through the centre
                    if rng.random() < 0.5:
                        c[0] = yc
                    else:
                        c[1] = zc
            else:
                c = [rng.uniform(0, 4000), rng.uniform(0, 4000)]
            viol += check_detyz(c, yc, zc)
            ev += 1
        if len(viol) > 30:
            break
    ev += 3 * neta
    nontriv += neta
    stats['eta_cases'] = neta
    stats['real_coordinate_cases'] = nreal
    return {'evaluations': ev, 'distinct_nontrivial': nontriv, 'violations': viol[:40], 'exhaustive': False,
            'samples': [{'orientation': [-1, 0, 0, 1], 'shape': [2, 3], 'pixel': [1, 2]}], 'stats': stats}


def replay(payload):
    v = payload.get('violation')
    if not v:
        print('replay: broken obligation, no input stored:', payload.get('broken'))
        return 1
    if 'eta' in v:
        res = check_eta(v['eta'], v['radpix'], *v['center'])
    elif 'coor' in v and 'center' in v:
        res = check_detyz(v['coor'], *v['center'])
    elif 'coor' in v:
        res = check_real(tuple(v['o']), v['sizes'][0], v['sizes'][1], v['coor'])
    elif 'shape' in v:
        nx, ny = v['shape']
        img = np.array(v['img']) if v.get('img') else np.arange(nx * ny).reshape(nx, ny)
        res = check_shape(tuple(v['o']), img, [tuple(v['pixel'])] if v.get('pixel') else None)
    else:
        res = check_reject(tuple(v['o']))
    print('replay C11 %s %s ->' % (v['fn'], {k: v[k] for k in ('o', 'shape', 'pixel', 'eta', 'radpix', 'center', 'coor', 'sizes') if k in v}),
          'VIOLATION' if res else 'holds')
    if res:
        print('  observed:', res[0]['observed'])
        print('  expected:', res[0]['expected'])
    return 1 if res else 0
