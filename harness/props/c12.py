"""C12 — symmetry operators of the seven crystal systems: permutations()/rotations() are groups of order 1,2,4,8,6,12,24
(integer unimodular resp. proper rotations), paired by rot[i].B.perm[i] = B, ROTATIONS == rotations(); Umis returns
rotation angles whose multiset is invariant under symmetry-equivalent replacements, common rotations and swapping."""
import math
import numpy as np
import gens
import check

GEN = ['numeric', 'symmetry']
LEAN_MODULES = ['XfabVerif.Proofs.C12']
# definitions the hand-written model mirrors (see harness/pins.py): a source change breaks the tie
PINS = ['xfab/symmetry.py:Umis']
LEAN_DRIVER_MODULES = ['XfabVerif.Gen.Symmetry', 'XfabVerif.FloatPrelude']
AUDIT_FILES = ['XfabVerif/Model/Symm.lean', 'XfabVerif/Gen/Symmetry.lean']
RULE = ("all 7 crystal systems exhaustively (all pairs of operators for the group axioms); orientation pairs from the seeded "
        "generator gens.rotation (uniform, signed permutations, angle-0 / angle-180 and near-degenerate products); conforming cells "
        "from gens.conforming_cell; a Umis case is non-trivial when the system has more than one operator; "
        "distinct = distinct (system, U1, U2) resp. (system, cell)")
ASSUMPTIONS = ["rotations(5), rotations(6) are computed by the source in floating point (B.perm^-1.B^-1); the exporter recognises every "
               "entry as (a + b*sqrt3)/2 within 1e-12 and the theorems are about these exact values: rounding is not modelled",
               "the input guard _check_rotation_matrix of Umis (tolerance based, active when CHECKS.activated) is not part of the model: "
               "the theorems hold for all real matrices unless IsRot is stated",
               "trigonal system (5): conforming cell = hexagonal axes (a=b, alpha=beta=90, gamma=120)"]
TRUSTED_EXTRA = ["exporter harness/gen_symmetry.py (tables of xfab/symmetry.py -> exact Lean data over Z[sqrt3]/den): unverified, validated on every "
                 "run by printing the compiled Lean constants with lean/SymmDriver.lean and comparing them to the implementation (1e-12)",
                 "lean/SymmDriver.lean Float evaluation of the model's Umis formula over the exported table (compared to symmetry.Umis)"]

ORDERS = {1: 1, 2: 2, 3: 4, 4: 8, 5: 6, 6: 12, 7: 24}
NAMES = {1: 'triclinic', 2: 'monoclinic', 3: 'orthorhombic', 4: 'tetragonal', 5: 'trigonal', 6: 'hexagonal', 7: 'cubic'}
SQRT3 = math.sqrt(3.0)
DELTA = 2e-14          # bound on the rounding error of the cosine `lengths` (9 products of entries <= 1, operators exact to 5e-16)


def _sym():
    import xfab
    from xfab import symmetry
    xfab.CHECKS.activated = True
    return symmetry


def ang_tol(theta_deg, delta=DELTA):
    """honest tolerance (degrees) on an angle obtained as arccos(c) when c carries an absolute error delta:
    delta/sin(theta) away from 0/180, never more than sqrt(2 delta) (the endpoints)"""
    s = abs(math.sin(math.radians(theta_deg)))
    return 1e-9 + math.degrees(min(delta / max(s, 1e-300), math.sqrt(2 * delta)))


# ------------------------------------------------------------------------------------------------
# correspondence: compiled Lean constants / Float model of Umis  vs  implementation

def _parse_table(ans, pairs):
    """driver answer -> (den, array (n,3,3)) re-evaluated in floating point"""
    parts = ans.split()
    if parts[0] != 'ok':
        return None
    nums = [int(x) for x in parts[1:]]
    if pairs:
        den, n, rest = nums[0], nums[1], nums[2:]
        if len(rest) != 18 * n:
            return None
        vals = [(rest[2 * i] + rest[2 * i + 1] * SQRT3) / den for i in range(9 * n)]
    else:
        den, n, rest = 1, nums[0], nums[1:]
        if len(rest) != 9 * n:
            return None
        vals = [float(x) for x in rest]
    return den, np.array(vals).reshape(n, 3, 3)


def correspondence(ctx):
    symmetry = _sym()
    dis, cases, samples = [], 0, []
    stats = {'tables': 0, 'umis_rows': 0, 'max_table_diff': 0.0, 'max_umis_diff_deg': 0.0}
    # 1. the exported constants, as compiled into the Lean model
    reqs = []
    for s in range(0, 9):
        reqs += ['perm %d' % s, 'rot %d' % s, 'cached %d' % s]
    ans = check.run_model_driver('SymmDriver.lean', reqs)
    for req, a in zip(reqs, ans):
        kind, s = req.split()
        s = int(s)
        cases += 1
        if kind in ('perm', 'rot'):
            try:
                py = (symmetry.permutations if kind == 'perm' else symmetry.rotations)(s)
                pyr = 'ok'
            except ValueError:
                py, pyr = None, 'raise:ValueError'
        else:
            py = symmetry.ROTATIONS[s] if 1 <= s <= 7 and s < len(symmetry.ROTATIONS) else None
            pyr = 'ok' if py is not None else 'bad'
        if pyr != 'ok' or not a.startswith('ok'):
            if a.split()[0] != pyr:
                dis.append({'fn': 'symmetry.%s' % kind, 'crystal_system': s, 'model': a[:60], 'implementation': pyr})
            continue
        tab = _parse_table(a, kind != 'perm')
        py = np.asarray(py, float)
        if tab is None or tab[1].shape != py.shape:
            dis.append({'fn': 'symmetry.%s' % kind, 'crystal_system': s, 'model': a[:60], 'implementation': 'array of shape %r' % (py.shape,)})
            continue
        d = float(np.abs(tab[1] - py).max())
        stats['tables'] += 1
        stats['max_table_diff'] = max(stats['max_table_diff'], d)
        if not d <= 1e-12:
            k = int(np.argmax(np.abs(tab[1] - py).reshape(len(py), -1).max(axis=1)))
            dis.append({'fn': 'symmetry.%s' % kind, 'crystal_system': s, 'operator': k, 'model': tab[1][k].tolist(),
                        'implementation': py[k].tolist(), 'maxdiff': d})
    # 2. Float evaluation of the model's Umis formula vs symmetry.Umis
    n = ctx.n(12, 400)
    reqs, inputs = [], []
    for s in range(1, 8):
        for _ in range(n):
            U1, k1 = gens.rotation(ctx.rng)
            U2, k2 = gens.rotation(ctx.rng)
            reqs.append('umis %d ' % s + ' '.join(check.f2b(x) for x in list(U1.ravel()) + list(U2.ravel())))
            inputs.append((s, U1, U2))
    ans = check.run_model_driver('SymmDriver.lean', reqs)
    for (s, U1, U2), a in zip(inputs, ans):
        cases += 1
        res = symmetry.Umis(U1, U2, s)
        parts = a.split()
        base = {'fn': 'symmetry.Umis', 'crystal_system': s, 'U1': U1.tolist(), 'U2': U2.tolist()}
        if parts[0] != 'ok' or len(parts) - 1 != len(res) or res.shape != (ORDERS[s], 2):
            dis.append(dict(base, model=a[:60], implementation='array of shape %r' % (res.shape,)))
            continue
        mod = np.array([check.b2f(x) for x in parts[1:]])
        stats['umis_rows'] += len(mod)
        if not np.array_equal(res[:, 0], np.arange(len(mod))):
            dis.append(dict(base, model='first column 0..n-1', implementation=res[:, 0].tolist()))
            continue
        for k in range(len(mod)):
            d = abs(mod[k] - res[k, 1])
            stats['max_umis_diff_deg'] = max(stats['max_umis_diff_deg'], float(d))
            if not d <= ang_tol(mod[k]):
                dis.append(dict(base, operator=k, model=float(mod[k]), implementation=float(res[k, 1]), tol=ang_tol(mod[k])))
                break
    samples.append({'fn': 'symmetry.Umis', 'crystal_system': inputs[0][0], 'U1': inputs[0][1].tolist(), 'U2': inputs[0][2].tolist()})
    return {'cases': cases, 'disagreements': dis, 'stats': stats, 'samples': samples, 'distinct_nontrivial': len(inputs)}


# ------------------------------------------------------------------------------------------------
# oracle on the real code

def _viol(what, s, observed, expected, **inp):
    d = {'fn': 'symmetry.' + what.split(':')[0], 'what': what, 'crystal_system': s, 'observed': observed, 'expected': expected,
         'known_id': None}
    d.update(inp)
    return d


def _member(M, G, tol=1e-9):
    return int(np.argmin(np.abs(G - M).reshape(len(G), -1).max(axis=1))) if np.abs(G - M).reshape(len(G), -1).max(axis=1).min() <= tol else None


def _group_axioms(what, s, G):
    out = []
    n = len(G)
    if _member(np.eye(3), G) is None:
        out.append(_viol(what + ':identity', s, 'identity matrix not in the list', 'identity is a member'))
    for i in range(n):
        for j in range(i + 1, n):
            if np.abs(G[i] - G[j]).max() <= 1e-6:
                out.append(_viol(what + ':distinct', s, 'operators %d and %d coincide' % (i, j), 'n distinct operators', i=i, j=j))
    for i in range(n):
        try:
            inv = np.linalg.inv(G[i])
        except np.linalg.LinAlgError:
            out.append(_viol(what + ':inverse', s, 'operator %d is singular' % i, 'invertible', i=i))
            continue
        if _member(inv, G) is None:
            out.append(_viol(what + ':inverse', s, inv.tolist(), 'inverse of operator %d is a member' % i, i=i))
        for j in range(n):
            if _member(G[i] @ G[j], G) is None:
                out.append(_viol(what + ':closure', s, (G[i] @ G[j]).tolist(), 'product of operators %d and %d is a member' % (i, j), i=i, j=j))
    return out


def check_tables(s):
    """group axioms, order, integrality / unimodularity, properness, cache — exhaustive for one crystal system"""
    symmetry = _sym()
    out = []
    P = np.asarray(symmetry.permutations(s), float)
    R = np.asarray(symmetry.rotations(s), float)
    C = symmetry.ROTATIONS[s]
    for what, G in (('permutations', P), ('rotations', R)):
        if G.shape != (ORDERS[s], 3, 3):
            out.append(_viol(what + ':order', s, list(G.shape), [ORDERS[s], 3, 3]))
            return out
        out += _group_axioms(what, s, G)
    for i in range(len(P)):
        if not np.array_equal(P[i], np.round(P[i])):
            out.append(_viol('permutations:integer', s, P[i].tolist(), 'integer entries', i=i))
        if not abs(abs(np.linalg.det(P[i])) - 1) <= 1e-9:
            out.append(_viol('permutations:unimodular', s, float(np.linalg.det(P[i])), '+-1', i=i))
        if not (np.abs(R[i].T @ R[i] - np.eye(3)).max() <= 1e-9 and abs(np.linalg.det(R[i]) - 1) <= 1e-9):
            out.append(_viol('rotations:proper', s, {'RtR': (R[i].T @ R[i]).tolist(), 'det': float(np.linalg.det(R[i]))},
                             'RtR = 1, det = 1', i=i))
    C = None if C is None else np.asarray(C, float)
    if C is None or C.shape != R.shape or not np.abs(C - R).max() <= 1e-12:
        out.append(_viol('ROTATIONS:equals rotations()', s, None if C is None else C.tolist(), R.tolist()))
    return out


def check_pairing(s, cell):
    symmetry = _sym()
    from xfab import tools
    P = symmetry.permutations(s)
    R = symmetry.rotations(s)
    B = tools.form_b_mat(cell)
    out = []
    if len(P) != len(R):
        return [_viol('rotations:pairing', s, [len(R), len(P)], 'equal lengths', cell=list(cell))]
    for i in range(len(P)):
        d = np.abs(R[i] @ B @ P[i] - B).max()
        if not d <= 1e-9 * np.abs(B).max():
            out.append(_viol('rotations:pairing rot[i].B.perm[i] = B', s, (R[i] @ B @ P[i]).tolist(), B.tolist(), cell=list(cell), i=i))
    return out


def true_angle(M):
    """rotation angle (deg) of a proper rotation, well conditioned everywhere: atan2(|axial vector|, tr - 1)"""
    v = np.array([M[2, 1] - M[1, 2], M[0, 2] - M[2, 0], M[1, 0] - M[0, 1]])
    return math.degrees(math.atan2(float(np.linalg.norm(v)), float(np.trace(M) - 1.0)))


def _same_multiset(a, b):
    a, b = np.sort(a), np.sort(b)
    return len(a) == len(b) and all(abs(x - y) <= 2 * max(ang_tol(x), ang_tol(y)) for x, y in zip(a, b))


def check_umis(s, U1, U2, Q, js):
    """all Umis clauses for one pair of orientations; js = operator indices used for the symmetry-equivalent replacements"""
    symmetry = _sym()
    U1, U2, Q = np.asarray(U1, float), np.asarray(U2, float), np.asarray(Q, float)
    R = np.asarray(symmetry.rotations(s), float)
    inp = {'U1': U1.tolist(), 'U2': U2.tolist(), 'Q': Q.tolist()}
    out = []
    res = symmetry.Umis(U1, U2, s)
    if res.shape != (ORDERS[s], 2) or not np.array_equal(res[:, 0], np.arange(ORDERS[s])):
        return [_viol('Umis:rows (k, angle_k), k = 0..n-1', s, res.tolist(), 'shape (%d,2), first column 0..%d' % (ORDERS[s], ORDERS[s] - 1), **inp)]
    ang = res[:, 1]
    for k in range(len(R)):
        t = true_angle(U1.T @ U2 @ R[k].T)
        if not (0.0 <= ang[k] <= 180.0) or not abs(ang[k] - t) <= ang_tol(t):
            out.append(_viol('Umis:angle_k = rotation angle of U1t.U2.rot[k]t in [0,180]', s, float(ang[k]), t, k=k, **inp))
            break
    for j in js:
        a = symmetry.Umis(U1, U2 @ R[j], s)[:, 1]
        if not _same_multiset(a, ang):
            out.append(_viol('Umis:multiset invariant under U2 -> U2.rot[j]', s, np.sort(a).tolist(), np.sort(ang).tolist(), j=int(j), **inp))
            break
    for j in js:
        a = symmetry.Umis(U1 @ R[j], U2, s)[:, 1]
        if not _same_multiset(a, ang):
            out.append(_viol('Umis:multiset invariant under U1 -> U1.rot[j]', s, np.sort(a).tolist(), np.sort(ang).tolist(), j=int(j), **inp))
            break
    a = symmetry.Umis(Q @ U1, Q @ U2, s)[:, 1]
    if not _same_multiset(a, ang):
        out.append(_viol('Umis:multiset invariant under a common rotation', s, np.sort(a).tolist(), np.sort(ang).tolist(), **inp))
    a = symmetry.Umis(U2, U1, s)[:, 1]
    if not _same_multiset(a, ang):
        out.append(_viol('Umis:multiset invariant under swapping', s, np.sort(a).tolist(), np.sort(ang).tolist(), **inp))
    a = symmetry.Umis(U1, U1, s)[:, 1]
    if not a.min() <= ang_tol(0.0):
        out.append(_viol('Umis:Umis(U,U) contains 0', s, float(a.min()), 0.0, **inp))
    return out


def oracle(ctx, hints=()):
    import xfab
    viol, evals, nontriv = [], 0, 0
    kinds = {}
    seen = set()
    sample = None
    # orientations in other precisions first (float32 from a detector pipeline, float16, exact integer matrices): whatever Umis does
    # with them, the cached operator tables must afterwards still be what rotations() computes (checked by check_tables below)
    from xfab import symmetry
    for s in range(1, 8):
        for dt in (np.float32, np.float16, np.int64):
            try:
                I = np.eye(3).astype(dt)
                R90 = np.array([[0, -1, 0], [1, 0, 0], [0, 0, 1]]).astype(dt)
                with np.errstate(all='ignore'):
                    symmetry.Umis(I, R90, s)
                    symmetry.Umis(R90, I, s)
            except Exception:
                pass
            evals += 2
    for s in range(1, 8):
        viol += check_tables(s)
        evals += 2 * ORDERS[s] ** 2
    ncell = ctx.n(10, 400, boost=200)
    for s in range(1, 8):
        for _ in range(ncell):
            cell = gens.conforming_cell(ctx.rng, NAMES[s])
            viol += check_pairing(s, cell)
            evals += 1
            key = (s,) + tuple(round(x, 9) for x in cell)
            if key not in seen:
                seen.add(key)
                nontriv += 1
    npair = ctx.n(25, 1500, boost=400)
    for s in range(1, 8):
        for _ in range(npair):
            U1, k1 = gens.rotation(ctx.rng)
            U2, k2 = gens.rotation(ctx.rng)
            Q, _ = gens.rotation(ctx.rng)
            kinds[k1] = kinds.get(k1, 0) + 1
            n = ORDERS[s]
            js = list(range(n)) if (ctx.thorough or n <= 4) else sorted(ctx.rng.sample(range(n), 4))
            viol += check_umis(s, U1, U2, Q, js)
            evals += 1
            if s > 1:
                nontriv += 1
            sample = sample or {'crystal_system': s, 'U1': U1.tolist(), 'U2': U2.tolist()}
            if len(viol) > 20:
                break
        if len(viol) > 20:
            break
    if not xfab.CHECKS.activated:
        raise check.Infra('xfab.CHECKS.activated was switched off during the search')
    return {'evaluations': evals, 'distinct_nontrivial': nontriv, 'violations': viol, 'samples': [sample], 'exhaustive': False,
            'stats': {'generator_kinds': kinds, 'systems': 7, 'cells_per_system': ncell, 'orientation_pairs_per_system': npair,
                      'group_axioms': 'exhaustive (all pairs of operators of all 7 systems)'}}


def replay(payload):
    v = payload.get('violation')
    if not v:
        print('replay: broken obligation, no input stored:', payload.get('broken'))
        return 1
    s = v['crystal_system']
    what = v.get('what', '')
    if 'pairing' in what and 'cell' in v:
        res = check_pairing(s, v['cell'])
    elif what.startswith('Umis') and 'U1' in v:
        res = check_umis(s, v['U1'], v['U2'], v.get('Q', np.eye(3)), list(range(ORDERS.get(s, 1))))
    else:
        res = check_tables(s)
    print('replay C12 crystal_system=%s %s -> %s' % (s, what, 'VIOLATION' if res else 'holds'))
    for r in res[:1]:
        print('  observed:', r['observed'])
        print('  expected:', r['expected'])
    return 1 if res else 0
