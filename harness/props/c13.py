"""C13 — strain and strained B matrix are exact inverses; UBI yields back U and strain."""
import math
import numpy as np
import gens, floatcorr

GEN = ['numeric']
LEAN_MODULES = ['XfabVerif.Proofs.C13', 'XfabVerif.Proofs.C13Full']
LEAN_DRIVER_MODULES = ['XfabVerif.Gen.FloatDispatch']
RULE = ("cells from gens.cell (orthogonal … strongly oblique, Gram factor >= 0.02), strain components uniform in [-0.1,0.1] (every 8th case zero strain), "
        "rotations from gens.rotation; non-trivial = non-orthogonal cell and non-zero strain; distinct = distinct (cell, strain, U) tuples")
ASSUMPTIONS = ["theorems are over the reals; Float twin / oracle tolerances 1e-9 relative (LAPACK inverse vs exact inverse)",
               "the _old pair's round trip is proved from named C01 facts (a_to_cell∘form_a_mat = id etc.), discharged in Proofs/C01"]

KNOWN_TOOLS = 'C13-TOOLS-UBI'


def _mods():
    from xfab import tools, laue
    return (('Tools', tools, 2 * math.pi), ('Laue', laue, 1.0))


def draw(rng, i=1):
    c, kind = gens.cell(rng, scaled=True)
    if i % 8 == 0:
        eps = [0.0] * 6
    elif i % 8 in (1, 5):
        # small strains, log-uniform magnitude 1e-9 .. 1e-3 (thermal expansion, elastic strain): a shortcut that treats "nearly
        # unstrained" as unstrained (allclose with its default rtol = 1e-5) is invisible to a uniform draw from [-0.1, 0.1]
        sc = 10.0 ** rng.uniform(-9, -3)
        eps = [rng.uniform(-1, 1) * sc for _ in range(6)]
    elif i % 8 == 3:
        # only some components non-zero (uniaxial / pure shear)
        eps = [rng.uniform(-0.1, 0.1) if rng.random() < 0.4 else 0.0 for _ in range(6)]
    else:
        eps = [rng.uniform(-0.1, 0.1) for _ in range(6)]
    U, uk = gens.rotation(rng, 'uniform' if i % 3 else None)
    return c, kind, eps, U


def correspondence(ctx):
    cases = []
    for i in range(ctx.n(40, 2500)):
        c, kind, eps, U = draw(ctx.rng, i)
        for mn, m, k in _mods():
            B = m.epsilon_to_b(eps, c)
            # absolute tolerances are relative to the size of B (off-diagonal entries of B arise by cancellation between entries of that size)
            sB = float(np.abs(B).max())
            cases.append({'fn': '%s.epsilon_to_b' % mn, 'args': eps + c, 'py': (lambda m=m, eps=eps, c=c: m.epsilon_to_b(eps, c)), 'rtol': 1e-9, 'atol': 1e-12, 'scale': sB})
            cases.append({'fn': '%s.b_to_epsilon' % mn, 'args': list(B.ravel()) + c, 'py': (lambda m=m, B=B, c=c: m.b_to_epsilon(B, c)), 'rtol': 1e-8, 'atol': 1e-11})
            cases.append({'fn': '%s.epsilon_to_b_old' % mn, 'args': eps + c, 'py': (lambda m=m, eps=eps, c=c: m.epsilon_to_b_old(eps, c)), 'rtol': 1e-8, 'atol': 1e-11, 'scale': sB})
            cases.append({'fn': '%s.b_to_epsilon_old' % mn, 'args': list(B.ravel()) + c, 'py': (lambda m=m, B=B, c=c: m.b_to_epsilon_old(B, c)), 'rtol': 1e-7, 'atol': 1e-10})
            ubi = np.linalg.inv(U @ B) * k
            cases.append({'fn': '%s.ubi_to_u_and_eps' % mn, 'args': list(ubi.ravel()) + c,
                          'py': (lambda m=m, ubi=ubi, c=c: m.ubi_to_u_and_eps(ubi, c)), 'rtol': 1e-7, 'atol': 1e-9})
    import xfab
    n, dis, stats = floatcorr.compare(cases)
    xfab.CHECKS.activated = True
    return {'cases': n, 'disagreements': dis, 'stats': stats, 'samples': [{'fn': cases[0]['fn'], 'args': cases[0]['args']}]}


def check_one(mn, m, k, c, eps, U, tol=1e-8):
    out = []
    eps = np.array(eps, float)

    def bad(what, obs, exp, known=None):
        out.append({'fn': '%s.%s' % (mn.lower(), what), 'cell': list(c), 'eps': eps.tolist(), 'U': np.asarray(U).tolist(),
                    'observed': np.asarray(obs).tolist(), 'expected': np.asarray(exp).tolist(), 'known_id': known})
    try:
        B0 = m.form_b_mat(c)
        m.epsilon_to_b_old(list(eps), c), m.b_to_epsilon_old(m.epsilon_to_b(list(eps), c), c)
    except (ValueError, ZeroDivisionError, FloatingPointError, np.linalg.LinAlgError) as e:
        out.append({'fn': '%s.raised' % mn.lower(), 'cell': list(c), 'eps': eps.tolist(), 'U': np.asarray(U).tolist(),
                    'observed': '%s: %s' % (type(e).__name__, e), 'expected': 'no exception on a valid cell and a strain <= 0.1', 'known_id': None})
        return out
    for suffix in ('', '_old'):
        e2b, b2e = getattr(m, 'epsilon_to_b' + suffix), getattr(m, 'b_to_epsilon' + suffix)
        B = e2b(list(eps), c)
        back = np.array(b2e(B, c))
        if np.abs(back - eps).max() > tol:
            bad('b_to_epsilon%s(epsilon_to_b%s)' % (suffix, suffix), back, eps)
        B2 = e2b(list(back), c)
        if np.abs(B2 - B).max() > tol * np.abs(B).max():
            bad('epsilon_to_b%s(b_to_epsilon%s)' % (suffix, suffix), B2, B)
        Bz = e2b([0.0] * 6, c)
        if np.abs(Bz - B0).max() > tol * np.abs(B0).max():
            bad('epsilon_to_b%s(0)=B0' % suffix, Bz, B0)
    B = m.epsilon_to_b(list(eps), c)
    T = B0 @ np.linalg.inv(B)
    E = 0.5 * (T + T.T) - np.eye(3)
    d = np.array([E[0, 0], E[0, 1], E[0, 2], E[1, 1], E[1, 2], E[2, 2]])
    got = np.array(m.b_to_epsilon(B, c))
    if np.abs(got - d).max() > tol:
        bad('b_to_epsilon=sym(B0 inv B)-I', got, d)
    # UBI in the module's own convention
    ubi = m.u_to_ubi(U, c) if np.abs(eps).max() == 0 else np.linalg.inv(U @ B) * k
    U2, e2 = m.ubi_to_u_and_eps(ubi, c)
    if np.abs(U2 - U).max() > 1e-7:
        bad('ubi_to_u_and_eps:U', U2, U)
    e2 = np.array(e2)
    if np.abs(e2 - eps).max() > 1e-7:
        known = None
        if mn == 'Tools':
            # defect model of the recorded finding: strain = 2*pi*(eps + I) - I
            Ef = np.array([[eps[0], eps[1], eps[2]], [eps[1], eps[3], eps[4]], [eps[2], eps[4], eps[5]]])
            P = 2 * math.pi * (Ef + np.eye(3)) - np.eye(3)
            pred = np.array([P[0, 0], P[0, 1], P[0, 2], P[1, 1], P[1, 2], P[2, 2]])
            if np.abs(e2 - pred).max() < 1e-6:
                known = KNOWN_TOOLS
        bad('ubi_to_u_and_eps:eps', e2, eps, known)
    return out


def oracle(ctx, hints=()):
    import xfab
    viol, ev, nontriv = [], 0, 0
    sample = None
    try:
        for i in range(ctx.n(60, 6000, boost=2000)):
            c, kind, eps, U = draw(ctx.rng, i)
            sample = sample or {'cell': c, 'eps': eps}
            if kind != 'ortho' and any(eps):
                nontriv += 1
            for mn, m, k in _mods():
                ev += 1
                viol += check_one(mn, m, k, c, eps, U)
            if len([v for v in viol if v['known_id'] is None]) > 20:
                break
    finally:
        xfab.CHECKS.activated = True
    # keep one representative of the known finding, all new ones
    seen_known = False
    out = []
    for v in viol:
        if v['known_id']:
            if seen_known:
                continue
            seen_known = True
        out.append(v)
    return {'evaluations': ev, 'distinct_nontrivial': nontriv, 'violations': out, 'samples': [sample], 'stats': {}}


def check_known(finding):
    from xfab import tools
    w = finding['witness']
    res = check_one('Tools', tools, 2 * math.pi, w['cell'], w['eps'], np.array(w['U']))
    return next((v for v in res if v['known_id'] == finding['id']), None)


def replay(payload):
    v = payload.get('violation')
    if not v:
        print('replay: broken obligation, no input stored:', payload.get('broken'))
        return 1
    from xfab import tools, laue
    mn = 'Tools' if v['fn'].startswith('tools') else 'Laue'
    res = check_one(mn, tools if mn == 'Tools' else laue, 2 * math.pi if mn == 'Tools' else 1.0, v['cell'], v['eps'], np.array(v['U']))
    res = [r for r in res if r['known_id'] is None]
    print('replay C13 ->', 'VIOLATION' if res else 'holds', res[:1])
    return 1 if res else 0
