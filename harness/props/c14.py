"""C14 — xfab.tools and xfab.laue agree on everything except the documented factor 2*pi."""
import math, inspect
import json
import numpy as np
import gens

GEN = ['numeric', 'hkl', 'c14']
LEAN_MODULES = ['XfabVerif.Proofs.C14']
# definitions the hand-written model mirrors (see harness/pins.py): a source change breaks the tie
PINS = ['xfab/tools.py:ubi_to_u_b', 'xfab/laue.py:ubi_to_u_b']
LEAN_DRIVER_MODULES = []
RULE = ("every function defined in both modules is called in both on the same seeded inputs (streams of C01-C03, C05, C06, C09, C13: cells, rotations, "
        "Euler/Rodrigues values, strains, g-vectors scaled to sin(theta), space-group settings with conforming cells); B matrices / g-vectors are "
        "related by the factor 2*pi, everything else must be equal; non-trivial = non-orthogonal cell or non-axis-aligned rotation; distinct = distinct inputs")
ASSUMPTIONS = ["functions whose normalised ASTs are identical in the two modules are equal by syntax (kernel-checked hash equality of the ASTs exported on every run); "
               "for those the runtime comparison is a sanity check only",
               "floating point: results compared to 1e-9 relative"]
KNOWN = 'C14-TOOLS-UBI'
TWO_PI = 2 * math.pi


def shared_functions():
    from xfab import tools, laue
    # the API: public functions and `_arctan2` (harness/gen_c14.py PRIVATE_OWN); other private helpers are reached through their callers
    f = lambda m: {n for n, o in vars(m).items() if inspect.isfunction(o) and o.__module__ == m.__name__ and (not n.startswith('_') or n == '_arctan2')}
    return sorted(f(tools) & f(laue)), sorted(f(tools) - f(laue)), sorted(f(laue) - f(tools))


def same(a, b, rtol=1e-9, atol=1e-11):
    if isinstance(a, (tuple, list)) and isinstance(b, (tuple, list)) and not (np.isscalar(a) or np.isscalar(b)):
        try:
            aa, bb = np.asarray(a, float), np.asarray(b, float)
        except (ValueError, TypeError):
            return len(a) == len(b) and all(same(x, y, rtol, atol) for x, y in zip(a, b))
    else:
        aa, bb = np.asarray(a, float), np.asarray(b, float)
    if aa.shape != bb.shape:
        return False
    if aa.size == 0:
        return True
    both_nan = np.isnan(aa) & np.isnan(bb)      # e.g. tth beyond the resolution limit: nan in both modules is agreement
    with np.errstate(invalid='ignore'):
        ok = np.abs(aa - bb) <= atol + rtol * np.maximum(np.abs(aa), np.abs(bb))
    return bool(np.all(ok | both_nan))


def run_case(rng, i, covered):
    """calls all shared functions once; returns violations"""
    from xfab import tools as T, laue as L
    out = []
    c, ckind = gens.cell(rng, scaled=True)
    U, ukind = gens.rotation(rng, 'uniform' if i % 2 else None)
    eps = [rng.uniform(-0.1, 0.1) for _ in range(6)]
    h = gens.hkl(rng, 6)
    lam = rng.uniform(0.1, 0.4)

    def cmp(name, a, b, inp, known=None, **kw):
        covered.add(name)
        if not same(a, b, **kw):
            out.append({'fn': name, 'input': inp, 'observed': {'tools': np.asarray(a, float).tolist() if not isinstance(a, tuple) else [np.asarray(x, float).tolist() for x in a],
                                                                'laue': np.asarray(b, float).tolist() if not isinstance(b, tuple) else [np.asarray(x, float).tolist() for x in b]},
                        'expected': 'equal (B and g-vectors up to the factor 2*pi)', 'known_id': known})
    cell_in = {'cell': c}
    cmp('cell_volume', T.cell_volume(c), L.cell_volume(c), cell_in)
    cmp('cell_invert', T.cell_invert(c), L.cell_invert(c), cell_in)
    cmp('form_a_mat', T.form_a_mat(c), L.form_a_mat(c), cell_in)
    cmp('form_a_mat_inv', T.form_a_mat_inv(c), L.form_a_mat_inv(c), cell_in)
    Bt, Bl = T.form_b_mat(c), L.form_b_mat(c)
    cmp('form_b_mat', Bt, TWO_PI * Bl, cell_in)
    cmp('a_to_cell', T.a_to_cell(T.form_a_mat(c)), L.a_to_cell(L.form_a_mat(c)), cell_in, rtol=1e-8)
    cmp('b_to_cell', T.b_to_cell(Bt), L.b_to_cell(Bl), cell_in, rtol=1e-7)
    cmp('sintl', T.sintl(c, h), L.sintl(c, h), {'cell': c, 'hkl': h})
    cmp('tth', T.tth(c, h, lam), L.tth(c, h, lam), {'cell': c, 'hkl': h, 'lam': lam})
    gt, gl = U @ Bt @ np.array(h, float), U @ Bl @ np.array(h, float)
    cmp('tth2', T.tth2(gt, lam), L.tth2(gl, lam), {'cell': c, 'hkl': h, 'lam': lam})
    # strain
    Et, El = T.epsilon_to_b(eps, c), L.epsilon_to_b(eps, c)
    cmp('epsilon_to_b', Et, TWO_PI * El, {'cell': c, 'eps': eps})
    cmp('b_to_epsilon', T.b_to_epsilon(Et, c), L.b_to_epsilon(El, c), {'cell': c, 'eps': eps}, atol=1e-9)
    Eto, Elo = T.epsilon_to_b_old(eps, c), L.epsilon_to_b_old(eps, c)
    cmp('epsilon_to_b_old', Eto, TWO_PI * Elo, {'cell': c, 'eps': eps}, rtol=1e-8)
    cmp('b_to_epsilon_old', T.b_to_epsilon_old(Eto, c), L.b_to_epsilon_old(Elo, c), {'cell': c, 'eps': eps}, atol=1e-8)
    # orientation <-> UBI
    ut, ul = T.u_to_ubi(U, c), L.u_to_ubi(U, c)
    uin = {'cell': c, 'U': U.tolist()}
    cmp('u_to_ubi', ut, ul, uin, rtol=1e-8)
    cmp('ubi_to_cell', T.ubi_to_cell(ut), L.ubi_to_cell(ul), uin, rtol=1e-8)
    cmp('ubi_to_u', T.ubi_to_u(ut), L.ubi_to_u(ul), uin, atol=1e-9)
    a, b = T.ubi_to_u_b(ut), L.ubi_to_u_b(ul)
    cmp('ubi_to_u_b', (a[0], a[1]), (b[0], TWO_PI * b[1]), uin, atol=1e-8)
    a, b = T.ub_to_u_b(U @ Bl), L.ub_to_u_b(U @ Bl)
    cmp('ub_to_u_b', (a[0], a[1]), (b[0], b[1]), uin, atol=1e-9)
    if abs(1 + np.trace(U)) > 1e-3:
        cmp('u_to_rod', T.u_to_rod(U), L.u_to_rod(U), uin)
        cmp('ubi_to_rod', T.ubi_to_rod(ut), L.ubi_to_rod(ul), uin, atol=1e-8)
    cmp('u_to_euler', T.u_to_euler(U), L.u_to_euler(U), uin)
    # strained UBI in each module's own convention
    ubit = np.linalg.inv(U @ Et) * TWO_PI
    ubil = np.linalg.inv(U @ El)
    a, b = T.ubi_to_u_and_eps(ubit, c), L.ubi_to_u_and_eps(ubil, c)
    covered.add('ubi_to_u_and_eps')
    if not same(a[0], b[0], atol=1e-8):
        out.append({'fn': 'ubi_to_u_and_eps:U', 'input': {'cell': c, 'eps': eps, 'U': U.tolist()}, 'observed': {'tools': np.asarray(a[0]).tolist(), 'laue': np.asarray(b[0]).tolist()},
                    'expected': 'equal U', 'known_id': None})
    if not same(a[1], b[1], atol=1e-8):
        e = np.array(eps)
        Ef = np.array([[e[0], e[1], e[2]], [e[1], e[3], e[4]], [e[2], e[4], e[5]]])
        P = TWO_PI * (Ef + np.eye(3)) - np.eye(3)
        pred = [P[0, 0], P[0, 1], P[0, 2], P[1, 1], P[1, 2], P[2, 2]]
        known = KNOWN if (same(a[1], pred, atol=1e-6) and same(b[1], eps, atol=1e-7)) else None
        out.append({'fn': 'ubi_to_u_and_eps:eps', 'input': {'cell': c, 'eps': eps, 'U': U.tolist()},
                    'observed': {'tools': list(map(float, a[1])), 'laue': list(map(float, b[1]))}, 'expected': 'equal strain', 'known_id': known})
    # constructors
    e3 = [rng.uniform(0, 2 * math.pi), rng.uniform(0, math.pi), rng.uniform(0, 2 * math.pi)]
    cmp('euler_to_u', T.euler_to_u(*e3), L.euler_to_u(*e3), {'euler': e3})
    r = [rng.gauss(0, 1) for _ in range(3)]
    cmp('rod_to_u', T.rod_to_u(r), L.rod_to_u(r), {'rod': r})
    w = [rng.uniform(-3, 3) for _ in range(3)]
    cmp('form_omega_mat', T.form_omega_mat(w[0]), L.form_omega_mat(w[0]), {'w': w})
    cmp('form_omega_mat_general', T.form_omega_mat_general(*w), L.form_omega_mat_general(*w), {'w': w})
    cmp('quart_to_omega', T.quart_to_omega(w[0] * 40, w[1] / 6, w[2] / 6), L.quart_to_omega(w[0] * 40, w[1] / 6, w[2] / 6), {'w': w})
    cmp('detect_tilt', T.detect_tilt(*w), L.detect_tilt(*w), {'w': w})
    y, x = rng.gauss(0, 1), rng.gauss(0, 1)
    cmp('_arctan2', T._arctan2(y, x), L._arctan2(y, x), {'y': y, 'x': x})
    # omega solvers: g scaled to the length tools' assertion demands
    tth = math.radians(rng.uniform(0.5, 150))
    v = np.array([rng.gauss(0, 1) for _ in range(3)])
    g = v / np.linalg.norm(v) * math.sin(tth / 2)
    chi, wedge = (rng.uniform(-0.5, 0.5), rng.uniform(-0.5, 0.5)) if i % 3 else (0.0, 0.0)
    gin = {'g': g.tolist(), 'tth': tth, 'chi': chi, 'wedge': wedge}
    cmp('find_omega_general', T.find_omega_general(g, tth, chi, wedge), L.find_omega_general(g, tth, chi, wedge), gin, atol=1e-8)
    cmp('find_omega_quart', T.find_omega_quart(g, tth, chi, wedge), L.find_omega_quart(g, tth, chi, wedge), gin, atol=1e-8)
    a, b = T.find_omega_wedge(g, tth, wedge), L.find_omega_wedge(g, tth, wedge)
    cmp('find_omega_wedge', (np.asarray(a[0], float), np.asarray(a[1], float)), (np.asarray(b[0], float), np.asarray(b[1], float)), gin, atol=1e-8)
    cmp('find_omega', T.find_omega(g, tth), L.find_omega(g, tth), gin, atol=1e-8)
    return out


def _settings():
    import json, os
    meta = json.load(open(os.path.join(os.path.dirname(__file__), '..', '..', 'lean', 'XfabVerif', 'Gen', 'tables_meta.json')))
    return meta['settings']


def sysabs_sweep(rng, covered, per):
    """tools.sysabs / sysabs_unique vs laue's on EVERY setting (its own syscond, crystal system and cell choice), `per`
    random hkl each plus the 26 axis/diagonal representatives where the special conditions live"""
    from xfab import tools as T, laue as L, sg
    out = []
    fixed = [[h, k, l] for h in (-1, 0, 1, 2) for k in (-1, 0, 1, 2) for l in (0, 1, 3)]
    for s in _settings():
        cc = s['cell_choice'] if s['cell_choice'] == 'rhombohedral' else 'standard'
        spg = sg.sg(sgno=s['no'], cell_choice=cc)
        covered.update(['sysabs', 'sysabs_unique'])
        for h in fixed + [[rng.randint(-7, 7) for _ in range(3)] for _ in range(per)]:
            a, b = T.sysabs(h, spg.syscond, spg.crystal_system, spg.cell_choice), L.sysabs(h, spg.syscond, spg.crystal_system, spg.cell_choice)
            a2, b2 = T.sysabs_unique(h, spg.syscond), L.sysabs_unique(h, spg.syscond)
            if a != b or a2 != b2:
                out.append({'fn': 'sysabs' if a != b else 'sysabs_unique', 'input': {'hkl': h, 'sgno': s['no'], 'cell_choice': cc},
                            'observed': {'tools': [int(a), int(a2)], 'laue': [int(b), int(b2)]}, 'expected': 'equal', 'known_id': None})
                break
    return out


def replay_sysabs(inp):
    from xfab import tools as T, laue as L, sg
    spg = sg.sg(sgno=inp['sgno'], cell_choice=inp.get('cell_choice', 'standard'))
    h = inp['hkl']
    a = [T.sysabs(h, spg.syscond, spg.crystal_system, spg.cell_choice), T.sysabs_unique(h, spg.syscond)]
    b = [L.sysabs(h, spg.syscond, spg.crystal_system, spg.cell_choice), L.sysabs_unique(h, spg.syscond)]
    return a, b


def hkl_one(inp, covered=None):
    """tools vs laue reflection generators on one (setting, cell, shell); returns violations"""
    from xfab import tools as T, laue as L, sg
    covered = covered if covered is not None else set()
    out = []
    c, smin, smax, cc = inp['cell'], inp['sintlmin'], inp['sintlmax'], inp['cell_choice']
    spg = sg.sg(sgno=inp['sgno'], cell_choice=cc)
    import zlib
    for fn in ('genhkl_unique', 'genhkl_all'):
        # the flag as callers pass it (bool, 0/1 of a FABLE input file, numpy.bool_), the setting as a run-time string
        k = zlib.crc32(repr((fn, inp['sgno'], cc, [round(float(x), 6) for x in c])).encode())
        for want in ((True, False) if k % 4 == 0 else (True,)):
            ostl = gens.flag(want, k // 4)
            np.random.seed(7)
            a = getattr(T, fn)(c, smin, smax, sgno=inp['sgno'], cell_choice=gens.fresh_str(cc), output_stl=ostl)
            np.random.seed(7)
            b = getattr(L, fn)(c, smin, smax, sgno=inp['sgno'], cell_choice=gens.fresh_str(cc), output_stl=ostl)
            covered.add(fn)
            if not same(a, b) or (len(a) > 0 and np.asarray(a).ndim == 2 and np.asarray(a).shape[1] != (4 if want else 3)):
                out.append({'fn': fn, 'input': dict(inp, output_stl=repr(ostl)), 'observed': {'tools_shape': list(np.asarray(a).shape), 'laue_shape': list(np.asarray(b).shape)},
                            'expected': 'identical lists with %d columns' % (4 if want else 3), 'known_id': None})
    a = T.genhkl_base(c, spg.syscond, smin, smax, spg.crystal_system, spg.Laue, spg.cell_choice, True)
    b = L.genhkl_base(c, spg.syscond, smin, smax, spg.crystal_system, spg.Laue, spg.cell_choice, True)
    covered.add('genhkl_base')
    if not same(a, b):
        out.append({'fn': 'genhkl_base', 'input': inp, 'observed': {'tools_rows': len(a), 'laue_rows': len(b)}, 'expected': 'identical lists', 'known_id': None})
    return out


def hkl_cases(rng, covered, n):
    from xfab import tools as T, laue as L, sg
    out = []
    sets = rng.sample(_settings(), n)
    # the oblique systems always take part (2 triclinic, 13 monoclinic and 7 rhombohedral settings of 237 are rarely sampled)
    obl = [s for s in _settings() if s['cs'] in ('triclinic', 'monoclinic') or s['cell_choice'] == 'rhombohedral']
    obl_pick = [s for s in obl if s['no'] in (2, 166)] + rng.sample(obl, min(3, len(obl)))
    sets = sets + [s for s in obl_pick if s not in sets]
    # one long axis (150..400 A, a layered compound or a protein) with a shell that reaches Miller indices of 100 and more: anything that
    # packs or truncates indices works for |h| < 100 only
    longable = [s for s in _settings() if s['cell_choice'] != 'rhombohedral' and s['cs'] != 'cubic']
    for s in rng.sample(longable, 2):
        c = gens.conforming_cell(rng, s['cs'], 'standard')
        c = [min(c[0], 6.0), min(c[1], 6.0), rng.uniform(150.0, 400.0)] + list(c[3:])
        if s['cs'] in ('tetragonal', 'hexagonal', 'trigonal'):
            c[1] = c[0]
        lmax = rng.uniform(100.5, 130.0)
        out += hkl_one({'sgno': s['no'], 'cell_choice': 'standard', 'cell': c, 'sintlmin': 0.0, 'sintlmax': lmax / (2.0 * c[2]), 'long_axis': True},
                       covered)
    for s in sets:
        cc = s['cell_choice'] if s['cell_choice'] == 'rhombohedral' else 'standard'
        c = gens.conforming_cell(rng, s['cs'], cc)
        # shells whose bounds coincide bit-for-bit with the sin(theta)/lambda of a generated reflection: `>` vs `>=`
        np.random.seed(7)
        rows = T.genhkl_unique(c, 0.0, 0.3, sgno=s['no'], cell_choice=cc, output_stl=True)
        if len(rows) >= 3:
            lo_row = rows[rng.randrange(0, len(rows) // 2)]
            hi_row = rows[rng.randrange(len(rows) // 2, len(rows))]
            for smin_b, smax_b in ((float(lo_row[3]), 0.3), (0.0, float(hi_row[3])), (float(lo_row[3]), float(hi_row[3]))):
                out += hkl_one({'sgno': s['no'], 'cell_choice': cc, 'cell': c, 'sintlmin': smin_b, 'sintlmax': smax_b, 'boundary': True}, covered)
        # small shells on oblique cells: the outer limit lies below sin(theta)/lambda of a segment's START point (-1,0,1), (1,2,0) ...,
        # so whether a walk steps on from a start point outside the sphere decides which reflections come back inside it
        if s['cs'] in ('triclinic', 'monoclinic') or cc == 'rhombohedral':
            for _ in range(4):
                c2 = gens.conforming_cell(rng, s['cs'], cc)
                if cc == 'rhombohedral':
                    al = rng.uniform(100.0, 116.0)
                    c2 = [c2[0]] * 3 + [al] * 3
                elif s['cs'] == 'triclinic':
                    while True:
                        ang = [rng.uniform(60, 125) for _ in range(3)]
                        if gens.gram_d(*ang) > 0.1:
                            break
                    c2 = c2[:3] + ang
                out += hkl_one({'sgno': s['no'], 'cell_choice': cc, 'cell': c2, 'sintlmin': 0.0,
                                'sintlmax': rng.uniform(0.6, 2.2) / max(c2[:3]), 'small_shell': True}, covered)
        cc = s['cell_choice'] if s['cell_choice'] == 'rhombohedral' else 'standard'
        c = gens.conforming_cell(rng, s['cs'], cc)
        smax = rng.uniform(0.15, 0.3)
        smin = rng.uniform(0, 0.1)
        inp = {'sgno': s['no'], 'cell_choice': cc, 'cell': c, 'sintlmin': smin, 'sintlmax': smax}
        spg = sg.sg(sgno=s['no'], cell_choice=cc)
        for fn in ('genhkl_unique', 'genhkl_all'):
            np.random.seed(7)
            a = getattr(T, fn)(c, smin, smax, sgno=s['no'], cell_choice=cc, output_stl=True)
            np.random.seed(7)
            b = getattr(L, fn)(c, smin, smax, sgno=s['no'], cell_choice=cc, output_stl=True)
            covered.add(fn)
            if not same(a, b):
                out.append({'fn': fn, 'input': inp, 'observed': {'tools_rows': len(a), 'laue_rows': len(b)}, 'expected': 'identical lists', 'known_id': None})
        a = T.genhkl_base(c, spg.syscond, smin, smax, spg.crystal_system, spg.Laue, spg.cell_choice, True)
        b = L.genhkl_base(c, spg.syscond, smin, smax, spg.crystal_system, spg.Laue, spg.cell_choice, True)
        covered.add('genhkl_base')
        if not same(a, b):
            out.append({'fn': 'genhkl_base', 'input': inp, 'observed': {'tools_rows': len(a), 'laue_rows': len(b)}, 'expected': 'identical lists', 'known_id': None})
        a = T.genhkl(c, spg.syscond, smin, min(smax, 0.2), spg.crystal_system, True)
        b = L.genhkl(c, spg.syscond, smin, min(smax, 0.2), spg.crystal_system, True)
        covered.add('genhkl')
        if not same(a, b):
            out.append({'fn': 'genhkl', 'input': inp, 'observed': {'tools_rows': len(a), 'laue_rows': len(b)}, 'expected': 'identical lists', 'known_id': None})
        for _ in range(30):
            h = [rng.randint(-6, 6) for _ in range(3)]
            covered.update(['sysabs', 'sysabs_unique'])
            if T.sysabs(h, spg.syscond, spg.crystal_system, spg.cell_choice) != L.sysabs(h, spg.syscond, spg.crystal_system, spg.cell_choice) or \
                    T.sysabs_unique(h, spg.syscond) != L.sysabs_unique(h, spg.syscond):
                out.append({'fn': 'sysabs', 'input': {'hkl': h, 'sgno': s['no']}, 'observed': 'differ', 'expected': 'equal', 'known_id': None})
    # reduce_cell
    for _ in range(max(2, n // 4)):
        c, _k = gens.cell(rng)
        covered.add('reduce_cell')
        a, b = T.reduce_cell(c), L.reduce_cell(c)
        if not same(a, b, rtol=1e-9):
            out.append({'fn': 'reduce_cell', 'input': {'cell': c}, 'observed': {'tools': list(map(float, a)), 'laue': list(map(float, b))}, 'expected': 'equal', 'known_id': None})
    return out


def oracle(ctx, hints=()):
    import xfab
    shared, only_t, only_l = shared_functions()
    covered = set()
    viol, ev, nontriv = [], 0, 0
    try:
        import random
        for i in range(ctx.n(60, 5000, boost=1500)):
            ev += 1
            cs = ctx.rng.getrandbits(48)
            res = run_case(random.Random(cs), i, covered)
            for v in res:
                v['case'] = [cs, i]
            viol += res
            nontriv += 1
            if len([v for v in viol if v['known_id'] is None]) > 20:
                break
        viol += sysabs_sweep(ctx.rng, covered, ctx.n(25, 400, boost=150))
        ev += 237
        viol += hkl_cases(ctx.rng, covered, ctx.n(8, 120, boost=40))
        ev += ctx.n(8, 120, boost=40)
    finally:
        xfab.CHECKS.activated = True
    # private helpers (leading underscore) that the harness does not call itself are exercised through the public functions
    # that use them (a refactor may split such helpers off at any time); every public shared function must be called directly
    missing = [f for f in shared if f not in covered and not f.startswith('_')]
    for f in missing:
        viol.append({'fn': f, 'input': None, 'observed': 'shared function not exercised by the harness', 'expected': 'covered', 'known_id': None})
    seen_known = False
    out = []
    for v in viol:
        if v['known_id']:
            if seen_known:
                continue
            seen_known = True
        out.append(v)
    return {'evaluations': ev * len(shared), 'distinct_nontrivial': nontriv, 'violations': out,
            'samples': [{'shared_functions': shared}], 'stats': {'shared': len(shared), 'only_tools': only_t, 'only_laue': only_l, 'covered': len(covered)}}


def correspondence(ctx):
    """the model side of C14 is the exported AST table: re-derive it independently and compare with what Lean sees"""
    import json, os, re
    here = os.path.dirname(os.path.abspath(__file__))
    meta = json.load(open(os.path.join(here, '..', '..', 'lean', 'XfabVerif', 'Gen', 'c14_meta.json')))
    shared, only_t, only_l = shared_functions()
    dis = []
    if sorted(meta['shared']) != shared:
        dis.append({'fn': 'shared-function list', 'model': meta['shared'], 'impl': shared})
    # independent textual comparison: source text with the numpy alias unified and comments/docstrings removed via ast
    import ast
    from xfab import tools, laue

    def norm(src, alias):
        t = ast.parse(src)
        for n in ast.walk(t):
            if isinstance(n, ast.Name) and n.id == alias:
                n.id = 'NUMPY'
            if isinstance(n, ast.FunctionDef) and n.body and isinstance(n.body[0], ast.Expr) and isinstance(getattr(n.body[0], 'value', None), ast.Constant) \
                    and isinstance(n.body[0].value.value, str):
                n.body = n.body[1:] or [ast.Pass()]
        return ast.unparse(t)
    def closure_text(mod, alias, f):
        """normalised text of f together with the private module-level helpers and plain constants it reaches (as gen_c14 does,
        written again): moving the 2*pi of a convention-dependent function into a helper must not make it look identical"""
        seen, todo, parts = [], [f], []
        while todo:
            g = todo.pop()
            if g in seen:
                continue
            seen.append(g)
            o = getattr(mod, g, None)
            if inspect.isfunction(o) and o.__module__ == mod.__name__:
                src = inspect.getsource(o)
                parts.append(g + ':' + norm(src, alias) if g != f else norm(src, alias))
                for nd in ast.walk(ast.parse(src)):
                    if isinstance(nd, ast.Name) and nd.id != g:
                        h = getattr(mod, nd.id, None)
                        if inspect.isfunction(h) and h.__module__ == mod.__name__ and nd.id.startswith('_') and nd.id != '_arctan2':
                            todo.append(nd.id)
                        elif isinstance(h, (int, float, str, tuple)) and not nd.id.startswith('__') and nd.id in vars(mod) and nd.id not in ('n', 'np'):
                            parts.append('const %s=%r' % (nd.id, h))
        return '|'.join([parts[0]] + sorted(set(parts[1:])))
    ident = []
    for f in shared:
        a = closure_text(tools, 'n', f)
        b = closure_text(laue, 'np', f)
        if a == b:
            ident.append(f)
    if sorted(ident) != sorted(meta['identical']):
        dis.append({'fn': 'identical-function list', 'model': sorted(meta['identical']), 'impl': sorted(ident)})
    return {'cases': len(shared), 'disagreements': dis, 'stats': {'identical': len(ident), 'different': len(shared) - len(ident)},
            'samples': [{'identical': ident[:5]}], 'distinct_nontrivial': len(shared)}


def check_known(finding):
    import random
    rng = random.Random(1)
    for i in range(1, 4):
        res = run_case(rng, i, set())
        v = next((v for v in res if v['known_id'] == finding['id']), None)
        if v:
            return v
    return None


def replay(payload):
    import random
    v = payload.get('violation')
    if not v:
        print('replay: broken obligation, no input stored:', payload.get('broken'))
        return 1
    fn = v['fn']
    if fn in ('sysabs', 'sysabs_unique'):
        a, b = replay_sysabs(v['input'])
        bad = a != b
        print('replay C14 %s %s: tools=%s laue=%s -> %s' % (fn, v['input'], a, b, 'VIOLATION' if bad else 'holds'))
        return 1 if bad else 0
    if fn in ('genhkl_unique', 'genhkl_all', 'genhkl_base') and 'sintlmin' in (v.get('input') or {}):
        res = [x for x in hkl_one(v['input']) if x['fn'] == fn]
        print('replay C14 %s %s -> %s' % (fn, v['input'], 'VIOLATION ' + str(res[0]['observed']) if res else 'holds'))
        return 1 if res else 0
    if v.get('case'):
        cs, i = v['case']
        res = [x for x in run_case(random.Random(cs), i, set()) if x['fn'] == fn and not x.get('known_id')]
        print('replay C14 %s case %s -> %s' % (fn, v['case'], ('VIOLATION ' + json.dumps(res[0]['observed'])[:300]) if res else 'holds'))
        return 1 if res else 0
    print('replay C14: stored violation (no executable input):', v)
    return 1
