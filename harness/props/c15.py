"""C15 — structure.multiplicity(position, space group) = size of the orbit of the position modulo lattice translations
(= nsymop / order of the site-symmetry group), by name or by number+setting, general and special positions."""
import os, re, time, multiprocessing
from fractions import Fraction
from decimal import Decimal
from concurrent.futures import ThreadPoolExecutor
import check

GEN = ['tables']
LEAN_MODULES = ['XfabVerif.Proofs.C15', 'XfabVerif.Proofs.C15Tables']
# definitions the hand-written model mirrors (see harness/pins.py): a source change breaks the tie
PINS = ['xfab/structure.py:multiplicity', 'xfab/sg.py:sg']
LEAN_DRIVER_MODULES = ['XfabVerif.Model.Mult']
RULE = ("all 237 settings (230 numbers + 7 rhombohedral cells) x positions n/24 on the grid {0,1/8,1/6,1/4,1/3,3/8,1/2,5/8,2/3,3/4,5/6,7/8}^3 "
        "and the families (x,x,z), (x,2x,z), (x,-x,z) with generic x = 0.1234+k/1000 (denominator 30000), z generic or on the grid, "
        "some shifted by lattice vectors in [-3,3]^3; inputs reach Python as float64 n/d. quick: stratified sample per setting; "
        "thorough: the exhaustive 12^3 grid x 237 settings. non-trivial = special position (multiplicity < nsymop); "
        "distinct = distinct (setting, position)")
ASSUMPTIONS = [
    "positions are rationals n/d with 24 | d and d <= 30000: any non-lattice difference of two images is then >= 1/30000 away from "
    "the lattice in some coordinate, far above the code's 1e-5 tolerance plus the 1e-6 error of the 6-digit table translations "
    "(C15.tolerance_sound proves the equivalence for a gap of 1e-3, i.e. the grid; for d = 30000 the same argument leaves a margin of 3x)",
    "table translations are read as the 24th they round to (checked to 5e-7 by Sg.checkGroup for every table)",
    "float64 rounding of R x + t is not modelled (errors ~1e-16, nine orders below the tolerance)",
]
TRUSTED_EXTRA = ["hand model lean/XfabVerif/Model/Mult.lean (greedy scan over exact rational images), validated against "
                 "structure.multiplicity on every run by lean/MultDriver.lean"]

GRID24 = [0, 3, 4, 6, 8, 9, 12, 15, 16, 18, 20, 21]
DG = 30000            # common denominator of the generic family members: lcm(10000, 24)
JOBS = max(1, min(int(os.environ.get('VERIF_JOBS', '0') or 0) or (os.cpu_count() or 1), 12))

_SETTINGS = None
_PYCACHE = {}         # (key, how, d, n1, n2, n3) -> result of the real code (thorough tier: shared by correspondence and oracle)


# ------------------------------------------------------------------------------------------------
# settings, names

def settings():
    """[{key, no, cc, name, obj}] for the 237 settings in (number, setting) order — same rule as gen_tables.load_settings"""
    global _SETTINGS
    if _SETTINGS is not None:
        return _SETTINGS
    from xfab import sglib, sg
    out = []
    for no in range(1, 231):
        cls = getattr(sglib, 'Sg%d' % no)
        std = cls(cell_choice='standard')
        out.append({'key': 'n%d' % no, 'no': no, 'cc': 'standard', 'obj': std})
        rh = cls(cell_choice='rhombohedral')
        if rh.cell_choice == 'rhombohedral':
            out.append({'key': 'n%dr' % no, 'no': no, 'cc': 'rhombohedral', 'obj': rh})
    for s in out:
        isr = s['cc'] == 'rhombohedral'
        cands = [k for k, v in sg.sgdic.items() if v == 'Sg%d' % s['no'] and ((k[0] == 'r' and k[-1] == 'r') == isr)]
        own = re.sub(r'\s+', '', s['obj'].name).lower()
        s['name'] = s['obj'].name if own in cands else (sorted(cands)[0] if cands else None)
    _SETTINGS = out
    _BYKEY.update({s['key']: s for s in out})
    return out


_BYKEY = {}


def by_key(key):
    if not _BYKEY:
        settings()
    return _BYKEY[key]


# ------------------------------------------------------------------------------------------------
# the real code (worker processes)

_PDBSPELL = {}


def spelled(name, no, cc, pos):
    """one of the accepted spellings of the group name, chosen by the position (deterministic): as tabulated, upper case, mixed
    case with padding, every character separated by a blank, and -- for the standard settings -- the conventional full
    Hermann-Mauguin spelling with blanks and '1' place holders ('P 31 2 1', 'P 1 21/c 1').  sg.sg removes white space and case; a
    lookup that drops or merges tokens is wrong only for spaced names"""
    k = int(abs(hash(tuple(round(float(x), 6) for x in pos)))) % 5
    if k == 0:
        return name
    if k == 1:
        return name.upper()
    if k == 2:
        return '  ' + name[:1].upper() + name[1:].lower() + ' '
    if k == 3:
        return ' '.join(name)
    if cc == 'rhombohedral':
        return name
    if not _PDBSPELL:
        try:
            import gen_pdbsym
            for no_, sp, _cls in gen_pdbsym.pdb_symbols():
                _PDBSPELL[int(no_)] = sp
        except Exception:
            _PDBSPELL[0] = None
    sp = _PDBSPELL.get(no)
    # only spellings whose blank-free lower-case form is the tabulated name (then sg.sg must resolve them to the same group)
    if sp and ''.join(sp.split()).lower() == ''.join(name.split()).lower():
        return sp
    return ' '.join(name)


def pos_argument(pos, no):
    """the position in the container / numeric type a caller may use: a lattice point (whole-numbered coordinates, e.g. the origin) is
    also written [0, 0, 0] -- Python ints in a list or tuple, or an integer ndarray; the choice is a fixed function of the case"""
    if all(float(x) == int(x) for x in pos):
        import zlib
        import numpy as np
        ints = [int(x) for x in pos]
        return [ints, tuple(ints), np.array(ints), list(map(float, pos)), np.array(pos, dtype=float)][zlib.crc32(repr((ints, no)).encode()) % 5]
    return list(pos)


def _py_eval(task):
    how, no, cc, name, pos = task
    from xfab import structure
    try:
        if how == 'no':
            r = structure.multiplicity(pos_argument(pos, no), sgno=no, cell_choice=cc)
        elif cc == 'rhombohedral' and int(abs(hash(tuple(round(float(x), 6) for x in pos)))) % 3 == 0:
            # the rhombohedral setting asked for by the PLAIN name plus cell_choice (a run-time string), instead of the 'r' suffix
            base = name[:-1] if name.lower().endswith('r') and len(name) > 2 else name
            r = structure.multiplicity(pos_argument(pos, no), sgname=base, cell_choice=''.join(list('rhombohedral')))
        else:
            r = structure.multiplicity(pos_argument(pos, no), sgname=spelled(name, no, cc, pos))
        return int(r)
    except Exception as e:      # noqa: the model maps these to raise:<type>
        return 'raise:' + type(e).__name__


def py_results(cases, cache=False):
    """cases: list of (key, how, d, (n1,n2,n3)); returns list of results of the real code on float64 n/d"""
    todo, idx = [], []
    res = [None] * len(cases)
    for i, (key, how, d, num) in enumerate(cases):
        ck = (key, how, d) + tuple(num)
        if ck in _PYCACHE:
            res[i] = _PYCACHE[ck]
            continue
        s = by_key(key)
        todo.append((how, s['no'], s['cc'], s['name'], tuple(n / d for n in num)))
        idx.append((i, ck))
    if todo:
        if JOBS > 1 and len(todo) > 64:
            # expensive settings (many operations) first, small chunks: the cost per call ranges from 20 us to 0.1 s
            order = sorted(range(len(todo)), key=lambda i: -_BYKEY[idx[i][1][0]]['obj'].nsymop)
            # a spread of 96 cheap-to-medium cases runs in this process (line coverage and the value-semantics guard of
            # check.py observe the parent only), the rest in forked workers
            tail = order[len(order) // 2:]
            inproc = tail[::max(1, len(tail) // 96)][:96]
            ins = set(inproc)
            pooled = [i for i in order if i not in ins]
            with multiprocessing.get_context('fork').Pool(JOBS) as pool:
                o2 = pool.map(_py_eval, [todo[i] for i in pooled], chunksize=max(1, min(64, len(todo) // (JOBS * 32))))
            out = [None] * len(todo)
            for i, r in zip(pooled, o2):
                out[i] = r
            for i in inproc:
                out[i] = _py_eval(todo[i])
        else:
            out = [_py_eval(t) for t in todo]
        for (i, ck), r in zip(idx, out):
            res[i] = r
            if cache:
                _PYCACHE[ck] = r
    return res


def lean_results(cases):
    lines = ['%s %d %d %d %d' % (key, d, num[0], num[1], num[2]) for key, how, d, num in cases]
    if len(lines) < 20000 or JOBS == 1:
        return check.run_model_driver('MultDriver.lean', lines)
    k = min(JOBS, 8)
    chunks = [lines[i::k] for i in range(k)]        # round robin: the expensive settings are contiguous in `lines`
    with ThreadPoolExecutor(k) as ex:
        parts = list(ex.map(lambda c: check.run_model_driver('MultDriver.lean', c), chunks))
    out = [None] * len(lines)
    for i, p in enumerate(parts):
        out[i::k] = p
    return out


# ------------------------------------------------------------------------------------------------
# positions (numerators over a denominator divisible by 24)

def grid_pos(rng):
    return 24, tuple(rng.choice(GRID24) for _ in range(3))


def gen_x(rng):
    return 3 * (1234 + 10 * rng.randrange(0, 300))        # 0.1234 + k/1000 over 30000


def family_pos(rng, fam, zgrid):
    x = gen_x(rng)
    z = rng.choice(GRID24) * (DG // 24) if zgrid else 3 * (3456 + 10 * rng.randrange(0, 300))
    y = {0: x, 1: 2 * x, 2: -x}[fam]
    if fam == 2 and rng.random() < 0.5:
        y += DG                                           # x, 1-x, z
    return DG, (x, y, z)


def generic_pos(rng):
    return DG, (gen_x(rng), 3 * (2345 + 10 * rng.randrange(0, 300)), 3 * (3456 + 10 * rng.randrange(0, 300)))


def shifted(rng, d, num):
    while True:
        k = [rng.randint(-3, 3) for _ in range(3)]
        if any(k):
            return d, tuple(n + d * ki for n, ki in zip(num, k))


def sample_positions(rng, ngrid, nfam, ngen, nshift):
    ps = [grid_pos(rng) for _ in range(ngrid)]
    # always: one lattice point (the origin or a lattice shift of it) -- the position every structure file contains and the one
    # callers write with integers (pos_argument passes it in an integer container)
    ps.append((24, tuple(24 * rng.randint(-2, 2) for _ in range(3))) if rng.random() < 0.6 else (24, (0, 0, 0)))
    for i in range(nfam):
        ps.append(family_pos(rng, i % 3, zgrid=(i // 3) % 2 == 1))
    ps += [generic_pos(rng) for _ in range(ngen)]
    base = list(ps)
    for i in range(nshift):
        ps.append(shifted(rng, *base[(i * 5) % len(base)]))
    return ps


def full_grid():
    return [(24, (a, b, c)) for a in GRID24 for b in GRID24 for c in GRID24]


def family_sweep(rng, nx):
    out = []
    for fam in range(3):
        for _ in range(nx):
            x = gen_x(rng)
            y = {0: x, 1: 2 * x, 2: -x}[fam]
            zs = [g * (DG // 24) for g in GRID24] + [3 * (3456 + 10 * rng.randrange(0, 300)) for _ in range(2)]
            out += [(DG, (x, y, z)) for z in zs]
    return out


# ------------------------------------------------------------------------------------------------
# correspondence: Lean model vs structure.multiplicity

def correspondence(ctx):
    t0 = time.time()
    cases = []
    S = settings()
    if ctx.thorough:
        grid = full_grid()
        for s in S:
            cases += [(s['key'], 'no', d, num) for d, num in grid]
            extra = sample_positions(ctx.rng, 0, 12, 4, 8)
            cases += [(s['key'], 'no', d, num) for d, num in extra]
            if s['name'] is not None:
                cases += [(s['key'], 'name', d, num) for d, num in extra[::2]]
    else:
        for s in S:
            ps = sample_positions(ctx.rng, 4, 5, 1, 2)      # 12 positions per setting
            for i, (d, num) in enumerate(ps):
                cases.append((s['key'], 'no', d, num))
                if s['name'] is not None and i % 4 == 1:
                    cases.append((s['key'], 'name', d, num))
    t1 = time.time()
    lean = lean_results(cases)
    t2 = time.time()
    py = py_results(cases, cache=ctx.thorough)
    t3 = time.time()
    dis, special, hist = [], set(), {}
    for (key, how, d, num), l, p in zip(cases, lean, py):
        hist[str(p)] = hist.get(str(p), 0) + 1
        if l != str(p):
            s = by_key(key)
            dis.append({'fn': 'Mult.multiplicity', 'key': key, 'how': how, 'sgno': s['no'], 'cell_choice': s['cc'], 'sgname': s['name'],
                        'd': d, 'num': list(num), 'position': [n / d for n in num], 'lean': l, 'python': p})
        elif isinstance(p, int) and p < s_nsymop(key):
            special.add((key, d) + tuple(num))
    return {'cases': len(cases), 'disagreements': dis,
            'stats': {'multiplicity_histogram': dict(sorted(hist.items(), key=lambda kv: (len(kv[0]), kv[0]))),
                      'settings': len(S), 'by_name': sum(1 for c in cases if c[1] == 'name'), 'exhaustive_grid': bool(ctx.thorough),
                      'lean_s': round(t2 - t1, 2), 'python_s': round(t3 - t2, 2), 'jobs': JOBS,
                      'lean_lines_per_min': int(len(cases) / max(t2 - t1, 1e-9) * 60)},
            'samples': [{'key': c[0], 'how': c[1], 'd': c[2], 'num': list(c[3]), 'multiplicity': p} for c, p in list(zip(cases, py))[:3]],
            'distinct_nontrivial': len(special)}


def s_nsymop(key):
    return by_key(key)['obj'].nsymop


# ------------------------------------------------------------------------------------------------
# independent exact oracle on the real tables

_OPS = {}


def exact_ops(key):
    """[(rot (3x3 ints), trans (3 Fractions))] of the setting, translations snapped to 24ths when within 5e-7"""
    if key in _OPS:
        return _OPS[key]
    o = by_key(key)['obj']
    ops = []
    for R, t in zip(o.rot, o.trans):
        Ri = [[int(x) for x in row] for row in R]
        if any(float(Ri[i][j]) != float(R[i][j]) for i in range(3) for j in range(3)):
            raise check.Infra('non-integer rotation entry in %s' % key)
        tf = []
        for x in t:
            ex = Fraction(Decimal(repr(float(x))))
            sn = Fraction(round(ex * 24), 24)
            tf.append(sn if abs(ex - sn) <= Fraction(5, 10 ** 7) else ex)
        ops.append((Ri, tf))
    _OPS[key] = ops
    return ops


def exact_orbit(key, d, num):
    """(orbit size modulo the lattice, order of the site-symmetry group) in exact rational arithmetic"""
    p = [Fraction(n, d) for n in num]
    pr = tuple(x % 1 for x in p)
    pts, stab = set(), 0
    for R, t in exact_ops(key):
        q = tuple((R[i][0] * p[0] + R[i][1] * p[1] + R[i][2] * p[2] + t[i]) % 1 for i in range(3))
        pts.add(q)
        if q == pr:
            stab += 1
    return len(pts), stab


def _orbit_task(args):
    return exact_orbit(*args)


def exact_results(cases):
    todo = sorted(set((key, d, tuple(num)) for key, how, d, num in cases))
    if JOBS > 1 and len(todo) > 2000:
        settings()
        order = sorted(range(len(todo)), key=lambda i: -_BYKEY[todo[i][0]]['obj'].nsymop)
        with multiprocessing.get_context('fork').Pool(JOBS) as pool:
            o2 = pool.map(_orbit_task, [todo[i] for i in order], chunksize=64)
        out = [None] * len(todo)
        for i, r in zip(order, o2):
            out[i] = r
    else:
        out = [exact_orbit(*t) for t in todo]
    return dict(zip(todo, out))


def violation(key, how, d, num, observed, expected, what):
    s = by_key(key)
    return {'fn': 'structure.multiplicity', 'key': key, 'how': how, 'sgno': s['no'], 'cell_choice': s['cc'], 'sgname': s['name'],
            'd': d, 'num': list(num), 'position': [n / d for n in num], 'what': what, 'observed': observed, 'expected': expected,
            'known_id': None}


def oracle(ctx, hints=()):
    t0 = time.time()
    S = settings()
    rng = ctx.rng
    cases = []          # (key, how, d, num)
    pairs = []          # (index of base case, index of shifted case)
    viol = []
    for s in S:
        nops = len(s['obj'].rot)
        if s['obj'].nsymop != nops or len(s['obj'].trans) != nops:
            viol.append(violation(s['key'], 'no', 24, (0, 0, 0), 'nsymop=%d, %d rotations, %d translations' % (
                s['obj'].nsymop, nops, len(s['obj'].trans)), 'nsymop = number of operations', 'table lists'))
        if ctx.thorough:
            ps = full_grid() + family_sweep(rng, 3) + [generic_pos(rng) for _ in range(4)]
            nname, nshift = 64, 64
        else:
            k = ctx.n(1, 1, boost=4)
            ps = sample_positions(rng, 3 * k, 3 * k, 1 * k, 0)
            nname, nshift = (len(ps) + 1) // 2, 2 * k
        base = len(cases)
        cases += [(s['key'], 'no', d, num) for d, num in ps]
        if s['name'] is not None:
            for j in (range(len(ps)) if nname >= len(ps) else rng.sample(range(len(ps)), nname)):
                cases.append((s['key'], 'name', ps[j][0], ps[j][1]))
        for j in rng.sample(range(len(ps)), min(nshift, len(ps))):
            d2, num2 = shifted(rng, *ps[j])
            pairs.append((base + j, len(cases)))
            cases.append((s['key'], 'no' if (s['name'] is None or rng.random() < 0.5) else 'name', d2, num2))
    t1 = time.time()
    py = py_results(cases, cache=False)
    t2 = time.time()
    ex = exact_results(cases)
    t3 = time.time()
    special, reported = set(), set()
    for ci, ((key, how, d, num), p) in enumerate(zip(cases, py)):
        orbit, stab = ex[(key, d, tuple(num))]
        ns = s_nsymop(key)
        if p != orbit:
            viol.append(violation(key, how, d, num, p, orbit, 'multiplicity = number of distinct images modulo the lattice'))
            reported.add(ci)
        elif stab == 0 or ns % stab != 0 or ns // stab != p:
            viol.append(violation(key, how, d, num, p, '%d/%d' % (ns, stab), 'multiplicity = nsymop / order of the site-symmetry group'))
            reported.add(ci)
        elif orbit < ns:
            special.add((key, d) + tuple(num))
    for i, j in pairs:
        if py[i] != py[j] and i not in reported and j not in reported:      # cannot happen: the exact orbit is shift invariant
            key, how, d, num = cases[j]
            viol.append(violation(key, how, d, num, py[j], py[i], 'invariance under the lattice shift of %s' % (list(cases[i][3]),)))
    return {'evaluations': len(cases), 'distinct_nontrivial': len(special), 'violations': viol, 'exhaustive': bool(ctx.thorough),
            'samples': [{'key': c[0], 'how': c[1], 'd': c[2], 'num': list(c[3]), 'multiplicity': p,
                         'orbit,stabiliser': list(ex[(c[0], c[2], tuple(c[3]))])} for c, p in list(zip(cases, py))[:3]],
            'stats': {'settings': len(S), 'by_name': sum(1 for c in cases if c[1] == 'name'), 'lattice_shift_pairs': len(pairs),
                      'special_positions': len(special), 'python_s': round(t2 - t1, 2), 'exact_s': round(t3 - t2, 2), 'jobs': JOBS}}


# ------------------------------------------------------------------------------------------------

def replay(payload):
    v = payload.get('violation')
    if not v:
        print('replay: broken obligation, no input stored:', payload.get('broken'))
        return 1
    if v.get('what') == 'table lists':
        o = by_key(v['key'])['obj']
        bad = not (o.nsymop == len(o.rot) == len(o.trans))
        print('replay C15', v['key'], 'nsymop', o.nsymop, 'rot', len(o.rot), 'trans', len(o.trans), '->', 'VIOLATION' if bad else 'holds')
        return 1 if bad else 0
    key, how, d, num = v['key'], v['how'], v['d'], tuple(v['num'])
    s = by_key(key)
    obs = _py_eval((how, s['no'], s['cc'], s['name'], tuple(n / d for n in num)))
    orbit, stab = exact_orbit(key, d, num)
    ns = s['obj'].nsymop
    bad = obs != orbit or stab == 0 or ns % stab != 0 or ns // stab != obs
    call = ('sgno=%d, cell_choice=%r' % (s['no'], s['cc'])) if how == 'no' else (
        'sgname=%r' % spelled(s['name'], s['no'], s['cc'], tuple(n / d for n in num)))
    print('replay C15: structure.multiplicity(%r, %s) = %r ; exact orbit size = %d, nsymop/|stabiliser| = %d/%d -> %s' % (
        [n / d for n in num], call, obs, orbit, ns, stab, 'VIOLATION' if bad else 'holds'))
    return 1 if bad else 0
