"""C17 — CIF and PDB ingestion reproduces what the file states.

correspondence: random CIF / PDB files are written to a temporary directory and read through the real
`build_atomlist().CIFread(path)` / `.PDBread(path)` (CIF: through PyCifRW); the Lean model (lean/CifPdbDriver.lean
over XfabVerif/Model/CifPdb.lean) is fed the generator's own tag map (not parsed from the text) / the raw PDB lines.
Every field is compared; numbers as `float(token)` exactly (B -> U: `float(token)/(8*pi**2)` as the code computes it,
PDB positions: `numpy.dot(scalemat, [x, y, z, 1])` on the model's tokens).  The stream also contains ill-formed files
(missing tags, malformed numbers, ambiguous blocks, unknown adp types, non-looped atom items) on which both sides must
raise the same exception, and direct probes of remove_esd, float() acceptance and the PDB symbol normalisation.

oracle: the property itself on the real code only: the generator's ground truth against what was read.
"""
import os, sys, math, json, shutil, tempfile, logging
from decimal import Decimal
from fractions import Fraction
import numpy as np
import check

GEN = ['tables', 'pdbsym']
LEAN_MODULES = ['XfabVerif.Proofs.C17']
# definitions the hand-written model mirrors (see harness/pins.py): a source change breaks the tie
PINS = ['xfab/structure.py:build_atomlist', 'xfab/structure.py:atomlist', 'xfab/structure.py:atom_entry']
LEAN_DRIVER_MODULES = ['XfabVerif.Model.CifPdb', 'XfabVerif.Gen.Sg.All', 'XfabVerif.Gen.PdbSymbols']
AUDIT_FILES = ['XfabVerif/Model/CifPdb.lean']
DRIVER = 'CifPdbDriver.lean'
RULE = ("CIF: random block (cell with/without esds, one of the 252 sgdic keys in mixed case with blanks, 1..12 atoms, adp type column "
        "absent or each atom Uiso/Uani/Biso/Bani, shuffled aniso loop, occupancy present/absent, multiplicity key in either spelling or "
        "absent (then decimal positions, partly special), atom-type loop present/absent/with '?' entries, optional extra 'global' block, "
        "optional explicit block name); PDB: CRYST1 + SCALE1-3 (optionally with origin shift) + ATOM/HETATM records in strict columns on "
        "general positions, one of the 230 PDB spellings, noise records; every file is non-trivial; distinct = distinct file texts")
ASSUMPTIONS = [
    "PyCifRW's CIF grammar is a parameter of the model: the model starts from the parsed block (data name -> string | list of strings, "
    "names lower-cased as PyCifRW stores them); the correspondence runs the real code through PyCifRW on the written text",
    "numbers are decimal strings in the model; float() is modelled by its acceptance grammar (decimal literals; inf/nan/underscore "
    "literals and non-ASCII digits/white space are not generated), the value by the string itself",
    "the computed multiplicity is an abstract parameter of the model (property C15 is about it); the correspondence evaluates the real "
    "xfab.structure.multiplicity on the position and symbol the model reports, the oracle counts the orbit exactly with Fractions",
    "division by 8*pi^2 and the affine map scalemat.[x,y,z,1] are symbolic in the model (flag / matrix of tokens)",
]
TRUSTED_EXTRA = ["harness/gen_pdbsym.py builds the PDB spellings of the 230 Hermann-Mauguin symbols from sglib names (documented in its "
                 "docstring, cross-checked against 47 hand-written spellings); the theorem pdb_symbol is kernel-evaluated over that table"]

EIGHT_PI2 = 8 * np.pi ** 2
ELEMS = ['H', 'C', 'N', 'O', 'Si', 'Fe', 'Cu', 'Zn', 'S', 'P', 'Cl', 'Na', 'Ca', 'Mg', 'Al', 'Ti', 'Se', 'Br', 'Au', 'Pb']
EXC = {'OSError': 'IOError'}


def hx(s):
    return 'x' + s.encode('utf-8').hex()


def unhx(t):
    assert t[0] == 'x', t
    return bytes.fromhex(t[1:]).decode('utf-8')


def quiet():
    logging.disable(logging.CRITICAL)


# ------------------------------------------------------------------------------------------------
# generators

def mixcase(rng, s):
    return ''.join(c.upper() if rng.random() < 0.5 else c.lower() for c in s)


def dec(rng, lo, hi, nd):
    return '%.*f' % (nd, rng.uniform(lo, hi))


def esd(rng, s, p):
    return s + '(%d)' % rng.randint(1, 99) if rng.random() < p else s


def fancy_number(rng, s):
    """other spellings of a decimal that CIF and float() accept"""
    r = rng.random()
    if r < 0.05 and not s.startswith('-'):
        return '+' + s
    if r < 0.10 and s.startswith('0.'):
        return s[1:]
    if r < 0.15:
        return '%.4e' % float(s)
    return s


def sg_keys():
    from xfab import sg
    return list(sg.sgdic.keys())


def spaced_symbol(rng, key):
    out = ''
    for i, c in enumerate(mixcase(rng, key)):
        if i and rng.random() < 0.4:
            out += ' ' * rng.randint(1, 2)
        out += c
    if rng.random() < 0.15:
        out = ' ' + out
    if rng.random() < 0.15:
        out = out + ' '
    return out


def cif_value(v):
    if v == '' or any(c.isspace() for c in v) or v[0] in "_#$'\"[];":
        assert "'" not in v
        return "'%s'" % v
    return v


def cif_text(doc):
    out = []
    for name, entries in doc:
        out.append('data_%s' % name)
        for e in entries:
            if e[0] == 'item':
                out.append('%s   %s' % (e[1], cif_value(e[2])))
            else:
                out.append('loop_')
                for t in e[1]:
                    out.append(' ' + t)
                for row in e[2]:
                    out.append('  ' + '  '.join(cif_value(v) for v in row))
        out.append('')
    return '\n'.join(out) + '\n'


def cif_tagmap(doc):
    """the harness' own serialisation of the generator's data: what a CIF reader hands over"""
    blocks = []
    for name, entries in doc:
        items = []
        for e in entries:
            if e[0] == 'item':
                items.append((e[1].lower(), 's', e[2]))
            else:
                for j, t in enumerate(e[1]):
                    items.append((t.lower(), 'l', [row[j] for row in e[2]]))
        blocks.append((name.lower(), items))
    return blocks


def cif_request(blocks, blkname):
    parts = ['cif', '-' if blkname is None else hx(blkname.lower()), str(len(blocks))]
    for name, items in blocks:
        parts += [hx(name), str(len(items))]
        for tag, kind, val in items:
            if kind == 's':
                parts += [hx(tag), 's', hx(val)]
            else:
                parts += [hx(tag), 'l', str(len(val))] + [hx(v) for v in val]
    return ' '.join(parts)


def gen_cif(rng, exotic=False):
    """returns truth dict (JSON-serialisable) with 'text', 'request' and the expected atomlist"""
    keys = sg_keys()
    key = rng.choice(keys)
    symbol = spaced_symbol(rng, key)
    p_esd = rng.choice([0.0, 0.5, 1.0])
    cell = [dec(rng, 3, 40, rng.choice([2, 3, 4])) for _ in range(3)] + \
           [rng.choice(['90', '90.00', '120', dec(rng, 60, 120, rng.choice([1, 2, 3]))]) for _ in range(3)]
    cell_file = [esd(rng, c, p_esd) if '.' in c else c for c in cell]
    nat = rng.randint(1, 12)
    adp_col = rng.random() < 0.8
    occ_col = rng.random() < 0.6
    multi_kind = rng.choice(['symmetry', 'symetry', 'absent', 'absent'])
    if exotic and rng.random() < 0.3:
        multi_kind = 'both'
    type_loop = rng.choice(['present', 'absent', 'partial'])
    atoms = []
    used = []
    spelling = {}
    for i in range(nat):
        el = rng.choice(ELEMS)
        if el not in spelling:
            # one spelling per element and file (an exotic file may spell the same element in two ways)
            spelling[el] = mixcase(rng, el) if rng.random() < 0.4 else el
        el_file = mixcase(rng, el) if exotic and rng.random() < 0.2 else spelling[el]
        label = '%s%d%s' % (el, i + 1, rng.choice(['', '', 'A', "'", '_b']))
        used.append(el_file)
        if multi_kind == 'absent':
            # decimal coordinates with at most 4 digits; partly special positions
            pos = []
            for _ in range(3):
                if rng.random() < 0.25:
                    pos.append(rng.choice(['0', '0.0', '0.25', '0.5', '0.75', '0.5000', '0.125', '1.0']))
                else:
                    pos.append(dec(rng, -0.2, 1.2, rng.choice([3, 4])))
            if rng.random() < 0.15:
                pos[1] = pos[0]
            pos_file = [esd(rng, c, p_esd) if len(c) > 3 else c for c in pos]
        else:
            pos = [dec(rng, -0.2, 1.2, rng.choice([3, 4, 5])) for _ in range(3)]
            pos_file = [esd(rng, fancy_number(rng, c), p_esd) for c in pos]
            pos = [pf.split('(')[0] for pf in pos_file]
        a = {'label': label, 'type_file': el_file, 'type': el_file.upper(), 'pos': pos, 'pos_file': pos_file}
        a['adp_kind'] = rng.choice(['Uiso', 'Uani', 'Biso', 'Bani']) if adp_col else None
        if a['adp_kind'] in ('Uiso', 'Biso'):
            v = dec(rng, 0.005, 0.09, 4) if a['adp_kind'] == 'Uiso' else dec(rng, 0.4, 7.0, 3)
            a['adp_file'] = esd(rng, v, p_esd)
            a['adp'] = v
        elif a['adp_kind'] in ('Uani', 'Bani'):
            vs = [dec(rng, 0.005, 0.09, 4) if a['adp_kind'] == 'Uani' else dec(rng, 0.4, 7.0, 3) for _ in range(3)] + \
                 [dec(rng, -0.02, 0.02, 4) if a['adp_kind'] == 'Uani' else dec(rng, -1.5, 1.5, 3) for _ in range(3)]
            a['adp_file'] = [esd(rng, v, p_esd) for v in vs]          # order 11 22 33 23 13 12
            a['adp'] = vs
        if occ_col:
            o = rng.choice(['1', '1.0', '0.5', dec(rng, 0.05, 1.0, 3)])
            a['occ_file'] = esd(rng, o, p_esd) if len(o) > 3 else o
            a['occ'] = o
            if exotic and rng.random() < 0.1:
                a['occ_file'], a['occ'] = '?', None
        else:
            a['occ'] = None
        if multi_kind != 'absent':
            a['multi'] = str(rng.choice([1, 2, 3, 4, 6, 8, 12, 16, 24, 48, 96, 192]))
            a['multi2'] = str(rng.choice([1, 2, 4, 8]))
        else:
            a['multi'] = None
        atoms.append(a)

    entries = []
    head = [('item', '_cell_length_a', cell_file[0]), ('item', '_cell_length_b', cell_file[1]), ('item', '_cell_length_c', cell_file[2]),
            ('item', '_cell_angle_alpha', cell_file[3]), ('item', '_cell_angle_beta', cell_file[4]), ('item', '_cell_angle_gamma', cell_file[5]),
            ('item', '_symmetry_space_group_name_H-M', symbol), ('item', '_chemical_name_common', 'generated by the C17 check'),
            ('item', '_cell_formula_units_Z', str(rng.randint(1, 8)))]
    rng.shuffle(head)
    entries += head
    # atom-type loop
    disp = {}
    if type_loop != 'absent':
        types = list(dict.fromkeys(used))
        if rng.random() < 0.3:
            types.append('Xe')
        rng.shuffle(types)
        rows = []
        for t in types:
            if type_loop == 'partial' and rng.random() < 0.5:
                re_, im_ = rng.choice(['?', '.']), rng.choice(['?', '.'])
                val = None
                if exotic and rng.random() < 0.3:
                    re_ = dec(rng, -1, 1, 4)
            else:
                re0, im0 = dec(rng, -2, 2, 4), dec(rng, 0, 5, 4)
                # exact zeros: the dispersion corrections of the light elements are tabulated as 0.0000 0.0000 (a stated zero is a value)
                u = rng.random()
                if u < 0.15:
                    re0 = im0 = rng.choice(['0.0000', '0.0', '0', '-0.0000'])
                    if re0.startswith('-'):
                        im0 = '0.0000'
                elif u < 0.22:
                    re0 = '0.0000'
                elif u < 0.29:
                    im0 = '0.0000'
                re_, im_ = esd(rng, re0, p_esd), esd(rng, im0, p_esd)
                val = [re0, im0]
            rows.append((t, re_, im_))
            disp[t.upper()] = val                    # later rows overwrite earlier ones with the same upper-cased symbol
        tags = ['_atom_type_symbol', '_atom_type_scat_dispersion_real', '_atom_type_scat_dispersion_imag']
        if exotic and rng.random() < 0.15:
            tags = tags[:2]                          # imag column missing -> every entry None
            rows = [r[:2] for r in rows]
            disp = {k: None for k in disp}
        perm = list(range(len(tags)))
        rng.shuffle(perm)
        entries.append(('loop', [tags[j] for j in perm], [[r[j] for j in perm] for r in rows]))
    else:
        for a in atoms:
            disp[a['type']] = None
    # atom-site loop
    cols = [('_atom_site_label', [a['label'] for a in atoms]), ('_atom_site_type_symbol', [a['type_file'] for a in atoms]),
            ('_atom_site_fract_x', [a['pos_file'][0] for a in atoms]), ('_atom_site_fract_y', [a['pos_file'][1] for a in atoms]),
            ('_atom_site_fract_z', [a['pos_file'][2] for a in atoms])]
    if adp_col:
        cols.append(('_atom_site_adp_type', [a['adp_kind'] for a in atoms]))
        if any(a['adp_kind'] == 'Uiso' for a in atoms) or rng.random() < 0.3:
            cols.append(('_atom_site_U_iso_or_equiv',
                         [a['adp_file'] if a['adp_kind'] == 'Uiso' else rng.choice(['.', '?', dec(rng, 0.01, 0.05, 4)]) for a in atoms]))
        if any(a['adp_kind'] == 'Biso' for a in atoms):
            cols.append(('_atom_site_B_iso_or_equiv', [a['adp_file'] if a['adp_kind'] == 'Biso' else rng.choice(['.', '?']) for a in atoms]))
    if occ_col:
        cols.append(('_atom_site_occupancy', [a['occ_file'] for a in atoms]))
    if multi_kind in ('symmetry', 'both'):
        cols.append(('_atom_site_symmetry_multiplicity', [a['multi'] for a in atoms]))
    if multi_kind == 'symetry':
        cols.append(('_atom_site_symetry_multiplicity', [a['multi'] for a in atoms]))
    if multi_kind == 'both':
        cols.append(('_atom_site_symetry_multiplicity', [a['multi2'] for a in atoms]))
    if rng.random() < 0.3:
        cols.append(('_atom_site_calc_flag', ['d'] * nat))
    rng.shuffle(cols)
    site_loop = ('loop', [c[0] for c in cols], [[c[1][i] for c in cols] for i in range(nat)])
    # aniso loop
    ani = [a for a in atoms if a['adp_kind'] in ('Uani', 'Bani')]
    ani_loop = None
    if ani:
        rng.shuffle(ani)
        kinds = set(a['adp_kind'] for a in ani)
        acols = [('_atom_site_aniso_label', [a['label'] for a in ani])]
        for kind, letter in (('Uani', 'U'), ('Bani', 'B')):
            if kind in kinds:
                for j, ij in enumerate(['11', '22', '33', '23', '13', '12']):
                    acols.append(('_atom_site_aniso_%s_%s' % (letter, ij),
                                  [a['adp_file'][j] if a['adp_kind'] == kind else rng.choice(['.', '?']) for a in ani]))
        first, rest = acols[0], acols[1:]
        rng.shuffle(rest)
        acols = [first] + rest if rng.random() < 0.7 else rest + [first]
        ani_loop = ('loop', [c[0] for c in acols], [[c[1][i] for c in acols] for i in range(len(ani))])
    loops = [site_loop] + ([ani_loop] if ani_loop else [])
    if rng.random() < 0.3:
        loops.reverse()
    entries += loops

    name = rng.choice(['oPPA', 'I', 'test_1', 'shelx', 'SiO2', 'a', 'Global_x'])
    doc = [(name, entries)]
    extra = rng.random() < 0.35
    if extra:
        g = ('global', [('item', '_journal_name_full', 'Acta Cryst.'), ('item', '_cell_length_a', '1.0')])
        doc = [g] + doc if rng.random() < 0.5 else doc + [g]
    blkname = name if rng.random() < 0.2 else None

    truth = {'kind': 'cif', 'blkname': blkname, 'cell': cell, 'sgname': ''.join(symbol.split()), 'sgkey': key,
             'dispersion': disp, 'expect_raise': None, 'atoms': [],
             'cov': {'natoms': nat, 'adp_col': adp_col, 'occ_col': occ_col, 'multi': multi_kind, 'type_loop': type_loop,
                     'global': extra, 'esd': p_esd, 'blkname': blkname is not None,
                     'adp_kinds': sorted(set(str(a['adp_kind']) for a in atoms))}}
    for a in atoms:
        k = a['adp_kind']
        truth['atoms'].append({'label': a['label'], 'type': a['type'], 'pos': a['pos'],
                               'adp_type': None if k is None else ('Uiso' if k in ('Uiso', 'Biso') else 'Uani'),
                               'adp': None if k is None else [k[0], a['adp']], 'occ': a['occ'], 'multi': a['multi']})
    if exotic:
        doc, blkname = make_exotic(rng, doc, name, truth)
        truth['blkname'] = blkname
    truth['text'] = cif_text(doc)
    truth['request'] = cif_request(cif_tagmap(doc), blkname)
    return truth


def make_exotic(rng, doc, name, truth):
    """ill-formed variants for the correspondence stream (both sides must raise the same exception)"""
    blkname = truth['blkname']
    idx = [i for i, (n_, _) in enumerate(doc) if n_ == name][0]
    entries = list(doc[idx][1])
    r = rng.random()
    truth['exotic'] = 'none'
    if r < 0.12:
        victims = [i for i, e in enumerate(entries) if e[0] == 'item' and (e[1].startswith('_cell_') or e[1].startswith('_symmetry'))]
        del entries[rng.choice(victims)]
        truth['exotic'] = 'missing item'
    elif r < 0.24:
        i = [i for i, e in enumerate(entries) if e[0] == 'loop' and '_atom_site_label' in e[1]][0]
        tags, rows = list(entries[i][1]), [list(rw) for rw in entries[i][2]]
        j = tags.index(rng.choice(['_atom_site_label', '_atom_site_fract_x', '_atom_site_fract_z']))
        if rng.random() < 0.5:
            del tags[j]
            rows = [rw[:j] + rw[j + 1:] for rw in rows]
            truth['exotic'] = 'missing column'
        else:
            j = tags.index('_atom_site_fract_y')
            rows[rng.randrange(len(rows))][j] = rng.choice(['?', '.', '0.1.2', 'abc', '1e', '--1', '0,5'])
            truth['exotic'] = 'malformed number'
        entries[i] = ('loop', tags, rows)
    elif r < 0.34:
        for i, e in enumerate(entries):
            if e[0] == 'loop' and '_atom_site_aniso_label' in e[1] and len(e[2]) >= 1:
                rows = [list(rw) for rw in e[2]]
                del rows[rng.randrange(len(rows))]
                if rows:
                    entries[i] = ('loop', e[1], rows)
                else:
                    del entries[i]
                truth['exotic'] = 'aniso row missing'
                break
    elif r < 0.46:
        for i, e in enumerate(entries):
            if e[0] == 'loop' and '_atom_site_adp_type' in e[1]:
                rows = [list(rw) for rw in e[2]]
                j = e[1].index('_atom_site_adp_type')
                rows[rng.randrange(len(rows))][j] = rng.choice(['Uovl', 'Umpe', 'uiso', '?'])
                entries[i] = ('loop', e[1], rows)
                truth['exotic'] = 'unknown adp type'
                break
    elif r < 0.56:
        other = ('second', [('item', '_cell_length_a', '2.0')])
        doc = doc + [other]
        truth['exotic'] = 'ambiguous blocks'
        if rng.random() < 0.3:
            blkname = name
            truth['exotic'] = 'explicit block among many'
    elif r < 0.62:
        blkname = 'nosuchblock'
        truth['exotic'] = 'unknown block name'
    elif r < 0.72:
        # a one-atom structure written without loop_: Python then indexes the strings character by character
        i = [i for i, e in enumerate(entries) if e[0] == 'loop' and '_atom_site_label' in e[1]][0]
        tags, row = entries[i][1], entries[i][2][0]
        entries[i:i + 1] = [('item', t, v) for t, v in zip(tags, row)]
        entries = [e for e in entries if not (e[0] == 'loop' and '_atom_site_aniso_label' in e[1])]
        truth['exotic'] = 'non-looped atom'
    doc = [(n_, entries if k == idx else e) for k, (n_, e) in enumerate(doc)]
    return doc, blkname


# PDB ---------------------------------------------------------------------------------------------

def pdb_table():
    import gen_pdbsym
    return gen_pdbsym.pdb_symbols()


def orth_matrix(cell):
    a, b, c, al, be, ga = cell
    ca, cb, cg = (math.cos(math.radians(x)) for x in (al, be, ga))
    sg_ = math.sin(math.radians(ga))
    v = math.sqrt(1 - ca * ca - cb * cb - cg * cg + 2 * ca * cb * cg)
    return np.array([[a, b * cg, c * cb], [0, b * sg_, c * (ca - cb * cg) / sg_], [0, 0, c * v / sg_]])


def frac_orbit_margin(pos, rot, trans):
    """(exact number of distinct images, smallest lattice distance between distinct images)"""
    imgs = set()
    fl = []
    for R, t in zip(rot, trans):
        p = tuple((sum(int(R[i][j]) * pos[j] for j in range(3)) + t[i]) % 1 for i in range(3))
        imgs.add(p)
        fl.append([float(x) for x in p])
    fl = np.array(fl)
    d = fl[:, None, :] - fl[None, :, :]
    d = np.abs(d - np.round(d)).sum(-1)
    d[d < 1e-9] = np.inf
    return len(imgs), float(d.min()) if len(fl) > 1 else float('inf')


def exact_trans(trans):
    return [[Fraction(float(x)).limit_denominator(24) for x in t] for t in trans]


def gen_pdb(rng, entry=None, natoms=None):
    import gens
    from xfab import sg
    table = pdb_table()
    no, spelling, _ = entry if entry is not None else rng.choice(table)
    group = sg.sg(sgno=no)
    cell, _ = gens.cell(rng, kind=rng.choice(['ortho', 'near', 'random']), dmin=0.1)
    # protein to virus-capsid sized cells: edges up to ~1000 A, volumes 10 .. 1e9 A^3 (a threshold on det(SCALE) = 1/V shows at the far end)
    big = [1, 1, 4, 4, 15, 40] if rng.random() < 0.35 else [1, 4]
    cell = [round(cell[0] * rng.choice(big), 3), round(cell[1] * rng.choice(big), 3), round(cell[2] * rng.choice(big), 3),
            round(cell[3], 2), round(cell[4], 2), round(cell[5], 2)]
    A = orth_matrix(cell)
    S = np.linalg.inv(A)
    shift = [0.0, 0.0, 0.0] if rng.random() < 0.7 else [round(rng.uniform(-0.5, 0.5), 5) for _ in range(3)]
    srow = ['%10.6f%10.6f%10.6f' % tuple(S[i]) for i in range(3)]
    utok = ['%10.5f' % shift[i] for i in range(3)]
    cell_tok = ['%9.3f' % cell[0], '%9.3f' % cell[1], '%9.3f' % cell[2], '%7.2f' % cell[3], '%7.2f' % cell[4], '%7.2f' % cell[5]]
    lines = ['HEADER    TEST STRUCTURE                          01-JAN-00   XXXX              ',
             'REMARK   2 RESOLUTION.    1.40 ANGSTROMS.                                       ']
    lines.append('CRYST1' + ''.join(cell_tok) + ' ' + '%-11s' % spelling + '%4d' % rng.randint(1, 96) + ' ' * 10)
    orig = ['ORIGX%d    %10.6f%10.6f%10.6f     %10.5f' % (i + 1, 1.0 * (i == 0), 1.0 * (i == 1), 1.0 * (i == 2), 0.0) for i in range(3)]
    scale = ['SCALE%d    %s     %s' % (i + 1, srow[i], utok[i]) + ' ' * 25 for i in range(3)]
    if rng.random() < 0.2:
        rng.shuffle(scale)
    lines += orig + scale
    Sx = [[Fraction(Decimal(srow[i][10 * j:10 * j + 10].strip())) for j in range(3)] + [Fraction(Decimal(utok[i].strip()))] for i in range(3)]
    rot, trans = group.rot, exact_trans(group.trans)
    atoms = []
    n_at = natoms or rng.randint(1, 12)
    serial = 0
    tries = 0
    while len(atoms) < n_at:
        tries += 1
        if tries > 2000:
            raise check.Infra('PDB generator could not place an atom on a general position')
        frac = [rng.uniform(0.03, 0.97) for _ in range(3)]
        xyz = A.dot(frac)
        xyz_tok = ['%8.3f' % v for v in xyz]
        if any(len(t) != 8 for t in xyz_tok):
            continue
        xv = [Fraction(Decimal(t.strip())) for t in xyz_tok]
        pos = [sum(Sx[i][j] * xv[j] for j in range(3)) + Sx[i][3] for i in range(3)]
        cnt, margin = frac_orbit_margin(pos, rot, trans)
        if cnt != group.nsymop or margin < 2e-3:
            continue
        serial += 1
        el = rng.choice(ELEMS)
        het = len(el) == 2 and rng.random() < 0.7
        name = ('%-4s' % el.upper()) if len(el) == 2 else ' %-3s' % (el + rng.choice(['', 'A', 'B', 'G1', 'XT']))
        el_file = el.upper() if rng.random() < 0.7 else el
        occ_tok = '%6.2f' % rng.choice([1.0, 1.0, 0.5, rng.uniform(0.1, 1.0)])
        b_tok = '%6.2f' % rng.uniform(1.0, 99.0)
        rec = 'HETATM' if het else 'ATOM  '
        line = '%s%5d %s%s%3s %s%4d%s   %s%s%s%s%s          %2s%s' % (
            rec, serial, name, rng.choice([' ', 'A']), rng.choice(['LYS', 'HOH', 'GLY', 'UNK']), 'A', rng.randint(1, 999), ' ',
            xyz_tok[0], xyz_tok[1], xyz_tok[2], occ_tok, b_tok, el_file, rng.choice(['  ', '2+', '']))
        assert line[30:38] == xyz_tok[0] and line[54:60] == occ_tok and line[60:66] == b_tok and line[76:78] == '%2s' % el_file, line
        lines.append(line)
        if rng.random() < 0.2:
            lines.append('ANISOU%5d %s %3s %s%4d  %7d%7d%7d%7d%7d%7d      %2s  ' % (serial, name, 'LYS', 'A', 1, 100, 200, 300, 1, 2, 3, el_file))
        atoms.append({'label': ''.join(name.split()), 'type': el.upper(), 'xyz': [t.strip() for t in xyz_tok], 'occ': occ_tok.strip(),
                      'B': b_tok.strip(), 'pos_exact': [[p.numerator, p.denominator] for p in pos]})
    lines += ['TER', 'END' + ' ' * 77]
    text = '\n'.join(lines) + '\n'
    return {'kind': 'pdb', 'text': text, 'no': no, 'spelling': spelling, 'nsymop': int(group.nsymop),
            'cell': [t.strip() for t in cell_tok], 'atoms': atoms,
            'cov': {'natoms': n_at, 'shift': any(shift), 'no': no}}


# ------------------------------------------------------------------------------------------------
# running the real code

class TmpDir:
    def __enter__(self):
        self.d = tempfile.mkdtemp(prefix='c17_')
        self.k = 0
        return self

    def __exit__(self, *a):
        shutil.rmtree(self.d, ignore_errors=True)

    def write(self, text, ext):
        # ONE working path per kind, rewritten for every file (a refinement loop rewrites its CIF in place): a reader that keeps parsed
        # files by path (and mtime / size) must still return what the file states NOW
        self.k += 1
        p = os.path.join(self.d, 'work.%s' % ext)
        with open(p, 'w', newline='') as fh:
            fh.write(text)
        return p


def read_file(tmp, text, kind, blkname=None):
    """('ok', atomlist) | ('raise', exception class name)"""
    from xfab import structure
    quiet()
    p = tmp.write(text, kind)
    try:
        bl = structure.build_atomlist()
        try:
            if kind == 'cif':
                bl.CIFread(ciffile=p, cifblkname=blkname)
            else:
                bl.PDBread(p)
        except Exception as e:
            nm = type(e).__name__
            return ('raise', EXC.get(nm, nm))
        return ('ok', bl.atomlist)
    finally:
        os.remove(p)


# ------------------------------------------------------------------------------------------------
# model output -> comparison

class Toks:
    def __init__(self, s):
        self.t = s.split(' ')
        self.i = 0

    def next(self):
        self.i += 1
        return self.t[self.i - 1]

    def s(self):
        return unhx(self.next())

    def lit(self, x):
        t = self.next()
        if t != x:
            raise check.Infra('model rendering: expected %r, got %r' % (x, t))


def parse_model(line):
    """('raise', name) | ('ok', dict)"""
    if line.startswith('raise:'):
        return ('raise', line[6:])
    if not line.startswith('ok '):
        raise check.Infra('model driver answered %r' % line[:200])
    t = Toks(line)
    t.lit('ok'); t.lit('C')
    cell = [t.s() for _ in range(int(t.next()))]
    t.lit('S')
    sgname = t.s()
    t.lit('D')
    disp = {}
    for _ in range(int(t.next())):
        k = t.s()
        if k in disp:
            raise check.Infra('duplicate dispersion key in the model rendering')
        if t.next() == 'N':
            disp[k] = None
        else:
            disp[k] = [t.s(), t.s()]
    t.lit('A')
    atoms = []
    for _ in range(int(t.next())):
        a = {'label': t.s(), 'atomtype': t.s()}
        if t.next() == 'F':
            a['pos'] = ('F', [t.s(), t.s(), t.s()])
        else:
            m = [[t.s() for _ in range(4)] for _ in range(3)]
            a['pos'] = ('M', m, [t.s(), t.s(), t.s()])
        x = t.next()
        a['adp_type'] = None if x == '-' else unhx(x)
        x = t.next()
        if x == 'Z':
            a['adp'] = ('Z',)
        elif x == 'I':
            b = t.next() == '1'
            a['adp'] = ('I', b, t.s())
        else:
            b = t.next() == '1'
            a['adp'] = ('A', b, [t.s() for _ in range(int(t.next()))])
        a['occ'] = None if t.next() == 'D' else t.s()
        a['multi'] = t.s() if t.next() == 'T' else None
        atoms.append(a)
    if t.i != len(t.t):
        raise check.Infra('model rendering has trailing tokens')
    return ('ok', {'cell': cell, 'sgname': sgname, 'disp': disp, 'atoms': atoms})


def same(a, b):
    """exact equality of floats / lists of floats (types included: int 4 == float 4.0 is accepted like Python's ==)"""
    try:
        return bool(np.array_equal(np.asarray(a, dtype=float), np.asarray(b, dtype=float)))
    except (TypeError, ValueError):
        return False


def compare(py, mo):
    """list of field names that differ between the atomlist read by the real code and the model's answer"""
    from xfab import structure
    if py[0] != mo[0]:
        return ['outcome: python %s, model %s' % (py[:2] if py[0] == 'raise' else 'ok', mo[:2] if mo[0] == 'raise' else 'ok')]
    if py[0] == 'raise':
        return [] if py[1] == mo[1] else ['exception: python %s, model %s' % (py[1], mo[1])]
    al, m = py[1], mo[1]
    bad = []
    if not same(al.cell, [float(x) for x in m['cell']]):
        bad.append('cell')
    if al.sgname != m['sgname']:
        bad.append('sgname')
    dm = {k: (None if v is None else [float(v[0]), float(v[1])]) for k, v in m['disp'].items()}
    if dict(al.dispersion) != dm:
        bad.append('dispersion')
    if len(al.atom) != len(m['atoms']):
        return bad + ['number of atoms']
    for i, (pa, ma) in enumerate(zip(al.atom, m['atoms'])):
        def b(f):
            bad.append('atom %d %s' % (i, f))
        if pa.label != ma['label']:
            b('label')
        if pa.atomtype != ma['atomtype']:
            b('atomtype')
        if ma['pos'][0] == 'F':
            mpos = [float(x) for x in ma['pos'][1]]
        else:
            sm = np.zeros((3, 4))
            for r in range(3):
                for c in range(4):
                    sm[r, c] = float(ma['pos'][1][r][c])
            mpos = np.dot(sm, [float(x) for x in ma['pos'][2]] + [1])
        if not same(pa.pos, mpos):
            b('pos')
        if pa.adp_type != ma['adp_type']:
            b('adp_type')
        ad = ma['adp']
        if ad[0] == 'Z':
            exp = 0.0
        elif ad[0] == 'I':
            exp = float(ad[2]) / EIGHT_PI2 if ad[1] else float(ad[2])
        else:
            exp = [float(x) / EIGHT_PI2 if ad[1] else float(x) for x in ad[2]]
        if np.ndim(pa.adp) != np.ndim(exp) or not same(pa.adp, exp):
            b('adp')
        if not same(pa.occ, 1.0 if ma['occ'] is None else float(ma['occ'])):
            b('occ')
        if ma['multi'] is not None:
            if not same(pa.symmulti, float(ma['multi'])):
                b('symmulti')
        else:
            if pa.symmulti != structure.multiplicity(mpos, m['sgname']):
                b('symmulti (computed)')
    return bad


def py_float_ok(s):
    try:
        float(s)
        return True
    except ValueError:
        return False


def probe_strings(rng, n):
    alpha = '0123456789012345.+-eE () \t'
    out = ['', ' ', '.', '1.', '.5', '+.5e-3', '1e5', '1e', 'e5', '1.2.3', '--1', '1.234(56)', '1.234(56', '(1)', '12(3)e2', ' 7.5 ', '\t1\n', '1 2',
           '0.5(1)(2)', '+', '-', '1e+', '1E-05', '- 1']
    for _ in range(n):
        out.append(''.join(rng.choice(alpha) for _ in range(rng.randint(1, 9))))
    for _ in range(n):
        s = dec(rng, -100, 100, rng.randint(0, 5))
        r = rng.random()
        out.append(s + '(%d)' % rng.randint(0, 999) if r < 0.5 else (' ' * rng.randint(0, 3) + s + ' ' * rng.randint(0, 2) if r < 0.7 else '%e' % float(s)))
    return out


def correspondence(ctx):
    from xfab import structure
    quiet()
    rng = ctx.rng
    n_cif = ctx.n(160, 4000)
    n_pdb = ctx.n(50, 1200)
    n_probe = ctx.n(150, 3000)
    reqs, checks_ = [], []
    stats = {'cif': 0, 'cif_exotic': 0, 'pdb': 0, 'probe_esd': 0, 'probe_float': 0, 'probe_sym': 0, 'py_raises': {}, 'exotic_kinds': {}}
    texts = set()
    with TmpDir() as tmp:
        for i in range(n_cif):
            exotic = i % 4 == 3
            t = gen_cif(rng, exotic=exotic)
            py = read_file(tmp, t['text'], 'cif', t['blkname'])
            reqs.append(t['request'])
            checks_.append(('cif', t, py))
            stats['cif_exotic' if exotic else 'cif'] += 1
            if exotic:
                stats['exotic_kinds'][t.get('exotic', 'none')] = stats['exotic_kinds'].get(t.get('exotic', 'none'), 0) + 1
            texts.add(t['text'])
        for i in range(n_pdb):
            t = gen_pdb(rng)
            lines = t['text'].splitlines(keepends=True)
            if i % 5 == 4:
                lines = mutate_pdb(rng, lines)
                t = dict(t, text=''.join(lines), mutated=True)
            py = read_file(tmp, t['text'], 'pdb')
            reqs.append('pdb %d %s' % (len(lines), ' '.join(hx(l) for l in lines)))
            checks_.append(('pdb', t, py))
            stats['pdb'] += 1
            texts.add(t['text'])
        # PDB symbol normalisation on all 230 spellings and on junk fields, through PDBread on a file without atoms
        fields = ['%-11s' % sp for _, sp, _ in pdb_table()]
        junk = ['P 1 1 1', '1 1', '1', 'P 1 1 21', 'X 9 9', 'p 21 21 21', 'P  21   21 2', 'H 3', 'R 3 :H', 'P 1 2 1 1', 'I 1 21 1', 'P 1-']
        for f in fields + ['%-11s' % j for j in junk]:
            line = 'CRYST1   10.000   10.000   10.000  90.00  90.00  90.00 ' + f + '   1\n'
            py = read_file(tmp, line, 'pdb')
            reqs.append('sym ' + hx(line[55:66]))
            checks_.append(('sym', f, py))
            stats['probe_sym'] += 1
    bl = structure.build_atomlist()
    for s in probe_strings(rng, n_probe):
        try:
            v = ('ok', bl.remove_esd(s))
        except ValueError:
            v = ('raise', 'ValueError')
        reqs.append('esd ' + hx(s))
        checks_.append(('esd', s, v))
        reqs.append('float ' + hx(s))
        checks_.append(('float', s, py_float_ok(s)))
        stats['probe_esd'] += 1
        stats['probe_float'] += 1
    answers = check.run_model_driver(DRIVER, reqs)
    dis = []
    for (kind, t, py), ans in zip(checks_, answers):
        if ans == 'bad':
            raise check.Infra('model driver rejected a %s request' % kind)
        if kind in ('cif', 'pdb'):
            if py[0] == 'raise':
                stats['py_raises'][py[1]] = stats['py_raises'].get(py[1], 0) + 1
            diff = compare(py, parse_model(ans))
            if diff:
                dis.append({'fn': 'CIFread' if kind == 'cif' else 'PDBread', 'text': t['text'], 'blkname': t.get('blkname'), 'differs': diff[:6],
                            'exotic': t.get('exotic')})
        elif kind == 'sym':
            got = unhx(ans.split(' ')[1])
            if py[0] != 'ok' or py[1].sgname != got:
                dis.append({'fn': 'PDBread symbol', 'field': t, 'python': py[1].sgname if py[0] == 'ok' else py[1], 'model': got})
        elif kind == 'esd':
            if ans.startswith('raise:'):
                mo = ('raise', ans[6:])
                ok = py == mo
            else:
                ok = py[0] == 'ok' and same(py[1], float(unhx(ans.split(' ')[1])))
            if not ok:
                dis.append({'fn': 'remove_esd', 'arg': t, 'python': list(py), 'model': ans})
        else:
            if (ans == 'ok 1') != py:
                dis.append({'fn': 'float acceptance', 'arg': t, 'python': py, 'model': ans})
    return {'cases': len(reqs), 'disagreements': dis, 'stats': stats,
            'samples': [{'fn': 'CIFread', 'text': checks_[0][1]['text'][:600]}], 'distinct_nontrivial': len(texts)}


def mutate_pdb(rng, lines):
    """ill-formed PDB variants: both sides must raise the same exception"""
    lines = list(lines)
    r = rng.random()
    if r < 0.2:
        lines = [l for l in lines if not l.startswith('CRYST1')]
    elif r < 0.4:
        i = rng.choice([k for k, l in enumerate(lines) if l.startswith('ATOM') or l.startswith('HETATM')])
        lines[i] = lines[i][:30] + rng.choice(['   abc  ', '        ', ' 1.2.3  ']) + lines[i][38:]
    elif r < 0.55:
        i = rng.choice([k for k, l in enumerate(lines) if l.startswith('SCALE')])
        lines[i] = rng.choice(['SCALE4', 'SCALE0', 'SCALE', 'SCALEX']) + lines[i][6:]
    elif r < 0.7:
        i = rng.choice([k for k, l in enumerate(lines) if l.startswith('SCALE')])
        lines[i] = lines[i].rstrip('\n').rstrip() + '   1.0   2.0\n'
    elif r < 0.85:
        i = [k for k, l in enumerate(lines) if l.startswith('CRYST1')][0]
        lines[i] = lines[i][:55] + '%-11s' % rng.choice(['P 7', 'H 3', 'P 1 1 1', 'Q 2 2 2']) + lines[i][66:]
    else:
        i = rng.choice([k for k, l in enumerate(lines) if l.startswith('ATOM') or l.startswith('HETATM')])
        lines[i] = lines[i][:rng.choice([40, 58, 62])] + '\n'
    return lines


# ------------------------------------------------------------------------------------------------
# oracle: the property on the real code

def close(a, b, rel=1e-14):
    return abs(a - b) <= rel * max(abs(a), abs(b), 1e-300)


def exact_multiplicity(pos_fr, sgname):
    from xfab import sg
    g = sg.sg(sgname=sgname)
    return frac_orbit_margin(pos_fr, g.rot, exact_trans(g.trans))[0]


def same_length_twin(truth):
    """a copy of a generated CIF case whose text has the same length and states another a axis (first digit of _cell_length_a
    changed); None when the value is not written plainly"""
    import re, copy
    m = re.search(r'(_cell_length_a[ \t]+)([0-9.]+)', truth['text'])
    a = truth['cell'][0]
    if not m or m.group(2) != a or not a[0].isdigit() or a[0] == '0':
        return None
    a2 = str(int(a[0]) % 9 + 1) + a[1:]
    t2 = copy.deepcopy(truth)
    t2['cell'] = [a2] + list(truth['cell'][1:])
    t2['text'] = truth['text'][:m.start(2)] + a2 + truth['text'][m.end(2):]
    assert len(t2['text']) == len(truth['text'])
    return t2


def check_cif(truth, tmp):
    """violations of the property for one generated CIF"""
    out = []

    def bad(what, obs, exp):
        out.append({'fn': 'build_atomlist.CIFread', 'kind': 'cif', 'what': what, 'text': truth['text'], 'blkname': truth['blkname'],
                    'truth': {k: truth[k] for k in ('kind', 'blkname', 'cell', 'sgname', 'sgkey', 'dispersion', 'atoms', 'text')},
                    'observed': obs, 'expected': exp, 'known_id': None})
    py = read_file(tmp, truth['text'], 'cif', truth['blkname'])
    if py[0] != 'ok':
        bad('reading a well-formed file raised', py[1], 'an atomlist')
        return out
    al = py[1]
    exp_cell = [float(Decimal(c)) for c in truth['cell']]
    if list(al.cell) != exp_cell:
        bad('cell', list(al.cell), exp_cell)
    if al.sgname != truth['sgname']:
        bad('space group symbol with white space removed', al.sgname, truth['sgname'])
    exp_d = {k: (None if v is None else [float(Decimal(v[0])), float(Decimal(v[1]))]) for k, v in truth['dispersion'].items()}
    if dict(al.dispersion) != exp_d:
        bad('dispersion', {k: v for k, v in al.dispersion.items()}, exp_d)
    if len(al.atom) != len(truth['atoms']):
        bad('number of atoms', len(al.atom), len(truth['atoms']))
        return out
    for i, (a, t) in enumerate(zip(al.atom, truth['atoms'])):
        if a.label != t['label']:
            bad('atom %d label' % i, a.label, t['label'])
        if a.atomtype != t['type']:
            bad('atom %d element' % i, a.atomtype, t['type'])
        ep = [float(Decimal(x)) for x in t['pos']]
        if list(a.pos) != ep:
            bad('atom %d fractional coordinates' % i, list(a.pos), ep)
        if a.adp_type != t['adp_type']:
            bad('atom %d adp type' % i, a.adp_type, t['adp_type'])
        if t['adp'] is None:
            if not (np.ndim(a.adp) == 0 and a.adp == 0.0):
                bad('atom %d adp (none stated)' % i, a.adp, 0.0)
        else:
            f = 1.0 / (8 * math.pi ** 2) if t['adp'][0] == 'B' else 1.0
            vals = t['adp'][1]
            if isinstance(vals, list):
                e = [float(Decimal(v)) * f for v in vals]
                if np.ndim(a.adp) != 1 or len(a.adp) != 6 or not all(close(x, y) for x, y in zip(a.adp, e)):
                    bad('atom %d anisotropic adp in the order 11 22 33 23 13 12' % i, list(np.ravel(a.adp)), e)
            else:
                e = float(Decimal(vals)) * f
                if np.ndim(a.adp) != 0 or not close(a.adp, e):
                    bad('atom %d isotropic adp' % i, a.adp, e)
        eo = 1.0 if t['occ'] is None else float(Decimal(t['occ']))
        if a.occ != eo:
            bad('atom %d occupancy' % i, a.occ, eo)
        if t['multi'] is not None:
            if a.symmulti != float(t['multi']):
                bad('atom %d multiplicity stated in the file' % i, a.symmulti, float(t['multi']))
        else:
            em = exact_multiplicity([Fraction(Decimal(x)) for x in t['pos']], truth['sgkey'])
            if a.symmulti != em:
                bad('atom %d computed multiplicity (exact orbit count)' % i, a.symmulti, em)
    return out


def check_pdb(truth, tmp):
    from xfab import sg
    out = []

    def bad(what, obs, exp):
        out.append({'fn': 'build_atomlist.PDBread', 'kind': 'pdb', 'what': what, 'text': truth['text'],
                    'truth': {k: truth[k] for k in ('kind', 'no', 'spelling', 'nsymop', 'cell', 'atoms', 'text')},
                    'observed': obs, 'expected': exp, 'known_id': None})
    py = read_file(tmp, truth['text'], 'pdb')
    if py[0] != 'ok':
        bad('reading a well-formed file raised', py[1], 'an atomlist')
        return out
    al = py[1]
    ec = [float(Decimal(c)) for c in truth['cell']]
    if list(al.cell) != ec:
        bad('cell', list(al.cell), ec)
    try:
        got_no = int(sg.sg(sgname=al.sgname).no)
    except Exception as e:
        got_no = '%s: %s' % (type(e).__name__, e)
    if got_no != truth['no']:
        bad('space group of the symbol %r read as %r' % (truth['spelling'], al.sgname), got_no, truth['no'])
    if len(al.atom) != len(truth['atoms']):
        bad('number of atoms', len(al.atom), len(truth['atoms']))
        return out
    types = {}
    for i, (a, t) in enumerate(zip(al.atom, truth['atoms'])):
        types[t['type']] = None
        if a.label != t['label']:
            bad('atom %d label' % i, a.label, t['label'])
        if a.atomtype != t['type']:
            bad('atom %d element' % i, a.atomtype, t['type'])
        ep = [float(Fraction(n_, d_)) for n_, d_ in t['pos_exact']]
        if len(a.pos) != 3 or any(abs(x - y) > 1e-12 for x, y in zip(a.pos, ep)):
            bad('atom %d fractional coordinates = SCALE . xyz' % i, list(a.pos), ep)
        eu = float(Decimal(t['B'])) / (8 * math.pi ** 2)
        if a.adp_type != 'Uiso' or not close(a.adp, eu):
            bad('atom %d U = B/(8 pi^2)' % i, [a.adp_type, a.adp], ['Uiso', eu])
        if a.occ != float(Decimal(t['occ'])):
            bad('atom %d occupancy' % i, a.occ, float(Decimal(t['occ'])))
        if a.symmulti != truth['nsymop'] and got_no == truth['no']:
            bad('atom %d multiplicity of a general position' % i, a.symmulti, truth['nsymop'])
    if dict(al.dispersion) != types:
        bad('dispersion (None for every element)', dict(al.dispersion), types)
    return out


def oracle(ctx, hints=()):
    quiet()
    rng = ctx.rng
    n_cif = ctx.n(250, 6000, boost=4000)
    n_pdb = ctx.n(40, 1500, boost=1000)
    viol, ev = [], 0
    cov = {'adp_kinds': {}, 'multi': {}, 'type_loop': {}, 'global': 0, 'esd': {}, 'occ_col': 0, 'blkname': 0, 'natoms': {}, 'cif_symbols': set(),
           'pdb_symbols': set(), 'pdb_shift': 0, 'pdb_atoms': 0, 'cif_atoms': 0}
    texts = set()
    with TmpDir() as tmp:
        for _ in range(n_cif):
            t = gen_cif(rng)
            viol += check_cif(t, tmp)
            ev += 1
            t2 = same_length_twin(t) if rng.random() < 0.3 else None
            if t2 is not None:
                # the same path rewritten at once with a text of the SAME length that states another cell
                viol += [dict(v, rewritten_in_place_after=t['text']) for v in check_cif(t2, tmp)]
                ev += 1
                cov['same_length_rewrites'] = cov.get('same_length_rewrites', 0) + 1
            texts.add(t['text'])
            c = t['cov']
            for k in c['adp_kinds']:
                cov['adp_kinds'][k] = cov['adp_kinds'].get(k, 0) + 1
            for f in ('multi', 'type_loop', 'esd', 'natoms'):
                cov[f][str(c[f])] = cov[f].get(str(c[f]), 0) + 1
            cov['global'] += c['global']
            cov['occ_col'] += c['occ_col']
            cov['blkname'] += c['blkname']
            cov['cif_symbols'].add(t['sgkey'])
            cov['cif_atoms'] += c['natoms']
        # every one of the 230 PDB spellings once, then random files
        table = pdb_table()
        for k in range(len(table) + n_pdb):
            t = gen_pdb(rng, entry=table[k] if k < len(table) else None, natoms=1 if k < len(table) else None)
            viol += check_pdb(t, tmp)
            ev += 1
            texts.add(t['text'])
            cov['pdb_symbols'].add(t['no'])
            cov['pdb_shift'] += t['cov']['shift']
            cov['pdb_atoms'] += t['cov']['natoms']
    cov['cif_symbols'] = len(cov['cif_symbols'])
    cov['pdb_symbols'] = len(cov['pdb_symbols'])
    return {'evaluations': ev, 'distinct_nontrivial': len(texts), 'violations': viol[:20], 'exhaustive': False,
            'samples': [{'pdb_spellings': ['P 31 2 1 -> 152', 'P 3 1 2 -> 149', 'P 1 -> 1', 'P 1 21/c 1 -> 14']}], 'stats': cov}


def replay(payload):
    quiet()
    v = payload.get('violation')
    if not v or 'truth' not in v:
        print('replay C17: no failing input stored:', payload.get('broken') or v)
        return 1
    with TmpDir() as tmp:
        if v.get('rewritten_in_place_after'):
            # the file that was at the same path just before (same length): read it first, as the stream did
            read_file(tmp, v['rewritten_in_place_after'], 'cif', v.get('blkname'))
        res = check_cif(v['truth'], tmp) if v['kind'] == 'cif' else check_pdb(v['truth'], tmp)
    print('replay C17 %s: %s' % (v['kind'], 'VIOLATION' if res else 'holds'))
    print('--- file ---')
    print(v['truth']['text'])
    for r in res[:5]:
        print('  %s: observed %r, expected %r' % (r['what'], r['observed'], r['expected']))
    return 1 if res else 0
