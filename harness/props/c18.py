"""C18 — reduce_cell returns the six parameters of a basis of the same lattice built from the shortest vectors.

Model (lean/XfabVerif/Model/Reduce.lean, driver lean/ReduceDriver.lean): exact selection of the three index vectors on a
rational metric.  numpy's argsort is not stable and `v`, `-v` always have the same length, so ties are unavoidable: the
model returns the canonical outcome (stable sort) AND the list of all outcomes some tie order produces
(`C18.selectFrom_mem_admissible`); the implementation corresponds to the model iff its answer is `a_to_cell(V)` for the
row-stacked `V` of ONE admissible outcome.  Only near-ties (distinct exact lengths closer than 1e-9 relative, where float
rounding decides) and inputs close to the two 1e-5 thresholds are skipped, and counted.

Oracle (independent of the model): volume, unimodular congruence of the metric tensors (integer search), lengths =
successive minima.  Known finding C18-ROWS: the vectors are stored as rows but `a_to_cell` reads columns.
"""
import math
import itertools
from fractions import Fraction
import numpy as np
import gens
import check

GEN = ['numeric']
LEAN_MODULES = ['XfabVerif.Proofs.C18', 'XfabVerif.Proofs.C18Basis']
# definitions the hand-written model mirrors (see harness/pins.py): a source change breaks the tie
PINS = ['xfab/tools.py:reduce_cell', 'xfab/laue.py:reduce_cell']
LEAN_DRIVER_MODULES = ['XfabVerif.Model.Reduce']
RULE = ("correspondence: rational metric tensors (denominators <= 16) of kinds reduced / unimodularly transformed / orthogonal / "
        "symmetric (cubic, hexagonal, fcc, bcc, tetragonal: many exact ties) / oblique integer bases / deliberate near-ties, "
        "uvw in {2,3,4} (mostly the default 3), both modules; the implementation's six numbers must equal a_to_cell(V) of one "
        "admissible outcome of the model to 1e-9; oracle: gens.cell kinds + reduced cells after a random unimodular change of "
        "basis + orthogonal/symmetric cells, restricted to cells whose successive minima are attained within |u|,|v|,|w| <= 2 "
        "(certified by an enumeration bounded with the inverse metric); non-trivial = the returned or the true reduced cell is "
        "not orthogonal; distinct = distinct cells")
ASSUMPTIONS = [
    "the sort, the two loops and the 1e-5 thresholds of reduce_cell are hand-modelled (not traced); the thresholds are modelled as "
    "exact tests and inputs within [1e-9, 1e-4] of them are skipped",
    "that the three selected vectors form a basis (det M = -1) is PROVED (Proofs/C18Basis.lean, Lemmas/Minkowski3.lean) under the "
    "hypothesis BallInBox = the search range contains every lattice vector shorter than the third selected one; the executable "
    "sufficient test Reduce.ballCheck certifies it per input (evidence: ball_certified); for inputs it does not certify, |det M| = 1 "
    "is computed by the model and the oracle",
    "IEEE rounding is not modelled: distinct lengths closer than 1e-9 relative are skipped (counted in stats)",
]
TRUSTED_EXTRA = ["hand model XfabVerif/Model/Reduce.lean of reduce_cell's selection, validated against the implementation on every run"]

KNOWN_ID = 'C18-ROWS'
WITNESS = [4.0, 5.0, 6.0, 90.0, 90.0, 60.0]
PINNED_TEST_CELL = [9.07599708738, 6.05007626616, 44.33571511, 97.838350766558762, 90.0, 90.0]


def _mods():
    from xfab import tools, laue
    return (('tools', tools), ('laue', laue))


# ------------------------------------------------------------------------------------------------
# small exact / float helpers (independent of xfab)

def box(uvw):
    """candidates in the code's enumeration order: arange(-uvw, uvw)^3"""
    r = np.arange(-uvw, uvw)
    return np.array(list(itertools.product(r, r, r)), dtype=np.int64)


def sym(g6):
    g00, g11, g22, g12, g02, g01 = g6
    return [[g00, g01, g02], [g01, g11, g12], [g02, g12, g22]]


def metric(c):
    a, b, cc, al, be, ga = (float(x) for x in c)
    ca, cb, cg = (math.cos(math.radians(x)) for x in (al, be, ga))
    return np.array([[a * a, a * b * cg, a * cc * cb], [a * b * cg, b * b, b * cc * ca], [a * cc * cb, b * cc * ca, cc * cc]])


def cell_from_gram(g):
    g = np.asarray(g, float)
    a, b, c = (math.sqrt(g[i, i]) for i in range(3))
    cl = lambda x: max(-1.0, min(1.0, x))
    return [a, b, c, math.degrees(math.acos(cl(g[1, 2] / (b * c)))), math.degrees(math.acos(cl(g[0, 2] / (a * c)))),
            math.degrees(math.acos(cl(g[0, 1] / (a * b))))]


def chol_upper(G):
    """upper triangular A with positive diagonal and AtA = G (what form_a_mat is, by C01)"""
    return np.linalg.cholesky(np.asarray(G, float)).T


def same_cell(r, e, rl=1e-9, ang=1e-8):
    r, e = [float(x) for x in r], [float(x) for x in e]
    if any(math.isnan(x) for x in r):
        return False
    return all(abs(r[i] - e[i]) <= rl * abs(e[i]) for i in range(3)) and all(abs(r[i] - e[i]) <= ang + rl * abs(e[i]) for i in range(3, 6))


def int_det(M):
    M = [[int(x) for x in row] for row in M]
    return (M[0][0] * (M[1][1] * M[2][2] - M[1][2] * M[2][1]) - M[0][1] * (M[1][0] * M[2][2] - M[1][2] * M[2][0])
            + M[0][2] * (M[1][0] * M[2][1] - M[1][1] * M[2][0]))


def admissible_float(G, cands, tie=1e-11, amb=1e-8):
    """all outcomes (v1, v2, v3) of the selection for any order of tied lengths; lengths within `tie` relative are tied,
    between `tie` and `amb` the order is decided by rounding -> ambiguous=True.  Independent of the Lean model
    (order-free formulation, float metric, exact integer cross products)."""
    G = np.asarray(G, float)
    Q = np.einsum('ni,ij,nj->n', cands, G, cands)
    ambiguous = False

    def argmins(mask):
        nonlocal ambiguous
        if not mask.any():
            return []
        qmin = Q[mask].min()
        tied = mask & (Q <= qmin * (1 + tie))
        if (mask & ~tied & (Q <= qmin * (1 + amb))).any():
            ambiguous = True
        return list(np.nonzero(tied)[0])
    out = []
    for i1 in argmins(np.any(cands != 0, axis=1)):
        v1 = cands[i1]
        for i2 in argmins(np.any(np.cross(cands, v1) != 0, axis=1)):
            v2 = cands[i2]
            kr = np.cross(v2, v1)
            for i3 in argmins(cands @ kr > 0):
                out.append((tuple(int(x) for x in v1), tuple(int(x) for x in v2), tuple(int(x) for x in cands[i3])))
    return out, ambiguous


def thresholds_clear(A, cands, outcomes, lo=1e-9, hi=1e-4):
    """every value the code compares with 1e-5 (for the admissible first / second vectors) is < lo or > hi"""
    X = cands @ A.T                     # Cartesian candidates as rows
    seen1, seen2 = set(), set()
    for v1, v2, _ in outcomes:
        if v1 not in seen1:
            seen1.add(v1)
            s = np.abs(np.cross(X, A @ np.array(v1))).sum(axis=1)
            if ((s >= lo) & (s <= hi)).any():
                return False
        if (v1, v2) not in seen2:
            seen2.add((v1, v2))
            kr = np.cross(A @ np.array(v2), A @ np.array(v1))
            d = X @ kr / np.linalg.norm(kr)
            if ((d >= lo) & (d <= hi)).any():
                return False
    return True


_BOX6 = None


def congruent(G, Gr, tol=1e-8, m=6):
    """integer P, |entries| <= m, det P = +-1, P G Pt = Gr (entrywise, relative to the diagonal of Gr); returns P or None"""
    global _BOX6
    if _BOX6 is None or _BOX6[0] != m:
        r = np.arange(-m, m + 1)
        _BOX6 = (m, np.array(list(itertools.product(r, r, r)), dtype=np.int64))
    B = _BOX6[1]
    G, Gr = np.asarray(G, float), np.asarray(Gr, float)
    if not np.all(np.isfinite(Gr)) or min(Gr[0, 0], Gr[1, 1], Gr[2, 2]) <= 0:
        return None
    Q = np.einsum('ni,ij,nj->n', B, G, B)
    cand = [B[np.abs(Q - Gr[i, i]) <= tol * Gr[i, i]] for i in range(3)]
    if any(len(c) == 0 for c in cand):
        return None
    s01, s02, s12 = (math.sqrt(Gr[i, i] * Gr[j, j]) for i, j in ((0, 1), (0, 2), (1, 2)))
    for p0 in cand[0]:
        g0 = G @ p0
        c1 = cand[1][np.abs(cand[1] @ g0 - Gr[0, 1]) <= tol * s01]
        if len(c1) == 0:
            continue
        c2 = cand[2][np.abs(cand[2] @ g0 - Gr[0, 2]) <= tol * s02]
        for p1 in c1:
            g1 = G @ p1
            for p2 in c2[np.abs(c2 @ g1 - Gr[1, 2]) <= tol * s12]:
                P = [list(map(int, p0)), list(map(int, p1)), list(map(int, p2))]
                if abs(int_det(P)) == 1:
                    return P
    return None


# ------------------------------------------------------------------------------------------------
# generators

def _posdef(g6):
    G = sym(g6)
    p1 = G[0][0]
    p2 = G[0][0] * G[1][1] - G[0][1] ** 2
    p3 = (G[0][0] * (G[1][1] * G[2][2] - G[1][2] ** 2) - G[0][1] * (G[0][1] * G[2][2] - G[1][2] * G[0][2])
          + G[0][2] * (G[0][1] * G[1][2] - G[1][1] * G[0][2]))
    return p1 > 0 and p2 > 0 and p3 > 0


def _gramd(g6):
    g00, g11, g22, g12, g02, g01 = (float(x) for x in g6)
    x, y, z = g12 / math.sqrt(g11 * g22), g02 / math.sqrt(g00 * g22), g01 / math.sqrt(g00 * g11)
    return 1 - x * x - y * y - z * z + 2 * x * y * z


def unimodular(rng, maxabs=2):
    """(P, R) integer, R = P^-1, |entries of R| <= maxabs: the old basis vectors are within the search range of the new basis"""
    while True:
        R = np.eye(3, dtype=np.int64)
        for _ in range(rng.randint(1, 4)):
            i, j = rng.sample(range(3), 2)
            E = np.eye(3, dtype=np.int64)
            E[i, j] = rng.choice([-2, -1, 1, 2])
            R = R @ E
        perm = rng.sample(range(3), 3)
        S = np.zeros((3, 3), dtype=np.int64)
        for i in range(3):
            S[i, perm[i]] = rng.choice([-1, 1])
        R = R @ S
        if np.abs(R).max() <= maxabs:
            P = np.rint(np.linalg.inv(R)).astype(np.int64)
            if (P @ R == np.eye(3, dtype=np.int64)).all():
                return P, R


def congr(g6, P):
    G = sym(g6)
    P = [[int(x) for x in row] for row in P]
    H = [[sum(P[i][k] * G[k][l] * P[j][l] for k in range(3) for l in range(3)) for j in range(3)] for i in range(3)]
    return (H[0][0], H[1][1], H[2][2], H[1][2], H[0][2], H[0][1])


def reduced_metric(rng):
    """rational (denominator 16) metric of a basis that is already short: |g_ij| <= 0.42 min(g_ii, g_jj)"""
    while True:
        d = [Fraction(rng.randint(80, 9000), 16) for _ in range(3)]
        off = []
        for i, j in ((1, 2), (0, 2), (0, 1)):
            lim = int(0.42 * 16 * min(d[i], d[j]))
            off.append(Fraction(rng.randint(-lim, lim), 16))
        g6 = (d[0], d[1], d[2], off[0], off[1], off[2])
        if _posdef(g6) and _gramd(g6) > 0.05:
            return g6


def symmetric_metric(rng):
    s = Fraction(rng.randint(40, 800), 8)
    t = Fraction(rng.randint(40, 800), 8)
    k = rng.choice(['cubic', 'hex', 'fcc', 'bcc', 'tetra', 'rhomb'])
    if k == 'cubic':
        return (s, s, s, 0, 0, 0), k
    if k == 'tetra':
        return (s, s, t, 0, 0, 0), k
    if k == 'hex':
        return (s, s, t, 0, 0, -s / 2), k
    if k == 'fcc':
        return (2 * s, 2 * s, 2 * s, s, s, s), k
    if k == 'bcc':
        return (3 * s, 3 * s, 3 * s, -s, -s, -s), k
    c = Fraction(rng.randint(-7, 7), 16) * s
    return (s, s, s, c, c, c), k


def rational_metric(rng, kind=None):
    kind = kind or rng.choice(['reduced', 'reduced', 'transformed', 'transformed', 'ortho', 'symmetric', 'oblique', 'neartie'])
    if kind == 'reduced':
        return reduced_metric(rng), kind
    if kind == 'transformed':
        g6 = reduced_metric(rng) if rng.random() < 0.8 else symmetric_metric(rng)[0]
        P, _ = unimodular(rng)
        return congr(g6, P), kind
    if kind == 'ortho':
        d = [Fraction(rng.randint(80, 9000), 16) for _ in range(3)]
        return (d[0], d[1], d[2], Fraction(0), Fraction(0), Fraction(0)), kind
    if kind == 'symmetric':
        g6, k = symmetric_metric(rng)
        return g6, 'symmetric:' + k
    if kind == 'neartie':
        g6 = list(reduced_metric(rng))
        g6[1] = g6[0] * (1 + Fraction(1, 10 ** rng.choice([10, 11, 12, 13])))
        g6 = tuple(g6)
        if _posdef(g6):
            return g6, kind
        return rational_metric(rng, 'reduced')
    while True:   # oblique: Gram matrix of a random half-integer basis
        Bm = [[Fraction(rng.randint(-14, 14), 2) for _ in range(3)] for _ in range(3)]
        g = [[sum(Bm[k][i] * Bm[k][j] for k in range(3)) for j in range(3)] for i in range(3)]
        g6 = (g[0][0], g[1][1], g[2][2], g[1][2], g[0][2], g[0][1])
        if _posdef(g6) and _gramd(g6) > 0.02 and min(g6[:3]) >= 4:
            return g6, 'oblique'


def cell_of_metric(g6):
    return cell_from_gram(np.array(sym([float(x) for x in g6])))


def near_tie(g6, uvw, rel=1e-9):
    """exact: two DISTINCT squared lengths among the candidates closer than `rel` relative"""
    den = 1
    for x in g6:
        den = den * Fraction(x).denominator // math.gcd(den, Fraction(x).denominator)
    gi = [int(Fraction(x) * den) for x in g6]
    G = sym(gi)
    qs = set()
    r = range(-uvw, uvw)
    for v in itertools.product(r, r, r):
        q = sum(v[i] * G[i][j] * v[j] for i in range(3) for j in range(3))
        qs.add(q)
    qs = sorted(qs)
    # compare exactly: (q2 - q1) < rel * q1  with rel = 1/10^9
    k = int(round(1 / rel))
    return any(0 < (b - a) * k < a for a, b in zip(qs, qs[1:]) if a > 0)


def fr(x):
    x = Fraction(x)
    return '%d/%d' % (x.numerator, x.denominator)


# ------------------------------------------------------------------------------------------------
# correspondence

def parse_sel(s):
    return tuple(tuple(int(x) for x in v.split(',')) for v in s.split(';'))


def parse_line(line):
    if not line.startswith('ok '):
        return None
    d = dict(kv.split('=', 1) for kv in line[3:].split())
    return {'sel': parse_sel(d['sel']), 'det': int(d['det']), 'ball': d.get('ball') == 'true', 'true': [Fraction(x) for x in d['true'].split(',')],
            'coded': [Fraction(x) for x in d['coded'].split(',')], 'adm': [parse_sel(s) for s in d['adm'].split('|')]}


def correspondence(ctx):
    n = ctx.n(40, 2000)
    cases, lines = [], []
    kinds = {}
    for i in range(n):
        g6, kind = rational_metric(ctx.rng)
        uvw = 3 if ctx.rng.random() < 0.85 else ctx.rng.choice([2, 4])
        cases.append((g6, kind, uvw))
        kinds[kind.split(':')[0]] = kinds.get(kind.split(':')[0], 0) + 1
        lines.append('%d %s' % (uvw, ' '.join(fr(x) for x in g6)))
    outs = check.run_model_driver('ReduceDriver.lean', lines)
    dis, ncase, nontriv = [], 0, 0
    stats = {'kinds': kinds, 'near_tie_skipped': 0, 'threshold_skipped': 0, 'matched_canonical': 0, 'matched_other_tie_order': 0,
             'exact_ties_beyond_sign': 0, 'max_admissible': 0, 'det_not_unit': 0, 'ball_certified': 0}
    sample = None
    for (g6, kind, uvw), line in zip(cases, outs):
        cell = cell_of_metric(g6)
        mo = parse_line(line)
        if mo is None:
            dis.append({'fn': 'Reduce.select', 'metric': [fr(x) for x in g6], 'uvw': uvw, 'model': line, 'py': 'valid cell'})
            continue
        if near_tie(g6, uvw):
            stats['near_tie_skipped'] += 1
            continue
        Gf = np.array(sym([float(x) for x in g6]))
        cands = box(uvw)
        if not thresholds_clear(chol_upper(Gf), cands, mo['adm']):
            stats['threshold_skipped'] += 1
            continue
        stats['max_admissible'] = max(stats['max_admissible'], len(mo['adm']))
        if len(mo['adm']) > 4:
            stats['exact_ties_beyond_sign'] += 1
        if abs(mo['det']) != 1:
            stats['det_not_unit'] += 1
        if mo['ball']:
            # C18.admissible_unimodular_of_check: every admissible outcome then has det M = -1 (theorem observed on the model)
            stats['ball_certified'] += 1
            for sel in mo['adm']:
                if int_det(sel) != -1:
                    dis.append({'fn': 'Reduce.ballCheck', 'metric': [fr(x) for x in g6], 'uvw': uvw,
                                'model': 'ballCheck = true', 'py': 'admissible outcome %s has det %d' % (sel, int_det(sel))})
        # internal consistency of the model's exact Gram outputs with the traced a_to_cell / form_a_mat
        Mc = np.array(mo['sel'], dtype=float)
        tg = Mc @ Gf @ Mc.T
        tm = [float(x) for x in mo['true']]
        if not np.allclose([tg[0, 0], tg[1, 1], tg[2, 2], tg[1, 2], tg[0, 2], tg[0, 1]], tm, rtol=1e-9, atol=1e-9 * tg.max()):
            dis.append({'fn': 'Reduce.trueGram', 'metric': [fr(x) for x in g6], 'uvw': uvw, 'model': tm, 'py': tg.tolist()})
        for mn, m in _mods():
            ncase += 1
            A = m.form_a_mat(cell)
            r = [float(x) for x in m.reduce_cell(cell, uvw)]
            hit = None
            for k, sel in enumerate(mo['adm']):
                V = np.array(sel, dtype=float) @ A.T          # rows = selected lattice vectors, as red_a_mat
                if same_cell(r, m.a_to_cell(V)):
                    hit = k
                    break
            if hit is None:
                dis.append({'fn': '%s.reduce_cell' % mn, 'cell': cell, 'metric': [fr(x) for x in g6], 'uvw': uvw, 'py': r,
                            'model_canonical': mo['sel'], 'model_admissible': mo['adm'][:8]})
                continue
            if mo['adm'][hit] == mo['sel'] or same_cell(r, m.a_to_cell(np.array(mo['sel'], dtype=float) @ A.T)):
                stats['matched_canonical'] += 1
            else:
                stats['matched_other_tie_order'] += 1
            # the model's exact `coded` cell (canonical outcome) against a_to_cell(V_canonical)
            e = m.a_to_cell(np.array(mo['sel'], dtype=float) @ A.T)
            cd = [float(x) for x in mo['coded']]
            ex = [e[0] ** 2, e[1] ** 2, e[2] ** 2] + [math.copysign(math.cos(math.radians(t)) ** 2, math.cos(math.radians(t))) for t in e[3:]]
            if not (all(abs(cd[i] - ex[i]) <= 1e-9 * ex[i] for i in range(3)) and all(abs(cd[i] - ex[i]) <= 1e-9 for i in range(3, 6))):
                dis.append({'fn': 'Reduce.coded(%s)' % mn, 'cell': cell, 'metric': [fr(x) for x in g6], 'uvw': uvw, 'model': cd, 'py': ex})
        if any(x != 0 for x in mo['coded'][3:]):
            nontriv += 1
        sample = sample or {'fn': 'reduce_cell', 'cell': cell, 'uvw': uvw, 'model': line[:200]}
    return {'cases': ncase, 'disagreements': dis, 'stats': stats, 'samples': [sample], 'distinct_nontrivial': nontriv}


# ------------------------------------------------------------------------------------------------
# oracle

def minima_in_range(G, outcomes, maxbound=12):
    """True iff the successive minima of the whole lattice are attained within |u|,|v|,|w| <= 2 (the property's quantifier).
    Every lattice vector with Q <= q3 has |u_i| <= sqrt(q3 (G^-1)_ii): enumerate that box.  None: cannot certify."""
    G = np.asarray(G, float)
    q3 = max(np.array(v) @ G @ np.array(v) for v in outcomes[0])
    Gi = np.linalg.inv(G)
    bnd = [int(math.floor(math.sqrt(q3 * (1 + 1e-8) * Gi[i, i]) + 1e-9)) for i in range(3)]
    if max(bnd) > maxbound:
        return None
    big = np.array(list(itertools.product(*[range(-b, b + 1) for b in bnd])), dtype=np.int64)
    small = np.array(list(itertools.product(range(-2, 3), repeat=3)), dtype=np.int64)
    ob, amb1 = admissible_float(G, big)
    os_, amb2 = admissible_float(G, small)
    if amb1 or amb2 or not ob or not os_:
        return None
    qb = [np.array(v) @ G @ np.array(v) for v in ob[0]]
    qs = [np.array(v) @ G @ np.array(v) for v in os_[0]]
    return bool(np.allclose(qb, qs, rtol=1e-9))


def check_cell(mn, m, cell, stats=None):
    """(status, violation-or-None); status in holds / known / new / skip:<reason>"""
    cell = [float(x) for x in cell]
    G = metric(cell)
    cands = box(3)
    outcomes, amb = admissible_float(G, cands)
    if amb:
        return 'skip:near_tie', None
    if not outcomes:
        return 'skip:no_selection', None
    A = chol_upper(G)
    if not thresholds_clear(A, cands, outcomes):
        return 'skip:threshold', None
    inr = minima_in_range(G, outcomes)
    if inr is None:
        return 'skip:range_not_certified', None
    if not inr:
        return 'skip:out_of_range', None
    r = [float(x) for x in m.reduce_cell(cell)]

    def viol(what, expected, kid):
        return {'fn': '%s.reduce_cell:%s' % (mn, what), 'cell': cell, 'observed': r, 'expected': expected, 'known_id': kid}
    if any(math.isnan(x) or math.isinf(x) for x in r) or min(r[:3]) <= 0:
        return 'new', viol('not-a-cell', 'six finite cell parameters', None)
    V0 = math.sqrt(np.linalg.det(G))
    Gr = metric(r)
    Vr = math.sqrt(max(np.linalg.det(Gr), 0.0))
    if abs(Vr - V0) > 1e-9 * V0:
        return 'new', viol('volume', {'volume': V0, 'observed_volume': Vr}, None)
    qmin = sorted(float(np.array(v) @ G @ np.array(v)) for v in outcomes[0])
    P = congruent(G, Gr)
    lengths_ok = np.allclose(sorted(x * x for x in r[:3]), qmin, rtol=1e-8)
    if P is not None and lengths_ok:
        if stats is not None and any(abs(x - 90.0) > 1e-7 for x in r[3:]):
            stats['holds_nonorthogonal'] = stats.get('holds_nonorthogonal', 0) + 1
        return 'holds', None
    # defect model C18-ROWS: returned == a_to_cell(V) for the row-stacked selected vectors V (what the code does),
    # V is a unimodular integer combination, and a_to_cell(V^T) (the intended call) does satisfy the property
    for sel in outcomes:
        M = np.array(sel, dtype=float)
        V = M @ A.T
        if not same_cell(r, cell_from_gram(V.T @ V)):
            continue
        intended = V @ V.T                      # = M G M^T, Gram matrix of the selected vectors
        if abs(int_det(sel)) != 1:
            return 'new', viol('selected-vectors-not-a-basis', {'selected': sel, 'det': int_det(sel)}, None)
        ok = (abs(math.sqrt(np.linalg.det(intended)) - V0) <= 1e-9 * V0 and congruent(G, intended) is not None
              and np.allclose(sorted(np.diag(intended)), qmin, rtol=1e-8))
        if ok:
            return 'known', viol('rows-as-columns',
                                 {'intended_cell': cell_from_gram(intended), 'selected_rows': [list(v) for v in sel],
                                  'same_lattice_matrix_found': P is not None, 'lengths_are_minima': bool(lengths_ok)}, KNOWN_ID)
        return 'new', viol('selection', {'selected': sel, 'minima_sq': qmin}, None)
    return 'new', viol('selection-or-metric', {'admissible_selections': [list(map(list, s)) for s in outcomes[:4]],
                                               'minima_sq': qmin, 'same_lattice_matrix_found': P is not None}, None)


def oracle_cells(rng, n):
    for c, kind in _oracle_cells(rng, n):
        if rng.random() < 0.18:
            # lattices of other sizes (a reciprocal cell handed to reduce_cell has edges of 0.01-0.5; a super-structure 100-1000): the
            # code's own 1e-5 thresholds are ABSOLUTE, on the cross product and on the height -- cells are kept where those are clear
            # by a factor of 3 in the reviewed code, so that only a change of what the thresholds are applied to shows
            f = 10.0 ** rng.choice([rng.uniform(-2.6, -1.3), rng.uniform(1.0, 2.0)])
            if rng.random() < 0.5:
                f = rng.uniform(0.0125, 0.03) / min(float(x) for x in c[:3])     # shortest edge 0.0125 .. 0.03: volume around 1e-5
            c2 = [float(x) * f for x in c[:3]] + [float(x) for x in c[3:]]
            if min(c2[:3]) ** 2 * 0.2 > 3e-5:          # |v x w| >= ab sin(gamma) ~ 0.2 * min^2 = 3 x the threshold 1e-5
                yield c2, kind + ':scaled'
                continue
        yield c, kind


def _oracle_cells(rng, n):
    for i in range(n):
        k = rng.choice(['gens', 'gens', 'transformed', 'transformed', 'ortho', 'symmetric', 'reduced', 'special'])
        if k == 'special':
            # exact special angles (every multiple of 15 degrees) and rhombohedral axes
            c, kind = gens.cell(rng, rng.choice(['special', 'special', 'rhombo']))
            yield c, 'gens:' + kind
        elif k == 'gens':
            c, kind = gens.cell(rng)
            yield c, 'gens:' + kind
        elif k == 'ortho':
            c, kind = gens.cell(rng, 'ortho')
            yield c, 'ortho'
        elif k == 'reduced':
            yield cell_of_metric(reduced_metric(rng)), 'reduced'
        elif k == 'symmetric':
            g6, kk = symmetric_metric(rng)
            yield cell_of_metric(g6), 'symmetric:' + kk
        else:
            if rng.random() < 0.5:
                g6 = reduced_metric(rng)
            else:   # a float cell that is already short, then transformed (irrational data)
                while True:
                    a, b, c = (rng.uniform(3.0, 20.0) for _ in range(3))
                    al, be, ga = (rng.uniform(75, 105) for _ in range(3))
                    if gens.gram_d(al, be, ga) > 0.3:
                        break
                Gm = metric([a, b, c, al, be, ga])
                g6 = (Gm[0, 0], Gm[1, 1], Gm[2, 2], Gm[1, 2], Gm[0, 2], Gm[0, 1])
            P, _ = unimodular(rng)
            Gm = np.array(sym([float(x) for x in g6]))
            yield cell_from_gram(P.astype(float) @ Gm @ P.T.astype(float)), 'transformed'


def oracle(ctx, hints=()):
    n = ctx.n(120, 3000, boost=1500)
    viol, evals, nontriv = [], 0, 0
    stats = {'kinds': {}, 'status': {}, 'violations_by_kind': {}}
    seen = set()
    sample = None
    cells = [(WITNESS, 'witness'), (PINNED_TEST_CELL, 'pinned-test')] + list(oracle_cells(ctx.rng, n))
    for c, kind in cells:
        k0 = kind.split(':')[0]
        stats['kinds'][k0] = stats['kinds'].get(k0, 0) + 1
        key = tuple(round(float(x), 9) for x in c)
        # a third of the cells are first reduced with another search range: the answer for the default range must not depend on it
        pre = ctx.rng.choice([1, 2, 5]) if ctx.rng.random() < 0.34 else None
        for mn, m in _mods():
            if pre is not None:
                try:
                    m.reduce_cell([float(x) for x in c], pre)
                except Exception:
                    pass
                stats['preceded_by_other_uvw'] = stats.get('preceded_by_other_uvw', 0) + 1
            st, v = check_cell(mn, m, c, stats)
            if v is not None and pre is not None:
                v['preceded_by'] = {'call': 'reduce_cell(cell, uvw=%d)' % pre, 'uvw': pre}
            stats['status'][st] = stats['status'].get(st, 0) + 1
            if st.startswith('skip'):
                continue
            evals += 1
            if v is not None:
                kk = '%s' % (v['known_id'] or 'NEW:' + v['fn'].split(':')[1])
                stats['violations_by_kind'][kk] = stats['violations_by_kind'].get(kk, 0) + 1
                if v['known_id'] is None or stats['violations_by_kind'][kk] <= 3:
                    viol.append(v)
            if mn == 'tools' and key not in seen:
                seen.add(key)
                if st == 'known' or (st == 'holds' and any(abs(float(x) - 90.0) > 1e-7 for x in c[3:])):
                    nontriv += 1
            sample = sample or {'fn': 'reduce_cell', 'cell': [float(x) for x in c], 'status': st}
        if sum(1 for v in viol if v['known_id'] is None) > 20:
            break
    return {'evaluations': evals, 'distinct_nontrivial': nontriv, 'violations': viol, 'samples': [sample], 'stats': stats,
            'exhaustive': False}


def check_known(finding):
    w = finding.get('witness', {})
    cell = w.get('cell', WITNESS)
    mods = dict(_mods())
    mn = w.get('module', 'tools')
    st, v = check_cell(mn, mods[mn], cell)
    if st == 'known' and v is not None and v.get('known_id') == finding.get('id'):
        return v
    return None


def replay(payload):
    v = payload.get('violation')
    if not v:
        print('replay: broken obligation, no input stored:', payload.get('broken'))
        return 1
    mn = 'tools' if v['fn'].startswith('tools') else 'laue'
    if v.get('preceded_by'):
        try:
            dict(_mods())[mn].reduce_cell([float(x) for x in v['cell']], v['preceded_by']['uvw'])
        except Exception:
            pass
    st, res = check_cell(mn, dict(_mods())[mn], v['cell'])
    print('replay C18 %s.reduce_cell(%s) -> %s' % (mn, v['cell'], st))
    if res is not None:
        print('  observed:', res['observed'])
        print('  expected:', res['expected'], ' known_id:', res['known_id'])
    return 1 if st in ('new', 'known') else 0
