"""C19 — parameter sets survive save/load and stay consistent under any call sequence (xfab/parameters.py).

correspondence: random histories of API calls run on the real `xfab.parameters.parameters` object and on the Lean
                hand model (lean/ParamsDriver.lean); every answer (ok / raise:X / observation) is compared.  Plus the
                string -> number recogniser alone (`classify`) on fuzzed strings against the real `dumbtypecheck`.
oracle:         the property itself on the real code against a plain Python dict written here (never through Lean):
                save/load round trip, coercion on load, last-write-wins under random histories, varied-list order.
"""
import os, re, json, struct, shutil, tempfile, logging
import check

GEN = []
LEAN_MODULES = ['XfabVerif.Proofs.C19']
# definitions the hand-written model mirrors (see harness/pins.py): a source change breaks the tie
PINS = ['xfab/parameters.py:par', 'xfab/parameters.py:parameters', 'xfab/parameters.py:read_par_file']
LEAN_DRIVER_MODULES = ['XfabVerif.Model.Params']
AUDIT_FILES = ['XfabVerif/Model/Params.lean', 'ParamsDriver.lean']
DRIVER = 'ParamsDriver.lean'
RULE = ("histories of <= 30 calls (addpar, set, set_parameters, set_varylist, set_variable_values, update_other, update_yourself, "
        "loadparameters, save+load) interleaved with observations; names from a pool of 17 (hyphen, blank, tab, CR, LF, empty "
        "included); values: ints up to 10^400, floats incl. subnormals/inf/nan/-0.0/random bit patterns, strings from a list of "
        "numeric-looking literals plus fuzz over the alphabet of the float grammar; a history is non-trivial when it contains a "
        "coercing call (set_parameters/load/reload); distinct = distinct encoded histories")
ASSUMPTIONS = [
    "strings are ASCII (CPython's float()/int() also accept Unicode digits and Unicode blanks; the model answers `bad` there and the generators stay inside ASCII)",
    "a float is an opaque token in the model; the theorem's float hypothesis is CPython's guarantee float(repr(x)) == x with repr(x) free of blanks and never an int literal",
    "NaN: only the canonical quiet NaN round-trips bit-exactly (repr prints every NaN as 'nan'); the correspondence compares NaNs as one class",
    "ints of any size are in scope (generators reach 10^400 and the band around 2^1024 - 2^970 where float(int) overflows); since the repair, dumbtypecheck keeps such literals as ints and never raises: an OverflowError answer is reported as a disagreement/violation",
    "abs(vi - vf) < 1e-9 is modelled as always true: Python computes float(vi) - vf, and float(int), float(str) are both correctly rounded images of the same integer (difference exactly 0.0, also beyond 2^53); the correspondence would expose a counter-example",
    "files are written/read with the default text encoding on ASCII content; `sys.int_info.default_max_str_digits` (4300) is not reached (strings <= 4000 characters)",
    "asserts are enabled (no python -O)",
]
TRUSTED_EXTRA = ["hand model lean/XfabVerif/Model/Params.lean (tied to xfab/parameters.py only by the correspondence run)"]

BOUND = 2 ** 1024 - 2 ** 970          # smallest |n| for which float(n) raises OverflowError (float(str(n)) is inf)


def mktmp(prefix):
    """scratch directory for the parameter files (tmpfs when there is one: thousands of small files are written)"""
    d = '/dev/shm' if os.path.isdir('/dev/shm') and os.access('/dev/shm', os.W_OK) else None
    return tempfile.mkdtemp(prefix=prefix, dir=d)


# ------------------------------------------------------------------------------------------------
# canonical values, encodings

def fbits(x):
    return struct.unpack('>Q', struct.pack('>d', x))[0]


def bits2f(b):
    return struct.unpack('>d', struct.pack('>Q', b))[0]


def canon(v):
    if type(v) is int:
        return ('i', v)
    if type(v) is float:
        return ('f', 'nan' if v != v else fbits(v))
    if type(v) is str:
        return ('s', v)
    if v is None:
        return ('none',)
    return ('?', type(v).__name__, repr(v))


def hx(s):
    return ''.join('%02x' % ord(c) for c in s)


def unhx(h):
    return ''.join(chr(int(h[i:i + 2], 16)) for i in range(0, len(h), 2))


def enc_val(v):
    if type(v) is int:
        return 'i:%d' % v
    if type(v) is float:
        return 'f:' + hx(repr(v))
    if type(v) is str:
        return 's:' + hx(v)
    raise ValueError(v)


def enc_step(v):
    return 'none' if v is None else enc_val(v)


def enc_name(n):
    return 'n:' + hx(n)


def dec_val(tok):
    """driver value -> (canonical value, python value as the implementation would hold it, raw text of str(value) in the model)"""
    k, body = tok[0], tok[2:]
    if k == 'i':
        return ('i', int(body)), int(body), body
    if k == 'f':
        t = unhx(body)
        return canon(float(t)), float(t), t
    if k == 's':
        return ('s', unhx(body)), unhx(body), unhx(body)
    raise ValueError(tok)


def jv(v):
    """JSON-able value"""
    if type(v) is int:
        return ['i', str(v)]
    if type(v) is float:
        return ['f', '%016x' % fbits(v), repr(v)]
    if type(v) is str:
        return ['s', v]
    if v is None:
        return ['none']
    return ['?', repr(v)]


def unjv(j):
    if j[0] == 'i':
        return int(j[1])
    if j[0] == 'f':
        return bits2f(int(j[1], 16))
    if j[0] == 's':
        return j[1]
    if j[0] == 'none':
        return None
    raise ValueError(j)


def jop(op):
    k = op[0]
    if k in ('reset', 'setpars', 'upself', 'upother'):
        return [k, [[n, jv(v)] for n, v in op[1]]]
    if k == 'addpar':
        return [k, op[1], jv(op[2]), bool(op[3]), bool(op[4]), jv(op[5])]
    if k == 'set':
        return [k, op[1], jv(op[2])]
    if k == 'setvary':
        return [k, list(op[1])]
    if k == 'setvals':
        return [k, [jv(v) for v in op[1]]]
    return list(op)


def unjop(j):
    k = j[0]
    if k in ('reset', 'setpars', 'upself', 'upother'):
        return (k, [(n, unjv(v)) for n, v in j[1]])
    if k == 'addpar':
        return (k, j[1], unjv(j[2]), j[3], j[4], unjv(j[5]))
    if k == 'set':
        return (k, j[1], unjv(j[2]))
    if k == 'setvary':
        return (k, list(j[1]))
    if k == 'setvals':
        return (k, [unjv(v) for v in j[1]])
    return tuple(j)


def enc_op(op):
    k = op[0]
    if k in ('reset', 'setpars', 'upself', 'upother'):
        return ' '.join([k] + [x for n, v in op[1] for x in (enc_name(n), enc_val(v))])
    if k == 'addpar':
        return ' '.join([k, enc_name(op[1]), enc_val(op[2]), '1' if op[3] else '0', '1' if op[4] else '0', enc_step(op[5])])
    if k == 'set':
        return ' '.join([k, enc_name(op[1]), enc_val(op[2])])
    if k == 'setvary':
        return ' '.join([k] + [enc_name(n) for n in op[1]])
    if k == 'setvals':
        return ' '.join([k] + [enc_val(v) for v in op[1]])
    if k == 'load':
        return 'load x:' + hx(op[1])
    if k == 'get':
        return 'get ' + enc_name(op[1])
    return k


def dec_answer(op, line):
    """driver answer -> canonical observation (same shape as RealRunner.step)"""
    if line in ('ok', 'bad') or line.startswith('raise:'):
        return line
    parts = line.split(' ')
    k = op[0]
    if k == 'get' and parts[0] == 'val':
        return ('val', dec_val(parts[1])[0])
    if k == 'varied' and parts[0] == 'vals':
        return ('vals', [dec_val(t)[0] for t in parts[1:]])
    if k == 'stepsizes' and parts[0] == 'steps':
        return ('steps', [('none',) if t == 'none' else dec_val(t)[0] for t in parts[1:]])
    if k == 'upother' and parts[0] == 'obj':
        r = parts[1:]
        return ('obj', [(unhx(r[i][2:]), dec_val(r[i + 1])[0]) for i in range(0, len(r), 2)])
    if k == 'dump' and parts[0] == 'params':
        secs = line.split(' | ')
        f = [s.split(' ')[1:] for s in secs]
        return ('dump',
                [(unhx(f[0][i][2:]), dec_val(f[0][i + 1])[0]) for i in range(0, len(f[0]), 2)],
                [unhx(t[2:]) for t in f[1]],
                [unhx(t[2:]) for t in f[2]],
                [(unhx(f[3][i][2:]), f[3][i + 1] == '1') for i in range(0, len(f[3]), 2)],
                [(unhx(f[4][i][2:]), ('none',) if f[4][i + 1] == 'none' else dec_val(f[4][i + 1])[0]) for i in range(0, len(f[4]), 2)])
    if k == 'save' and parts[0] == 'text':
        head, _, tail = line.partition(' |')
        raw = unhx(head.split(' ')[1][2:])
        r = tail.split(' ')[1:] if tail else []
        real_txt, raw_txt = [], []
        for i in range(0, len(r), 2):
            key = unhx(r[i][2:])
            c, pv, rawv = dec_val(r[i + 1])
            real_txt.append('%s %s\n' % (key, str(pv)))
            raw_txt.append('%s %s\n' % (key, rawv))
        if ''.join(raw_txt) != raw:
            return ('save-inconsistent', raw, ''.join(raw_txt))
        return ('text', ''.join(real_txt))
    return ('unparsed', line)


# ------------------------------------------------------------------------------------------------
# the real implementation under the same protocol

class Obj(object):
    pass


def make_partner(attrs):
    """the object handed to update_yourself / update_other: every second attribute is a CLASS-level default (a detector class with
    `distance = 100000.` in its body), the others are instance attributes -- hasattr/getattr see both, vars() sees only the latter"""
    attrs = list(attrs)
    cls = type('Partner', (object,), {n: v for i, (n, v) in enumerate(attrs) if i % 2 == 1 and isinstance(n, str) and n.isidentifier()})
    o = cls()
    for i, (n, v) in enumerate(attrs):
        if not (i % 2 == 1 and isinstance(n, str) and n.isidentifier()):
            setattr(o, n, v)
    return o


def partner_attrs(o, attrs):
    """the attributes named in `attrs`, in that order, as getattr sees them"""
    out, seen = [], set()
    for n, _v in attrs:
        if n not in seen:
            seen.add(n)
            out.append((n, getattr(o, n)))
    return out


class RealRunner:
    def __init__(self, tmpdir):
        from xfab import parameters as P
        self.P = P
        self.path = os.path.join(tmpdir, 'c19.par')
        self.p = P.parameters()
        self.saved = None

    def _write(self, text):
        with open(self.path, 'wb') as fh:
            fh.write(text.encode('utf-8'))

    def _read(self):
        with open(self.path, 'rb') as fh:
            return fh.read().decode('utf-8')

    def step(self, op):
        try:
            return self._step(op)
        except (AssertionError, KeyError, OverflowError, ValueError, TypeError, AttributeError, IndexError) as e:
            return 'raise:' + type(e).__name__

    def _step(self, op):
        k, p, P = op[0], self.p, self.P
        if k == 'reset':
            self.p = P.parameters(**dict(op[1]))
        elif k == 'addpar':
            p.addpar(P.par(op[1], op[2], vary=op[3], can_vary=op[4], stepsize=op[5]))
        elif k == 'set':
            p.set(op[1], op[2])
        elif k == 'setpars':
            p.set_parameters(dict(op[1]))
        elif k == 'setvary':
            p.set_varylist(list(op[1]))
        elif k == 'setvals':
            p.set_variable_values(list(op[1]))
        elif k in ('upself', 'upother'):
            o = make_partner(op[1])
            if k == 'upself':
                p.update_yourself(o)
            else:
                p.update_other(o)
                return ('obj', [(n, canon(v)) for n, v in partner_attrs(o, op[1])])
        elif k == 'load':
            self._write(op[1])
            p.loadparameters(self.path)
        elif k == 'reload':
            p.saveparameters(self.path)
            self.saved = self._read()
            p.loadparameters(self.path)
        elif k == 'reloadnew':
            p.saveparameters(self.path)
            self.saved = self._read()
            self.p = P.parameters()
            self.p.loadparameters(self.path)
        elif k == 'get':
            return ('val', canon(p.get(op[1])))
        elif k == 'dump':
            return ('dump', [(n, canon(v)) for n, v in p.get_parameters().items()], list(p.varylist), list(p.get_variable_list()),
                    [(n, bool(b)) for n, b in p.can_vary.items()], [(n, canon(s)) for n, s in p.stepsizes.items()])
        elif k == 'varied':
            return ('vals', [canon(v) for v in p.get_variable_values()])
        elif k == 'stepsizes':
            return ('steps', [canon(v) for v in p.get_variable_stepsizes()])
        elif k == 'save':
            p.saveparameters(self.path)
            return ('text', self._read())
        else:
            raise RuntimeError(op)
        return 'ok'


class quiet_logging:
    def __enter__(self):
        self.lg = logging.getLogger('xfab.parameters')
        self.was = self.lg.disabled
        self.lg.disabled = True

    def __exit__(self, *a):
        self.lg.disabled = self.was


# ------------------------------------------------------------------------------------------------
# generators

NAMES = ['a', 'b', 'c', 'A', 'a1', 'a_', 't-x', 't_x', 'cell__a', 'wave-length', 'a b', '', 'x\ty', 'z', 'r\rn', 'n\nl', '-']
NAME_W = [8, 8, 8, 3, 3, 3, 4, 4, 3, 3, 2, 1, 1, 4, 1, 1, 1]
SPECIAL_STR = ['12', ' 3.5 ', '1e5', '0x10', '1_000', 'inf', 'nan', '-0.0', '12abc', '', 'P21/c', 'abc', ' abc ', 'a b', '\tx\n',
               '1__0', '1_', '_1', '+5', '-7', ' 12 ', '1.', '.5', '.', '1e', 'Infinity', 'iNf', '-nan', '+nan', '1e400', '1e-400',
               '-1e400', '9007199254740993', '0012', '1 2', '1\n', '\x1c1', '1\x1f', '\x0b2\x0c', '--1', '+-1', '1e+5', '1E5', '1.5e3',
               '1_0.0_1', '1e1_0', '1._5', '1_.5', 'in_f', '0_0', '-_1', '- 1', '1e5\r\n', 'nan\n', ' \t12\r\n', 'infinit', 'nan(1)',
               '1j', '1,5', '+', '-', 'e5', '1.e5', '.e5', '1e5.0', '00', '-0', '+0_0', '1\x00', '0b1', '0o7', 'True', 'None',
               '4.9e-324', '2e-324', '1.7976931348623159e308', '0.1', '.1e-1_0', '1e-', '1e+_1',
               str(BOUND), str(BOUND - 1), '-' + str(BOUND), '-' + str(BOUND - 1), '1' + '0' * 400, ' ' + str(BOUND) + '\n']
FUZZ = '0123456789' * 2 + '..eE+-__  infatyINFANxX\t\n\r\x0b\x0c\x1c\x1fabz/~'
INTS = [0, 1, -1, 7, -12, 10, 100, 2 ** 31, 2 ** 53, 2 ** 53 + 1, -(2 ** 53 + 1), 2 ** 63, 2 ** 64 + 1, 10 ** 30, -10 ** 30]
FLOATS = [0.0, -0.0, 1.0, -1.5, 0.1, 1e22, 1e16, 1e15, 123456789.0, 1e-5, 5e-324, 2.2250738585072014e-308, 2.225073858507201e-308,
          1.7976931348623157e308, float('inf'), float('-inf'), float('nan'), 3.141592653589793, 1 / 3.0, 2.0 ** 53, -2.0 ** 63, 1e-310]


def g_float(rng):
    r = rng.random()
    if r < 0.5:
        return rng.choice(FLOATS)
    if r < 0.75:
        x = bits2f(rng.getrandbits(64))
        return float('nan') if x != x else x
    if r < 0.9:
        return rng.uniform(-10, 10)
    return rng.gauss(0, 1) * 10.0 ** rng.randint(-320, 308)


def g_int(rng, huge):
    r = rng.random()
    if r < 0.6:
        return rng.choice(INTS)
    if r < 0.8:
        return rng.randint(-1000, 1000)
    if r < 0.95 or not huge:
        return (-1) ** rng.randint(0, 1) * rng.getrandbits(rng.choice([60, 64, 100, 200, 1000]))
    return rng.choice([BOUND, BOUND - 1, -BOUND, -(BOUND - 1), 10 ** 400, 2 ** 1024, BOUND + rng.getrandbits(900)])


def g_fuzz(rng):
    return ''.join(rng.choice(FUZZ) for _ in range(rng.randint(0, 8)))


def g_numlike(rng):
    """strings close to the float grammar"""
    s = rng.choice(['', '', '+', '-'])
    body = rng.choice(['%d' % rng.randint(0, 10 ** rng.randint(0, 20)), '%d.%d' % (rng.randint(0, 999), rng.randint(0, 999)),
                       '.%d' % rng.randint(0, 99), '%d.' % rng.randint(0, 99), 'inf', 'nan', 'Infinity', '1_0', '0'])
    ex = rng.choice(['', '', 'e%d' % rng.randint(-330, 330), 'E+%d' % rng.randint(0, 9), 'e', 'e-'])
    t = s + body + ex
    if rng.random() < 0.3 and t:
        i = rng.randint(0, len(t))
        t = t[:i] + rng.choice(['_', ' ', '.', 'x', '-']) + t[i:]
    return rng.choice(['', '', ' ', '\t', '\x1c']) + t + rng.choice(['', '', ' ', '\n', '\r\n', '\x1f'])


def g_str(rng):
    r = rng.random()
    if r < 0.5:
        return rng.choice(SPECIAL_STR)
    if r < 0.7:
        return g_fuzz(rng)
    if r < 0.9:
        return g_numlike(rng)
    return rng.choice([repr(g_float(rng)), str(g_int(rng, True))])


def g_val(rng, huge=True):
    r = rng.random()
    if r < 0.3:
        return g_int(rng, huge)
    if r < 0.55:
        return g_float(rng)
    return g_str(rng)


def g_text(rng, pool):
    lines = []
    for _ in range(rng.randint(0, 6)):
        n = rng.choice(pool + ['t-x', 'new-name', 'p'])
        v = g_str(rng) if rng.random() < 0.7 else rng.choice([repr(g_float(rng)), str(g_int(rng, True))])
        lines.append(rng.choice(['%s %s\n'] * 8 + ['%s  %s\n', '%s%s\n', ' %s %s\n', '%s %s\r\n', '%s %s \n', '%s %s\r', '# %s %s\n', '%s\t%s\n']) % (n, v))
        if rng.random() < 0.1:
            lines.append(rng.choice(['\n', '\r\n', ' \n', 'garbage\n']))
    t = ''.join(lines)
    if t.endswith('\n') and rng.random() < 0.2:
        t = t[:-1]
    return t


OPW = [('addpar', 14), ('set', 14), ('setpars', 8), ('setvary', 8), ('setvals', 8), ('upself', 5), ('upother', 4), ('load', 6),
       ('reload', 5), ('reloadnew', 1), ('reset', 1), ('get', 8), ('varied', 5), ('dump', 3), ('save', 4), ('stepsizes', 2)]
MUTATORS = ('addpar', 'set', 'setpars', 'setvary', 'setvals', 'upself', 'upother', 'load', 'reload', 'reloadnew', 'reset')


def g_pairs(rng, pool, lo, hi):
    ns = rng.sample(pool, min(len(pool), rng.randint(lo, hi)))
    return [(n, g_val(rng)) for n in ns]


def g_sequence(rng, runner):
    """one history; `runner` (a RealRunner, freshly reset) is executed alongside only to bias the choices"""
    pool = rng.choices(NAMES, NAME_W, k=rng.randint(2, 6))
    pool = list(dict.fromkeys(pool))
    ops = [('reset', g_pairs(rng, pool, 0, 2) if rng.random() < 0.2 else [])]
    runner.step(ops[0])
    ncalls = rng.randint(1, 30)
    kinds, w = zip(*OPW)
    calls = 0
    while calls < ncalls:
        k = rng.choices(kinds, w)[0]
        p = runner.p
        if k == 'addpar':
            op = (k, rng.choice(pool), g_val(rng), rng.random() < 0.5, rng.random() < 0.6,
                  rng.choice([None, None, 0.1, 1, g_val(rng)]))
        elif k == 'set':
            op = (k, rng.choice(pool), g_val(rng))
        elif k in ('setpars', 'upself', 'upother'):
            op = (k, g_pairs(rng, pool, 0, 3))
        elif k == 'reset':
            op = (k, g_pairs(rng, pool, 0, 2))
        elif k == 'setvary':
            ok = [n for n in p.variable_list if n in p.parameters]
            if ok and rng.random() < 0.75:
                op = (k, [rng.choice(ok) for _ in range(rng.randint(0, 3))])
            else:
                op = (k, [rng.choice(pool) for _ in range(rng.randint(0, 3))])
        elif k == 'setvals':
            n = len(p.varylist) if rng.random() < 0.8 else rng.randint(0, 3)
            op = (k, [g_val(rng) for _ in range(n)])
        elif k == 'load':
            op = (k, g_text(rng, pool))
        elif k == 'get':
            op = (k, rng.choice(pool + ['t_x', 'p']))
        else:
            op = (k,)
        ops.append(op)
        runner.step(op)
        if k in MUTATORS:
            calls += 1
    ops += [('dump',), ('varied',), ('save',)] + [('get', n) for n in pool[:3]]
    return ops


# ------------------------------------------------------------------------------------------------
# correspondence

def run_both(seqs, tmpdir):
    """[(real answers, model answers)] for every history.
    `reload` = saveparameters(f); loadparameters(f) is sent to the model as `save` (its lines, rendered with Python's repr for
    the float tokens, must be the file the implementation wrote) followed by `load` of that file: the model carries a float
    parsed from '1e5' as the token '1e5', the real file says '100000.0' - the same float, but not the same text."""
    reals, lines, spans = [], [], []
    for ops in seqs:
        r = RealRunner(tmpdir)
        real, sp = [], []
        for op in ops:
            r.saved = None
            real.append(r.step(op))
            if op[0] in ('reload', 'reloadnew') and r.saved is not None:
                ls = ['save'] + (['reset'] if op[0] == 'reloadnew' else []) + ['load x:' + hx(r.saved)]
            else:
                ls = [enc_op(op)]
            sp.append((len(lines), len(ls), r.saved))
            lines += ls
        reals.append(real)
        spans.append(sp)
    out = check.run_model_driver(DRIVER, lines)
    res = []
    for ops, real, sp in zip(seqs, reals, spans):
        model = []
        for op, (i, n, saved) in zip(ops, sp):
            if n == 1:
                model.append(dec_answer(op, out[i]))
            else:
                t = dec_answer(('save',), out[i])
                model.append(out[i + n - 1] if t == ('text', saved) else ('reload: file differs', t, saved))
        res.append((real, model))
    return res


def first_diff(real, model):
    for j, (a, b) in enumerate(zip(real, model)):
        if a != b:
            return j
    return None


def shrink(ops, j, tmpdir, rounds=12):
    """smallest sub-history (keeping the initial reset and the differing op last) that still differs; one driver call per round"""
    cur = list(ops[:j + 1])
    for _ in range(rounds):
        cands = [cur[:i] + cur[i + 1:] for i in range(1, len(cur) - 1)]
        if not cands:
            break
        res = run_both(cands, tmpdir)
        nxt = None
        for c, (real, model) in zip(cands, res):
            if real[-1] != model[-1]:
                nxt = c
                break
        if nxt is None:
            break
        cur = nxt
    return cur


def classify_real(P, s):
    p = P.parameters()
    p.parameters['k'] = s
    try:
        p.dumbtypecheck()
    except OverflowError:
        return 'raise:OverflowError'
    return canon(p.parameters['k'])


def classify_model(line):
    parts = line.split(' ')
    if parts[0] == 'int':
        return ('i', int(parts[1]))
    if parts[0] == 'flt':
        return canon(float(unhx(parts[1][2:])))
    if parts[0] == 'text':
        return ('s', unhx(parts[1][2:]))
    return parts[0]


def correspondence(ctx):
    from xfab import parameters as P
    rng = ctx.rng
    nseq = ctx.n(300, 20000)
    nstr = ctx.n(3000, 200000)
    tmpdir = mktmp('c19_')
    dis, stats = [], {'ops': {}, 'answers': {}, 'classify': {}}
    cases = 0
    nontrivial = 0
    distinct = set()
    sample = None
    try:
        with quiet_logging():
            # 1. histories
            chunk = 2000
            done = 0
            while done < nseq:
                m = min(chunk, nseq - done)
                seqs = []
                for _ in range(m):
                    seqs.append(g_sequence(rng, RealRunner(tmpdir)))
                done += m
                res = run_both(seqs, tmpdir)
                for ops, (real, model) in zip(seqs, res):
                    cases += len(ops)
                    distinct.add(hash(tuple(enc_op(o) for o in ops)))
                    if any(o[0] in ('setpars', 'load', 'reload', 'reloadnew') for o in ops):
                        nontrivial += 1
                    for o, a in zip(ops, real):
                        stats['ops'][o[0]] = stats['ops'].get(o[0], 0) + 1
                        key = a if isinstance(a, str) else a[0]
                        stats['answers'][key] = stats['answers'].get(key, 0) + 1
                    if sample is None and len(ops) > 8:
                        sample = {'fn': 'history', 'ops': [jop(o) for o in ops[:6]], 'answers': [str(a)[:80] for a in real[:6]]}
                    j = first_diff(real, model)
                    if j is not None and len(dis) < 5:
                        small = shrink(ops, j, tmpdir)
                        rr = run_both([small], tmpdir)[0]
                        dis.append({'fn': 'parameters.' + ops[j][0], 'ops': [jop(o) for o in small], 'index': len(small) - 1,
                                    'python': repr(rr[0][-1])[:400], 'model': repr(rr[1][-1])[:400], 'original_length': len(ops)})
                    elif j is not None:
                        dis.append({'fn': 'parameters.' + ops[j][0], 'ops': [jop(o) for o in ops[:j + 1]][-4:], 'index': j})
            # 2. the recogniser alone
            strs = list(SPECIAL_STR)
            while len(strs) < nstr:
                r = rng.random()
                strs.append(g_fuzz(rng) if r < 0.4 else g_numlike(rng) if r < 0.9 else g_str(rng))
            out = check.run_model_driver(DRIVER, ['classify s:' + hx(s) for s in strs])
            for s, line in zip(strs, out):
                a, b = classify_real(P, s), classify_model(line)
                cases += 1
                key = a if isinstance(a, str) else a[0]
                stats['classify'][key] = stats['classify'].get(key, 0) + 1
                if a != b:
                    dis.append({'fn': 'parameters.dumbtypecheck', 'string': s, 'python': repr(a), 'model': repr(b)})
    finally:
        shutil.rmtree(tmpdir, ignore_errors=True)
    stats['histories'] = nseq
    stats['strings'] = len(strs)
    return {'cases': cases, 'disagreements': dis, 'stats': stats, 'samples': [sample] if sample else [],
            'distinct_nontrivial': min(len(distinct), nontrivial)}


# ------------------------------------------------------------------------------------------------
# oracle: the property on the real code against a plain dictionary (independent of the Lean model)

_PYSPACE = ' \t\n\x0b\x0c\r'
_D = r'[0-9]+(?:_[0-9]+)*'
_INT = re.compile(r'[+-]?%s' % _D)
_FLT = re.compile(r'[+-]?(?:(?:%s\.?(?:%s)?|\.%s)(?:[eE][+-]?%s)?|inf|infinity|nan)' % (_D, _D, _D, _D), re.I)


def spec_coerce(v):
    """what the property promises for a string value after dumbtypecheck: int if it reads as an int, else float, else stripped"""
    if type(v) is not str:
        return v
    t = v.strip(_PYSPACE)
    if _INT.fullmatch(t):
        return int(t.replace('_', ''))
    if _FLT.fullmatch(t):
        return float(t.replace('_', ''))
    return v.strip()


def in_scope_value(v):
    """values the oracle generates: ASCII strings (see ASSUMPTIONS); ints and integer literals of any size"""
    if type(v) is str:
        return all(ord(c) <= 127 for c in v)
    return True


def same(a, b):
    if type(a) is not type(b):
        return False
    if type(a) is float:
        return fbits(a) == fbits(b)
    return a == b


GOOD_NAME_CH = [chr(c) for c in range(33, 127) if chr(c) != '-'] + ['\t']
GOOD_STR = ['P21/c', 'Fm-3m', 'file.par', 'C:\\data', '1abc', 'e5', 'infinit', 'nano', '0x1F', '1.2.3', '1e', '--1', '1_', '12_', '1,5',
            '', 'abc', 'True', 'None', 'a_b', '1__0', '_1', '+', '-', '.', 'inf.', '1e+', 'x', '#', '1-2', '1/2']


def g_good_name(rng):
    if rng.random() < 0.6:
        return rng.choice(['a', 'b', 'cell__a', 'cell__b', 'wavelength', 'o11', 't_x', 'y_size', 'A', 'Z', 'a1', 'omegasign', 'chi'])
    return ''.join(rng.choice(GOOD_NAME_CH) for _ in range(rng.randint(0, 8)))


def g_good_str(rng):
    """whitespace-free, not accepted by float(): judged by the regular expression above, not by the implementation"""
    for _ in range(100):
        s = rng.choice(GOOD_STR) if rng.random() < 0.5 else ''.join(chr(rng.randint(33, 126)) for _ in range(rng.randint(0, 10)))
        if not _FLT.fullmatch(s):
            return s
    return 'abc'


def g_good_val(rng):
    r = rng.random()
    if r < 0.35:
        return g_int(rng, True)
    if r < 0.7:
        return g_float(rng)
    return g_good_str(rng)


def check_roundtrip(mapping, tmpdir, floats_as=None):
    """save a parameters object holding `mapping`, load the file into fresh objects; -> violation dict or None.
    floats_as='numpy.float64': every float is handed to the object as the numpy scalar holding the same bits (a float subclass: what
    arithmetic on arrays, set_variable_values(array) and update_yourself produce); the file must still carry the float bit-exactly"""
    from xfab import parameters as P
    path = os.path.join(tmpdir, 'rt.par')
    p = P.parameters()
    for k, v in mapping.items():
        if floats_as == 'numpy.float64' and type(v) is float:
            import numpy
            p.set(k, numpy.float64(v))
        else:
            p.set(k, v)
    inp = {'mapping': [[k, jv(v)] for k, v in mapping.items()], 'floats_passed_as': floats_as or 'float'}

    def viol(what, obs, exp):
        d = {'fn': 'parameters.saveparameters/loadparameters', 'what': what, 'observed': obs, 'expected': exp, 'known_id': None}
        d.update(inp)
        return d
    try:
        p.saveparameters(path)
        q = P.parameters()
        q.loadparameters(path)
        r = P.read_par_file(path)
    except Exception as e:
        return viol('raised', type(e).__name__ + ': ' + str(e)[:200], 'no exception')
    finally:
        if os.path.exists(path):
            os.remove(path)
    for name, got in (('loadparameters', q.get_parameters()), ('read_par_file', r.get_parameters())):
        if set(got.keys()) != set(mapping.keys()):
            return viol(name + ': names', sorted(got.keys()), sorted(mapping.keys()))
        for k, v in mapping.items():
            if not same(got[k], v):
                return viol('%s: value of %r' % (name, k), jv(got[k]), jv(v))
    return None


def check_load(pre, text, tmpdir):
    """load `text` into an object already holding `pre`; expected mapping computed here from the property's wording"""
    from xfab import parameters as P
    path = os.path.join(tmpdir, 'ld.par')
    exp = dict(pre)
    for line in text.split('\n'):
        if line.endswith('\r'):
            line = line[:-1]
        f = line.split(' ')
        if len(f) == 2:
            exp[f[0].replace('-', '_')] = f[1]
    exp = {k: spec_coerce(v) for k, v in exp.items()}
    inp = {'pre': [[k, jv(v)] for k, v in pre.items()], 'text': text}
    p = P.parameters()
    for k, v in pre.items():
        p.set(k, v)
    try:
        with open(path, 'wb') as fh:
            fh.write(text.encode('ascii'))
        p.loadparameters(path)
    except Exception as e:
        d = {'fn': 'parameters.loadparameters', 'what': 'raised', 'observed': type(e).__name__ + ': ' + str(e)[:200],
             'expected': 'no exception', 'known_id': None}
        d.update(inp)
        return d
    finally:
        if os.path.exists(path):
            os.remove(path)
    got = p.get_parameters()
    bad = None
    if set(got.keys()) != set(exp.keys()):
        bad = ('names', sorted(got.keys()), sorted(exp.keys()))
    else:
        for k in exp:
            if not same(got[k], exp[k]):
                bad = ('value of %r' % k, jv(got[k]), jv(exp[k]))
                break
    if bad:
        d = {'fn': 'parameters.loadparameters', 'what': bad[0], 'observed': bad[1], 'expected': bad[2], 'known_id': None}
        d.update(inp)
        return d
    return None


def check_history(ops):
    """ops (reset/addpar/set/setpars/setvary/setvals/upself/upother) on the real object and on a plain dict; -> violation or None"""
    from xfab import parameters as P
    p = P.parameters()
    d, vary, variable = {}, [], []

    def viol(i, what, obs, exp):
        return {'fn': 'parameters.' + ops[i][0], 'what': what, 'ops': [jop(o) for o in ops[:i + 1]], 'index': i,
                'observed': obs, 'expected': exp, 'known_id': None}
    for i, op in enumerate(ops):
        k = op[0]
        expect_assert = False
        before = (dict(p.get_parameters()), list(p.varylist))
        try:
            if k == 'addpar':
                p.addpar(P.par(op[1], op[2], vary=op[3], can_vary=op[4], stepsize=op[5]))
                d[op[1]] = op[2]
                if op[3] and op[1] not in vary:
                    vary.append(op[1])
                if op[4] and op[1] not in variable:
                    variable.append(op[1])
            elif k == 'set':
                p.set(op[1], op[2])
                d[op[1]] = op[2]
            elif k == 'setpars':
                p.set_parameters(dict(op[1]))
                d.update(dict(op[1]))
                for n in d:
                    d[n] = spec_coerce(d[n])
            elif k == 'setvary':
                expect_assert = not all(n in d and n in variable for n in op[1])
                p.set_varylist(list(op[1]))
                vary = list(op[1])
            elif k == 'setvals':
                expect_assert = len(op[1]) != len(vary)
                p.set_variable_values(list(op[1]))
                for n, v in zip(vary, op[1]):
                    d[n] = v
            elif k in ('upself', 'upother'):
                o = make_partner(op[1])
                attrs = dict(op[1])
                if k == 'upself':
                    p.update_yourself(o)
                    for n in d:
                        if n in attrs:
                            d[n] = attrs[n]
                else:
                    p.update_other(o)
                    for n in attrs:
                        if n in d:
                            attrs[n] = d[n]
                    got = dict(partner_attrs(o, op[1]))
                    if set(got) != set(attrs) or any(not same(got[n], attrs[n]) for n in attrs):
                        return viol(i, 'attributes after update_other', [[n, jv(v)] for n, v in got.items()],
                                    [[n, jv(v)] for n, v in attrs.items()])
        except AssertionError:
            if not expect_assert:
                return viol(i, 'raised', 'AssertionError', 'a valid call')
            now = (dict(p.get_parameters()), list(p.varylist))
            if set(now[0]) != set(before[0]) or any(not same(now[0][n], before[0][n]) for n in now[0]) or now[1] != before[1]:
                return viol(i, 'state changed by a rejected call', str(now)[:300], str(before)[:300])
        except Exception as e:
            return viol(i, 'raised', type(e).__name__ + ': ' + str(e)[:200], 'no exception')
        got = p.get_parameters()
        if set(got.keys()) != set(d.keys()):
            return viol(i, 'get_parameters: names', sorted(got.keys()), sorted(d.keys()))
        for n in d:
            if not same(got[n], d[n]):
                return viol(i, 'get_parameters[%r]' % n, jv(got[n]), jv(d[n]))
            if not same(p.get(n), d[n]):
                return viol(i, 'get(%r)' % n, jv(p.get(n)), jv(d[n]))
        if list(p.varylist) != vary:
            return viol(i, 'varylist', list(p.varylist), vary)
        try:
            vv = p.get_variable_values()
        except Exception as e:
            return viol(i, 'get_variable_values raised', type(e).__name__, [jv(d[n]) for n in vary])
        if len(vv) != len(vary) or any(not same(a, d[n]) for a, n in zip(vv, vary)):
            return viol(i, 'get_variable_values', [jv(v) for v in vv], [jv(d[n]) for n in vary])
    return None


def g_history(rng):
    pool = list(dict.fromkeys(rng.choices(NAMES, NAME_W, k=rng.randint(2, 6))))
    ops = []
    vary_n, variable = 0, set()
    val = lambda: next(v for v in iter(lambda: g_val(rng, True), None) if in_scope_value(v))
    for _ in range(rng.randint(1, 30)):
        k = rng.choices(['addpar', 'set', 'setpars', 'setvary', 'setvals', 'upself', 'upother'], [14, 14, 8, 8, 8, 5, 4])[0]
        if k == 'addpar':
            n, cv = rng.choice(pool), rng.random() < 0.6
            ops.append((k, n, val(), rng.random() < 0.5, cv, rng.choice([None, 0.1, 1])))
            if cv:
                variable.add(n)
        elif k == 'set':
            ops.append((k, rng.choice(pool), val()))
        elif k in ('setpars', 'upself', 'upother'):
            ops.append((k, [(n, val()) for n in rng.sample(pool, min(len(pool), rng.randint(0, 3)))]))
        elif k == 'setvary':
            src = sorted(variable) if variable and rng.random() < 0.8 else pool
            ops.append((k, [rng.choice(src) for _ in range(rng.randint(0, 3))]))
        else:
            ops.append((k, [val() for _ in range(rng.randint(0, 3))]))
    return ops


def oracle(ctx, hints=()):
    rng = ctx.rng
    n1 = ctx.n(400, 20000, boost=40000)
    n2 = ctx.n(400, 20000, boost=40000)
    n3 = ctx.n(400, 20000, boost=40000)
    tmpdir = mktmp('c19o_')
    viol, ev, nontriv = [], 0, 0
    stats = {'roundtrip_values': {'i': 0, 'f': 0, 's': 0}, 'load_expected': {'i': 0, 'f': 0, 's': 0}, 'history_ops': {}}
    sample = []
    try:
        with quiet_logging():
            # 1. save -> load round trip
            for it in range(n1):
                m = {}
                for _ in range(rng.randint(0, 8)):
                    m[g_good_name(rng)] = g_good_val(rng)
                for v in m.values():
                    stats['roundtrip_values'][canon(v)[0]] += 1
                ev += 1
                nontriv += 1 if m else 0
                v = check_roundtrip(m, tmpdir) or (check_roundtrip(m, tmpdir, floats_as='numpy.float64')
                                                   if any(type(x) is float for x in m.values()) else None)
                if v and len(viol) < 20:
                    viol.append(v)
                if it == 0:
                    sample.append({'fn': 'roundtrip', 'mapping': [[k, jv(x)] for k, x in m.items()]})
            # 2. coercion on load (numeric-looking strings, hyphens, malformed lines, pre-existing values)
            for it in range(n2):
                pre = {}
                for _ in range(rng.randint(0, 3)):
                    x = g_val(rng, True)
                    if in_scope_value(x):
                        pre[g_good_name(rng)] = x
                lines = []
                for _ in range(rng.randint(0, 6)):
                    name = rng.choice([g_good_name(rng), 't-x', 'wave-length', '-a-', 'a'])
                    tok = rng.choice([g_str, g_numlike, g_fuzz])(rng)
                    tok = tok.replace('\r', '').replace('\n', '')
                    if not in_scope_value(tok) or ' ' in name:
                        continue
                    lines.append(rng.choice(['%s %s'] * 8 + ['%s  %s', '%s%s', ' %s %s', '%s %s ', '# %s %s', '%s\t%s']) % (name, tok)
                                 + rng.choice(['\n', '\n', '\n', '\r\n']))
                text = ''.join(lines)
                if not all(in_scope_value(f) for l in text.split('\n') for f in l.split(' ')):
                    continue
                ev += 1
                nontriv += 1 if lines else 0
                for l in text.split('\n'):
                    f = l.rstrip('\r').split(' ')
                    if len(f) == 2:
                        stats['load_expected'][canon(spec_coerce(f[1]))[0]] += 1
                v = check_load(pre, text, tmpdir)
                if v and len(viol) < 20:
                    viol.append(v)
                if it == 0:
                    sample.append({'fn': 'load', 'text': text})
            # 3. histories against the plain dictionary
            for it in range(n3):
                ops = g_history(rng)
                for o in ops:
                    stats['history_ops'][o[0]] = stats['history_ops'].get(o[0], 0) + 1
                ev += 1
                nontriv += 1
                v = check_history(ops)
                if v and len(viol) < 20:
                    # cheap shrink: drop calls while the violation persists
                    cur = ops[:v['index'] + 1]
                    changed = True
                    while changed:
                        changed = False
                        for i in range(len(cur) - 1):
                            c = cur[:i] + cur[i + 1:]
                            w = check_history(c)
                            if w is not None:
                                cur, v, changed = c[:w['index'] + 1], w, True
                                break
                    viol.append(v)
    finally:
        shutil.rmtree(tmpdir, ignore_errors=True)
    return {'evaluations': ev, 'distinct_nontrivial': nontriv, 'violations': viol, 'samples': sample, 'stats': stats,
            'exhaustive': False}


def replay(payload):
    v = payload.get('violation')
    if not v:
        print('replay C19: broken obligation / correspondence, no failing input stored:', json.dumps(payload.get('broken'), default=str)[:1500])
        return 1
    tmpdir = mktmp('c19r_')
    try:
        with quiet_logging():
            if 'mapping' in v:
                w = check_roundtrip({k: unjv(x) for k, x in v['mapping']}, tmpdir,
                                    floats_as=None if v.get('floats_passed_as', 'float') == 'float' else v['floats_passed_as'])
            elif 'text' in v:
                w = check_load({k: unjv(x) for k, x in v['pre']}, v['text'], tmpdir)
            elif 'ops' in v:
                w = check_history([unjop(o) for o in v['ops']])
            else:
                print('replay C19: unknown payload', v)
                return 1
    finally:
        shutil.rmtree(tmpdir, ignore_errors=True)
    if w:
        print('replay C19: VIOLATION', w['fn'], w.get('what'))
        print('  observed:', w['observed'])
        print('  expected:', w['expected'])
        return 1
    print('replay C19: holds on the stored input')
    return 0
