"""C20 — the package-wide check switch: on => invalid orientation input raises ValueError, valid input never does;
off => no check errors and identical values; the switch accepts only True/False and keeps the last valid value."""
import math, sys
import numpy as np
import gens, floatcorr
from check import run_model_driver

GEN = ['numeric', 'guards']
LEAN_MODULES = ['XfabVerif.Proofs.C20', 'XfabVerif.Proofs.C20Real']
# definitions the hand-written model mirrors (see harness/pins.py): a source change breaks the tie
PINS = ['xfab/checks.py:_checkState', 'xfab/__init__.py:*']
LEAN_DRIVER_MODULES = ['XfabVerif.Model.Switch', 'XfabVerif.Gen.FloatDispatch']
RULE = ("random programs of 4-16 operations on the real xfab.CHECKS object: assignments of True/False (valid) and of None, 0, 1, 2, -1, 1.0, 0.0, "
        "'True', 'False', '', numpy.True_, numpy.False_ (invalid), interleaved with calls of the 7 guarded APIs of tools and laue and of "
        "symmetry.Umis; inputs: exact / float32-rounded / <1e-7-perturbed (valid) and perturbed by 1e-3..1, improper, scaled, left-handed, "
        "out-of-range (invalid, margin checked independently); every call is evaluated with the switch on and off; a case is non-trivial "
        "when the input is not an exact rotation or the assignment is invalid; distinct = distinct (api, input) pairs")
ASSUMPTIONS = ["__debug__ is True (the interpreter is not started with -O); the Lean switch model fixes __debug__ = true",
               "guard sites are extracted from the source text (ast) by harness/gen_guards.py; dynamic access to the switch "
               "(getattr with computed names, other modules patching xfab.CHECKS) is outside the table",
               "IEEE rounding inside numpy is not modelled: C20Real is over the reals; Float-twin comparison skips inputs within a factor 2 of a tolerance"]
TRUSTED_EXTRA = ["harness/gen_guards.py (AST extractor of the `if CHECKS.activated:` statements): unverified, refuses what it cannot represent",
                 "hand model lean/XfabVerif/Model/Switch.lean of checks._checkState, run against the real object on every check"]

TWO_PI = 2 * math.pi

# tokens of the SwitchDriver protocol and the Python objects they stand for
TOKENS = {
    'True': True, 'False': False, 'None': None, 'int:0': 0, 'int:1': 1, 'int:2': 2, 'int:-1': -1,
    'float:1.0': 1.0, 'float:0.0': 0.0, 'str:True': 'True', 'str:False': 'False', 'str:x': 'x',
    'np:True': np.True_, 'np:False': np.False_,
}
VALID_TOKENS = ('True', 'False')
INVALID_TOKENS = tuple(t for t in TOKENS if t not in VALID_TOKENS)


def _rand_history(rng, lo=0, hi=12):
    out = []
    for _ in range(rng.randint(lo, hi)):
        out.append(rng.choice(VALID_TOKENS) if rng.random() < 0.5 else rng.choice(INVALID_TOKENS))
    return out


def _real_trace(obj, hist):
    """drive a real _checkState object; same canonical line as lean/SwitchDriver.lean"""
    tf = lambda b: 'T' if b is True else ('F' if b is False else '?%r' % (b,))
    items = ['init:' + tf(obj.activated)]
    for tok in hist:
        try:
            obj.activated = TOKENS[tok]
            r = 'ok:'
        except ValueError:
            r = 'raise:ValueError:'
        items.append(r + tf(obj.activated))
    return ' '.join(items)


# ------------------------------------------------------------------------------------------------
# input generators (independent of the implementation)

def _rot_dev(V):
    G = V.T @ V - np.eye(3)
    return float(np.abs(G).max()), float(abs(np.linalg.det(V) - 1.0))


def _euler_ok(V):
    """away from the function's OWN singularities: gimbal lock (u_to_euler/_arctan2(0,0)) and 180 degrees (u_to_rod)"""
    return (abs(V[2, 2]) <= 0.995 and max(abs(V[0, 2]), abs(V[1, 2])) > 0.05 and max(abs(V[2, 0]), abs(V[2, 1])) > 0.05
            and abs(1 + V[0, 0] + V[1, 1] + V[2, 2]) >= 0.05)


def _singular_rotation(rng):
    """proper rotations sitting exactly on a function's own singularity: half-turns (1 + tr U = 0: u_to_rod / ubi_to_rod raise
    their own ValueError) and gimbal locks; all entries are exact in floating point"""
    half = [np.diag([-1.0, -1.0, 1.0]), np.diag([-1.0, 1.0, -1.0]), np.diag([1.0, -1.0, -1.0]),
            np.array([[0.0, 1.0, 0.0], [1.0, 0.0, 0.0], [0.0, 0.0, -1.0]]), np.array([[0.0, 0.0, 1.0], [0.0, -1.0, 0.0], [1.0, 0.0, 0.0]]),
            np.array([[-1.0, 0.0, 0.0], [0.0, 0.0, 1.0], [0.0, 1.0, 0.0]])]
    lock = [np.eye(3), np.array([[0.0, -1.0, 0.0], [1.0, 0.0, 0.0], [0.0, 0.0, 1.0]]), np.array([[0.6, -0.8, 0.0], [0.8, 0.6, 0.0], [0.0, 0.0, 1.0]])]
    return (rng.choice(half) if rng.random() < 0.7 else rng.choice(lock)).copy()


def _good_rotation(rng):
    while True:
        U, _ = gens.rotation(rng, 'uniform')
        if _euler_ok(U):
            return U


def _valid_variant(rng, M, kind, scale=1.0):
    """exact / float32-rounded (cast back to float64) / entrywise perturbation < 1e-7 (times scale)"""
    if kind == 'exact':
        return M.copy()
    if kind == 'f32':
        return M.astype(np.float32).astype(np.float64)
    E = np.array([[rng.uniform(-1, 1) for _ in range(M.shape[1])] for _ in range(M.shape[0])]) if M.ndim == 2 else \
        np.array([rng.uniform(-1, 1) for _ in range(M.shape[0])])
    return M + E * 0.99e-7 * scale


def valid_rotation(rng):
    kind = rng.choice(['exact', 'f32', 'pert'])
    while True:
        V = _valid_variant(rng, _good_rotation(rng), kind)
        d, dd = _rot_dev(V)
        if d <= 5e-7 and dd <= 5e-6 and _euler_ok(V):        # clearly valid: factor 2 inside atol=1e-6 / 1e-5
            return V, kind


def invalid_rotation(rng):
    kind = rng.choice(['entry', 'entry', 'improper', 'scaled', 'one'])
    while True:
        U = _good_rotation(rng)
        sc = 10 ** rng.uniform(-3, 0)
        if kind == 'entry':
            V = U + np.array([[rng.choice([-1, 1]) * rng.uniform(0.5, 1) for _ in range(3)] for _ in range(3)]) * sc
        elif kind == 'one':
            V = U.copy()
            V[rng.randrange(3), rng.randrange(3)] += rng.choice([-1, 1]) * sc
        elif kind == 'improper':
            V = U.copy()
            V[:, rng.randrange(3)] *= -1
        else:
            V = U * (1 + sc)
        d, dd = _rot_dev(V)
        if (d >= 1e-4 or dd >= 1e-4) and _euler_ok(V):       # clearly invalid: 10x outside every tolerance
            return V, kind


def _bmat(mod, cell):
    return np.asarray(mod.form_b_mat(cell), float)          # form_b_mat is not guarded by the switch


def gen_call(rng, want_valid):
    """one API call description (JSON-serialisable): dict(mod, api, args, cls, kind)"""
    from xfab import tools, laue
    api = rng.choice(['u_to_euler', 'u_to_rod', 'u_to_ubi', 'ubi_to_u', 'ubi_to_u_and_eps', 'euler_to_u', 'ub_to_u_b', 'Umis',
                      'ubi_to_rod', 'ubi_to_u_b'])       # the last two reach the guards through ubi_to_u / ub_to_u_b
    modname = 'symmetry' if api == 'Umis' else rng.choice(['tools', 'laue'])
    mod = {'tools': tools, 'laue': laue}.get(modname, tools)
    cls = 'valid' if want_valid else 'invalid'
    if api in ('u_to_euler', 'u_to_rod', 'u_to_ubi'):
        V, kind = valid_rotation(rng) if want_valid else invalid_rotation(rng)
        if want_valid and rng.random() < 0.2:
            V, kind = _singular_rotation(rng), 'singular'      # valid input on which the function itself may raise
        args = {'U': V.tolist()}
        if api == 'u_to_ubi':
            args['cell'] = gens.cell(rng, scaled=True)[0]
    elif api in ('ubi_to_u', 'ubi_to_u_and_eps', 'ub_to_u_b', 'ubi_to_rod', 'ubi_to_u_b'):
        cell = gens.cell(rng, scaled=True)[0]
        U = _good_rotation(rng)
        if want_valid and rng.random() < 0.25:
            U = _singular_rotation(rng)
        UB = U @ _bmat(mod, cell)
        M = UB if api == 'ub_to_u_b' else np.linalg.inv(UB) * (TWO_PI if modname == 'tools' else 1.0)
        kind = rng.choice(['exact', 'f32', 'pert'])
        if not _euler_ok(U):
            kind = 'exact'
        M = _valid_variant(rng, M, kind)
        if not want_valid:                                   # left-handed: determinant changes sign by a clear margin
            how = rng.choice(['swap', 'negrow', 'negall', 'negcol'])
            if how == 'swap':
                i, j = rng.sample(range(3), 2)
                M[[i, j]] = M[[j, i]]
            elif how == 'negrow':
                M[rng.randrange(3)] *= -1
            elif how == 'negcol':
                M[:, rng.randrange(3)] *= -1
            else:
                M = -M
            kind += '+' + how
        det = float(np.linalg.det(M)) / float(np.prod(np.linalg.norm(M, axis=1)))   # handedness margin, scale free
        assert (det > 1e-3) == want_valid and abs(det) > 1e-3
        args = {'M': M.tolist()}
        if api == 'ubi_to_u_and_eps':
            args['cell'] = cell
    elif api == 'euler_to_u':
        if want_valid:
            kind = rng.choice(['exact', 'f32', 'pert', 'endpoint'])
            if kind == 'endpoint':
                a = np.array([rng.choice([0.0, TWO_PI, math.pi, math.pi / 2]) for _ in range(3)])
            else:
                a = _valid_variant(rng, np.array([rng.uniform(1e-6, TWO_PI - 1e-6) for _ in range(3)]), kind)
            assert all(0.0 <= x <= TWO_PI for x in a)
        else:
            kind = 'range'
            a = np.array([rng.uniform(0, TWO_PI) for _ in range(3)])
            for p in rng.sample(range(3), rng.randint(1, 3)):
                d = 10 ** rng.uniform(-3, 0)
                a[p] = -d if rng.random() < 0.5 else TWO_PI + d
        args = {'angles': [float(x) for x in a]}
    else:
        cs = rng.randint(1, 7)
        if want_valid:
            (V1, k1), (V2, k2) = valid_rotation(rng), valid_rotation(rng)
            kind = k1 + '/' + k2
        else:
            slot = rng.randrange(3)
            (V1, k1) = invalid_rotation(rng) if slot in (0, 2) else valid_rotation(rng)
            (V2, k2) = invalid_rotation(rng) if slot in (1, 2) else valid_rotation(rng)
            kind = k1 + '/' + k2
        args = {'U1': V1.tolist(), 'U2': V2.tolist(), 'cs': cs}
    return {'mod': modname, 'api': api, 'args': args, 'cls': cls, 'kind': kind, 'form': rng.choice(['pos', 'pos', 'kw', 'mixed'])}


# ------------------------------------------------------------------------------------------------
# running programs on the real code

def _from_checks(exc):
    tb = exc.__traceback__
    last = None
    while tb is not None:
        last = tb
        tb = tb.tb_next
    return last is not None and last.tb_frame.f_code.co_filename.replace('\\', '/').endswith('xfab/checks.py')


def _blob(v):
    if isinstance(v, (tuple, list)):
        return tuple(_blob(x) for x in v)
    a = np.asarray(v)
    return (a.shape, a.dtype.str, a.tobytes())


def _invoke(c):
    from xfab import tools, laue, symmetry
    mod = {'tools': tools, 'laue': laue, 'symmetry': symmetry}[c['mod']]
    a = c['args']
    api = c['api']
    f = getattr(mod, api)
    if api in ('u_to_euler', 'u_to_rod'):
        pos = [np.array(a['U'])]
    elif api == 'u_to_ubi':
        pos = [np.array(a['U']), list(a['cell'])]
    elif api in ('ubi_to_u', 'ub_to_u_b', 'ubi_to_rod', 'ubi_to_u_b'):
        pos = [np.array(a['M'])]
    elif api == 'ubi_to_u_and_eps':
        pos = [np.array(a['M']), list(a['cell'])]
    elif api == 'euler_to_u':
        pos = list(a['angles'])
    elif api == 'Umis':
        pos = [np.array(a['U1']), np.array(a['U2']), a['cs']]
    else:
        raise KeyError(api)
    return _call_form(f, pos, c.get('form', 'pos'))


def _call_form(f, pos, form):
    """call f with the arguments given positionally ('pos'), all by keyword ('kw') or the first positionally and the rest by keyword
    ('mixed'); the parameter names are those of the function's own current signature, so a renamed parameter is not an issue.
    A validation that only looks at positional arguments (a decorator inspecting args[0]) is bypassed by a keyword call."""
    if form == 'pos':
        return f(*pos)
    import inspect
    try:
        ps = list(inspect.signature(f).parameters.values())
    except (TypeError, ValueError):
        return f(*pos)
    if len(ps) < len(pos) or any(p.kind != inspect.Parameter.POSITIONAL_OR_KEYWORD for p in ps[:len(pos)]):
        return f(*pos)
    k0 = 0 if form == 'kw' else 1
    return f(*pos[:k0], **{p.name: v for p, v in zip(ps[k0:len(pos)], pos[k0:])})


def _outcome(c):
    """('ok', blob) | ('check', msg) ValueError raised inside xfab/checks.py | ('valueerror', msg) | ('exc', type)"""
    try:
        with np.errstate(all='ignore'):
            return ('ok', _blob(_invoke(c)))
    except ValueError as e:
        return ('check' if _from_checks(e) else 'valueerror', str(e)[:120])
    except Exception as e:            # the function's own business (LinAlgError ...), only compared on/off
        return ('exc', type(e).__name__)


def run_program(prog, stats=None):
    """prog: list of ['assign', token] | ['call', calldict].  Returns the list of violations of C20 (empty = holds).
    The switch is ALWAYS left at True."""
    import xfab
    CH = xfab.CHECKS
    viol = []
    stats = stats if stats is not None else {}

    def bump(k):
        stats[k] = stats.get(k, 0) + 1

    def bad(fn, k, observed, expected):
        viol.append({'fn': fn, 'program': prog[:k + 1], 'step': k, 'observed': observed, 'expected': expected, 'known_id': None})

    def read(k, state, what):
        got = CH.activated
        exp = state and __debug__
        if got is not exp:
            bad('CHECKS.activated', k, repr(got), '%r (%s)' % (exp, what))

    try:
        CH.activated = True
        state = True                 # the oracle's own account: the last valid value assigned
        read(-1, state, 'after assigning True')
        for k, op in enumerate(prog):
            if op[0] == 'assign':
                tok = op[1]
                bump('assign')
                try:
                    CH.activated = TOKENS[tok]
                    res = 'accepted'
                except ValueError:
                    res = 'ValueError'
                except Exception as e:
                    res = type(e).__name__
                if tok in VALID_TOKENS:
                    state = tok == 'True'
                    if res != 'accepted':
                        bad('CHECKS.activated = %s' % tok, k, res, 'accepted')
                else:
                    bump('assign_invalid')
                    if res != 'ValueError':
                        bad('CHECKS.activated = %s' % tok, k, res, 'ValueError, state unchanged')
                read(k, state, 'last valid assignment')
                continue
            c = op[1]
            fn = '%s.%s' % (c['mod'], c['api'])
            bump('call')
            bump('call_%s_%s' % (c['cls'], 'on' if state else 'off'))
            first = _outcome(c)                       # under the state the history left
            read(k, state, 'after a call')
            CH.activated = not state                  # two more valid assignments: evaluate under the other state, come back
            read(k, not state, 'toggled')
            second = _outcome(c)
            CH.activated = state
            read(k, state, 'toggled back')
            on, off = (first, second) if state else (second, first)
            if not __debug__:
                on = None                             # python -O: the switch is never on
            if c['cls'] == 'invalid':
                if on is not None and on[0] not in ('check', 'valueerror'):
                    bad(fn, k, 'switch on, %s input (%s): %s' % (c['cls'], c['kind'], on[0]), 'ValueError')
                if off[0] == 'check':
                    bad(fn, k, 'switch off: check error %r' % (off[1],), 'no error from xfab.checks')
            else:
                if on is not None and on[0] == 'check':
                    bad(fn, k, 'switch on, valid input (%s) rejected: %r' % (c['kind'], on[1]), 'accepted')
                if off[0] == 'check':
                    bad(fn, k, 'switch off: check error %r' % (off[1],), 'no error from xfab.checks')
                if on is not None and on != off and 'check' not in (on[0], off[0]):
                    bad(fn, k, 'value with the switch on differs from the value with the switch off (%s vs %s)' % (on[0], off[0]),
                        'bit-identical results')
                if off[0] != 'ok':
                    bump('own_errors')
    finally:
        CH.activated = True
    return viol


def gen_program(rng):
    prog = []
    for _ in range(rng.randint(4, 16)):
        r = rng.random()
        if r < 0.25:
            prog.append(['assign', rng.choice(VALID_TOKENS)])
        elif r < 0.45:
            prog.append(['assign', rng.choice(INVALID_TOKENS)])
        else:
            prog.append(['call', gen_call(rng, rng.random() < 0.5)])
    return prog


# ------------------------------------------------------------------------------------------------

def _near(q, t):
    return t / 2 < q < 2 * t


def _rot_cases(rng, n):
    from xfab import checks
    cases, skipped = [], 0
    for i in range(n):
        U, _ = gens.rotation(rng)
        cl = rng.choice(['exact', 'f32', 'pert', 'mid', 'big', 'improper', 'scaled'])
        if cl in ('exact', 'f32', 'pert'):
            V = _valid_variant(rng, U, cl)
        elif cl in ('mid', 'big'):
            sc = 10 ** (rng.uniform(-9, -3) if cl == 'mid' else rng.uniform(-3, 0))
            V = U + np.array([[rng.uniform(-1, 1) for _ in range(3)] for _ in range(3)]) * sc
        elif cl == 'improper':
            V = U.copy()
            V[:, rng.randrange(3)] *= -1
        else:
            V = U * (1 + rng.choice([-1, 1]) * 10 ** rng.uniform(-8, -0.5))
        G = V.T @ V - np.eye(3)
        qs = [(abs(G[a, b]), 1.1e-5 if a == b else 1e-6) for a in range(3) for b in range(3)] + [(abs(np.linalg.det(V) - 1), 1.001e-5)]
        if any(_near(q, t) for q, t in qs):
            skipped += 1
            continue
        cases.append({'fn': 'Checks._check_rotation_matrix', 'args': [float(x) for x in V.ravel()],
                      'py': (lambda V=V: checks._check_rotation_matrix(V))})
    return cases, skipped


def _euler_cases(rng, n):
    from xfab import checks
    cases = []
    specials = [0.0, -0.0, TWO_PI, math.nextafter(TWO_PI, 10), math.nextafter(TWO_PI, 0), math.nextafter(0.0, -1), 5e-324, math.pi]
    for i in range(n):
        a = [rng.uniform(0, TWO_PI) for _ in range(3)]
        r = rng.random()
        if r < 0.3:
            a[rng.randrange(3)] = rng.choice(specials)
        elif r < 0.6:
            d = 10 ** rng.uniform(-9, 0)
            a[rng.randrange(3)] = -d if rng.random() < 0.5 else TWO_PI + d
        elif r < 0.7:
            a = [float(np.float32(x)) for x in a]
        cases.append({'fn': 'Checks._check_euler_angles', 'args': a, 'py': (lambda a=a: checks._check_euler_angles(*a))})
    return cases


def _ubi_cases(rng, n):
    from xfab import checks, tools
    cases, skipped = [], 0
    for i in range(n):
        U, _ = gens.rotation(rng)
        M = np.linalg.inv(U @ _bmat(tools, gens.cell(rng, scaled=True)[0])) * TWO_PI
        M = _valid_variant(rng, M, rng.choice(['exact', 'f32', 'pert']))
        r = rng.random()
        if r < 0.25:
            M[[0, 1]] = M[[1, 0]]
        elif r < 0.4:
            M[rng.randrange(3)] *= -1
        elif r < 0.5:
            M = M + np.array([[rng.uniform(-1, 1) for _ in range(3)] for _ in range(3)]) * 10 ** rng.uniform(-3, 0.5)
        t = float(np.dot(M[2], np.cross(M[0], M[1])))
        if abs(t) < 1e-9 * float(np.abs(M).max()) ** 3:
            skipped += 1
            continue
        cases.append({'fn': 'Checks._check_ubi_matrix', 'args': [float(x) for x in M.ravel()],
                      'py': (lambda M=M: checks._check_ubi_matrix(M))})
    return cases, skipped


def correspondence(ctx):
    import xfab
    dis, samples = [], []
    # (i) switch model vs the real object(s)
    nh = ctx.n(150, 5000)
    hists = [_rand_history(ctx.rng) for _ in range(nh)]
    hists += [[t] for t in TOKENS] + [[a, b] for a in VALID_TOKENS for b in TOKENS]
    hists = [h for h in hists if h]
    model = run_model_driver('SwitchDriver.lean', [' '.join(h) for h in hists])
    try:
        for h, m in zip(hists, model):
            fresh = type(xfab.CHECKS)()                   # a new _checkState: initial state as constructed
            r1 = _real_trace(fresh, h)
            xfab.CHECKS.activated = True                  # the package object, brought to the model's initial state
            r2 = _real_trace(xfab.CHECKS, h)
            for which, r in (('fresh _checkState()', r1), ('xfab.CHECKS', r2)):
                if r != m:
                    dis.append({'fn': 'Switch.trace', 'object': which, 'history': h, 'model': m, 'impl': r})
    finally:
        xfab.CHECKS.activated = True
    samples.append({'fn': 'Switch.trace', 'history': hists[0], 'model': model[0]})
    # (ii) Float twins of the three check functions
    n = ctx.n(400, 20000)
    rc, sk1 = _rot_cases(ctx.rng, n)
    ec = _euler_cases(ctx.rng, n // 2)
    uc, sk2 = _ubi_cases(ctx.rng, n // 2)
    cases = rc + ec + uc
    try:
        ncase, d2, stats = floatcorr.compare(cases)
    finally:
        xfab.CHECKS.activated = True
    dis += d2
    stats['switch_histories'] = len(hists)
    stats['skipped_near_tolerance'] = sk1 + sk2
    samples.append({'fn': cases[0]['fn'], 'args': cases[0]['args']})
    return {'cases': ncase + len(hists), 'disagreements': dis, 'stats': stats, 'samples': samples,
            'distinct_nontrivial': ncase + len(hists)}


def oracle(ctx, hints=()):
    import xfab
    nprog = ctx.n(1500, 40000, boost=10000)
    viol, stats = [], {}
    sample = None
    evals = nontriv = 0
    seen = set()
    try:
        for i in range(nprog):
            prog = gen_program(ctx.rng)
            sample = sample or prog[:3]
            viol += run_program(prog, stats)
            for op in prog:
                if op[0] == 'assign':
                    evals += 1
                    nontriv += op[1] not in VALID_TOKENS
                else:
                    evals += 2
                    key = (op[1]['mod'], op[1]['api'], repr(op[1]['args']))
                    if key not in seen:
                        seen.add(key)
                        nontriv += not (op[1]['cls'] == 'valid' and op[1]['kind'].replace('exact', '').strip('/') == '')
            if len(viol) > 20:
                break
        if xfab.CHECKS.activated is not (True and __debug__):
            viol.append({'fn': 'CHECKS.activated', 'program': [], 'observed': repr(xfab.CHECKS.activated), 'expected': 'True after the last assignment of True',
                         'known_id': None})
    finally:
        xfab.CHECKS.activated = True
    cap = import_capture_probe(ctx.rng)
    viol += cap
    stats['import_capture_probes'] = 2 * 3 * 3
    viol += thread_probe()
    stats['thread_probes'] = 4
    return {'evaluations': evals + 18, 'distinct_nontrivial': nontriv, 'violations': viol, 'samples': [sample], 'stats': stats, 'exhaustive': False}


def thread_probe():
    """the switch is ONE package-wide state: an assignment is seen by every thread of the process, whichever thread made it (a history
    of assignments and calls spread over threads is still a history)"""
    import threading
    import xfab
    from xfab import tools
    out = []
    bad = np.array([[1.0, 0.2, 0.0], [0.0, 1.0, 0.0], [0.0, 0.0, 1.0]])

    def in_worker(fn):
        box = {}

        def w():
            try:
                box['r'] = fn()
            except Exception as e:
                box['r'] = 'raised ' + type(e).__name__
        t = threading.Thread(target=w)
        t.start()
        t.join()
        return box.get('r')

    def rejects():
        try:
            tools.u_to_rod(bad)
            return False
        except ValueError:
            return True

    def v(what, obs, exp):
        out.append({'fn': 'CHECKS.activated', 'threads': True, 'what': what, 'observed': repr(obs), 'expected': repr(exp), 'program': [],
                    'known_id': None})
    try:
        xfab.CHECKS.activated = False
        r = in_worker(lambda: xfab.CHECKS.activated)
        if r is not False:
            v('switched off in the main thread, read in a worker thread', r, False)
        r = in_worker(rejects)
        if r is not False:
            v('switched off in the main thread, invalid matrix passed to u_to_rod in a worker thread', 'rejected' if r is True else r, 'not rejected')
        in_worker(lambda: setattr(xfab.CHECKS, 'activated', True))
        if xfab.CHECKS.activated is not (True and __debug__):
            v('switched on in a worker thread, read in the main thread', xfab.CHECKS.activated, True)
        elif __debug__ and not rejects():
            v('switched on in a worker thread, invalid matrix passed to u_to_rod in the main thread', 'not rejected', 'rejected')
    finally:
        xfab.CHECKS.activated = True
    return out


def _load_fresh(modname):
    """the module's source executed into a fresh namespace (as a first import would)"""
    import importlib, warnings
    m = importlib.import_module('xfab.' + modname)
    with warnings.catch_warnings():
        warnings.simplefilter('ignore')
        code = compile(open(m.__file__).read(), m.__file__, 'exec')
    ns = {'__name__': 'xfab.' + modname, '__file__': m.__file__, '__package__': 'xfab'}
    exec(code, ns)
    return ns


def import_capture_probe(rng, replay_case=None):
    """the switch must be read at CALL time: a module that is first imported while the switch is off (on) and used after it was
    turned on (off) behaves like any other.  Each guarded module is loaded afresh under one state of the switch, the switch is flipped,
    and one guarded API per module is called with a clearly invalid matrix."""
    import xfab
    out = []
    bad = np.array([[1.0, 0.2, 0.0], [0.0, 1.0, 0.0], [0.0, 0.0, 1.0]])          # sheared: not orthonormal
    good = np.eye(3)
    apis = {'tools': [('u_to_rod', (bad,)), ('u_to_euler', (bad,)), ('u_to_ubi', (bad, [4.0, 5.0, 6.0, 90.0, 90.0, 90.0]))],
            'laue': [('u_to_rod', (bad,)), ('u_to_euler', (bad,)), ('u_to_ubi', (bad, [4.0, 5.0, 6.0, 90.0, 90.0, 90.0]))],
            'symmetry': [('Umis', (bad, good, 7)), ('Umis', (good, bad, 4)), ('Umis', (bad, bad, 1))]}
    try:
        for at_import in (False, True):
            for modname, calls in apis.items():
                if replay_case and (replay_case['module'], replay_case['switch_at_import']) != (modname, at_import):
                    continue
                xfab.CHECKS.activated = at_import
                try:
                    ns = _load_fresh(modname)
                finally:
                    xfab.CHECKS.activated = not at_import
                for fn, args in calls:
                    try:
                        with np.errstate(all='ignore'):
                            ns[fn](*[a.copy() if isinstance(a, np.ndarray) else a for a in args])
                        raised = False
                    except ValueError:
                        raised = True
                    except Exception:
                        raised = None          # the function's own business once the guard is off
                    want = (not at_import) and bool(__debug__)         # switch now ON -> must reject; now OFF -> must not raise the check
                    if (want and raised is not True) or (not want and raised is True and at_import):
                        out.append({'fn': '%s.%s' % (modname, fn), 'program': [], 'import_capture': True, 'module': modname,
                                    'switch_at_import': at_import, 'switch_at_call': not at_import,
                                    'what': 'module first executed while CHECKS.activated was %s, called after it was set to %s' % (at_import, not at_import),
                                    'observed': 'raised ValueError' if raised else 'no ValueError',
                                    'expected': 'ValueError' if want else 'no ValueError from the input checks', 'known_id': None})
    finally:
        xfab.CHECKS.activated = True
    return out


def replay(payload):
    v = payload.get('violation')
    if not v:
        print('replay: broken obligation, no input stored:', payload.get('broken'))
        return 1
    if v.get('threads'):
        res = thread_probe()
        print('replay C20 %s (%s) ->' % (v['fn'], v.get('what')), 'VIOLATION' if res else 'holds')
        return 1 if res else 0
    if v.get('import_capture'):
        res = import_capture_probe(None, replay_case=v)
        print('replay C20 %s (%s) ->' % (v['fn'], v.get('what')), 'VIOLATION' if res else 'holds')
        return 1 if res else 0
    res = run_program(v.get('program') or [])
    print('replay C20 %s (program of %d operations) ->' % (v['fn'], len(v.get('program') or [])), 'VIOLATION' if res else 'holds')
    if res:
        print('  observed:', res[0]['observed'])
        print('  expected:', res[0]['expected'])
    return 1 if res else 0
