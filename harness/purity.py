"""
Value-semantics guard.  Every model (traced or hand-written) treats the numeric functions of xfab as pure: the
result depends on the argument VALUES only, the arguments are left untouched, and nothing is remembered between
calls.  The implementation could break that silently (in-place arithmetic on a caller's array, a memo keyed on a
tolerance, a cache holding a reference to the caller's list).  No theorem about a functional model can see such a
change, and a Float twin only sees it if the stream happens to contain the triggering HISTORY.  While a check runs,
the public functions of the numeric modules are therefore wrapped (harness-side monkeypatching, no source hook):

* mutation guard: ndarray / list arguments are snapshotted before the call and compared bit-for-bit afterwards;
* history probe (first PROBE_FIRST top-level calls of each function, every PROBE_EVERY-th after that, and the first calls
  whose arguments contain an exact special value such as 0.0): the result must be what the function computes from the
  same argument values in a PRISTINE copy of its module (the module source executed into a fresh namespace, i.e. with
  no call history and empty module-level state; < 1 ms).  Compared bit-for-bit:
      live    the result of the real call itself, in the history the stream happened to produce
      near    f(a) was just called; now f(a*(1+1e-7))                          -- memo keyed on "close enough" / rounded keys
      alias   f(b); b *= 1.001 in place (the caller re-uses its container); f(b)  -- cache holding a reference
      alias-0d  scalar arguments passed as 0-d arrays, updated in place, same call again -- memo keyed on the argument objects
      repeat  f(a) a second time                                               -- state machines driven by repeated calls
      after-error  f(malformed a) [raises]; f(a); twin-module f(a)             -- state left behind by an exception (found: a context manager
                                                                                  without try/finally left tools without its 2*pi)
      ambient-*    f(a) with logging at DEBUG / with xfab.CHECKS off           -- results that depend on process configuration (found: a debug
                                                                                  formatter scaling the result in place; a rejection moved
                                                                                  behind the validation switch)
      ambient-python-O  f(a) in the module compiled with optimize=1              -- work done inside an assert statement
      threads      f(a) from four threads at once, switch interval 1 us          -- module-level scratch arrays
      revisit      the first calls of the run again after 40, 300, 700 ... other calls -- bounded memos (ring tables) that wrap around
      retained     f(a) -> r; f(a*1.001); r still holds f(a)                    -- one result buffer shared by all calls
      result-edit  f(a) -> r; r *= 2 (caller's in-place use); f(a)              -- a memo handing out its own storage
* layout probe (same schedule): a float ndarray argument passed Fortran-ordered, as a transposed view or as a strided view must give
  the same result (found: a pixel map rewritten on `R_tilt.ravel(order='K')` read a Fortran-ordered tilt matrix transposed).
* container probe (same schedule): the same numbers passed as a list, a tuple or an ndarray must give the same result (found:
  three laue omega solvers raised TypeError on a list where tools accepts it -- repaired).
* dtype probe (same schedule): integer-valued arguments passed once as floats and once as Python ints / integer arrays
  (a random subset of the arguments whose components are 0 or of magnitude >= 1, rounded to integers first) must give
  the same result to 1e-9: the properties quantify over values, not over the numeric type a caller happens to use.

An event is reported by check.py as a violation whose replay is the concrete call history.
"""
import copy, functools, inspect, json, os, sys
import numpy as np

EVENTS = []
HISTORY_EVENTS = []
DTYPE_EVENTS = []
_installed = []
MODULES = ('xfab.tools', 'xfab.laue', 'xfab.detector', 'xfab.symmetry', 'xfab.structure')
SKIP = {'trans_orientation', 'image_flipping'}     # return views by design; never write to their argument
# history probe: only functions whose contract is a deterministic value (the reflection generators draw random
# projection weights; readers / classes / plotting are not value functions)
NO_PROBE = {'genhkl_all', 'int_intensity', 'interpolate_background', 'trans_orientation', 'image_flipping',
            'CIFopen', 'CIFread', 'PDBread'}
SLOW = {'genhkl', 'genhkl_base', 'genhkl_unique', 'reduce_cell', 'StructureFactor', 'multiplicity'}   # probed sparsely
NO_DTYPE = {'genhkl', 'genhkl_base', 'genhkl_unique', 'genhkl_all'}   # a cell rounded to integers can be degenerate: the walk would not end
PROBE_FIRST = 6
PROBE_EVERY = 53
import threading as _threading


class _Depth(_threading.local):
    """nesting depth of guarded calls, per thread (worker threads of the thread probe start nested: they are never probed themselves)"""
    v = 0

    def __getitem__(self, i):
        return self.v

    def __setitem__(self, i, x):
        self.v = x


_depth = _Depth()
_count = {}
_prev = {}
_nspecial = {}
_recent = {}        # module -> the last top-level calls (name, args, kwargs), most recent last
_CODE = {}
STATS = {'probes': 0, 'calls': 0}


def _snap(a):
    if isinstance(a, np.ndarray) and a.dtype.kind in 'fiub' and a.size <= 4096:
        return ('nd', a.copy())
    if isinstance(a, list) and len(a) <= 64 and all(isinstance(x, (int, float, np.generic)) for x in a):
        return ('list', list(a))
    return None


def _same(s, a):
    if s[0] == 'nd':
        return a.shape == s[1].shape and a.dtype == s[1].dtype and a.tobytes() == s[1].tobytes()
    return len(a) == len(s[1]) and all((x == y) or (x != x and y != y) for x, y in zip(a, s[1]))


# ------------------------------------------------------------------------------------------------
# history probe helpers

def _numeric(a):
    """True when `a` is a float-valued argument the probe may perturb"""
    if isinstance(a, bool):
        return False
    if isinstance(a, (float, np.floating)):
        return np.isfinite(a)
    if isinstance(a, np.ndarray):
        return a.dtype.kind == 'f' and a.size <= 64 and np.all(np.isfinite(a))
    if isinstance(a, (list, tuple)):
        return 0 < len(a) <= 16 and all(_numeric(x) or isinstance(x, (int, np.integer)) and not isinstance(x, bool) for x in a) \
            and any(_numeric(x) for x in a)
    return False


def _scaled(a, s):
    """copy of `a` with every float component multiplied by s (ints untouched)"""
    if isinstance(a, (float, np.floating)):
        return type(a)(a * s)
    if isinstance(a, np.ndarray):
        return a * s
    if isinstance(a, list):
        return [_scaled(x, s) if not isinstance(x, (int, np.integer)) else x for x in a]
    if isinstance(a, tuple):
        return tuple(_scaled(x, s) if not isinstance(x, (int, np.integer)) else x for x in a)
    return a


def _scale_inplace(a, s):
    if isinstance(a, np.ndarray):
        a *= s
        return True
    if isinstance(a, list):
        ok = False
        for i, x in enumerate(a):
            if isinstance(x, (float, np.floating)):
                a[i] = x * s
                ok = True
            elif isinstance(x, (list, np.ndarray)):
                ok = _scale_inplace(x, s) or ok
        return ok
    return False


def _plain_object(o):
    return hasattr(o, '__dict__') and not isinstance(o, (type, np.ndarray)) and not callable(o) and not inspect.ismodule(o)


def _has_objects(a):
    """a plain object, or a short list of plain objects, carrying numeric attributes (structure.atom_entry)"""
    if isinstance(a, (list, tuple)):
        return 0 < len(a) <= 64 and all(_plain_object(x) for x in a)
    return _plain_object(a) and not isinstance(a, (str, bytes))


def _perturb_objects(a, s):
    """what a refinement loop does to its atom list: numeric attributes edited IN PLACE (lists / arrays scaled element-wise, float
    attributes re-assigned)"""
    ok = False
    for o in (a if isinstance(a, (list, tuple)) else [a]):
        for k, v in list(vars(o).items()):
            if isinstance(v, (list, np.ndarray)):
                try:
                    ok = _scale_inplace(v, s) or ok
                except Exception:
                    pass
            elif isinstance(v, (float, np.floating)) and np.isfinite(v):
                try:
                    setattr(o, k, type(v)(v * s))
                    ok = True
                except Exception:
                    pass
    return ok


def _object_keys(args):
    return [[set(vars(o)) for o in (a if isinstance(a, (list, tuple)) else [a])] if _has_objects(a) else None for a in args]


def _strip_added(args, keys):
    """remove from the objects in `args` every attribute that was not there when `keys` was taken (what a call attached to them)"""
    for a, ks in zip(args, keys):
        if ks is None or not _has_objects(a):
            continue
        for o, k0 in zip((a if isinstance(a, (list, tuple)) else [a]), ks):
            for k in list(vars(o)):
                if k not in k0:
                    try:
                        delattr(o, k)
                    except Exception:
                        pass
    return args


import random as _random
_rng = _random.Random(20240917)


def _elig(x):
    return isinstance(x, (float, np.floating)) and np.isfinite(x) and (x == 0 or 1 <= abs(x) < 1e15)


def _int_variants(a):
    """(float-typed, int-typed) integer-valued versions of argument `a`, or None when `a` is not eligible"""
    if isinstance(a, bool):
        return None
    if _elig(a):
        r = float(round(float(a)))
        return r, int(r)
    if isinstance(a, np.ndarray) and a.dtype.kind == 'f' and 0 < a.size <= 64 and all(_elig(x) for x in a.ravel()):
        r = np.round(a)
        return r, r.astype(int)
    if isinstance(a, list) and 0 < len(a) <= 16 and all(_elig(x) for x in a):
        r = [float(round(float(x))) for x in a]
        return r, [int(x) for x in r]
    return None


def _close(r1, r2):
    f1, f2 = _flat(r1), _flat(r2)
    if f1 is None or f2 is None or len(f1) != len(f2):
        return f1 is None and f2 is None
    for x, y in zip(f1, f2):
        if (x != x and y != y) or x == y:          # nan/nan, and equal infinities (inf - inf is nan)
            continue
        if not abs(x - y) <= 1e-12 + 1e-9 * max(abs(x), abs(y)):
            return False
    return True


def _flat(r):
    if r is None:
        return []
    if isinstance(r, (list, tuple)):
        out = []
        for x in r:
            f = _flat(x)
            if f is None:
                return None
            out += f
        return out
    try:
        a = np.asarray(r)
    except Exception:
        return None
    if a.dtype.kind not in 'fiubc':
        return None
    return [complex(v) if a.dtype.kind == 'c' else float(v) for v in a.ravel()]


def _dtype_probe(modname, name, f, args, kw):
    cur = copy.deepcopy(args)
    var = [(_i, _int_variants(a)) for _i, a in enumerate(cur)]
    var = [(i, v) for i, v in var if v is not None]
    if not var:
        return
    for _ in range(3):
        pick = [iv for iv in var if _rng.random() < 0.5] or [var[_rng.randrange(len(var))]]
        fa, ia = list(copy.deepcopy(cur)), list(copy.deepcopy(cur))
        for i, (vf, vi) in pick:
            fa[i], ia[i] = copy.deepcopy(vf), copy.deepcopy(vi)
        r1 = _call(f, copy.deepcopy(fa), kw)
        if r1[0] != 'ok':
            continue
        r2 = _call(f, copy.deepcopy(ia), kw)
        bad = r2[0] != 'ok' or not _close(r1[1], r2[1])
        if bad and len(DTYPE_EVENTS) < 20:
            DTYPE_EVENTS.append({'fn': '%s.%s' % (modname.split('.')[-1], name), 'int_typed_positions': [i for i, _v in pick],
                                 'args_float': _plain(fa), 'args_int': _plain(ia), 'result_float_typed': _plain(r1[1]),
                                 'result_int_typed': _plain(r2[1]) if r2[0] == 'ok' else 'raised ' + r2[1]})
            return


CONTAINER_EVENTS = []
NO_CONTAINER = set()
_CONTAINER_BASELINE_PATH = os.path.join(os.path.dirname(os.path.abspath(__file__)), 'container_baseline.json')
try:
    _CONTAINER_BASELINE = json.load(open(_CONTAINER_BASELINE_PATH))
except Exception:
    _CONTAINER_BASELINE = {}
# VERIF_CONTAINER_RECORD=<file>: (maintenance, on the reviewed tree only) append 'key status' lines; merged into the baseline by
# `python harness/purity.py --merge-container-baseline <file>...`
_CONTAINER_RECORD = os.environ.get('VERIF_CONTAINER_RECORD')


def _container_record(key, status):
    with open(_CONTAINER_RECORD, 'a') as fh:
        fh.write('%s %s\n' % (key, status))



def _container_variants(a):
    """the same numbers in the other containers a caller may use"""
    if isinstance(a, np.ndarray) and a.dtype.kind == 'f' and a.ndim in (1, 2) and 0 < a.size <= 64:
        return [('list', a.tolist()), ('tuple', tuple(map(tuple, a.tolist())) if a.ndim == 2 else tuple(a.tolist()))]
    if isinstance(a, list) and 0 < len(a) <= 16 and all(isinstance(x, (int, float, np.generic)) and not isinstance(x, bool) for x in a):
        return [('ndarray', np.array(a, dtype=float)), ('tuple', tuple(a))]
    if isinstance(a, list) and 0 < len(a) <= 4 and all(isinstance(r, list) and 0 < len(r) <= 4 and all(isinstance(x, (int, float)) for x in r) for r in a):
        return [('ndarray', np.array(a, dtype=float))]
    return []


def _layout_variants(a):
    """the same ndarray values in another memory layout: numpy semantics do not depend on it, so neither may the result"""
    if not (isinstance(a, np.ndarray) and a.dtype.kind == 'f' and 0 < a.size <= 64):
        return []
    out = []
    if a.ndim == 2 and min(a.shape) > 1:
        out.append(('fortran-ordered', np.asfortranarray(a.copy())))
        out.append(('transposed-view', a.T.copy().T))
    if a.ndim in (1, 2):
        big = np.zeros(tuple(2 * n_ for n_ in a.shape))
        sl = tuple(slice(None, None, 2) for _ in a.shape)
        big[sl] = a
        out.append(('strided-view', big[sl]))
    ro = a.copy()
    ro.setflags(write=False)
    out.append(('read-only', ro))          # frombuffer / broadcast_to / memory-mapped data: a function of its arguments does not write to them
    return out


def _readonly(a):
    a.setflags(write=False)
    return a


def _layout_probe(modname, name, f, args, kw, live):
    if live[0] != 'ok' or _flat(live[1]) is None:
        return
    for i, a in enumerate(args):
        for label, v in _layout_variants(a):
            b = list(copy.deepcopy(args))
            b[i] = v
            r = _call(f, b, copy.deepcopy(kw))
            STATS['layout_probes'] = STATS.get('layout_probes', 0) + 1
            bad = r[0] != 'ok' or not _close(live[1], r[1])
            if bad and len(CONTAINER_EVENTS) < 40:
                CONTAINER_EVENTS.append({'fn': '%s.%s' % (modname.split('.')[-1], name), 'arg_index': i, 'container': label,
                                         'original_container': 'C-contiguous ndarray', 'args': _plain(args),
                                         'result': _plain(live[1]), 'result_other_container': _plain(r[1]) if r[0] == 'ok' else 'raised ' + str(r[1])})
                return


def _keyword_probe(modname, name, f, args, kw, live):
    """the same call with every argument passed by keyword (names from the function's own signature) must give the same result or
    the same exception: a validation / conversion that only looks at positional arguments (a decorator inspecting args[0]) is bypassed
    by a keyword call"""
    if kw or not args:
        return
    try:
        ps = list(inspect.signature(f).parameters.values())
    except (TypeError, ValueError):
        return
    if len(ps) < len(args) or any(p.kind != inspect.Parameter.POSITIONAL_OR_KEYWORD for p in ps[:len(args)]):
        return
    r = _call(f, [], {p.name: v for p, v in zip(ps, copy.deepcopy(args))})
    STATS['keyword_probes'] = STATS.get('keyword_probes', 0) + 1
    if live[0] == 'ok':
        bad = r[0] != 'ok' or not _close(live[1], r[1])
    else:
        bad = r[0] == 'ok'          # the positional call raised, the keyword call went through
    if bad and len(CONTAINER_EVENTS) < 40:
        CONTAINER_EVENTS.append({'fn': '%s.%s' % (modname.split('.')[-1], name), 'arg_index': -1, 'container': 'keyword-arguments',
                                 'original_container': 'positional-arguments', 'args': _plain(args), 'names': [p.name for p in ps[:len(args)]],
                                 'result': _plain(live[1]) if live[0] == 'ok' else 'raised ' + str(live[1]),
                                 'result_other_container': _plain(r[1]) if r[0] == 'ok' else 'raised ' + str(r[1])})


def _equal_not_identical(a):
    """an argument that compares equal but is another object of another (duck-)type: a string built at run time (not interned), a flag
    given as 0/1 or numpy.bool_ instead of False/True"""
    if isinstance(a, str) and a:
        return [('run-time string', ''.join(list(a)))]
    if isinstance(a, bool):
        return [('int flag', int(a)), ('numpy.bool_ flag', np.bool_(a))]
    return []


def _identity_probe(modname, name, f, args, kw, live):
    """`x is CONSTANT` / `flag is False` tests: the outcome may depend on the VALUE of a string or flag argument, not on which object
    carries it"""
    if live[0] != 'ok' or _flat(live[1]) is None:
        return
    items = [('arg', i, a) for i, a in enumerate(args)] + [('kw', k, v) for k, v in kw.items()]
    for where, key, a in items:
        for label, v in _equal_not_identical(a):
            b, k2 = list(copy.deepcopy(args)), copy.deepcopy(kw)
            if where == 'arg':
                b[key] = v
            else:
                k2[key] = v
            r = _call(f, b, k2)
            STATS['identity_probes'] = STATS.get('identity_probes', 0) + 1
            bad = r[0] != 'ok' or not _close(live[1], r[1])
            if bad and len(CONTAINER_EVENTS) < 40:
                CONTAINER_EVENTS.append({'fn': '%s.%s' % (modname.split('.')[-1], name), 'arg_index': key if where == 'arg' else -2, 'container': label,
                                         'original_container': type(a).__name__ + ' literal', 'args': _plain(args), 'kwargs': _plain(kw),
                                         'identity': {'where': where, 'key': key, 'value': _plain(a), 'as': label},
                                         'result': _plain(live[1]), 'result_other_container': _plain(r[1]) if r[0] == 'ok' else 'raised ' + str(r[1])})
                return


def _container_probe(modname, name, f, args, kw, live):
    if live[0] != 'ok' or _flat(live[1]) is None:
        return
    for i, a in enumerate(args):
        for label, v in _container_variants(a):
            b = list(copy.deepcopy(args))
            b[i] = v
            r = _call(f, b, copy.deepcopy(kw))
            STATS['container_probes'] = STATS.get('container_probes', 0) + 1
            fn = '%s.%s' % (modname.split('.')[-1], name)
            key = '%s|%d|%s->%s' % (fn, i, type(a).__name__, label)
            if _CONTAINER_RECORD:
                _container_record(key, 'ok' if r[0] == 'ok' else 'raise')
            if r[0] != 'ok':
                # an exception for another container is an alarm only where the reviewed tree is known to accept that container for
                # that argument (harness/container_baseline.json, recorded on the reviewed tree): most of the API was never written
                # for lists (FormFactor('Y', [0., .25]) raises TypeError in the pinned code) and that is not what any property says
                bad = _CONTAINER_BASELINE.get(key) == 'ok'
            else:
                bad = not _close(live[1], r[1])
            if bad and len(CONTAINER_EVENTS) < 40:
                CONTAINER_EVENTS.append({'fn': '%s.%s' % (modname.split('.')[-1], name), 'arg_index': i, 'container': label,
                                         'original_container': type(a).__name__, 'args': _plain(args),
                                         'result': _plain(live[1]), 'result_other_container': _plain(r[1]) if r[0] == 'ok' else 'raised ' + str(r[1])})
                return


def _plain(x):
    if isinstance(x, np.ndarray):
        return x.tolist()
    if isinstance(x, np.generic):
        return x.item()
    if isinstance(x, (list, tuple)):
        return [_plain(y) for y in x]
    if isinstance(x, (int, float, str, bool)) or x is None:
        return x
    if isinstance(x, dict) and len(x) <= 64:
        return {str(k): _plain(v) for k, v in x.items()}
    if _plain_object(x) and len(vars(x)) <= 32:
        return {'__object__': type(x).__name__, 'attrs': {k: _plain(v) for k, v in vars(x).items()}}
    return repr(x)


def _bits(r):
    """canonical bytes of a result (nested lists/tuples/arrays/scalars); None when not a numeric value"""
    if r is None:
        return b'N'
    if isinstance(r, (list, tuple)):
        parts = [_bits(x) for x in r]
        return None if any(p is None for p in parts) else b'[' + b','.join(parts) + b']'
    try:
        a = np.asarray(r)
    except Exception:
        return None
    if a.dtype.kind not in 'fiubc':
        return None
    return str(a.shape).encode() + np.ascontiguousarray(a, dtype=complex if a.dtype.kind == 'c' else float).tobytes()


def _call(f, args, kw):
    try:
        return ('ok', f(*args, **kw))
    except Exception as e:          # the probe only compares; what is raised is the business of the property's oracle
        return ('raise', type(e).__name__)


def _outcome_bits(o):
    return o[1].encode() if o[0] == 'raise' else _bits(o[1])


def _fresh(modname, name):
    """the function `name` in a pristine copy of its module: the source executed into a fresh namespace"""
    import sys
    m = sys.modules[modname]
    path = m.__file__
    if modname not in _CODE:
        import warnings
        with warnings.catch_warnings():
            warnings.simplefilter('ignore')
            _CODE[modname] = compile(open(path).read(), path, 'exec')
    ns = {'__name__': modname, '__file__': path, '__package__': modname.rsplit('.', 1)[0]}
    exec(_CODE[modname], ns)
    return ns[name]


def _has_special(args):
    for a in args:
        if isinstance(a, (float, np.floating)) and a == 0.0:
            return True
        if isinstance(a, (list, tuple)) and any(isinstance(x, (float, np.floating)) and x == 0.0 for x in a):
            return True
    return False


def _record(modname, name, kind, args, kw, r1, r2, first=None):
    if len(HISTORY_EVENTS) < 20:
        HISTORY_EVENTS.append({'fn': '%s.%s' % (modname.split('.')[-1], name), 'scenario': kind, 'args': _plain(args), 'kwargs': _plain(kw),
                               'first_call_args': _plain(first) if first is not None else None,
                               'preceding_calls': [[n_, _plain(a_), _plain(k_)] for n_, a_, k_ in list(_recent.get(modname, []))[:-1]]
                               if kind == 'live' else None,
                               'result_in_used_module': _plain(r1[1]) if r1[0] == 'ok' else 'raised ' + str(r1[1]),
                               'result_in_pristine_module': _plain(r2[1]) if r2[0] == 'ok' else 'raised ' + str(r2[1])})


def _probe(modname, name, f, a0, kw, live):
    """a0: deep copy of the arguments taken BEFORE the real call; live: outcome of the real call"""
    STATS['probes'] += 1
    b_live = _outcome_bits(live)
    if b_live is None:
        return
    # live: the real call, in the history the stream produced, against the pristine module
    ref = _call(_fresh(modname, name), copy.deepcopy(a0), copy.deepcopy(kw))
    if _outcome_bits(ref) != b_live:
        _record(modname, name, 'live', a0, kw, live, ref)
        return
    if _probe_values(modname, name, f, a0, kw, live, ref, b_live):
        return
    for extra in (_after_error_probe, _ambient_probe, _optimized_probe, _retained_probe, _result_edit_probe, _thread_probe):
        try:
            if extra(modname, name, f, a0, kw, live, ref, b_live):
                return
        except Exception:
            pass


def _probe_values(modname, name, f, a0, kw, live, ref, b_live):
    # repeat
    r1 = _call(f, copy.deepcopy(a0), copy.deepcopy(kw))
    if _outcome_bits(r1) != b_live:
        _record(modname, name, 'repeat', a0, kw, r1, ref, first=a0)
        return True
    idx = [i for i, a in enumerate(a0) if _numeric(a)]
    if not idx and not any(_has_objects(a) for a in a0):
        return False
    # near
    near = tuple(_scaled(a, 1 + 1e-7) if i in idx else copy.deepcopy(a) for i, a in enumerate(a0))
    r1 = _call(f, copy.deepcopy(near), copy.deepcopy(kw))
    r2 = _call(_fresh(modname, name), copy.deepcopy(near), copy.deepcopy(kw))
    if _outcome_bits(r1) != _outcome_bits(r2) and _outcome_bits(r1) is not None and _outcome_bits(r2) is not None:
        _record(modname, name, 'near', near, kw, r1, r2, first=a0)
        return True
    # alias (numeric containers, and the numeric attributes of objects passed in lists: atom entries with .pos/.adp/.occ)
    if any(isinstance(a0[i], (list, np.ndarray)) for i in idx) or any(_has_objects(a) for a in a0):
        b0 = copy.deepcopy(a0)
        keys = _object_keys(b0)
        _call(f, b0, copy.deepcopy(kw))
        for i, a in enumerate(b0):
            if i in idx and isinstance(a, (list, np.ndarray)):
                _scale_inplace(a, 1 + 1e-3)
            elif _has_objects(a):
                _perturb_objects(a, 1 + 1e-3)
        r1 = _call(f, b0, copy.deepcopy(kw))
        # the pristine module gets the same values in objects that carry nothing the first call attached to them
        r2 = _call(_fresh(modname, name), _strip_added(copy.deepcopy(b0), keys), copy.deepcopy(kw))
        if _outcome_bits(r1) != _outcome_bits(r2) and _outcome_bits(r1) is not None and _outcome_bits(r2) is not None:
            _record(modname, name, 'alias', b0, kw, r1, r2, first=a0)
            return True
    # alias-0d: scalar arguments handed over as 0-d arrays (squeezed views into a parameter vector) that the caller updates in place
    sc = [i for i in idx if isinstance(a0[i], (float, np.floating)) and not isinstance(a0[i], bool)]
    if sc and live[0] == 'ok':
        b0 = list(copy.deepcopy(a0))
        for i in sc:
            b0[i] = np.array(float(a0[i]))
        r0 = _call(f, b0, copy.deepcopy(kw))
        if r0[0] == 'ok' and _close(r0[1], live[1]):
            for i in sc:
                b0[i][...] = float(b0[i]) * (1 + 1e-3)
            r1 = _call(f, b0, copy.deepcopy(kw))
            r2 = _call(_fresh(modname, name), copy.deepcopy(b0), copy.deepcopy(kw))
            STATS['alias_0d_probes'] = STATS.get('alias_0d_probes', 0) + 1
            if _outcome_bits(r1) != _outcome_bits(r2) and _outcome_bits(r1) is not None and _outcome_bits(r2) is not None:
                _record(modname, name, 'alias-0d', [float(x) if isinstance(x, np.ndarray) and x.ndim == 0 else x for x in b0], kw, r1, r2, first=a0)
                return True
    return False


# ------------------------------------------------------------------------------------------------
# further histories a caller can produce around a call (all compared bit-for-bit with the real call's own outcome)

TWINS = {'xfab.tools': 'xfab.laue', 'xfab.laue': 'xfab.tools'}


def _malformed(a0):
    """argument lists a careless caller produces (a truncated vector, None): what they raise is not judged, what they leave behind is"""
    out = []
    for i, a in enumerate(a0):
        if isinstance(a, np.ndarray) and a.ndim >= 1 and a.shape[0] > 1:
            v = a[:-1].copy()
        elif isinstance(a, (list, tuple)) and len(a) > 1:
            v = type(a)(copy.deepcopy(a[:-1]))
        else:
            continue
        b = list(copy.deepcopy(a0))
        b[i] = v
        out.append(b)
        break
    if a0:
        b = list(copy.deepcopy(a0))
        b[0] = None
        out.append(b)
    return out


def _after_error_probe(modname, name, f, a0, kw, live, ref, b_live):
    """a call with malformed arguments (normally an exception the caller catches) must leave no trace: the same function, and its
    twin in the other module (tools <-> laue), still compute what a pristine module computes"""
    bad_calls = _malformed(a0)
    if not bad_calls:
        return False
    raised = 0
    for b in bad_calls:
        raised += _call(f, copy.deepcopy(b), copy.deepcopy(kw))[0] == 'raise'
    STATS['after_error_probes'] = STATS.get('after_error_probes', 0) + 1
    r1 = _call(f, copy.deepcopy(a0), copy.deepcopy(kw))
    if _outcome_bits(r1) != b_live:
        _record(modname, name, 'after-error', a0, kw, r1, ref, first=bad_calls)
        return True
    other = TWINS.get(modname)
    if other and other in sys.modules and hasattr(sys.modules[other], name):
        g = getattr(sys.modules[other], name)
        try:
            gf = _fresh(other, name)
        except Exception:
            return False
        r1 = _call(g, copy.deepcopy(a0), copy.deepcopy(kw))
        r2 = _call(gf, copy.deepcopy(a0), copy.deepcopy(kw))
        if _outcome_bits(r1) != _outcome_bits(r2) and _outcome_bits(r1) is not None and _outcome_bits(r2) is not None:
            _record(other, name, 'after-error', a0, kw, r1, r2, first=bad_calls)
            HISTORY_EVENTS[-1]['error_calls_made_in'] = '%s.%s' % (modname.split('.')[-1], name)
            return True
    return False


# functions that (directly or through a callee) consult the package-wide validation switch xfab.CHECKS: the only ones whose OUTCOME may
# depend on it, and only by not raising the guard's ValueError (property C20); reviewed list, cf. `grep -n CHECKS.activated xfab/*.py`
CHECK_GUARDED = {'ubi_to_u', 'ubi_to_u_and_eps', 'ubi_to_u_b', 'ubi_to_rod', 'euler_to_u', 'u_to_euler', 'u_to_rod', 'u_to_ubi',
                 'ub_to_u_b', 'Umis'}


class _Ambient:
    """process state that no property lets a numeric result depend on"""

    def __init__(self, what):
        self.what = what

    def __enter__(self):
        import logging
        self.saved = []
        if self.what == 'logging-debug':
            names = ['xfab'] + [n_ for n_ in list(logging.root.manager.loggerDict) if n_.startswith('xfab.')] + list(MODULES)
            self.handler = logging.NullHandler()
            for n_ in dict.fromkeys(names):
                lg = logging.getLogger(n_)
                self.saved.append((lg, lg.level, lg.propagate, lg.handlers[:]))
                lg.setLevel(logging.DEBUG)
                lg.handlers = []                    # the records are produced (that is the point) but not printed
            top = logging.getLogger('xfab')
            top.addHandler(self.handler)
            top.propagate = False
        elif self.what == 'checks-off':
            import xfab
            self.state = xfab.CHECKS.activated
            xfab.CHECKS.activated = False
        return self

    def __exit__(self, *exc):
        import logging
        if self.what == 'logging-debug':
            for lg, lvl, prop, hs in self.saved:
                lg.setLevel(lvl)
                lg.propagate = prop
                lg.handlers = hs
            logging.getLogger('xfab').removeHandler(self.handler)
        elif self.what == 'checks-off':
            import xfab
            xfab.CHECKS.activated = self.state
        return False


def _ambient_probe(modname, name, f, a0, kw, live, ref, b_live):
    """the outcome may not depend on the logging configuration, nor -- outside the reviewed guard sites of property C20 -- on the
    validation switch"""
    import xfab
    for what in ('logging-debug', 'checks-off'):
        if what == 'checks-off':
            try:
                if xfab.CHECKS.activated is not True:
                    continue
            except Exception:
                continue
            if name in CHECK_GUARDED and live[0] == 'raise' and live[1] == 'ValueError':
                continue
        with _Ambient(what):
            r1 = _call(f, copy.deepcopy(a0), copy.deepcopy(kw))
        STATS['ambient_probes'] = STATS.get('ambient_probes', 0) + 1
        if _outcome_bits(r1) != b_live:
            _record(modname, name, 'ambient-' + what, a0, kw, r1, live)
            return True
    return False


_CODE_OPT = {}
_LAST_ARGS = {}
_THREAD_PREV = {}


def _fresh_optimized(modname, name):
    """the function in a pristine copy of its module compiled as `python -O` compiles it (asserts stripped, __debug__ False)"""
    m = sys.modules[modname]
    path = m.__file__
    if modname not in _CODE_OPT:
        import warnings
        with warnings.catch_warnings():
            warnings.simplefilter('ignore')
            _CODE_OPT[modname] = compile(open(path).read(), path, 'exec', optimize=1)
    ns = {'__name__': modname, '__file__': path, '__package__': modname.rsplit('.', 1)[0]}
    exec(_CODE_OPT[modname], ns)
    return ns[name]


def _optimized_probe(modname, name, f, a0, kw, live, ref, b_live):
    """`python -O` (which xfab/checks.py itself recommends) strips assert statements: work done inside an assert disappears.  The module
    compiled that way must compute the same thing, except where the reviewed code asserts on its input (live outcome AssertionError)"""
    if live[0] == 'raise' and live[1] == 'AssertionError':
        return False
    r1 = _call(_fresh_optimized(modname, name), copy.deepcopy(a0), copy.deepcopy(kw))
    STATS['optimized_probes'] = STATS.get('optimized_probes', 0) + 1
    if _outcome_bits(r1) != b_live:
        _record(modname, name, 'ambient-python-O', a0, kw, r1, live)
        return True
    return False


def _thread_probe(modname, name, f, a0, kw, live, ref, b_live):
    """the same call made from several threads at once (thread switches forced every microsecond): a function of its arguments has no
    scratch storage another thread can overwrite"""
    if live[0] != 'ok':
        return False
    K, M = 4, (4 if name in SLOW else 10)
    bad = [None] * K
    old = sys.getswitchinterval()
    # the threads work on DIFFERENT arguments (shared scratch storage only shows when the values differ): the present ones and those of
    # the previous probed call of this function, each with its own expected result computed beforehand, alone
    variants = [(a0, kw, b_live)]
    prev = _THREAD_PREV.get((modname, name))
    if prev is not None:
        rp = _call(f, copy.deepcopy(prev[0]), copy.deepcopy(prev[1]))
        if rp[0] == 'ok' and _outcome_bits(rp) is not None and _outcome_bits(rp) != b_live:
            variants.append((prev[0], prev[1], _outcome_bits(rp)))
    _THREAD_PREV[(modname, name)] = (copy.deepcopy(a0), copy.deepcopy(kw))

    def work(i):
        _depth[0] = 1
        av, kv, bv = variants[i % len(variants)]
        for _ in range(M):
            r = _call(f, copy.deepcopy(av), copy.deepcopy(kv))
            if _outcome_bits(r) != bv:
                bad[i] = r
                return
    ts = [_threading.Thread(target=work, args=(i,)) for i in range(K)]
    try:
        sys.setswitchinterval(1e-6)
        for t in ts:
            t.start()
        for t in ts:
            t.join()
    finally:
        sys.setswitchinterval(old)
    STATS['thread_probes'] = STATS.get('thread_probes', 0) + 1
    hit = [r for r in bad if r is not None]
    if hit:
        _record(modname, name, 'threads', a0, kw, hit[0], ref)
        return True
    return False


def _retained_probe(modname, name, f, a0, kw, live, ref, b_live):
    """the object handed to the caller still holds what it held when it was returned, after the other calls made above (with other
    argument values): a result buffer shared between calls is overwritten by the next call"""
    if live[0] != 'ok':
        return False
    idx = [i for i, a in enumerate(a0) if _numeric(a)]
    other = None
    prev = _LAST_ARGS.get((modname, name))
    if prev is not None and _outcome_bits(('ok', list(prev[0]))) != _outcome_bits(('ok', list(a0))):
        # the arguments of the previous probed call of this function: valid, and different from the present ones
        other = copy.deepcopy(prev[0])
        _call(f, copy.deepcopy(other), copy.deepcopy(prev[1]))
    if idx:
        other2 = tuple(_scaled(a, 1 + 1e-3) if i in idx else copy.deepcopy(a) for i, a in enumerate(a0))
        _call(f, other2, copy.deepcopy(kw))
        other = other if other is not None else other2
    _LAST_ARGS[(modname, name)] = (copy.deepcopy(a0), copy.deepcopy(kw))
    STATS['retained_probes'] = STATS.get('retained_probes', 0) + 1
    now = _outcome_bits(live)
    if now != b_live:
        _record(modname, name, 'retained', a0, kw, ('ok', copy.deepcopy(live[1])), ref, first=other)
        return True
    return False


def _edit_result(r):
    """what a caller does with a returned array: overwrite it in place"""
    if isinstance(r, np.ndarray) and r.dtype.kind in 'fiuc' and r.size and r.flags.writeable:
        try:
            r *= 2
            r += 1
            return True
        except Exception:
            return False
    if isinstance(r, list):
        ok = False
        for i, x in enumerate(r):
            if isinstance(x, (float, int, np.generic)) and not isinstance(x, bool):
                r[i] = x * 2 + 1
                ok = True
            else:
                ok = _edit_result(x) or ok
        return ok
    if isinstance(r, tuple):
        ok = False
        for x in r:
            ok = _edit_result(x) or ok
        return ok
    return False


def _result_edit_probe(modname, name, f, a0, kw, live, ref, b_live):
    """f(a); the caller edits the returned array in place; f(a) again: a memo that hands out its own storage is corrupted"""
    if live[0] != 'ok':
        return False
    r = _call(f, copy.deepcopy(a0), copy.deepcopy(kw))
    if r[0] != 'ok' or not _edit_result(r[1]):
        return False
    STATS['result_edit_probes'] = STATS.get('result_edit_probes', 0) + 1
    r1 = _call(f, copy.deepcopy(a0), copy.deepcopy(kw))
    if _outcome_bits(r1) != b_live:
        _record(modname, name, 'result-edit', a0, kw, r1, ref)
        return True
    return False


_RESERVOIR = {}          # (module, function) -> [(args, kwargs, bits)] of its first probed calls
REVISIT_AT = (40, 300, 700, 1500, 4000, 10000)


def _revisit(modname, name, f, count):
    """after many other calls (a bounded memo has wrapped around by then) the FIRST calls of the run are made again: same bits"""
    if count not in REVISIT_AT:
        return
    for a0, kw, bits in _RESERVOIR.get((modname, name), []):
        r = _call(f, copy.deepcopy(a0), copy.deepcopy(kw))
        STATS['revisit_probes'] = STATS.get('revisit_probes', 0) + 1
        if _outcome_bits(r) != bits:
            # judged against a pristine copy of the module NOW (the validation switch may legitimately have changed since the first call)
            ref = _call(_fresh(modname, name), copy.deepcopy(a0), copy.deepcopy(kw))
            if _outcome_bits(ref) == _outcome_bits(r):
                continue
            _record(modname, name, 'revisit', a0, kw, r, ref)
            HISTORY_EVENTS[-1]['calls_of_this_function_before_the_revisit'] = count
            return


def _wrap(modname, name, f):
    probe_ok = name not in NO_PROBE and not name.startswith('_')
    slow = name in SLOW

    @functools.wraps(f)
    def g(*args, **kw):
        snaps = [(_snap(a), a) for a in args]
        top = _depth[0] == 0
        probe_now = False
        if top:
            import collections
            _recent.setdefault(modname, collections.deque(maxlen=10)).append((name, args, kw))
        if top and probe_ok:
            STATS['calls'] += 1
            key = (modname, name)
            c = _count[key] = _count.get(key, 0) + 1
            if slow:
                probe_now = c <= 3 or c % (PROBE_EVERY * 4) == 0
            else:
                probe_now = c <= PROBE_FIRST + 1 or c % PROBE_EVERY == 0
                if not probe_now and _nspecial.get(key, 0) < 8 and _has_special(args):
                    _nspecial[key] = _nspecial.get(key, 0) + 1
                    probe_now = True
            if probe_now:
                try:
                    a0, k0 = copy.deepcopy(args), copy.deepcopy(kw)
                except Exception:
                    probe_now = False
        _depth[0] += 1
        live = None
        try:
            res = f(*args, **kw)
            live = ('ok', res)
            return res
        except Exception as e:
            live = ('raise', type(e).__name__)
            raise
        finally:
            _depth[0] -= 1
            for i, (s, a) in enumerate(snaps):
                if s is not None and not _same(s, a) and len(EVENTS) < 50:
                    EVENTS.append({'fn': '%s.%s' % (modname.split('.')[-1], name), 'arg_index': i,
                                   'before': np.asarray(s[1], float).tolist(), 'after': np.asarray(a, float).tolist(),
                                   'all_args': [[t[0][0], _plain(t[0][1])] if t[0] is not None else ['other', _plain(t[1])] for t in snaps]})
            if top and probe_ok and live is not None and not slow:
                _depth[0] += 1
                try:
                    _revisit(modname, name, f, _count.get((modname, name), 0))
                except Exception:
                    pass
                finally:
                    _depth[0] -= 1
            if probe_now and live is not None:
                key_ = (modname, name)
                if len(_RESERVOIR.get(key_, [])) < 3 and _outcome_bits(live) is not None:
                    _RESERVOIR.setdefault(key_, []).append((copy.deepcopy(a0), copy.deepcopy(k0), _outcome_bits(live)))
                _depth[0] += 1
                try:
                    _probe(modname, name, f, a0, k0, live)
                except Exception:
                    pass
                try:
                    if name not in NO_DTYPE and not k0:          # (slow functions too: they are probed on their first calls only)
                        _dtype_probe(modname, name, f, a0, k0)
                except Exception:
                    pass
                try:
                    if name not in NO_CONTAINER and not slow:
                        _container_probe(modname, name, f, a0, k0, live)
                        _layout_probe(modname, name, f, a0, k0, live)
                    if not slow:
                        _keyword_probe(modname, name, f, a0, k0, live)
                    _identity_probe(modname, name, f, a0, k0, live)
                except Exception:
                    pass
                finally:
                    _depth[0] -= 1
    g.__purity_guard__ = True
    return g


# ------------------------------------------------------------------------------------------------
# module-level data: the literal tables (atomlib.formfactor, sg.sgdic, symmetry.ROTATIONS ...) must not change while the library is used

DATA_MODULES = ('xfab.atomlib', 'xfab.sg', 'xfab.symmetry', 'xfab.tools', 'xfab.laue', 'xfab.structure', 'xfab.detector', 'xfab.checks',
                'xfab.parameters')
_DATA_SNAP = {}
DATA_EVENTS = []


def _data_items(m):
    for name, o in list(vars(m).items()):
        if name.startswith('__') or inspect.ismodule(o) or inspect.isfunction(o) or inspect.isclass(o) or callable(o):
            continue
        # literal tables only: a container that is EMPTY when the guard is installed is working storage (a lazily filled cache is judged
        # by the history probe on what it returns, not by the fact that it fills)
        if isinstance(o, (dict, list, tuple, np.ndarray)) and len(o) > 0:
            yield name, o


def _freeze(o, depth=0):
    if depth > 6:
        return '...'
    if isinstance(o, np.ndarray):
        return ('nd', o.shape, o.dtype.str, o.tobytes())
    if isinstance(o, dict):
        return ('dict', tuple(sorted((repr(k), _freeze(v, depth + 1)) for k, v in o.items())))
    if isinstance(o, (list, tuple)):
        return (type(o).__name__, tuple(_freeze(v, depth + 1) for v in o))
    if isinstance(o, float):
        return ('f', o.hex() if o == o else 'nan')
    if isinstance(o, (int, str, bool, complex)) or o is None:
        return o
    return ('obj', type(o).__name__)


def snapshot_data():
    import importlib
    _DATA_SNAP.clear()
    for mn in DATA_MODULES:
        try:
            m = importlib.import_module(mn)
        except Exception:
            continue
        for name, o in _data_items(m):
            try:
                _DATA_SNAP[(mn, name)] = _freeze(o)
            except Exception:
                pass


def check_data():
    """compare the module-level tables with the snapshot taken by install(); a difference is an event (once per name)"""
    import importlib
    for (mn, name), snap in list(_DATA_SNAP.items()):
        try:
            m = importlib.import_module(mn)
            cur = _freeze(getattr(m, name))
        except Exception:
            cur = ('missing',)
        if cur != snap and not any(e['fn'] == '%s.%s' % (mn.split('.')[-1], name) for e in DATA_EVENTS):
            what = 'changed'
            if isinstance(snap, tuple) and isinstance(cur, tuple) and snap[:1] == ('dict',) and cur[:1] == ('dict',):
                a, b = dict(snap[1]), dict(cur[1])
                ch = sorted(k for k in set(a) | set(b) if a.get(k) != b.get(k))
                what = 'entries changed/added/removed: %s' % ', '.join(ch[:8])
            DATA_EVENTS.append({'fn': '%s.%s' % (mn.split('.')[-1], name), 'what_changed': what})


def install():
    import importlib
    snapshot_data()
    for mn in MODULES:
        try:
            m = importlib.import_module(mn)
        except Exception:
            continue
        for name, o in list(vars(m).items()):
            if inspect.isfunction(o) and o.__module__ == mn and name not in SKIP and not getattr(o, '__purity_guard__', False):
                setattr(m, name, _wrap(mn, name, o))
                _installed.append((m, name, o))


def uninstall():
    while _installed:
        m, name, o = _installed.pop()
        setattr(m, name, o)


def violations():
    out, seen = [], set()
    check_data()
    for e in DATA_EVENTS:
        out.append({'fn': e['fn'], 'purity': 'module-data', 'known_id': None,
                    'what': 'a module-level table of the library changed while the library was being used (%s): results now depend on the '
                            'calls made earlier in the process' % e['what_changed'],
                    'observed': e['what_changed'], 'expected': 'module-level tables are constants'})
    for e in EVENTS:
        k = (e['fn'], e['arg_index'])
        if k in seen:
            continue
        seen.add(k)
        out.append({'fn': e['fn'], 'purity': 'mutation', 'arg_index': e['arg_index'],
                    'what': 'argument %d modified in place (the models assume value semantics; a caller re-using the array gets wrong results)' % e['arg_index'],
                    'input': e['before'], 'all_args': e.get('all_args'), 'observed': e['after'], 'expected': 'argument unchanged', 'known_id': None})
    for e in HISTORY_EVENTS:
        k = (e['fn'], 'history')
        if k in seen:
            continue
        seen.add(k)
        sc = e['scenario']
        if sc.startswith('ambient-'):
            what = ('the outcome depends on process state no property lets it depend on (%s): the same call with the same arguments gives '
                    'something else' % {'ambient-logging-debug': 'logging level DEBUG on the xfab loggers',
                                        'ambient-checks-off': 'xfab.CHECKS.activated = False, outside the reviewed guard sites',
                                        'ambient-python-O': 'the module compiled as python -O compiles it: assert statements stripped'}.get(sc, sc))
        elif sc == 'threads':
            what = ('the same call made from four threads at once gives another result than made alone (scratch storage shared between '
                    'calls)')
        elif sc == 'revisit':
            what = ('one of the first calls of the run, made again after %s other calls of the same function, gives another result (a '
                    'bounded memo that wrapped around)' % e.get('calls_of_this_function_before_the_revisit'))
        elif sc == 'retained':
            what = ('the object returned to the caller was overwritten by a later call of the same function with other arguments '
                    '(a result buffer shared between calls)')
        elif sc == 'result-edit':
            what = ('after the caller edited a returned array in place, the same call returns the edited values (the function hands out its '
                    'own stored result)')
        elif sc == 'after-error':
            what = ('after a call with malformed arguments (an exception the caller catches) the function computes something else for the '
                    'same valid arguments than a pristine copy of the module')
        else:
            what = ('result depends on the call history, not only on the argument values (scenario "%s": the module as used '
                    'so far and a pristine copy of the module disagree on the same arguments)' % sc)
        out.append(dict(e, purity='history', known_id=None, what=what,
                        observed=e['result_in_used_module'], expected=e['result_in_pristine_module']))
    for e in DTYPE_EVENTS:
        k = (e['fn'], 'dtype')
        if k in seen:
            continue
        seen.add(k)
        out.append(dict(e, purity='dtype', known_id=None,
                        what='integer-valued arguments give a different result when passed as ints than when passed as floats '
                             '(argument positions %s)' % e['int_typed_positions'],
                        observed=e['result_int_typed'], expected=e['result_float_typed']))
    for e in CONTAINER_EVENTS:
        k = (e['fn'], 'container')
        if k in seen:
            continue
        seen.add(k)
        out.append(dict(e, purity='container', known_id=None,
                        what='the same numbers passed in another container (%s instead of %s, argument %d) give a different result or an '
                             'exception' % (e['container'], e['original_container'], e['arg_index']),
                        observed=e['result_other_container'], expected=e['result']))
    return out


def replay(v):
    """re-run a stored purity violation against the implementation; 1 = still violated"""
    if v.get('purity') == 'module-data':
        print('replay %s (module-data): the stored event names the table that changed during the run (%s); re-run the check to reproduce the '
              'call history' % (v['fn'], v.get('observed')))
        return 1
    if v.get('scenario') == 'revisit':
        print('replay %s (revisit): the event needs the %s calls of the run that preceded it; re-run the check (same seed) to reproduce it. '
              'Stored: used module %s | pristine module %s' % (v['fn'], v.get('calls_of_this_function_before_the_revisit'),
                                                              v.get('result_in_used_module'), v.get('result_in_pristine_module')))
        return 1
    import importlib
    modname, name = v['fn'].split('.')
    m = importlib.import_module('xfab.' + modname)
    f = getattr(m, name)
    f = getattr(f, '__wrapped__', f)

    def conv(x):
        import types
        if isinstance(x, dict) and '__object__' in x:
            return types.SimpleNamespace(**{k: conv(v) if isinstance(v, dict) else v for k, v in x['attrs'].items()})
        if isinstance(x, list) and x and isinstance(x[0], dict) and '__object__' in x[0]:
            return [conv(y) for y in x]
        return np.array(x, float) if isinstance(x, list) and x and isinstance(x[0], list) else x
    if v.get('purity') == 'container' and v.get('container') == 'keyword-arguments':
        base = [conv(x) for x in v['args']]
        r1 = _call(f, copy.deepcopy(base), {})
        r2 = _call(f, [], dict(zip(v['names'], copy.deepcopy(base))))
        bad = (r1[0] == 'ok' and (r2[0] != 'ok' or not _close(r1[1], r2[1]))) or (r1[0] != 'ok' and r2[0] == 'ok')
        print('replay %s (keyword call): positional %s | by keyword %s -> %s' % (v['fn'], _plain(r1[1]), _plain(r2[1]), 'VIOLATION' if bad else 'holds'))
        return 1 if bad else 0
    if v.get('purity') == 'container' and v.get('identity'):
        idn = v['identity']
        base = [conv(x) for x in v['args']]
        kw0 = dict(v.get('kwargs') or {})
        val = idn['value']
        alt = ''.join(list(val)) if isinstance(val, str) else (int(val) if idn['as'] == 'int flag' else np.bool_(val))
        b, k2 = list(copy.deepcopy(base)), dict(kw0)
        if idn['where'] == 'arg':
            b[idn['key']] = alt
        else:
            k2[idn['key']] = alt
        r1, r2 = _call(f, copy.deepcopy(base), dict(kw0)), _call(f, b, k2)
        bad = r1[0] == 'ok' and (r2[0] != 'ok' or not _close(r1[1], r2[1]))
        print('replay %s (%s): as written %s | as %s %s -> %s' % (v['fn'], idn['as'], _plain(r1[1]), idn['as'], _plain(r2[1]), 'VIOLATION' if bad else 'holds'))
        return 1 if bad else 0
    if v.get('purity') == 'container':
        base = [np.array(x, float) if (i == v['arg_index'] and v['original_container'] == 'ndarray') else conv(x) for i, x in enumerate(v['args'])]
        other = list(copy.deepcopy(base))
        x = v['args'][v['arg_index']]
        def _strided():
            a_ = np.array(x, float)
            big = np.zeros(tuple(2 * n_ for n_ in a_.shape))
            sl = tuple(slice(None, None, 2) for _ in a_.shape)
            big[sl] = a_
            return big[sl]
        if v['original_container'] == 'C-contiguous ndarray':
            base[v['arg_index']] = np.array(x, float)
        other[v['arg_index']] = {'list': lambda: np.array(x, float).tolist(), 'ndarray': lambda: np.array(x, float),
                                 'tuple': lambda: (tuple(map(tuple, x)) if x and isinstance(x[0], list) else tuple(x)),
                                 'fortran-ordered': lambda: np.asfortranarray(np.array(x, float)),
                                 'transposed-view': lambda: np.array(x, float).T.copy().T,
                                 'strided-view': _strided, 'read-only': lambda: _readonly(np.array(x, float))}[v['container']]()
        r1, r2 = _call(f, base, dict(v.get('kwargs') or {})), _call(f, other, dict(v.get('kwargs') or {}))
        bad = r1[0] == 'ok' and (r2[0] != 'ok' or not _close(r1[1], r2[1]))
        print('replay %s (container): %s %s | %s %s -> %s' % (v['fn'], v['original_container'], _plain(r1[1]), v['container'], _plain(r2[1]),
                                                             'VIOLATION' if bad else 'holds'))
        return 1 if bad else 0
    if v.get('purity') == 'dtype':
        def arr(x, kind):
            return np.array(x, dtype=kind) if isinstance(x, list) and x and isinstance(x[0], list) else x
        fa = [arr(x, float) for x in v['args_float']]
        ia = [arr(x, int) if i in v['int_typed_positions'] else arr(x, float) for i, x in enumerate(v['args_int'])]
        r1, r2 = _call(f, fa, {}), _call(f, ia, {})
        bad = r1[0] == 'ok' and (r2[0] != 'ok' or not _close(r1[1], r2[1]))
        print('replay %s (dtype): float-typed %s | int-typed %s -> %s' % (v['fn'], _plain(r1[1]), _plain(r2[1]), 'VIOLATION' if bad else 'holds'))
        return 1 if bad else 0
    if v.get('purity') == 'mutation':
        if v.get('all_args'):
            args = [np.array(x, float) if t == 'nd' else x for t, x in v['all_args']]
            k = v['arg_index']
        else:
            args, k = [np.array(v['input'], float)], 0
        before = copy.deepcopy(args[k])
        _call(f, args, {})
        bad = _bits(args[k]) != _bits(before)
        print('replay %s: argument %s' % (v['fn'], 'MODIFIED in place -> VIOLATION' if bad else 'unchanged'))
        return 1 if bad else 0
    args = [conv(x) for x in v['args']]
    kw = v.get('kwargs') or {}
    first = [conv(x) for x in v['first_call_args']] if v.get('first_call_args') is not None and v.get('scenario') != 'after-error' else None
    fresh = _fresh('xfab.' + modname, name)
    if v['scenario'] == 'ambient-python-O':
        r2 = _call(f, copy.deepcopy(args), dict(kw))
        r1 = _call(_fresh_optimized('xfab.' + modname, name), copy.deepcopy(args), dict(kw))
    elif v['scenario'] == 'threads':
        r2 = _call(fresh, copy.deepcopy(args), dict(kw))
        r1 = r2
        for _ in range(20):
            if _thread_probe('xfab.' + modname, name, f, tuple(args), dict(kw), r2, r2, _outcome_bits(r2)):
                r1 = ('ok', 'differs between threads')
                break
    elif v['scenario'].startswith('ambient-'):
        r2 = _call(f, copy.deepcopy(args), dict(kw))
        with _Ambient(v['scenario'][len('ambient-'):]):
            r1 = _call(f, copy.deepcopy(args), dict(kw))
    elif v['scenario'] == 'retained':
        r2 = _call(f, copy.deepcopy(args), dict(kw))
        keep = copy.deepcopy(r2)
        if first is not None:
            _call(f, copy.deepcopy(first), dict(kw))
        r1, r2 = r2, keep
    elif v['scenario'] == 'result-edit':
        r2 = _call(fresh, copy.deepcopy(args), dict(kw))
        r = _call(f, copy.deepcopy(args), dict(kw))
        if r[0] == 'ok':
            _edit_result(r[1])
        r1 = _call(f, copy.deepcopy(args), dict(kw))
    elif v['scenario'] == 'after-error':
        em, en = (v.get('error_calls_made_in') or v['fn']).split('.')
        ef = getattr(importlib.import_module('xfab.' + em), en)
        for b in v.get('first_call_args') or []:
            _call(ef, [conv(x) for x in b], dict(kw))
        r1 = _call(f, copy.deepcopy(args), dict(kw))
        r2 = _call(fresh, copy.deepcopy(args), dict(kw))
    elif v['scenario'] == 'alias-0d':
        b0 = [np.array(float(x)) if isinstance(x, float) else copy.deepcopy(x) for x in first]
        _call(f, b0, dict(kw))
        for x in b0:
            if isinstance(x, np.ndarray) and x.ndim == 0:
                x[...] = float(x) * (1 + 1e-3)
        r1 = _call(f, b0, dict(kw))
        r2 = _call(fresh, copy.deepcopy(b0), dict(kw))
    elif v['scenario'] == 'alias':
        b0 = copy.deepcopy(first)
        keys0 = _object_keys(b0)
        _call(f, b0, dict(kw))
        for x in b0:
            if isinstance(x, (list, np.ndarray)) and _numeric(x):
                _scale_inplace(x, 1 + 1e-3)
            elif _has_objects(x):
                _perturb_objects(x, 1 + 1e-3)
        r1 = _call(f, b0, dict(kw))
        r2 = _call(fresh, _strip_added(copy.deepcopy(b0), keys0), dict(kw))
    elif v['scenario'] == 'live':
        for n_, a_, k_ in v.get('preceding_calls') or []:
            g_ = getattr(m, n_, None)
            g_ = getattr(g_, '__wrapped__', g_)
            if g_ is not None:
                _call(g_, [conv(x) for x in a_], dict(k_ or {}))
        r1 = _call(f, copy.deepcopy(args), dict(kw))
        r2 = _call(fresh, copy.deepcopy(args), dict(kw))
    else:
        if first is not None:
            _call(f, copy.deepcopy(first), dict(kw))
        r1 = _call(f, copy.deepcopy(args), dict(kw))
        r2 = _call(fresh, copy.deepcopy(args), dict(kw))
    bad = _outcome_bits(r1) != _outcome_bits(r2)
    print('replay %s (%s): used module %s | pristine module %s -> %s' % (
        v['fn'], v['scenario'], _plain(r1[1]), _plain(r2[1]), 'VIOLATION' if bad else 'holds'))
    return 1 if bad else 0


if __name__ == '__main__':
    # maintenance: python harness/purity.py --merge-container-baseline rec1 [rec2 ...]
    # a key is 'ok' in the baseline only if every recorded probe of it succeeded
    if len(sys.argv) >= 3 and sys.argv[1] == '--merge-container-baseline':
        acc = {}
        for path in sys.argv[2:]:
            for line in open(path):
                k, st = line.rsplit(' ', 1)
                st = st.strip()
                acc[k] = 'raise' if (st == 'raise' or acc.get(k) == 'raise') else 'ok'
        json.dump(dict(sorted(acc.items())), open(_CONTAINER_BASELINE_PATH, 'w'), indent=0)
        print('container baseline: %d keys, %d accept the other container' % (len(acc), sum(v == 'ok' for v in acc.values())))
