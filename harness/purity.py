"""
Value-semantics guard.  Every model (traced or hand-written) treats the numeric functions of xfab as pure: the
result depends on the argument values only and the arguments are left untouched.  The implementation could break
that silently (in-place arithmetic on a caller's array, a returned alias of internal state).  While a check runs,
the public functions of the numeric modules are wrapped: ndarray / list arguments are snapshotted before the call
and compared bit-for-bit afterwards.  A difference is recorded as an event; check.py reports events as
violations (the concrete call is the failing input).

Only harness-side monkeypatching, no source hook.  Functions keep `__wrapped__`, `__module__`, `__name__`.
"""
import functools, inspect
import numpy as np

EVENTS = []
_installed = []
MODULES = ('xfab.tools', 'xfab.laue', 'xfab.detector', 'xfab.symmetry', 'xfab.structure')
SKIP = {'trans_orientation', 'image_flipping'}     # return views by design; never write to their argument


def _snap(a):
    if isinstance(a, np.ndarray) and a.dtype.kind in 'fiub' and a.size <= 4096:
        return ('nd', a.copy())
    if isinstance(a, list) and len(a) <= 64 and all(isinstance(x, (int, float, np.generic)) for x in a):
        return ('list', list(a))
    return None


def _same(s, a):
    if s[0] == 'nd':
        return a.shape == s[1].shape and a.dtype == s[1].dtype and a.tobytes() == s[1].tobytes()
    return len(a) == len(s[1]) and all((x == y) or (x != x and y != y) for x, y in zip(a, s[1]))


def _wrap(modname, name, f):
    @functools.wraps(f)
    def g(*args, **kw):
        snaps = [(_snap(a), a) for a in args]
        try:
            return f(*args, **kw)
        finally:
            for i, (s, a) in enumerate(snaps):
                if s is not None and not _same(s, a) and len(EVENTS) < 50:
                    EVENTS.append({'fn': '%s.%s' % (modname.split('.')[-1], name), 'arg_index': i,
                                   'before': np.asarray(s[1], float).tolist(), 'after': np.asarray(a, float).tolist()})
    g.__purity_guard__ = True
    return g


def install():
    import importlib
    for mn in MODULES:
        try:
            m = importlib.import_module(mn)
        except Exception:
            continue
        for name, o in list(vars(m).items()):
            if inspect.isfunction(o) and o.__module__ == mn and name not in SKIP and not getattr(o, '__purity_guard__', False):
                setattr(m, name, _wrap(mn, name, o))
                _installed.append((m, name, o))


def uninstall():
    while _installed:
        m, name, o = _installed.pop()
        setattr(m, name, o)


def violations():
    out, seen = [], set()
    for e in EVENTS:
        k = (e['fn'], e['arg_index'])
        if k in seen:
            continue
        seen.add(k)
        out.append({'fn': e['fn'], 'what': 'argument %d modified in place (the models assume value semantics; a caller re-using the array gets wrong results)' % e['arg_index'],
                    'input': e['before'], 'observed': e['after'], 'expected': 'argument unchanged', 'known_id': None})
    return out
