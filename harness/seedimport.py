#!/venv/bin/python
"""import sub-agent deliverables /tmp/seedout/<name>/{patch.diff,demo.py,notes.md} into /verif/seeded/<name>/ with a meta.json"""
import sys, os, json, shutil
VERIF = os.path.dirname(os.path.dirname(os.path.abspath(__file__)))
for name in sys.argv[1:]:
    src = os.path.join('/tmp/seedout', name)
    dst = os.path.join(VERIF, 'seeded', name)
    if not all(os.path.exists(os.path.join(src, f)) for f in ('patch.diff', 'demo.py', 'notes.md')):
        print(name, 'incomplete deliverables'); continue
    os.makedirs(dst, exist_ok=True)
    for f in ('patch.diff', 'demo.py', 'notes.md'):
        shutil.copy(os.path.join(src, f), os.path.join(dst, f))
    notes = open(os.path.join(src, 'notes.md')).read()
    meta = {'property': name.split('-')[0],
            'source': 'fresh sub-agent (round %s), given only the property text, the one-line titles of earlier seeds to avoid, and a scratch worktree' % name.split('-')[1],
            'needs': notes[:3000]}
    json.dump(meta, open(os.path.join(dst, 'meta.json'), 'w'), indent=1)
    print(name, 'imported')
