#!/venv/bin/python
"""markdown table of the seeded changes and what the checks did with them (from seeded/*/meta.json, result.json)"""
import json, glob, os, re
VERIF = os.path.dirname(os.path.dirname(os.path.abspath(__file__)))
print('| seed | change | confirmed (demo clean / suite / demo changed) | check → verdict |')
print('|------|--------|------|------|')
for d in sorted(glob.glob(os.path.join(VERIF, 'seeded', '*', ''))):
    name = os.path.basename(d[:-1])
    m = json.load(open(d + 'meta.json'))
    title = m['needs'].strip().split('\n')[0].lstrip('# ').strip()
    title = re.sub(r'^C\d\d\s+(seeded change|seeded defect|seed)\s*(\([^)]*\))?\s*:?\s*', '', title)[:150]
    rp = d + 'result.json'
    if not os.path.exists(rp):
        print('| %s | %s | – | not run |' % (name, title)); continue
    r = json.load(open(rp))
    conf = '%s / %s / %s' % (r.get('demo_clean_rc'), r.get('pytest_tail', r.get('pytest_rc')), r.get('demo_mutated_rc'))
    outs = []
    for c, v in r['checks'].items():
        if v['rc'] == 1:
            how = 'no-failing-input-found' if v.get('no_failing_input') else 'failing input'
            fn = ''
            for l in v['lines']:
                mm = re.search(r'"fn": "([^"]+)"', l)
                if mm:
                    fn = ' (' + mm.group(1) + ')'; break
            br = [l.strip()[8:] for l in v['lines'] if l.startswith('  broken')]
            outs.append('%s: VIOLATION, %s%s%s' % (c, how, fn, ('; broken: ' + ', '.join(br[:3])) if br and v.get('no_failing_input') else ''))
        else:
            outs.append('%s: rc=%d (MISSED)' % (c, v['rc']))
    print('| %s | %s | %s | %s |' % (name, title.replace('|', '/'), conf, '; '.join(outs)))
