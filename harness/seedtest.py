#!/venv/bin/python
"""
Run registered checks against a seeded breaking change kept under /verif/seeded/<name>/
(patch.diff, demo.py, meta.json).   usage: harness/seedtest.py <name> [--checks C01,C14] [--tier quick] [--skip-confirm]

Protocol (as the brief prescribes): the patch is applied to /repo itself with `git apply`, the checks run,
and the patch is undone straight afterwards with `git checkout -- .` (also on errors).
Writes /verif/seeded/<name>/result.json.
"""
import sys, os, json, subprocess, time, argparse

VERIF = os.path.dirname(os.path.dirname(os.path.abspath(__file__)))
REPO = os.environ.get('SEED_REPO', '/repo')
PYTEST = ['/venv/bin/python', '-m', 'pytest', '-q', '-p', 'no:cacheprovider', '--timeout=900', '-x']


def sh(cmd, cwd=None, env=None, timeout=7200):
    p = subprocess.run(cmd, cwd=cwd, env=env, stdout=subprocess.PIPE, stderr=subprocess.STDOUT, text=True, timeout=timeout)
    return p.returncode, p.stdout


def main():
    ap = argparse.ArgumentParser()
    ap.add_argument('name')
    ap.add_argument('--checks')
    ap.add_argument('--tier', default='quick')
    ap.add_argument('--skip-confirm', action='store_true')
    a = ap.parse_args()
    d = os.path.join(VERIF, 'seeded', a.name)
    meta = json.load(open(os.path.join(d, 'meta.json')))
    checks = a.checks.split(',') if a.checks else [meta['property']]
    env = dict(os.environ, PYTHONPATH=REPO, PYTHONWARNINGS='ignore')
    rc, out = sh(['git', '-C', REPO, 'status', '--porcelain'])
    if out.strip():
        print('refusing: /repo is not clean:\n' + out)
        return 2
    res = {'name': a.name, 'property': meta['property'], 'checks': {}, 'tier': a.tier}
    oldp = os.path.join(d, 'result.json')
    if a.skip_confirm and os.path.exists(oldp):
        old = json.load(open(oldp))
        res.update({k: old[k] for k in ('demo_clean_rc', 'pytest_rc', 'pytest_tail', 'demo_mutated_rc', 'demo_mutated_tail') if k in old})
    demo = os.path.join(d, 'demo.py')
    if not a.skip_confirm:
        rc0, o0 = sh(['/venv/bin/python', demo], env=env, timeout=600)
        res['demo_clean_rc'] = rc0
    try:
        rc, out = sh(['git', '-C', REPO, 'apply', os.path.join(d, 'patch.diff')])
        if rc != 0:
            print('patch does not apply:\n' + out)
            return 2
        if not a.skip_confirm:
            rc1, o1 = sh(PYTEST, cwd=REPO, env=env, timeout=1800)
            res['pytest_rc'] = rc1
            res['pytest_tail'] = o1.strip().split('\n')[-1]
            rc2, o2 = sh(['/venv/bin/python', demo], env=env, timeout=600)
            res['demo_mutated_rc'] = rc2
            res['demo_mutated_tail'] = o2.strip()[-400:]
        for c in checks:
            t0 = time.time()
            rc, out = sh([os.path.join(VERIF, 'bin', 'check'), c, '--tier', a.tier], cwd=VERIF, env=dict(os.environ, VERIF_SEED=os.environ.get('VERIF_SEED', '0'), XFAB_REPO=REPO, VERIF_EVIDENCE_DIR='/tmp/seed_evidence'))
            lines = [l for l in out.split('\n') if l.startswith('VIOLATION') or l.startswith('INFRA') or l.startswith('  broken') or l.startswith('  {')]
            res['checks'][c] = {'rc': rc, 'wall_s': round(time.time() - t0, 1), 'lines': lines[:8],
                                'no_failing_input': any('no-failing-input-found' in l for l in lines)}
            print('%s on %s: rc=%d %.0fs %s' % (c, a.name, rc, time.time() - t0, (lines[0] if lines else '')[:200]))
    finally:
        sh(['git', '-C', REPO, 'checkout', '--', '.'])
        # the checks regenerated lean/XfabVerif/Gen from the changed tree: put the model of the reviewed tree back
        sh(['/venv/bin/python', '-c', 'import sys; sys.path.insert(0, %r); import check; [check.restore_generated(g) for g in check.GEN_FILES]'
            % os.path.join(VERIF, 'harness')], env=dict(os.environ, PYTHONPATH=REPO, PYTHONWARNINGS='ignore'))
        rc, out = sh(['git', '-C', REPO, 'status', '--porcelain'])
        if out.strip():
            print('WARNING: /repo not clean after undo:\n' + out)
    json.dump(res, open(os.path.join(d, 'result.json'), 'w'), indent=1)
    ok = all(v['rc'] == 1 for v in res['checks'].values())
    print('SEED %s: %s' % (a.name, 'DETECTED' if ok else 'MISSED by ' + ','.join(k for k, v in res['checks'].items() if v['rc'] != 1)),
          '| confirm:', {k: res.get(k) for k in ('demo_clean_rc', 'pytest_rc', 'demo_mutated_rc')})
    return 0


if __name__ == '__main__':
    sys.exit(main())
