"""
M2 — symbolic tracer.  Executes the *real source* of xfab's straight-line numeric
functions in a namespace where numpy is a shim over expression nodes, and prints
the recorded computation twice with identical structure:

  * an ℝ model over Mathlib (`Real.cos`, `Matrix`, ...)   -> used by the proofs
  * a Float model over core Lean (XfabVerif.FloatPrelude)  -> run against Python

Anything the shim does not understand raises TracerError (a *broken
correspondence*, never silently skipped).
"""
import ast, decimal, textwrap, itertools

class TracerError(Exception):
    pass

class TraceRaise(Exception):
    """the traced function executed `raise X(...)` / a failing assert"""
    def __init__(self, kind):
        self.kind = kind

LEAN_RESERVED = set("""at end fun from open in then else if do let have show by Type Prop Sort where with match
namespace section variable theorem def lemma instance class structure deriving mutual import export local notation
infix prefix postfix macro syntax elab universe abbrev example axiom opaque private protected partial unsafe
noncomputable return for try catch finally unless mut break continue this calc using fix obtain exact""".split())

_ctx = None

class Ctx:
    def __init__(self, prescribed):
        self.prescribed = list(prescribed)
        self.decisions = []
        self.events = []      # ('let', name, node) | ('letopt', name, node) | ('dec', cond, taken)
        self.names = {}

    def fresh(self, base):
        if base in LEAN_RESERVED or not base.isidentifier():
            base = base + '_v'
        k = self.names.get(base, 0)
        self.names[base] = k + 1
        return base if k == 0 else '%s_%d' % (base, k)

    def decide(self, cond):
        i = len(self.decisions)
        taken = self.prescribed[i] if i < len(self.prescribed) else True
        self.decisions.append(taken)
        self.events.append(('dec', cond, taken))
        return taken

# ----------------------------------------------------------------------------------------------
# scalar nodes

class Sym:
    __slots__ = ('op', 'args')
    __array_priority__ = 1000

    def __init__(self, op, *args):
        self.op = op
        self.args = args

    @staticmethod
    def lift(x):
        if isinstance(x, Sym):
            return x
        if isinstance(x, bool):
            raise TracerError('bool used as number')
        if isinstance(x, int):
            return Sym('int', x)
        if isinstance(x, float):
            if x == int(x) and abs(x) < 1e15:
                return Sym('int', int(x))
            return Sym('rat', repr(x))
        if isinstance(x, Cond):
            raise TracerError('condition used as number')
        try:
            import numpy
            if isinstance(x, numpy.generic):
                return Sym.lift(x.item())
        except ImportError:
            pass
        raise TracerError('cannot lift %r' % (type(x),))

    def isconst(self):
        return self.op in ('int', 'rat')

    def _b(self, op, o, rev=False):
        if isinstance(o, (Arr, OArr)):
            return NotImplemented
        try:
            o = Sym.lift(o)
        except TracerError:
            return NotImplemented
        a, b = (o, self) if rev else (self, o)
        if a.op == 'int' and b.op == 'int' and op in ('add', 'sub', 'mul'):
            return Sym('int', {'add': a.args[0] + b.args[0], 'sub': a.args[0] - b.args[0],
                               'mul': a.args[0] * b.args[0]}[op])
        if op == 'mul':
            if (a.op == 'int' and a.args[0] == 0) or (b.op == 'int' and b.args[0] == 0):
                return Sym('int', 0)
            if a.op == 'int' and a.args[0] == 1:
                return b
            if b.op == 'int' and b.args[0] == 1:
                return a
            if a.op == 'int' and a.args[0] == -1:
                return -b
            if b.op == 'int' and b.args[0] == -1:
                return -a
        if op == 'add':
            if a.op == 'int' and a.args[0] == 0:
                return b
            if b.op == 'int' and b.args[0] == 0:
                return a
        if op == 'sub':
            if b.op == 'int' and b.args[0] == 0:
                return a
            if a.op == 'int' and a.args[0] == 0:
                return -b
        if op == 'div' and b.op == 'int' and b.args[0] == 1:
            return a
        return Sym(op, a, b)

    def __add__(self, o): return self._b('add', o)
    def __radd__(self, o): return self._b('add', o, True)
    def __sub__(self, o): return self._b('sub', o)
    def __rsub__(self, o): return self._b('sub', o, True)
    def __mul__(self, o): return self._b('mul', o)
    def __rmul__(self, o): return self._b('mul', o, True)
    def __truediv__(self, o): return self._b('div', o)
    def __rtruediv__(self, o): return self._b('div', o, True)

    def __neg__(self):
        if self.op == 'int':
            return Sym('int', -self.args[0])
        if self.op == 'neg':
            return self.args[0]
        return Sym('neg', self)

    def __pos__(self): return self

    def __abs__(self):
        if self.op == 'int':
            return Sym('int', abs(self.args[0]))
        return Sym('abs', self)

    def __pow__(self, k):
        if isinstance(k, float) and k == int(k):
            k = int(k)
        if not (isinstance(k, int) and 0 <= k <= 4):
            raise TracerError('unsupported power %r' % (k,))
        return Sym('pow', self, k)

    def _c(self, op, o):
        return Cond(op, self, Sym.lift(o))

    def __lt__(self, o): return self._c('lt', o)
    def __le__(self, o): return self._c('le', o)
    def __gt__(self, o): return self._c('gt', o)
    def __ge__(self, o): return self._c('ge', o)
    def __eq__(self, o): return self._c('eq', o)
    def __ne__(self, o): return self._c('ne', o)
    __hash__ = object.__hash__

    def __bool__(self):
        raise TracerError('truth value of a number')

    def __float__(self):
        raise TracerError('float() of symbolic value (shimmed float should be used)')


def _cmp_const(op, a, b):
    from fractions import Fraction
    def val(s):
        return Fraction(s.args[0]) if s.op == 'int' else Fraction(decimal.Decimal(s.args[0]))
    x, y = val(a), val(b)
    return {'lt': x < y, 'le': x <= y, 'gt': x > y, 'ge': x >= y, 'eq': x == y, 'ne': x != y}[op]


class Cond:
    def __init__(self, op, a, b):
        self.op, self.a, self.b = op, a, b

    def __bool__(self):
        if self.a.isconst() and self.b.isconst():
            return _cmp_const(self.op, self.a, self.b)
        if _ctx is None:
            raise TracerError('decision outside a trace')
        return _ctx.decide(self)

# ----------------------------------------------------------------------------------------------
# arrays: Arr = mutable literal of scalars (python-level), OArr = opaque array-valued node

def shape_of(x):
    if isinstance(x, Arr):
        return x.shape
    if isinstance(x, OArr):
        return x.shape
    raise TracerError('shape_of %r' % (x,))


class Arr:
    __array_priority__ = 1000

    def __init__(self, data, tag=None):
        self.d = data          # list (1-D) or list of lists (2-D) of Sym
        self.tag = tag
        self.frozen = None     # OArr ref once used as a whole

    @property
    def shape(self):
        if len(self.d) > 0 and isinstance(self.d[0], list):
            return ('m', len(self.d), len(self.d[0]))
        return ('v', len(self.d))

    def is2d(self):
        return len(self.d) > 0 and isinstance(self.d[0], list)

    def __len__(self):
        return len(self.d)

    def __iter__(self):
        if self.is2d():
            return iter([Arr(list(r)) for r in self.d])
        return iter(self.d)

    def __getitem__(self, k):
        if isinstance(k, tuple):
            i, j = k
            if isinstance(i, slice) and not isinstance(j, slice):
                _chk_full(i)
                return Arr([row[j] for row in self.d])
            if isinstance(j, slice) and not isinstance(i, slice):
                _chk_full(j)
                return Arr(list(self.d[i]))
            return self.d[i][j]
        if isinstance(k, slice):
            return Arr(self.d[k])
        r = self.d[k]
        return Arr(r) if isinstance(r, list) else r   # row view shares storage on purpose

    def __setitem__(self, k, v):
        if self.frozen is not None:
            raise TracerError('array %s mutated after being used as a whole' % self.tag)
        if isinstance(k, tuple):
            i, j = k
            v = Sym.lift(v)
            if self.tag and not (v.isconst() or v.op in ('var', 'ref')):
                v = bind('%s_%d%d' % (self.tag, i, j), v)
            self.d[i][j] = v
            return
        if isinstance(v, (Arr, OArr, list, tuple)):
            v = _arr(v)
            v = explode(v) if isinstance(v, OArr) else v
            if not self.is2d():
                raise TracerError('row assignment into vector')
            self.d[k] = list(v.d)
            return
        v = Sym.lift(v)
        self.d[k] = v

    def _map(self, f):
        if self.is2d():
            return Arr([[f(x) for x in r] for r in self.d])
        return Arr([f(x) for x in self.d])

    def _zip(self, o, f):
        if self.shape != o.shape:
            raise TracerError('shape mismatch %s %s' % (self.shape, o.shape))
        if self.is2d():
            return Arr([[f(a, b) for a, b in zip(r, q)] for r, q in zip(self.d, o.d)])
        return Arr([f(a, b) for a, b in zip(self.d, o.d)])

    def _bin(self, o, f):
        if isinstance(o, OArr):
            o = explode(o)
        if isinstance(o, (list, tuple)):
            o = _arr(o)
        if isinstance(o, Arr):
            return self._zip(o, f)
        o = Sym.lift(o)
        return self._map(lambda x: f(x, o))

    def __add__(self, o): return self._bin(o, lambda a, b: a + b)
    def __radd__(self, o): return self._bin(o, lambda a, b: b + a)
    def __sub__(self, o): return self._bin(o, lambda a, b: a - b)
    def __rsub__(self, o): return self._bin(o, lambda a, b: b - a)
    def __mul__(self, o): return self._bin(o, lambda a, b: a * b)
    def __rmul__(self, o): return self._bin(o, lambda a, b: b * a)
    def __truediv__(self, o): return self._bin(o, lambda a, b: a / b)
    def __neg__(self): return self._map(lambda x: -x)
    def __pow__(self, k): return self._map(lambda x: x ** k)

    def transpose(self):
        return NP.transpose(None, self)

    @property
    def T(self):
        return NP.transpose(None, self)

    def dot(self, o):
        return NP.dot(None, self, o)

    def __matmul__(self, o):
        return NP.dot(None, self, o)

    def __rmatmul__(self, o):
        return NP.dot(None, o, self)

    def copy(self):
        return Arr([list(r) for r in self.d] if self.is2d() else list(self.d))

    def flatten(self):
        return Arr([x for r in self.d for x in r] if self.is2d() else list(self.d))

    ravel = flatten

    def tolist(self):
        return [list(r) for r in self.d] if self.is2d() else list(self.d)


def _chk_full(s):
    if not (s.start is None and s.stop is None and s.step is None):
        raise TracerError('partial slice')


class OArr:
    __array_priority__ = 1000

    def __init__(self, op, args, shape):
        self.op, self.args, self.shape = op, args, shape

    def __len__(self):
        return self.shape[1]

    def __iter__(self):
        return iter(explode(self))

    def __getitem__(self, k):
        if self.shape[0] == 'v':
            if isinstance(k, slice):
                return explode(self)[k]
            return Sym('idx', self, k)
        if isinstance(k, tuple):
            i, j = k
            if isinstance(i, slice) and not isinstance(j, slice):
                _chk_full(i)
                return OArr('col', (self, j), ('v', self.shape[1]))
            if isinstance(j, slice) and not isinstance(i, slice):
                _chk_full(j)
                return OArr('row', (self, i), ('v', self.shape[2]))
            return Sym('idx2', self, i, j)
        return OArr('row', (self, k), ('v', self.shape[2]))

    def __setitem__(self, k, v):
        raise TracerError('assignment into opaque array')

    def _el(self, o, name):
        return getattr(explode(self), name)(o)

    def __add__(self, o):
        if isinstance(o, OArr) and o.shape == self.shape:
            return OArr('add', (self, o), self.shape)
        return self._el(o, '__add__')

    def __radd__(self, o): return self._el(o, '__radd__')

    def __sub__(self, o):
        if isinstance(o, OArr) and o.shape == self.shape:
            return OArr('sub', (self, o), self.shape)
        return self._el(o, '__sub__')

    def __rsub__(self, o): return self._el(o, '__rsub__')

    def __mul__(self, o):
        if isinstance(o, (OArr, Arr, list, tuple)):
            return self._el(o, '__mul__')
        return OArr('smul', (Sym.lift(o), self), self.shape)

    __rmul__ = __mul__

    def __truediv__(self, o):
        if isinstance(o, (OArr, Arr, list, tuple)):
            return self._el(o, '__truediv__')
        return OArr('divs', (self, Sym.lift(o)), self.shape)

    def __neg__(self):
        return OArr('neg', (self,), self.shape)

    def __pow__(self, k):
        return explode(self) ** k

    def transpose(self):
        return NP.transpose(None, self)

    @property
    def T(self):
        return NP.transpose(None, self)

    def dot(self, o):
        return NP.dot(None, self, o)

    def __matmul__(self, o):
        return NP.dot(None, self, o)

    def __rmatmul__(self, o):
        return NP.dot(None, o, self)

    def copy(self):
        return self

    def flatten(self):
        return explode(self).flatten()

    ravel = flatten


def explode(a):
    if isinstance(a, Arr):
        return a
    if a.shape[0] == 'v':
        return Arr([Sym('idx', a, i) for i in range(a.shape[1])])
    return Arr([[Sym('idx2', a, i, j) for j in range(a.shape[2])] for i in range(a.shape[1])])


def _arr(x, tag=None):
    if isinstance(x, (Arr, OArr)):
        return x
    if isinstance(x, (list, tuple)):
        def conv(v):
            if isinstance(v, (list, tuple)):
                return [conv(w) for w in v]
            if isinstance(v, Arr):
                return [list(r) if isinstance(r, list) else r for r in v.d]
            if isinstance(v, OArr):
                return conv(explode(v))
            return Sym.lift(v)
        return Arr(conv(x), tag)
    raise TracerError('not an array: %r' % (x,))


def whole(a):
    """use an array as a whole value: literal -> (bound) opaque node"""
    a = _arr(a)
    if isinstance(a, OArr):
        return a
    if a.frozen is not None:
        return a.frozen
    lit = OArr('lit', (_snapshot(a),), a.shape)
    if a.tag and _ctx is not None:
        name = _ctx.fresh(a.tag)
        _ctx.events.append(('let', name, lit))
        a.frozen = OArr('ref', (name,), a.shape)
        return a.frozen
    return lit


def _snapshot(a):
    if a.is2d():
        return tuple(tuple(r) for r in a.d)
    return tuple(a.d)


def bind(name, v):
    """record `name = v` as a let-binding and return a reference to it"""
    if _ctx is None:
        return v
    if isinstance(v, Sym):
        if v.isconst():
            return v
        nm = _ctx.fresh(name)
        _ctx.events.append(('let', nm, v))
        return Sym('ref', nm)
    if isinstance(v, OArr):
        if v.op == 'ref':
            return v
        nm = _ctx.fresh(name)
        _ctx.events.append(('let', nm, v))
        return OArr('ref', (nm,), v.shape)
    if isinstance(v, Arr):
        if v.tag is None:
            v.tag = name
        return v
    return v

# ----------------------------------------------------------------------------------------------
# numpy shim

class _Linalg:
    def inv(self, a):
        a = whole(a)
        if a.shape not in (('m', 3, 3), ('m', 2, 2)):
            raise TracerError('inv of shape %s' % (a.shape,))
        return OArr('inv', (a,), a.shape)

    def det(self, a):
        a = whole(a)
        if a.shape != ('m', 3, 3):
            raise TracerError('det of shape %s' % (a.shape,))
        return Sym('det', a)

    def norm(self, a, axis=None):
        a = whole(a)
        if a.shape[0] != 'v':
            raise TracerError('norm of matrix')
        return Sym('sqrt', Sym('vdot', a, a))

    def qr(self, a):
        """numpy.linalg.qr is an EXTERNAL call: its result becomes a pair of extra parameters (Q, R) of the traced function
        (gen_numeric sets `QR_HOOK` for the functions it traces that way); what is assumed about (Q, R) is stated as hypotheses
        of the theorems (the QR contract), and the harness feeds numpy's actual (Q, R) to the Float twin"""
        if QR_HOOK[0] is None:
            raise TracerError('numpy.linalg.qr')
        return QR_HOOK[0](a)


QR_HOOK = [None]


class NP:
    pi = Sym('pi')
    linalg = _Linalg()

    def _f1(name):
        def f(self, x):
            if isinstance(x, (Arr, OArr)):
                return explode(x)._map(lambda e: Sym(name, e))
            x = Sym.lift(x)
            return Sym(name, x)
        return f

    cos = _f1('cos'); sin = _f1('sin'); sqrt = _f1('sqrt'); arccos = _f1('acos'); arcsin = _f1('asin')
    arctan = _f1('atan'); exp = _f1('exp')

    def abs(self, x):
        if isinstance(x, (Arr, OArr)):
            return explode(x)._map(abs)
        return abs(Sym.lift(x))

    def arctan2(self, y, x):
        return Sym('atan2', Sym.lift(y), Sym.lift(x))

    def array(self, x, dtype=None):
        return _arr(x)

    def asarray(self, x, dtype=None):
        return _arr(x)

    def zeros(self, sh):
        if isinstance(sh, int):
            return Arr([Sym('int', 0) for _ in range(sh)])
        if len(sh) == 1:
            return Arr([Sym('int', 0) for _ in range(sh[0])])
        return Arr([[Sym('int', 0) for _ in range(sh[1])] for _ in range(sh[0])])

    def eye(self, k, m=None):
        return Arr([[Sym('int', int(i == j)) for j in range(k)] for i in range(k)])

    def transpose(self, a):
        a = _arr(a)
        if isinstance(a, Arr) and a.tag is None and a.frozen is None:
            if a.is2d():
                return Arr([list(c) for c in zip(*a.d)])
            return a
        a = whole(a)
        if a.shape[0] == 'v':
            return a
        return OArr('T', (a,), ('m', a.shape[2], a.shape[1]))

    def dot(self, a, b):
        a, b = _arr(a), _arr(b)
        plain = lambda z: isinstance(z, Arr) and z.tag is None and z.frozen is None
        sa, sb = a.shape, b.shape
        if sa[0] == 'v' and sb[0] == 'v':
            if plain(a) and plain(b):
                return _sum([x * y for x, y in zip(a.d, b.d)])
            return Sym('vdot', whole(a), whole(b))
        a, b = whole(a), whole(b)
        if sa[0] == 'm' and sb[0] == 'm':
            if sa[2] != sb[1]:
                raise TracerError('dot shape')
            return OArr('mm', (a, b), ('m', sa[1], sb[2]))
        if sa[0] == 'm' and sb[0] == 'v':
            if sa[2] != sb[1]:
                raise TracerError('dot shape')
            return OArr('mv', (a, b), ('v', sa[1]))
        if sa[0] == 'v' and sb[0] == 'm':
            if sa[1] != sb[1]:
                raise TracerError('dot shape')
            return OArr('vm', (a, b), ('v', sb[2]))
        raise TracerError('dot')

    def cross(self, a, b):
        return OArr('cross', (whole(a), whole(b)), ('v', 3))

    def sum(self, a, axis=None):
        a0 = explode(_arr(a))
        if axis is not None:
            if not a0.is2d() or axis not in (0, 1, -1):
                raise TracerError('sum axis')
            if axis == 0:
                return Arr([_sum([r[j] for r in a0.d]) for j in range(len(a0.d[0]))])
            return Arr([_sum(list(r)) for r in a0.d])
        a = explode(_arr(a))
        if a.is2d():
            return _sum([x for r in a.d for x in r])
        return _sum(list(a.d))

    def max(self, a):
        a = explode(_arr(a))
        xs = [x for r in a.d for x in r] if a.is2d() else list(a.d)
        out = xs[0]
        for x in xs[1:]:
            out = smax(out, x)
        return out

    def allclose(self, a, b, rtol=1e-05, atol=1e-08):
        """numpy: all(|a - b| <= atol + rtol*|b|), decided element by element"""
        if isinstance(a, (Arr, OArr, list, tuple)):
            a = explode(_arr(a))
            b = explode(_arr(b))
            if a.shape != b.shape:
                raise TracerError('allclose shapes')
            xs = [x for r in a.d for x in r] if a.is2d() else list(a.d)
            ys = [x for r in b.d for x in r] if b.is2d() else list(b.d)
        else:
            xs, ys = [Sym.lift(a)], [Sym.lift(b)]
        for x, y in zip(xs, ys):
            if not (abs(x - y) <= Sym.lift(atol) + Sym.lift(rtol) * abs(Sym.lift(y))):
                return False
        return True

    def all(self, x, axis=None):
        if isinstance(x, (Arr, OArr)):
            raise TracerError('numpy.all of an array')
        return bool(x)

    def any(self, x, axis=None):
        if isinstance(x, (Arr, OArr)):
            raise TracerError('numpy.any of an array')
        return bool(x)

    def clip(self, a, lo, hi):
        a = explode(_arr(a))
        return a._map(lambda x: smin(smax(x, Sym.lift(lo)), Sym.lift(hi)))

    # ---- spellings a refactor may switch to; all lowered to the primitives above (no new node kinds)
    def _el1(self, x, f):
        if isinstance(x, (Arr, OArr, list, tuple)):
            return explode(_arr(x))._map(f)
        return f(Sym.lift(x))

    def deg2rad(self, x):
        return self._el1(x, lambda e: e * (NP.pi / Sym.lift(180)))     # numpy: x * (pi/180), one rounding of the constant

    radians = deg2rad

    def rad2deg(self, x):
        return self._el1(x, lambda e: e * (Sym.lift(180) / NP.pi))     # numpy: x * (180/pi)

    degrees = rad2deg

    def square(self, x):
        return self._el1(x, lambda e: e * e)

    def power(self, x, k):
        return self._el1(x, lambda e: e ** k)

    def tan(self, x):
        return self._el1(x, lambda e: Sym('sin', e) / Sym('cos', e))

    def fabs(self, x):
        return self.abs(x)

    absolute = abs

    def hypot(self, a, b):
        a, b = Sym.lift(a), Sym.lift(b)
        return Sym('sqrt', a * a + b * b)

    def maximum(self, a, b):
        return smax(a, b)

    def minimum(self, a, b):
        return smin(a, b)

    def matmul(self, a, b):
        return self.dot(a, b)

    def inner(self, a, b):
        return self.dot(a, b)

    def vdot(self, a, b):
        return self.dot(a, b)

    def outer(self, a, b):
        a, b = explode(_arr(a)), explode(_arr(b))
        if a.is2d() or b.is2d():
            raise TracerError('outer of matrices')
        return Arr([[x * y for y in b.d] for x in a.d])

    def trace(self, a):
        a = explode(_arr(a))
        if not a.is2d() or len(a.d) != len(a.d[0]):
            raise TracerError('trace of non-square array')
        return _sum([a.d[i][i] for i in range(len(a.d))])

    def diag(self, v):
        v = explode(_arr(v))
        if v.is2d():
            return Arr([v.d[i][i] for i in range(min(len(v.d), len(v.d[0])))])
        k = len(v.d)
        return Arr([[v.d[i] if i == j else Sym('int', 0) for j in range(k)] for i in range(k)])

    def identity(self, k):
        return self.eye(k)

    def ones(self, sh):
        z = self.zeros(sh)
        return z._map(lambda e: Sym('int', 1))

    def full(self, sh, v):
        z = self.zeros(sh)
        v = Sym.lift(v)
        return z._map(lambda e: v)

    def zeros_like(self, a):
        return explode(_arr(a))._map(lambda e: Sym('int', 0))

    def copy(self, a):
        a = _arr(a)
        return a.copy()

    def ravel(self, a):
        return explode(_arr(a)).flatten()

    def stack(self, rows, axis=0):
        if axis != 0:
            raise TracerError('stack axis')
        return _arr([explode(_arr(r)).tolist() for r in rows])

    vstack = stack

    def column_stack(self, cols):
        return self.transpose(self.stack(cols))

    def float64(self, x):
        return Sym.lift(x)

    def isscalar(self, x):
        return isinstance(x, (Sym, int, float))

    def where(self, c, a, b):
        if isinstance(c, (Arr, OArr)):
            raise TracerError('where on an array condition')
        return a if bool(c) else b

    def sign(self, x):
        """numpy.sign: 1, -1 or 0 (two comparisons on the symbolic value fork the run)"""
        def f(v):
            v = Sym.lift(v)
            if v > 0:
                return Sym.lift(1.0)
            if v < 0:
                return Sym.lift(-1.0)
            return Sym.lift(0.0)
        return self._el1(x, f)

    def copysign(self, a, b):
        a, b = Sym.lift(a), Sym.lift(b)
        return abs(a) if b >= 0 else -abs(a)

    def isclose(self, a, b, rtol=1e-05, atol=1e-08):
        if isinstance(a, (Arr, OArr, list, tuple)) or isinstance(b, (Arr, OArr, list, tuple)):
            raise TracerError('isclose on arrays')
        a, b = Sym.lift(a), Sym.lift(b)
        return bool(abs(a - b) <= Sym.lift(atol) + Sym.lift(rtol) * abs(b))

    def negative(self, x):
        return self._el1(x, lambda v: -v)

    def reciprocal(self, x):
        return self._el1(x, lambda v: 1 / v)

    def subtract(self, a, b):
        return a - b

    def add(self, a, b):
        return a + b

    def multiply(self, a, b):
        return a * b

    def divide(self, a, b):
        return a / b

    true_divide = divide

    def atleast_1d(self, x):
        return x if isinstance(x, (Arr, OArr)) else _arr(x if isinstance(x, (list, tuple)) else [x])

    def squeeze(self, a):
        return a


def _sum(xs):
    out = Sym('int', 0)
    for x in xs:
        out = out + x
    return out


def smax(*xs):
    if len(xs) == 1:
        xs = list(xs[0])
    out = Sym.lift(xs[0])
    for x in xs[1:]:
        x = Sym.lift(x)
        if out.isconst() and x.isconst():
            out = x if _cmp_const('gt', x, out) else out
        else:
            out = Sym('max', out, x)
    return out


def smin(*xs):
    if len(xs) == 1:
        xs = list(xs[0])
    out = Sym.lift(xs[0])
    for x in xs[1:]:
        x = Sym.lift(x)
        if out.isconst() and x.isconst():
            out = x if _cmp_const('lt', x, out) else out
        else:
            out = Sym('min', out, x)
    return out


def sfloat(x):
    if isinstance(x, Sym):
        return x
    return float(x)


def sdegrees(x):
    return Sym.lift(x) * 180 / Sym('pi')

# ----------------------------------------------------------------------------------------------
# AST preparation

class _Prep(ast.NodeTransformer):
    def visit_FunctionDef(self, node):
        self.generic_visit(node)
        body = node.body
        if body and isinstance(body[0], ast.Expr) and isinstance(getattr(body[0], 'value', None), ast.Constant) \
                and isinstance(body[0].value.value, str):
            body = body[1:] or [ast.Pass()]
        node.body = body
        node.decorator_list = []
        return node

    def _bindcall(self, name, value):
        return ast.Call(func=ast.Name(id='__bind', ctx=ast.Load()), args=[ast.Constant(value=name), value], keywords=[])

    def visit_Assign(self, node):
        self.generic_visit(node)
        if len(node.targets) == 1 and isinstance(node.targets[0], ast.Name):
            node.value = self._bindcall(node.targets[0].id, node.value)
            return node
        out = [node]
        for t in node.targets:
            if isinstance(t, (ast.Tuple, ast.List)):
                for e in t.elts:
                    if isinstance(e, ast.Name):
                        out.append(ast.Assign(targets=[ast.Name(id=e.id, ctx=ast.Store())],
                                              value=self._bindcall(e.id, ast.Name(id=e.id, ctx=ast.Load()))))
        return out

    def visit_AugAssign(self, node):
        self.generic_visit(node)
        if isinstance(node.target, ast.Name):
            return ast.Assign(targets=[ast.Name(id=node.target.id, ctx=ast.Store())],
                              value=self._bindcall(node.target.id,
                                                   ast.BinOp(left=ast.Name(id=node.target.id, ctx=ast.Load()),
                                                             op=node.op, right=node.value)))
        return node

    def visit_Assert(self, node):
        self.generic_visit(node)
        return ast.If(test=ast.UnaryOp(op=ast.Not(), operand=node.test),
                      body=[ast.Raise(exc=ast.Call(func=ast.Name(id='__TraceRaise', ctx=ast.Load()),
                                                   args=[ast.Constant(value='AssertionError')], keywords=[]), cause=None)],
                      orelse=[])

    def visit_Raise(self, node):
        kind = 'Exception'
        e = node.exc
        if isinstance(e, ast.Call) and isinstance(e.func, ast.Name):
            kind = e.func.id
        elif isinstance(e, ast.Name):
            kind = e.id
        return ast.Raise(exc=ast.Call(func=ast.Name(id='__TraceRaise', ctx=ast.Load()),
                                      args=[ast.Constant(value=kind)], keywords=[]), cause=None)

    def visit_Expr(self, node):
        self.generic_visit(node)
        v = node.value
        if isinstance(v, ast.Call) and isinstance(v.func, ast.Attribute) and v.func.attr == 'append' \
                and isinstance(v.func.value, ast.Name) and len(v.args) == 1:
            v.args = [self._bindcall(v.func.value.id + '_item', v.args[0])]
        return node


def load_functions(path):
    """dict name -> prepared FunctionDef of every top-level function in the file"""
    tree = ast.parse(open(path).read())
    out = {}
    for node in tree.body:
        if isinstance(node, ast.FunctionDef):
            out[node.name] = node
    return out

# ----------------------------------------------------------------------------------------------
# tracing a function

class Traced:
    def __init__(self, module, name, params, paths, ret_shape, can_raise, lean_name=None):
        self.module, self.name, self.params = module, name, params
        self.paths, self.ret_shape, self.can_raise = paths, ret_shape, can_raise
        self.lean_name = '%s.%s' % (module, lean_name or name)


def mk_arg(name, shape):
    if shape == 's':
        return Sym('var', name)
    return OArr('var', (name,), shape)


def ret_convert(r):
    """python return value -> (shape, node)"""
    if r is None:
        return 'unit', None
    if isinstance(r, Sym):
        return 's', r
    if isinstance(r, OArr):
        return r.shape, r
    if isinstance(r, Arr):
        return r.shape, OArr('lit', (_snapshot(r),), r.shape)
    if isinstance(r, (int, float)) and not isinstance(r, bool):
        return 's', Sym.lift(r)
    if isinstance(r, tuple):
        parts = [ret_convert(x) for x in r]
        return ('tuple', tuple(p[0] for p in parts)), ('tuple', tuple(p[1] for p in parts))
    if isinstance(r, list):
        if all(isinstance(x, (Sym, int, float)) and not isinstance(x, bool) for x in r):
            a = Arr([Sym.lift(x) for x in r])
            return a.shape, OArr('lit', (_snapshot(a),), a.shape)
        parts = [ret_convert(x) for x in r]
        return ('tuple', tuple(p[0] for p in parts)), ('tuple', tuple(p[1] for p in parts))
    raise TracerError('unsupported return value %r' % (r,))


def unify(shapes):
    shapes = list(shapes)
    if all(s == shapes[0] for s in shapes):
        return shapes[0]
    if all(s[0] == 'v' for s in shapes):
        return ('list',)
    if all(s[0] == 'tuple' and len(s[1]) == len(shapes[0][1]) for s in shapes):
        return ('tuple', tuple(unify([s[1][k] for s in shapes]) for k in range(len(shapes[0][1]))))
    raise TracerError('return shapes do not unify: %r' % (shapes,))


class Tracer:
    def __init__(self, module, path, alias=('n', 'np')):
        self.module = module
        self.path = path
        self.fdefs = load_functions(path)
        self.traced = {}
        self.order = []
        self.ns = {'__bind': bind, '__TraceRaise': TraceRaise, 'degrees': sdegrees, 'range': range,
                   'max': smax, 'min': smin, 'float': sfloat, 'abs': abs, 'len': len, 'int': int,
                   'ValueError': ValueError, 'zip': zip, 'list': list,
                   'CHECKS': type('C', (), {'activated': False})(), 'checks': None}
        shim = NP()
        for a in alias:
            self.ns[a] = shim
        # the standard-library spellings of the same primitives
        class _Math:
            pi = NP.pi
            sin = staticmethod(lambda x: shim.sin(x)); cos = staticmethod(lambda x: shim.cos(x)); tan = staticmethod(lambda x: shim.tan(x))
            sqrt = staticmethod(lambda x: shim.sqrt(x)); exp = staticmethod(lambda x: shim.exp(x))
            acos = staticmethod(lambda x: shim.arccos(x)); asin = staticmethod(lambda x: shim.arcsin(x)); atan = staticmethod(lambda x: shim.arctan(x))
            atan2 = staticmethod(lambda y, x: shim.arctan2(y, x)); hypot = staticmethod(lambda a, b: shim.hypot(a, b))
            fabs = staticmethod(lambda x: shim.abs(x)); radians = staticmethod(lambda x: shim.deg2rad(x)); degrees = staticmethod(sdegrees)
        self.ns['math'] = _Math
        self.ns['radians'] = _Math.radians
        self.ns.setdefault('tuple', tuple)
        self.ns.setdefault('enumerate', enumerate)
        self.ns.setdefault('sum', lambda xs: _sum(list(xs)))
        self.ns.setdefault('isinstance', isinstance)
        self.ns.setdefault('pow', pow)
        self.extern = {}

    def add_extern(self, pyname, traced):
        """make an already traced function of another module callable (e.g. tools.sintl)"""
        self.extern[pyname] = traced

    def _stub(self, t):
        def stub(*args):
            if len(args) != len(t.params):
                raise TracerError('arity of %s' % t.name)
            nodes = []
            for a, (pn, ps) in zip(args, t.params):
                if ps == 's':
                    nodes.append(Sym.lift(a))
                else:
                    w = whole(a)
                    if w.shape != ps:
                        raise TracerError('shape of argument %s of %s: %s' % (pn, t.name, w.shape))
                    nodes.append(w)
            call = ('call', t.lean_name, tuple(nodes))
            def build(shape, base):
                if shape == 's':
                    return Sym(base[0], *base[1:])
                if shape[0] in ('v', 'm'):
                    return OArr(base[0], base[1:], shape)
                if shape[0] == 'tuple':
                    return tuple(build(s, ('proj', ('node', base), k, len(shape[1]))) for k, s in enumerate(shape[1]))
                raise TracerError('call to %s returning %s' % (t.name, shape))
            if t.can_raise:
                nm = _ctx.fresh(t.name.lstrip('_') + '_res')
                _ctx.events.append(('letopt', nm, ('node', call)))
                return build(t.ret_shape, ('ref', nm))
            return build(t.ret_shape, call)
        return stub

    def trace(self, name, params, max_paths=256, pyargs=None, lean_name=None, wrap_stubs=None):
        fdef = _Prep().visit(ast.parse(ast.unparse(self.fdefs[name])).body[0])
        # module-level helpers that are not traced on their own (a private function split off a traced one by a refactor)
        # are executed symbolically in place, i.e. inlined: they are prepared exactly like the traced function and defined
        # in the same namespace; a helper the preparer cannot handle is simply left out (a call to it is then a NameError,
        # hence a refusal, as before)
        helpers = []
        for hn, hd in self.fdefs.items():
            if hn == name or hn in self.traced or hn in self.extern or hn in getattr(self, 'no_inline', ()):
                continue
            try:
                helpers.append(_Prep().visit(ast.parse(ast.unparse(hd)).body[0]))
            except Exception:
                continue
        mod = ast.Module(body=helpers + [fdef], type_ignores=[])
        ast.fix_missing_locations(mod)
        ns = dict(self.ns)
        ns.setdefault('logger', type('L', (), {k: staticmethod(lambda *a, **kw: None) for k in ('debug', 'info', 'warning', 'error')})())
        for k, t in self.traced.items():
            ns[k] = self._stub(t)
        class _ModNS:
            pass
        for pyname, t in self.extern.items():
            if '.' in pyname:
                m, f = pyname.split('.')
                if m not in ns or not isinstance(ns[m], _ModNS):
                    ns[m] = _ModNS()
                setattr(ns[m], f, self._stub(t))
            else:
                ns[pyname] = self._stub(t)
        for k, w in (wrap_stubs or {}).items():
            ns[k] = w(ns[k])
        exec(compile(mod, self.path, 'exec'), ns)
        fn = ns[name]
        global _ctx
        paths = []
        stack = [[]]
        while stack:
            pres = stack.pop()
            _ctx = Ctx(pres)
            for pn, _ in params:
                _ctx.fresh(pn)
            args = [mk_arg(pn, ps) for pn, ps in params]
            if pyargs is not None:
                args = pyargs({pn: a for (pn, _), a in zip(params, args)})
            try:
                r = fn(*args)
                term = ('ret',) + ret_convert(r)
            except TraceRaise as e:
                term = ('raise', e.kind)
            except RecursionError:
                raise TracerError('recursion in %s' % name)
            ctx = _ctx
            _ctx = None
            paths.append((ctx.events, term))
            for i in range(len(pres), len(ctx.decisions)):
                stack.append(ctx.decisions[:i] + [not ctx.decisions[i]])
            if len(paths) > max_paths:
                raise TracerError('%s: more than %d paths' % (name, max_paths))
        rets = [t[1] for _, t in paths if t[0] == 'ret']
        if any(r == 'unit' for r in rets) and any(r != 'unit' for r in rets):
            # falling off the end of a value-returning function (Python returns None): modelled as `none`
            paths = [(ev, ('raise', 'None') if (t[0] == 'ret' and t[1] == 'unit') else t) for ev, t in paths]
            rets = [t[1] for _, t in paths if t[0] == 'ret']
        if not rets:
            raise TracerError('%s never returns' % name)
        shape = unify(rets)
        can_raise = any(t[0] == 'raise' for _, t in paths) or any(e[0] == 'letopt' for ev, _ in paths for e in ev)
        t = Traced(self.module, name, params, paths, shape, can_raise, lean_name)
        if lean_name is None:
            self.traced[name] = t
            self.order.append(name)
        return t

# ----------------------------------------------------------------------------------------------
# printing

class Printer:
    def __init__(self, real):
        self.R = real
        self.S = 'ℝ' if real else 'Float'

    # ---- types
    def ty(self, shape):
        if shape == 's':
            return self.S
        if shape == 'unit':
            return 'Unit'
        if shape[0] == 'v':
            return ('(Fin %d → ℝ)' % shape[1]) if self.R else ('(XF.Vec %d)' % shape[1])
        if shape[0] == 'm':
            return ('(Matrix (Fin %d) (Fin %d) ℝ)' % shape[1:]) if self.R else ('(XF.Mat %d %d)' % shape[1:])
        if shape[0] == 'list':
            return '(List %s)' % self.S
        if shape[0] == 'tuple':
            return '(' + ' × '.join(self.ty(s) for s in shape[1]) + ')'
        raise TracerError('type of %r' % (shape,))

    # ---- scalars
    def const(self, s, ascribe=True):
        if s.op == 'int':
            k = s.args[0]
            body = str(k) if k >= 0 else '-%d' % (-k)
            if ascribe or k < 0:
                return '(%s : %s)' % (body, self.S)
            return body
        d = decimal.Decimal(s.args[0])
        sign, digits, exp = d.as_tuple()
        m = ''.join(map(str, digits)).lstrip('0') or '0'
        lit = '%se%d' % (m, exp)
        return '(%s%s : %s)' % ('-' if sign else '', lit, self.S)

    def sc(self, s, top=False):
        o = s.op
        if o in ('int', 'rat'):
            return self.const(s)
        if o in ('var', 'ref'):
            return s.args[0]
        if o == 'pi':
            return 'Real.pi' if self.R else 'XF.fpi'
        if o in ('add', 'sub', 'mul', 'div'):
            a, b = s.args
            sa = self.const(a, ascribe=b.isconst()) if a.isconst() else self.sc(a)
            sb = self.const(b, ascribe=a.isconst()) if b.isconst() else self.sc(b)
            return '(%s %s %s)' % (sa, {'add': '+', 'sub': '-', 'mul': '*', 'div': '/'}[o], sb)
        if o == 'neg':
            return '(-%s)' % self.sc(s.args[0])
        if o == 'pow':
            x, k = s.args
            if self.R:
                return '(%s ^ %d)' % (self.sc(x), k)
            sx = self.sc(x)
            if k == 0:
                return '(1 : Float)'
            return '(' + ' * '.join([sx] * k) + ')'
        if o == 'abs':
            return ('|%s|' if self.R else '(Float.abs %s)') % self.sc(s.args[0])
        if o in ('cos', 'sin', 'sqrt', 'acos', 'asin', 'atan', 'exp'):
            fn = {'cos': ('Real.cos', 'Float.cos'), 'sin': ('Real.sin', 'Float.sin'), 'sqrt': ('Real.sqrt', 'Float.sqrt'),
                  'acos': ('Real.arccos', 'Float.acos'), 'asin': ('Real.arcsin', 'Float.asin'),
                  'atan': ('Real.arctan', 'Float.atan'), 'exp': ('Real.exp', 'Float.exp')}[o][0 if self.R else 1]
            return '(%s %s)' % (fn, self.sc(s.args[0]))
        if o == 'atan2':
            return '(%s %s %s)' % ('XR.atan2' if self.R else 'Float.atan2', self.sc(s.args[0]), self.sc(s.args[1]))
        if o in ('max', 'min'):
            fn = o if self.R else ('XF.fmax' if o == 'max' else 'XF.fmin')
            return '(%s %s %s)' % (fn, self.sc(s.args[0]), self.sc(s.args[1]))
        if o == 'idx':
            return '(%s %d)' % (self.ar(s.args[0]), s.args[1])
        if o == 'idx2':
            return '(%s %d %d)' % (self.ar(s.args[0]), s.args[1], s.args[2])
        if o == 'det':
            return ('(Matrix.det %s)' if self.R else '(XF.matDet3 %s)') % self.ar(s.args[0])
        if o == 'vdot':
            return ('(%s ⬝ᵥ %s)' if self.R else '(XF.vdot %s %s)') % (self.ar(s.args[0]), self.ar(s.args[1]))
        if o == 'call':
            return self.call(s.args[0], s.args[1])
        if o == 'proj':
            return self.proj(*s.args)
        raise TracerError('print scalar %s' % o)

    def call(self, fname, args):
        return '(%s%s %s)' % (fname, '' if self.R else 'F', ' '.join(self.anyn(a) for a in args))

    def proj(self, base, k, n):
        b = self.node(base)
        # right-nested pairs
        s = b
        for _ in range(k):
            s = '%s.2' % s
        if k < n - 1:
            s = '%s.1' % s
        return s

    def node(self, nd):
        assert nd[0] == 'node'
        base = nd[1]
        if base[0] == 'call':
            return self.call(base[1], base[2])
        if base[0] == 'ref':
            return base[1]
        if base[0] == 'proj':
            return self.proj(*base[1:])
        raise TracerError('node %r' % (base[0],))

    def anyn(self, x):
        if isinstance(x, Sym):
            return self.sc(x)
        if isinstance(x, OArr):
            return self.ar(x)
        if isinstance(x, tuple) and x and x[0] == 'tuple':
            return '(' + ', '.join(self.anyn(y) for y in x[1]) + ')'
        if isinstance(x, tuple) and x and x[0] == 'node':
            return self.node(x)
        raise TracerError('print %r' % (x,))

    # ---- arrays
    def lit(self, data, shape):
        if shape[0] == 'v':
            if self.R:
                return '![' + ', '.join(self.sc(x) for x in data) + ']'
            return '(XF.vecL [' + ', '.join(self.sc(x) for x in data) + '])'
        if self.R:
            return '!![' + '; '.join(', '.join(self.sc(x) for x in r) for r in data) + ']'
        return '(XF.matL [' + ', '.join('[' + ', '.join(self.sc(x) for x in r) + ']' for r in data) + '])'

    def ar(self, a):
        o = a.op
        R = self.R
        if o in ('var', 'ref'):
            return a.args[0]
        if o == 'lit':
            s = self.lit(a.args[0], a.shape)
            return '(%s : %s)' % (s, self.ty(a.shape))
        if o == 'call':
            return self.call(a.args[0], a.args[1])
        if o == 'proj':
            return self.proj(*a.args)
        x = [self.ar(y) if isinstance(y, OArr) else (self.sc(y) if isinstance(y, Sym) else y) for y in a.args]
        if o == 'mm':
            return ('(%s * %s)' if R else '(XF.matMul %s %s)') % (x[0], x[1])
        if o == 'mv':
            return ('(%s *ᵥ %s)' if R else '(XF.matVec %s %s)') % (x[0], x[1])
        if o == 'vm':
            return ('(%s ᵥ* %s)' if R else '(XF.vecMat %s %s)') % (x[0], x[1])
        if o == 'T':
            return ('(%sᵀ)' if R else '(XF.matT %s)') % x[0]
        if o == 'inv':
            return ('(%s⁻¹)' if R else ('(XF.matInv%d %%s)' % a.shape[1])) % x[0]
        if o == 'cross':
            return ('(crossProduct %s %s)' if R else '(XF.vcross %s %s)') % (x[0], x[1])
        isv = a.shape[0] == 'v'
        if o == 'add':
            return ('(%s + %s)' if R else ('(XF.vAdd %s %s)' if isv else '(XF.matAdd %s %s)')) % (x[0], x[1])
        if o == 'sub':
            return ('(%s - %s)' if R else ('(XF.vSub %s %s)' if isv else '(XF.matSub %s %s)')) % (x[0], x[1])
        if o == 'neg':
            return ('(-%s)' if R else ('(XF.vNeg %s)' if isv else '(XF.matNeg %s)')) % x[0]
        if o == 'smul':
            return ('(%s • %s)' if R else ('(XF.vSmul %s %s)' if isv else '(XF.matSmul %s %s)')) % (x[0], x[1])
        if o == 'divs':
            return ('((%s)⁻¹ • %s)' % (x[1], x[0])) if R else (('(XF.vDivS %s %s)' if isv else '(XF.matDivS %s %s)') % (x[0], x[1]))
        if o == 'row':
            return ('(%s %d)' if R else '(XF.mrow %s %d)') % (x[0], a.args[1])
        if o == 'col':
            return ('(fun i_ => %s i_ %d)' if R else '(XF.mcol %s %d)') % (x[0], a.args[1])
        raise TracerError('print array %s' % o)

    # ---- conditions
    def cond(self, c):
        a, b = self.sc(c.a), self.sc(c.b)
        if self.R:
            return '%s %s %s' % (a, {'lt': '<', 'le': '≤', 'gt': '>', 'ge': '≥', 'eq': '=', 'ne': '≠'}[c.op], b)
        return '%s %s %s' % (a, {'lt': '<', 'le': '≤', 'gt': '>', 'ge': '≥', 'eq': '==', 'ne': '!='}[c.op], b)

    # ---- return values
    def retval(self, shape, node, want):
        """print `node` (of `shape`) as a value of the unified shape `want`"""
        if want == ('list',):
            assert shape[0] == 'v'
            data = node.args[0] if node.op == 'lit' else explode(node).d
            return '[' + ', '.join(self.sc(x) for x in data) + ']'
        if want == 'unit':
            return '()'
        if want[0] == 'tuple':
            return '(' + ', '.join(self.retval(s, n, w) for s, n, w in zip(shape[1], node[1], want[1])) + ')'
        return self.anyn(node)

    # ---- a whole function
    def fun(self, t):
        params = ' '.join('(%s : %s)' % (pn, self.ty(ps)) for pn, ps in t.params)
        rty = self.ty(t.ret_shape)
        if t.can_raise:
            rty = '(Option %s)' % rty
        name = t.lean_name + ('' if self.R else 'F')
        head = 'def %s %s : %s :=' % (name, params, rty)
        body = self.tree(t, t.paths, 0, 1)
        return head + '\n' + body + '\n'

    def tree(self, t, paths, pos, ind):
        pad = '  ' * ind
        events, term = paths[0]
        if pos == len(events):
            if len(paths) != 1:
                raise TracerError('%s: non-deterministic trace' % t.name)
            if term[0] == 'raise':
                return pad + 'none'
            v = self.retval(term[1], term[2], t.ret_shape)
            return pad + ('some ' + v if t.can_raise else v)
        ev = events[pos]
        if ev[0] == 'let':
            for e, _ in paths:
                if e[pos][0] != 'let' or e[pos][1] != ev[1]:
                    raise TracerError('%s: paths diverge without a decision' % t.name)
            val = ev[2]
            if isinstance(val, Sym):
                s = self.sc(val)
                tyan = ' : %s' % self.S
            else:
                s = self.ar(val)
                tyan = ' : %s' % self.ty(val.shape)
            return pad + 'let %s%s := %s\n' % (ev[1], tyan, s) + self.tree(t, paths, pos + 1, ind)
        if ev[0] == 'letopt':
            call = self.node(ev[2])
            return (pad + 'match %s with\n' % call + pad + '| none => none\n' + pad + '| some %s =>\n' % ev[1]
                    + self.tree(t, paths, pos + 1, ind + 1))
        if ev[0] == 'dec':
            yes = [p for p in paths if p[0][pos][2]]
            no = [p for p in paths if not p[0][pos][2]]
            c = self.cond(ev[1])
            if not yes or not no:
                raise TracerError('%s: unexplored branch' % t.name)
            return (pad + 'if %s then\n' % c + self.tree(t, yes, pos + 1, ind + 1) + '\n' + pad + 'else\n'
                    + self.tree(t, no, pos + 1, ind + 1))
        raise TracerError('event %r' % (ev[0],))
