import XfabVerif.Model.CifPdb
import XfabVerif.Gen.Sg.All
/-! line protocol of the C17 hand model (strings are `x` followed by the hex of their UTF-8 bytes)

  cif <name | -> <nblocks> { <blockname> <nitems> { <tag> ( s <value> | l <n> <value>*n ) } }
  pdb <nlines> <line>*nlines
  esd <string>          remove_esd
  sym <string>          PDB symbol normalisation of the CRYST1 field
  float <string>        does float() accept it

  -> `ok …` (canonical rendering, see `renderAtomList`) | `raise:<Exception>` | `bad` (malformed request)

  The computed multiplicity is rendered as `C`: the harness evaluates the real `multiplicity` on the position and
  symbol that the model reports.
-/
open CifPdb

def hexVal (c : Char) : Option Nat :=
  if '0' ≤ c && c ≤ '9' then some (c.toNat - '0'.toNat)
  else if 'a' ≤ c && c ≤ 'f' then some (c.toNat - 'a'.toNat + 10)
  else none

def unhexBytes : List Char → Option (List UInt8)
  | [] => some []
  | a :: b :: r => do
    let h ← hexVal a
    let l ← hexVal b
    let rest ← unhexBytes r
    pure (UInt8.ofNat (h * 16 + l) :: rest)
  | _ => none

def decodeStr (t : String) : Option String :=
  match t.toList with
  | 'x' :: r => do
    let bs ← unhexBytes r
    String.fromUTF8? bs.toByteArray
  | _ => none

def hexDigit (n : Nat) : Char := if n < 10 then Char.ofNat (n + 48) else Char.ofNat (n - 10 + 97)

def encodeStr (s : String) : String :=
  String.ofList ('x' :: (s.toUTF8.toList.flatMap fun b => [hexDigit (b.toNat / 16), hexDigit (b.toNat % 16)]))

abbrev P := StateT (List String) Option

def tok : P String := do
  match (← get) with
  | [] => failure
  | t :: ts => set ts; pure t

def nat : P Nat := do
  match (← tok).toNat? with
  | some n => pure n
  | none => failure

def str : P String := do
  match decodeStr (← tok) with
  | some s => pure s
  | none => failure

def rep {α : Type} (p : P α) : Nat → P (List α)
  | 0 => pure []
  | n + 1 => do
    let a ← p
    let r ← rep p n
    pure (a :: r)

def item : P (String × Val) := do
  let tag ← str
  match (← tok) with
  | "s" => pure (tag, .str (← str))
  | "l" => do
    let n ← nat
    pure (tag, .loop (← rep str n))
  | _ => failure

def block : P (String × Block) := do
  let name ← str
  let n ← nat
  pure (name, ← rep item n)

def sp (l : List String) : String := " ".intercalate l

def renderPos : Pos → String
  | .frac x y z => sp ["F", encodeStr x, encodeStr y, encodeStr z]
  | .scaled m x y z => sp (["M"] ++ (m.flatten.map encodeStr) ++ [encodeStr x, encodeStr y, encodeStr z])

def renderAdp : Adp → String
  | .zero => "Z"
  | .iso t b => sp ["I", if b then "1" else "0", encodeStr t]
  | .ani ts b => sp (["A", if b then "1" else "0", toString ts.length] ++ ts.map encodeStr)

def renderAtom (a : Atom) : String :=
  sp [encodeStr a.label, encodeStr a.atomtype, renderPos a.pos,
      (match a.adpType with | none => "-" | some t => encodeStr t),
      renderAdp a.adp,
      (match a.occ with | .default => "D" | .tok s => "T " ++ encodeStr s),
      (match a.multi with | .tok s => "T " ++ encodeStr s | .computed _ _ _ => "C")]

def renderAtomList (r : AtomList) : String :=
  sp (["ok", "C", toString r.cell.length] ++ r.cell.map encodeStr ++ ["S", encodeStr r.sgname, "D", toString r.dispersion.length]
      ++ r.dispersion.map (fun (k, v) => match v with
          | none => encodeStr k ++ " N"
          | some (re, im) => sp [encodeStr k, "V", encodeStr re, encodeStr im])
      ++ ["A", toString r.atoms.length] ++ r.atoms.map renderAtom)

def renderRes (r : Except Err AtomList) : String :=
  match r with
  | .ok a => renderAtomList a
  | .error e => "raise:" ++ e.name

def sgKeys : List String := Sg.sgdic.map Prod.fst

def noMult : Pos → String → Nat := fun _ _ => 0

def request : P String := do
  match (← tok) with
  | "cif" => do
    let nameTok ← tok
    let name ← (if nameTok == "-" then pure none else match decodeStr nameTok with
      | some s => pure (some s)
      | none => failure : P (Option String))
    let nb ← nat
    let file ← rep block nb
    pure (renderRes (cifreadFile noMult file name))
  | "pdb" => do
    let n ← nat
    let lines ← rep str n
    pure (renderRes (pdbread sgKeys noMult lines))
  | "esd" => do
    match removeEsd (← str) with
    | .ok t => pure ("ok " ++ encodeStr t)
    | .error e => pure ("raise:" ++ e.name)
  | "sym" => do
    pure ("ok " ++ encodeStr (pdbSymbol sgKeys (← str)))
  | "float" => do
    pure (if isFloat (← str) then "ok 1" else "ok 0")
  | _ => failure

def step (line : String) : String :=
  let toks := (line.splitOn " ").map (fun t => String.ofList (t.toList.filter (fun c => c != '\n' && c != '\r')))
  match request.run (toks.filter (· ≠ "")) with
  | some (out, []) => out
  | _ => "bad"

partial def loop (h : IO.FS.Stream) (o : IO.FS.Stream) : IO Unit := do
  let line ← h.getLine
  if line.isEmpty then return ()
  o.putStrLn (step line)
  loop h o

def main : IO Unit := do
  loop (← IO.getStdin) (← IO.getStdout)
