import XfabVerif.Model.Flip
/-! line protocol (all numbers are decimal integers, `dir` is the Python string passed as `flipdir`):
      `trans o11 o12 o21 o22 dir nx ny v0 v1 ...`   trans_orientation of the nx×ny array with row-major values v
      `flip  o11 o12 o21 o22 dir nx ny v0 v1 ...`   image_flipping
          -> `ok nx' ny' w0 w1 ...` (shape and row-major values of the result) | `raise:ValueError`
      `xy2d  o11 o12 o21 o22 dety_size detz_size x y`        xy_to_detyz  -> `ok dety detz` | `raise:ValueError`
      `d2xy  o11 o12 o21 o22 dety_size detz_size dety detz`  detyz_to_xy  -> `ok x y`       | `raise:ValueError`
    `bad` for anything else (unknown command, non-integer, number of values ≠ nx·ny). -/
open Flip

def ints (ts : List String) : Option (List Int) :=
  if ts.any (fun s => s.toInt?.isNone) then none else some (ts.map fun s => s.toInt?.getD 0)

def showImg (r : Except Nat (Img Int)) : String :=
  match r with
  | .error _ => "raise:ValueError"
  | .ok t => "ok " ++ toString t.nx ++ " " ++ toString t.ny ++ String.join (t.toList.map fun v => " " ++ toString v)

def showPair (r : Except Nat (Int × Int)) : String :=
  match r with
  | .error _ => "raise:ValueError"
  | .ok (a, b) => "ok " ++ toString a ++ " " ++ toString b

def step (line : String) : String :=
  match (line.trimAscii.toString.splitOn " ").filter (· ≠ "") with
  | cmd :: a :: b :: c :: d :: rest =>
    match ints [a, b, c, d] with
    | some [o11, o12, o21, o22] =>
      if cmd = "trans" ∨ cmd = "flip" then
        match rest with
        | dir :: sx :: sy :: vals =>
          match sx.toNat?, sy.toNat?, ints vals with
          | some nx, some ny, some vs =>
            if vs.length ≠ nx * ny then "bad" else
            let img := Img.ofList nx ny vs 0
            let d := Dir.ofString dir
            showImg (if cmd = "trans" then transOrientation img o11 o12 o21 o22 d else imageFlipping img o11 o12 o21 o22 d)
          | _, _, _ => "bad"
        | _ => "bad"
      else if cmd = "xy2d" ∨ cmd = "d2xy" then
        match ints rest with
        | some [sy, sz, p, q] =>
          showPair (if cmd = "xy2d" then xyToDetyz o11 o12 o21 o22 sy sz p q else detyzToXy o11 o12 o21 o22 sy sz p q)
        | _ => "bad"
      else "bad"
    | _ => "bad"
  | _ => "bad"

partial def loop (h : IO.FS.Stream) (o : IO.FS.Stream) : IO Unit := do
  let line ← h.getLine
  if line.isEmpty then return ()
  o.putStrLn (step line)
  loop h o

def main : IO Unit := do
  loop (← IO.getStdin) (← IO.getStdout)
