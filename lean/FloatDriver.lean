import XfabVerif.Gen.FloatDispatch
/-! line protocol: `<Lean function name> <uint64 bits of each Float argument>...`
    -> `ok <bits>...` | `none` (model returned none = raise) | `bad` (unknown function / arity) -/

def step (line : String) : String :=
  match (line.trimAscii.toString.splitOn " ").filter (· ≠ "") with
  | [] => "bad"
  | f :: rest =>
    if rest.any (fun s => s.toNat?.isNone) then "bad" else
    let args := rest.map XF.ofBitsStr
    if f.startsWith "?" then "bad" else
    match floatDispatch f args with
    | some out => "ok" ++ String.join (out.map fun x => " " ++ XF.toBitsStr x)
    | none => "none"

partial def loop (h : IO.FS.Stream) (o : IO.FS.Stream) : IO Unit := do
  let line ← h.getLine
  if line.isEmpty then return ()
  o.putStrLn (step line)
  loop h o

def main : IO Unit := do
  loop (← IO.getStdin) (← IO.getStdout)
