import XfabVerif.Model.Hkl
/-! line protocol of the reflection-generator model (properties C05 / C06):

    `<tools|laue> <setting key> <g11> <g22> <g33> <g23> <g13> <g12> <min²> <max²> <unique|all>`

    the eight numbers are rationals `num/den` (reciprocal metric G*, sintlmin², sintlmax²).
    Answer: `ok h,k,l;h,k,l;...` rows sorted lexicographically (order inside one sin(theta)/lambda class is
    unspecified in the implementation; sortedness of the model is a theorem), `fuel` when a loop ran out of fuel,
    `none` when no Laue rule matches (`genhkl_base` returns False), `bad` for malformed requests / unknown keys /
    forms that are not positive definite. -/

open Hkl

def parseRat (s : String) : Option Rat :=
  match s.splitOn "/" with
  | [a] => a.toInt?.map fun n => (n : Rat)
  | [a, b] =>
    match a.toInt?, b.toNat? with
    | some n, some d => if d == 0 then none else some (mkRat n d)
    | _, _ => none
  | _ => none

def showV (v : V) : String := s!"{v.1},{v.2.1},{v.2.2}"

def step (line : String) : String :=
  match (line.trimAscii.toString.splitOn " ").filter (· ≠ "") with
  | [m, key, a, b, c, d, e, f, lo, hi, fn] =>
    let cfg? : Option Cfg := if m == "tools" then some toolsCfg else if m == "laue" then some laueCfg else none
    match cfg?, lookupTable key, parseRat a, parseRat b, parseRat c, parseRat d, parseRat e, parseRat f, parseRat lo, parseRat hi with
    | some cfg, some tbl, some g11, some g22, some g33, some g23, some g13, some g12, some min2, some max2 =>
      let G : Form := { g11 := g11, g22 := g22, g33 := g33, g23 := g23, g13 := g13, g12 := g12 }
      -- a negative `min2` stands for a negative lower bound (sgn·square, see harness/props/c05.py driver_line): every reflection is above it
      if !G.posDef || max2 < 0 then "bad" else
      let x : Input := { cfg := cfg, tbl := tbl, G := G, min2 := min2, max2 := max2, fuel := 100000 }
      match x.segments with
      | none => "none"
      | some segs =>
        if !fuelOk x segs then "fuel" else
        let rows? : Option (List (V × Rat)) :=
          if fn == "unique" then some (genhklUnique x segs) else if fn == "all" then some (genhklAll x segs) else none
        match rows? with
        | none => "bad"
        | some rows => "ok " ++ ";".intercalate (((rows.map (·.1)).mergeSort lexLe).map showV)
    | _, _, _, _, _, _, _, _, _, _ => "bad"
  | _ => "bad"

partial def loop (h : IO.FS.Stream) (o : IO.FS.Stream) : IO Unit := do
  let line ← h.getLine
  if line.isEmpty then return ()
  o.putStrLn (step line)
  loop h o

def main : IO Unit := do
  loop (← IO.getStdin) (← IO.getStdout)
