import XfabVerif.Model.Mult
import XfabVerif.Gen.Sg.All
import Std.Data.HashMap
/-! line protocol: `<setting key> <d> <n1> <n2> <n3>`  (position = (n1/d, n2/d, n3/d), `d > 0`, `24 ∣ d`)
    -> `<multiplicity>` | `raise:IndexError` (table with nsymop = 0 or nsymop > len(rot)) | `bad`
    (unknown key, malformed numbers, d = 0 or 24 ∤ d).
    The visited operations of every table (`Mult.usedOps?`) are computed once; each request evaluates
    `Mult.count`, i.e. `Mult.multiplicity t d p = (Mult.usedOps? t).map (Mult.count d · p)`. -/

abbrev Cache := Std.HashMap String (Option (List Sg.Op))

def mkCache : Cache :=
  Sg.allTables.foldl (fun m (kt : String × SgTable) => m.insert kt.1 (Mult.usedOps? kt.2)) {}

def step (c : Cache) (line : String) : String :=
  match (line.trimAscii.toString.splitOn " ").filter (· ≠ "") with
  | [key, ds, s1, s2, s3] =>
    match c[key]?, ds.toNat?, s1.toInt?, s2.toInt?, s3.toInt? with
    | some ops?, some d, some n1, some n2, some n3 =>
      if d == 0 || d % 24 != 0 then "bad" else
      match ops? with
      | none => "raise:IndexError"
      | some G => toString (Mult.count d G ⟨n1, n2, n3⟩)
    | _, _, _, _, _ => "bad"
  | _ => "bad"

partial def loop (c : Cache) (h : IO.FS.Stream) (o : IO.FS.Stream) : IO Unit := do
  let line ← h.getLine
  if line.isEmpty then return ()
  o.putStrLn (step c line)
  loop c h o

def main : IO Unit := do
  loop mkCache (← IO.getStdin) (← IO.getStdout)
