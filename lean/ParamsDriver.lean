import XfabVerif.Model.Params
/-! Line protocol for the hand model of `xfab/parameters.py` (C19).  One request per line, fields separated by
    single blanks, one answer line per request.  Encodings (never empty, never contain a blank):
      name   `n:<hex>`      string in hex, two digits per code point (ASCII only, else `bad`)
      value  `i:<decimal>` | `f:<hex of float token>` | `s:<hex>` ;  stepsize: value or `none` ;  bool `0`/`1`
    A float token must be a repr-like literal (`classify tok = flt tok`, no whitespace) else `bad`.
    Requests:
      reset [n v]...                      new object `parameters(**kwds)`                     -> ok
      addpar n v vary canvary stepsize                                                         -> ok
      set n v                                                                                  -> ok
      setpars [n v]...        set_parameters                                                   -> ok
      setvary [n]...          set_varylist                                                     -> ok | raise:AssertionError
      setvals [v]...          set_variable_values                                              -> ok | raise:AssertionError
      upself [n v]...         update_yourself(obj with these attributes)                       -> ok
      upother [n v]...        update_other(obj)       -> obj [n v]...   (attributes afterwards, given order)
      load x:<hex text>       loadparameters(file with this content)                           -> ok
      reload / reloadnew      load (saveText st) into the same / a fresh object                -> ok
                              (float tokens verbatim: the real file only if every float token is a repr; the harness
                               sends `save` + `load <real file>` instead)
      get n                                             -> val v | raise:KeyError
      dump                    -> params [n v]... | vary [n]... | variable [n]... | canvary [n b]... | steps [n s]...
      varied                  get_variable_values       -> vals [v]... | raise:KeyError
      stepsizes               get_variable_stepsizes    -> steps [s]... | raise:KeyError
      save                    saveparameters            -> text x:<hex of file, float tokens verbatim> | [n v]... (sorted lines)
      classify s:<hex>        dumbtypecheck of one string -> int <n> | flt x:<hex> | text x:<hex>
    Anything else, any string longer than 4000 characters, any non-ASCII code point -> `bad` (state unchanged). -/

open Params

def hexDigit (n : Nat) : Char := if n < 10 then Char.ofNat (48 + n) else Char.ofNat (87 + n)

def hexOf (l : Str) : String :=
  String.ofList (l.flatMap fun c => [hexDigit (c.toNat / 16), hexDigit (c.toNat % 16)])

def hexVal (c : Char) : Option Nat :=
  if '0' ≤ c ∧ c ≤ '9' then some (c.toNat - 48)
  else if 'a' ≤ c ∧ c ≤ 'f' then some (c.toNat - 87) else none

def unhex : List Char → Option Str
  | [] => some []
  | [_] => none
  | a :: b :: t =>
    match hexVal a, hexVal b, unhex t with
    | some x, some y, some r => if 16 * x + y < 128 then some (Char.ofNat (16 * x + y) :: r) else none
    | _, _, _ => none

def maxLen : Nat := 4000

def decStr (pre : Char) (s : String) : Option Str :=
  match s.toList with
  | p :: ':' :: h => if p = pre ∧ h.length ≤ 2 * maxLen then unhex h else none
  | _ => none

def decInt (l : List Char) : Option Int :=
  let sd : Bool × List Char := match l with
    | '-' :: t => (true, t)
    | _ => (false, l)
  if sd.2 ≠ [] ∧ sd.2.all isDigit ∧ sd.2.length ≤ maxLen then
    some (if sd.1 then - (parseNat sd.2 : Int) else (parseNat sd.2 : Int))
  else none

def noSpace (l : Str) : Bool := l.all (fun c => !isStrSpace c)

def decVal (s : String) : Option Val :=
  match s.toList with
  | 'i' :: ':' :: d => (decInt d).map Val.int
  | 'f' :: ':' :: _ =>
    match decStr 'f' s with
    | some tok => if classify tok = Class.flt tok ∧ noSpace tok then some (Val.flt tok) else none
    | none => none
  | 's' :: ':' :: _ => (decStr 's' s).map Val.str
  | _ => none

def decStep (s : String) : Option (Option Val) :=
  if s = "none" then some none else (decVal s).map some

def decBool (s : String) : Option Bool :=
  if s = "0" then some false else if s = "1" then some true else none

def decNames : List String → Option (List Str)
  | [] => some []
  | a :: t => match decStr 'n' a, decNames t with
    | some x, some r => some (x :: r)
    | _, _ => none

def decVals : List String → Option (List Val)
  | [] => some []
  | a :: t => match decVal a, decVals t with
    | some x, some r => some (x :: r)
    | _, _ => none

def decPairs : List String → Option (List (Str × Val))
  | [] => some []
  | [_] => none
  | a :: b :: t => match decStr 'n' a, decVal b, decPairs t with
    | some x, some y, some r => some ((x, y) :: r)
    | _, _, _ => none

def encName (k : Str) : String := "n:" ++ hexOf k

def encVal : Val → String
  | .int n => "i:" ++ String.ofList (showInt n)
  | .flt t => "f:" ++ hexOf t
  | .str s => "s:" ++ hexOf s

def encStep : Option Val → String
  | none => "none"
  | some v => encVal v

def encPairs (l : List (Str × Val)) : String :=
  String.join (l.map fun kv => " " ++ encName kv.1 ++ " " ++ encVal kv.2)

def encErr : Err → String
  | .assertion => "raise:AssertionError"
  | .key => "raise:KeyError"

def answer (r : State × Option Err) : State × String :=
  (r.1, match r.2 with | none => "ok" | some e => encErr e)

def handle (st : State) (line : String) : State × String :=
  let bad : State × String := (st, "bad")
  match (line.trimAscii.toString.splitOn " ") with
  | [] => bad
  | cmd :: args =>
    if cmd = "reset" then
      match decPairs args with
      | some kvs => (kvs.foldl (fun s kv => addpar s kv.1 kv.2 false false none) { params := kvs }, "ok")
      | none => bad
    else if cmd = "addpar" then
      match args with
      | [n, v, a, b, s] =>
        match decStr 'n' n, decVal v, decBool a, decBool b, decStep s with
        | some n, some v, some a, some b, some s => answer (step st (.addpar n v a b s))
        | _, _, _, _, _ => bad
      | _ => bad
    else if cmd = "set" then
      match args with
      | [n, v] =>
        match decStr 'n' n, decVal v with
        | some n, some v => answer (step st (.set n v))
        | _, _ => bad
      | _ => bad
    else if cmd = "get" then
      match args with
      | [n] =>
        match decStr 'n' n with
        | some n => (st, match get st n with | some v => "val " ++ encVal v | none => encErr .key)
        | none => bad
      | _ => bad
    else if cmd = "setpars" then
      match decPairs args with
      | some d => answer (step st (.setParameters d))
      | none => bad
    else if cmd = "setvary" then
      match decNames args with
      | some vl => answer (step st (.setVarylist vl))
      | none => bad
    else if cmd = "setvals" then
      match decVals args with
      | some vs => answer (step st (.setVariableValues vs))
      | none => bad
    else if cmd = "upself" then
      match decPairs args with
      | some o => answer (step st (.updateYourself o))
      | none => bad
    else if cmd = "upother" then
      match decPairs args with
      | some o => ((step st (.updateOther o)).1, "obj" ++ encPairs (updateOther st.params o))
      | none => bad
    else if cmd = "load" then
      match args with
      | [x] =>
        match decStr 'x' x with
        | some t => answer (step st (.load t))
        | none => bad
      | _ => bad
    else if cmd = "reload" ∧ args = [] then answer (step st (.load (saveText st)))
    else if cmd = "reloadnew" ∧ args = [] then answer (step init (.load (saveText st)))
    else if cmd = "dump" ∧ args = [] then
      (st, "params" ++ encPairs (getParameters st)
        ++ " | vary" ++ String.join (st.varylist.map fun k => " " ++ encName k)
        ++ " | variable" ++ String.join (st.variableList.map fun k => " " ++ encName k)
        ++ " | canvary" ++ String.join (st.canVary.map fun kb => " " ++ encName kb.1 ++ (if kb.2 then " 1" else " 0"))
        ++ " | steps" ++ String.join (st.stepsizes.map fun ks => " " ++ encName ks.1 ++ " " ++ encStep ks.2))
    else if cmd = "varied" ∧ args = [] then
      (st, match getVariableValues st with
        | some vs => "vals" ++ String.join (vs.map fun v => " " ++ encVal v)
        | none => encErr .key)
    else if cmd = "stepsizes" ∧ args = [] then
      (st, match getVariableStepsizes st with
        | some vs => "steps" ++ String.join (vs.map fun v => " " ++ encStep v)
        | none => encErr .key)
    else if cmd = "save" ∧ args = [] then
      (st, "text x:" ++ hexOf (saveText st) ++ " |" ++ encPairs (saveLines st.params))
    else if cmd = "classify" then
      match args with
      | [s] =>
        match decStr 's' s with
        | some s => (st, match classify s with
            | .int n => "int " ++ String.ofList (showInt n)
            | .flt t => "flt x:" ++ hexOf t
            | .text t => "text x:" ++ hexOf t)
        | none => bad
      | _ => bad
    else bad

partial def loop (h : IO.FS.Stream) (o : IO.FS.Stream) (st : State) : IO Unit := do
  let line ← h.getLine
  if line.isEmpty then return ()
  let r := handle st line
  o.putStrLn r.2
  loop h o r.1

def main : IO Unit := do
  loop (← IO.getStdin) (← IO.getStdout) init
