import XfabVerif.Model.QR
/-! line protocol (floats travel as uint64 IEEE bit patterns, matrices row-major):
    `<9 numbers>`  = matrix UB      -> `ok <18 numbers>` (U then B of the Gram–Schmidt model of `ub_to_u_b`)
    `<18 numbers>` = Q then R       -> `ok <18 numbers>` (only the sign normalisation + rotation check applied
                                       to the given QR pair, e.g. the raw output of numpy.linalg.qr)
    answer `raise:ValueError` when the model's `_check_rotation_matrix` fails; `bad` on a malformed request -/
open QRModel

def ofBits (s : String) : Float := Float.ofBits (UInt64.ofNat s.toNat!)
def toBits (x : Float) : String := toString x.toBits.toNat

def out (r : Option (Mat × Mat)) : String :=
  match r with
  | none => "raise:ValueError"
  | some (U, B) => "ok" ++ String.join ((U ++ B).toList.map fun x => " " ++ toBits x)

def step (line : String) : String :=
  let toks := (line.trimAscii.toString.splitOn " ").filter (· ≠ "")
  if toks.any (fun s => s.toNat?.isNone) then "bad" else
  let xs := (toks.map ofBits).toArray
  if xs.size == 9 then out (ub_to_u_b xs)
  else if xs.size == 18 then out (post (xs.extract 0 9) (xs.extract 9 18))
  else "bad"

partial def loop (h : IO.FS.Stream) (o : IO.FS.Stream) : IO Unit := do
  let line ← h.getLine
  if line.isEmpty then return ()
  o.putStrLn (step line)
  loop h o

def main : IO Unit := do
  loop (← IO.getStdin) (← IO.getStdout)
