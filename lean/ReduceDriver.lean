import XfabVerif.Model.Reduce
/-! line protocol: `<uvw> <g00> <g11> <g22> <g12> <g02> <g01>`   (metric tensor entries as `num/den` or `num`)
    -> `ok sel=<v1>;<v2>;<v3> det=<det M> ball=<true|false: Reduce.ballCheck, the certified search-range test> true=<six num/den> coded=<six num/den> adm=<sel>|<sel>|…`
         sel   : canonical outcome (stable sort), each vector `u,v,w`
         true  : `M G Mᵀ` as `g00 g11 g22 g12 g02 g01`
         coded : what the code returns: `a'² b'² c'²  sgn·cos²α' sgn·cos²β' sgn·cos²γ'` (exact)
         adm   : every outcome some order of tied lengths can produce (enumeration order)
     | `none`  (a loop of the code ends without `break`: the code returns a cell containing nan)
     | `bad`   (malformed request, zero denominator, uvw = 0 or uvw > 6, metric not positive definite) -/
open Reduce

def parseRat (s : String) : Option (Int × Nat) :=
  match s.splitOn "/" with
  | [n] => n.toInt?.map fun n => (n, 1)
  | [n, d] => match n.toInt?, d.toNat? with
    | some n, some d => some (n, d)
    | _, _ => none
  | _ => none

def showVec (v : Vec) : String := s!"{v.x},{v.y},{v.z}"
def showSel (s : Sel) : String := s!"{showVec s.v1};{showVec s.v2};{showVec s.v3}"
def showQs (l : List Q) : String := ",".intercalate (l.map Q.toString)

def step (line : String) : String :=
  match (line.trimAscii.toString.splitOn " ").filter (· ≠ "") with
  | us :: rest =>
    match us.toNat?, rest.mapM parseRat with
    | some uvw, some rs =>
      if uvw == 0 || uvw > 6 then "bad" else
      match Metric.ofRats rs with
      | none => "bad"
      | some g =>
        if !posDef g then "bad" else
        match select g uvw with
        | none => "none"
        | some s =>
          s!"ok sel={showSel s} det={s.det} ball={ballCheck g uvw s} true={showQs (trueGram g s)} coded={showQs (coded g s)} adm={"|".intercalate ((admissible g uvw).map showSel)}"
    | _, _ => "bad"
  | _ => "bad"

partial def loop (h : IO.FS.Stream) (o : IO.FS.Stream) : IO Unit := do
  let line ← h.getLine
  if line.isEmpty then return ()
  o.putStrLn (step line)
  loop h o

def main : IO Unit := do
  loop (← IO.getStdin) (← IO.getStdout)
