import XfabVerif.Model.SFFloat
import Std.Data.HashMap
/-! Driver of the executable Float model of `xfab.structure.StructureFactor` (see the header of
    `XfabVerif/Model/SFFloat.lean` for the exact line protocol):

    `<key> <F h k l> <F cell×6> <N natoms> { <N variant> <F pos×3> <F occ> <F symmulti> <F data×9> <F adp×6> <N hasdisp> <F fp> <F fpp> }*`
    -> `ok <F Freal> <F Fimg>` | `raise:IndexError` | `bad`

    `<F>` = decimal uint64 bit pattern of the double, `<N>` = plain decimal.  11 + 24·natoms tokens exactly.
    The tables of `Sg.allTables` are put into a hash map once (`SFFloat.stepWith`); everything else is `SFFloat.step`. -/

abbrev Cache := Std.HashMap String SgTable

def mkCache : Cache :=
  Sg.allTables.foldl (fun m (kt : String × SgTable) => if m.contains kt.1 then m else m.insert kt.1 kt.2) {}

partial def loop (c : Cache) (h : IO.FS.Stream) (o : IO.FS.Stream) : IO Unit := do
  let line ← h.getLine
  if line.isEmpty then return ()
  o.putStrLn (SFFloat.stepWith (fun k => c[k]?) line)
  loop c h o

def main : IO Unit := do
  loop mkCache (← IO.getStdin) (← IO.getStdout)
