import XfabVerif.Model.SgLookup
import XfabVerif.Gen.Sg.All
/-! line protocol for the C04 correspondence:
  `name <hex of the ASCII name> <0|1>`   → `key-error` | `no-class` | `ok <idx> <no> <rhombohedral 0|1>`
  `no <n> <0|1>`                         → `no-class` | `ok <idx> <no> <0|1>`
  `table <idx>`                          → `ok <no> <nsymop> <nuniq> <#ops> <checksum> <laue> <crystal system> <cell choice>`
  anything else → `bad`
-/
open Sg

def hexVal (c : Char) : Option Nat :=
  if '0' ≤ c ∧ c ≤ '9' then some (c.toNat - 48) else if 'a' ≤ c ∧ c ≤ 'f' then some (c.toNat - 87) else none

def unhex : List Char → Option (List Nat)
  | [] => some []
  | a :: b :: rest => do
    let x ← hexVal a; let y ← hexVal b; let r ← unhex rest
    pure ((16 * x + y) :: r)
  | _ => none

def showIdx (i : Nat) : String :=
  match settingAt i with
  | some (n, r, _) => s!"ok {i} {n} {if r then 1 else 0}"
  | none => "no-class"

/-- order-sensitive checksum of a table's operations (same formula in the harness) -/
def checksum (t : SgTable) : Nat :=
  let m : Nat := 1000000007
  t.ops.foldl (fun acc o =>
    [o.r11, o.r12, o.r13, o.r21, o.r22, o.r23, o.r31, o.r32, o.r33, o.t1, o.t2, o.t3].foldl
      (fun a x => (a * 31 + (x + 2000000).toNat) % m) acc) 7

def step (line : String) : String :=
  match (line.trimAscii.toString.splitOn " ").filter (· ≠ "") with
  | ["name", h, cc] =>
    if cc ≠ "0" ∧ cc ≠ "1" then "bad" else
    match unhex (if h == "-" then [] else h.toList) with
    | none => "bad"
    | some cps =>
      if cps.any (· ≥ 128) then "bad" else
      match lookupNameN cps (cc == "1") with
      | none => "key-error"
      | some none => "no-class"
      | some (some i) => showIdx i
  | ["no", n, cc] =>
    if cc ≠ "0" ∧ cc ≠ "1" then "bad" else
    match n.toNat? with
    | none => "bad"
    | some k => match lookupNoN k (cc == "1") with
      | none => "no-class"
      | some i => showIdx i
  | ["table", i] =>
    match i.toNat? with
    | none => "bad"
    | some k => match allTables[k]? with
      | none => "bad"
      | some (_, t) => s!"ok {t.no} {t.nsymop} {t.nuniq} {t.ops.length} {checksum t} {t.laue} {t.crystalSystem} {t.cellChoice}"
  | _ => "bad"

partial def loop (h : IO.FS.Stream) (o : IO.FS.Stream) : IO Unit := do
  let line ← h.getLine
  if line.isEmpty then return ()
  o.putStrLn (step line)
  loop h o

def main : IO Unit := do loop (← IO.getStdin) (← IO.getStdout)
