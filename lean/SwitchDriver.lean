import XfabVerif.Model.Switch
/-! line protocol: one HISTORY of assignments to `CHECKS.activated` per line, tokens separated by blanks:
      `True` `False` `None` `int:<n>` `float:<repr>` `str:<s>` `np:True` `np:False`
    answer: `init:<T|F>` followed by one item per assignment `ok:<T|F>` | `raise:ValueError:<T|F>`
    (outcome of the assignment : value of `CHECKS.activated` read afterwards), starting from a fresh object.
    `bad` for an unknown token. -/
open Switch

def tf (b : Bool) : String := if b then "T" else "F"

def step (line : String) : String :=
  let toks := (line.trimAscii.toString.splitOn " ").filter (· ≠ "")
  let vals := toks.map parseVal
  if vals.any Option.isNone then "bad" else
  let vs := vals.filterMap id
  let items := (trace init vs).map fun (o, a) =>
    (match o with | Outcome.ok => "ok:" | Outcome.valueError => "raise:ValueError:") ++ tf a
  " ".intercalate (("init:" ++ tf (activated init)) :: items)

partial def loop (h : IO.FS.Stream) (o : IO.FS.Stream) : IO Unit := do
  let line ← h.getLine
  if line.isEmpty then return ()
  o.putStrLn (step line)
  loop h o

def main : IO Unit := do
  loop (← IO.getStdin) (← IO.getStdout)
