import XfabVerif.Gen.Symmetry
import XfabVerif.FloatPrelude
/-! Model driver of property C12 (crystal-system symmetry tables and `Umis`).  One request per line:

  `perm s`    -> `ok n e…`        the 9·n integers of `Symm.perm s` (row major)            | `raise:ValueError` (s ∉ 1..7)
  `rot s`     -> `ok den n a b …` `Symm.rotDen s`, then per entry the pair (a, b) = (a + b√3)/den | `raise:ValueError`
  `cached s`  -> `ok den n a b …` the same for `Symm.cached s` / `Symm.cachedDen s`         | `bad` (s ∉ 1..7)
  `umis s <18 uint64 bit patterns: U1 row major, U2 row major>`
              -> `ok <bits of angle_0> …`  Float evaluation of the model's formula
                 angle_k = arccos(clip(0.5·Σ_ij R_k[i,j]·(U1ᵀU2)[i,j] − 0.5, −1, 1))·180/π over `Symm.cached s`  | `bad`
-/
open Symm

def showInt (x : Int) : String := toString x

def matInts (A : Mat Int) : List String := A.toList.map showInt
def matPairs (A : Mat Z3) : List String := A.toList.foldr (fun x acc => showInt x.a :: showInt x.b :: acc) []

def okSys (s : Nat) : Bool := 1 ≤ s && s ≤ 7

/-- entry (a + b√3)/den in floating point -/
def entryF (den : Int) (x : Z3) : Float := x.toFloat / Float.ofInt den

def umisF (s : Nat) (u1 u2 : List Float) : List Float :=
  let U1 : XF.Mat 3 3 := XF.mforce fun i j => u1.getD (3 * i.val + j.val) 0.0
  let U2 : XF.Mat 3 3 := XF.mforce fun i j => u2.getD (3 * i.val + j.val) 0.0
  let M := XF.matMul (XF.matT U1) U2
  let m : List Float := [M 0 0, M 0 1, M 0 2, M 1 0, M 1 1, M 1 2, M 2 0, M 2 1, M 2 2]
  (cached s).map fun R =>
    let r := R.toList.map (entryF (cachedDen s))
    let t := (List.zipWith (· * ·) r m).foldl (· + ·) 0.0
    let x := 0.5 * t - 0.5
    Float.acos (XF.fmin 1.0 (XF.fmax (-1.0) x)) * 180.0 / XF.fpi

def step (line : String) : String :=
  match (line.trimAscii.toString.splitOn " ").filter (· ≠ "") with
  | ["perm", s] =>
    match s.toNat? with
    | some n => if okSys n then "ok " ++ " ".intercalate (toString (perm n).length :: ((perm n).map matInts).flatten)
                else "raise:ValueError"
    | none => "bad"
  | ["rot", s] =>
    match s.toNat? with
    | some n => if okSys n then "ok " ++ " ".intercalate (showInt (rotDen n) :: toString (rot n).length :: ((rot n).map matPairs).flatten)
                else "raise:ValueError"
    | none => "bad"
  | ["cached", s] =>
    match s.toNat? with
    | some n => if okSys n then "ok " ++ " ".intercalate (showInt (cachedDen n) :: toString (cached n).length :: ((cached n).map matPairs).flatten)
                else "bad"
    | none => "bad"
  | "umis" :: s :: rest =>
    match s.toNat? with
    | some n =>
      if !okSys n || rest.length != 18 || rest.any (fun x => x.toNat?.isNone) then "bad" else
      let xs := rest.map XF.ofBitsStr
      "ok" ++ String.join ((umisF n (xs.take 9) (xs.drop 9)).map fun x => " " ++ XF.toBitsStr x)
    | none => "bad"
  | _ => "bad"

partial def loop (h : IO.FS.Stream) (o : IO.FS.Stream) : IO Unit := do
  let line ← h.getLine
  if line.isEmpty then return ()
  o.putStrLn (step line)
  loop h o

def main : IO Unit := do
  loop (← IO.getStdin) (← IO.getStdout)
