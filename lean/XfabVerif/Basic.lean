def xfabVerifVersion : Nat := 1
