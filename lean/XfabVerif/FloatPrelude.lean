/-
Core-only vocabulary used by the generated `Gen/*Float.lean` twins (executable
models used to validate the translator against the Python implementation).
Vectors are `Fin n → Float`, matrices `Fin m → Fin n → Float`, exactly the shape
Mathlib's `Matrix` unfolds to in the ℝ twins.
-/
namespace XF

/-- Vectors and matrices are *data* (arrays), not closures: a closure-valued definition is eta-expanded by the
compiler, so its body would be re-evaluated at every entry access (exponential in nesting depth). -/
structure Vec (n : Nat) where
  a : Array Float
structure Mat (m n : Nat) where
  a : Array Float     -- row-major

instance {n : Nat} : CoeFun (Vec n) (fun _ => Fin n → Float) := ⟨fun v i => v.a.getD i.val 0.0⟩
instance {m n : Nat} : CoeFun (Mat m n) (fun _ => Fin m → Fin n → Float) :=
  ⟨fun A i j => A.a.getD (i.val * n + j.val) 0.0⟩

def fpi : Float := 3.141592653589793

def vforce {n : Nat} (f : Fin n → Float) : Vec n := ⟨((List.finRange n).map f).toArray⟩
def mforce {m n : Nat} (f : Fin m → Fin n → Float) : Mat m n :=
  ⟨((List.finRange m).flatMap fun i => (List.finRange n).map (f i)).toArray⟩

def vecL {n : Nat} (l : List Float) : Vec n := ⟨l.toArray⟩
def matL {m n : Nat} (l : List (List Float)) : Mat m n := ⟨l.flatten.toArray⟩

def sumFin {n : Nat} (f : Fin n → Float) : Float :=
  (List.finRange n).foldl (fun acc i => acc + f i) 0.0

def vdot {n : Nat} (v w : Vec n) : Float := sumFin fun i => v i * w i
def matMul {m k n : Nat} (A : Mat m k) (B : Mat k n) : Mat m n := mforce fun i j => sumFin fun l => A i l * B l j
def matVec {m n : Nat} (A : Mat m n) (v : Vec n) : Vec m := vforce fun i => sumFin fun j => A i j * v j
def vecMat {m n : Nat} (v : Vec m) (A : Mat m n) : Vec n := vforce fun j => sumFin fun i => v i * A i j
def matT {m n : Nat} (A : Mat m n) : Mat n m := mforce fun i j => A j i
def matId {n : Nat} : Mat n n := mforce fun i j => if i = j then 1.0 else 0.0
def matAdd {m n : Nat} (A B : Mat m n) : Mat m n := mforce fun i j => A i j + B i j
def matSub {m n : Nat} (A B : Mat m n) : Mat m n := mforce fun i j => A i j - B i j
def matNeg {m n : Nat} (A : Mat m n) : Mat m n := mforce fun i j => - A i j
def matSmul {m n : Nat} (c : Float) (A : Mat m n) : Mat m n := mforce fun i j => c * A i j
def matDivS {m n : Nat} (A : Mat m n) (c : Float) : Mat m n := mforce fun i j => A i j / c
def vAdd {n : Nat} (v w : Vec n) : Vec n := vforce fun i => v i + w i
def vSub {n : Nat} (v w : Vec n) : Vec n := vforce fun i => v i - w i
def vNeg {n : Nat} (v : Vec n) : Vec n := vforce fun i => - v i
def vSmul {n : Nat} (c : Float) (v : Vec n) : Vec n := vforce fun i => c * v i
def vDivS {n : Nat} (v : Vec n) (c : Float) : Vec n := vforce fun i => v i / c
def mrow {m n : Nat} (A : Mat m n) (i : Fin m) : Vec n := vforce fun j => A i j
def mcol {m n : Nat} (A : Mat m n) (j : Fin n) : Vec m := vforce fun i => A i j

def matDet3 (A : Mat 3 3) : Float :=
  A 0 0 * A 1 1 * A 2 2 - A 0 0 * A 1 2 * A 2 1 - A 0 1 * A 1 0 * A 2 2
  + A 0 1 * A 1 2 * A 2 0 + A 0 2 * A 1 0 * A 2 1 - A 0 2 * A 1 1 * A 2 0

/-- adjugate / det, i.e. the exact inverse evaluated in floating point -/
def matInv3 (A : Mat 3 3) : Mat 3 3 :=
  let d := matDet3 A
  matL [[(A 1 1 * A 2 2 - A 1 2 * A 2 1) / d, (A 0 2 * A 2 1 - A 0 1 * A 2 2) / d, (A 0 1 * A 1 2 - A 0 2 * A 1 1) / d],
        [(A 1 2 * A 2 0 - A 1 0 * A 2 2) / d, (A 0 0 * A 2 2 - A 0 2 * A 2 0) / d, (A 0 2 * A 1 0 - A 0 0 * A 1 2) / d],
        [(A 1 0 * A 2 1 - A 1 1 * A 2 0) / d, (A 0 1 * A 2 0 - A 0 0 * A 2 1) / d, (A 0 0 * A 1 1 - A 0 1 * A 1 0) / d]]

def matInv2 (A : Mat 2 2) : Mat 2 2 :=
  let d := A 0 0 * A 1 1 - A 0 1 * A 1 0
  matL [[A 1 1 / d, - A 0 1 / d], [- A 1 0 / d, A 0 0 / d]]

def vcross (v w : Vec 3) : Vec 3 :=
  vecL [v 1 * w 2 - v 2 * w 1, v 2 * w 0 - v 0 * w 2, v 0 * w 1 - v 1 * w 0]

def fmax (a b : Float) : Float := if b > a then b else a
def fmin (a b : Float) : Float := if b < a then b else a

/-- line protocol helpers: floats travel as their IEEE bit pattern -/
def ofBitsStr (s : String) : Float := Float.ofBits (UInt64.ofNat s.toNat!)
def toBitsStr (x : Float) : String := toString x.toBits.toNat

def vecOut {n : Nat} (v : Vec n) : List Float := (List.finRange n).map fun i => v i
def matOut {m n : Nat} (A : Mat m n) : List Float := (List.finRange m).flatMap fun i => (List.finRange n).map fun j => A i j

end XF
