/-
Core-only vocabulary used by the generated `Gen/*Float.lean` twins (executable
models used to validate the translator against the Python implementation).
Vectors are `Fin n → Float`, matrices `Fin m → Fin n → Float`, exactly the shape
Mathlib's `Matrix` unfolds to in the ℝ twins.
-/
namespace XF

abbrev Vec (n : Nat) := Fin n → Float
abbrev Mat (m n : Nat) := Fin m → Fin n → Float

def fpi : Float := 3.141592653589793

def vecL {n : Nat} (l : List Float) : Vec n := fun i => l.getD i.val 0.0
def matL {m n : Nat} (l : List (List Float)) : Mat m n := fun i j => (l.getD i.val []).getD j.val 0.0

def sumFin {n : Nat} (f : Fin n → Float) : Float :=
  (List.finRange n).foldl (fun acc i => acc + f i) 0.0

def vdot {n : Nat} (v w : Vec n) : Float := sumFin fun i => v i * w i
def matMul {m k n : Nat} (A : Mat m k) (B : Mat k n) : Mat m n := fun i j => sumFin fun l => A i l * B l j
def matVec {m n : Nat} (A : Mat m n) (v : Vec n) : Vec m := fun i => sumFin fun j => A i j * v j
def vecMat {m n : Nat} (v : Vec m) (A : Mat m n) : Vec n := fun j => sumFin fun i => v i * A i j
def matT {m n : Nat} (A : Mat m n) : Mat n m := fun i j => A j i
def matId {n : Nat} : Mat n n := fun i j => if i = j then 1.0 else 0.0
def matAdd {m n : Nat} (A B : Mat m n) : Mat m n := fun i j => A i j + B i j
def matSub {m n : Nat} (A B : Mat m n) : Mat m n := fun i j => A i j - B i j
def matNeg {m n : Nat} (A : Mat m n) : Mat m n := fun i j => - A i j
def matSmul {m n : Nat} (c : Float) (A : Mat m n) : Mat m n := fun i j => c * A i j
def matDivS {m n : Nat} (A : Mat m n) (c : Float) : Mat m n := fun i j => A i j / c
def vAdd {n : Nat} (v w : Vec n) : Vec n := fun i => v i + w i
def vSub {n : Nat} (v w : Vec n) : Vec n := fun i => v i - w i
def vNeg {n : Nat} (v : Vec n) : Vec n := fun i => - v i
def vSmul {n : Nat} (c : Float) (v : Vec n) : Vec n := fun i => c * v i
def vDivS {n : Nat} (v : Vec n) (c : Float) : Vec n := fun i => v i / c

def matDet3 (A : Mat 3 3) : Float :=
  A 0 0 * A 1 1 * A 2 2 - A 0 0 * A 1 2 * A 2 1 - A 0 1 * A 1 0 * A 2 2
  + A 0 1 * A 1 2 * A 2 0 + A 0 2 * A 1 0 * A 2 1 - A 0 2 * A 1 1 * A 2 0

/-- adjugate / det, i.e. the exact inverse evaluated in floating point -/
def matInv3 (A : Mat 3 3) : Mat 3 3 :=
  let d := matDet3 A
  matL [[(A 1 1 * A 2 2 - A 1 2 * A 2 1) / d, (A 0 2 * A 2 1 - A 0 1 * A 2 2) / d, (A 0 1 * A 1 2 - A 0 2 * A 1 1) / d],
        [(A 1 2 * A 2 0 - A 1 0 * A 2 2) / d, (A 0 0 * A 2 2 - A 0 2 * A 2 0) / d, (A 0 2 * A 1 0 - A 0 0 * A 1 2) / d],
        [(A 1 0 * A 2 1 - A 1 1 * A 2 0) / d, (A 0 1 * A 2 0 - A 0 0 * A 2 1) / d, (A 0 0 * A 1 1 - A 0 1 * A 1 0) / d]]

def matInv2 (A : Mat 2 2) : Mat 2 2 :=
  let d := A 0 0 * A 1 1 - A 0 1 * A 1 0
  matL [[A 1 1 / d, - A 0 1 / d], [- A 1 0 / d, A 0 0 / d]]

def vcross (v w : Vec 3) : Vec 3 :=
  vecL [v 1 * w 2 - v 2 * w 1, v 2 * w 0 - v 0 * w 2, v 0 * w 1 - v 1 * w 0]

def fmax (a b : Float) : Float := if b > a then b else a
def fmin (a b : Float) : Float := if b < a then b else a

/-- line protocol helpers: floats travel as their IEEE bit pattern -/
def ofBitsStr (s : String) : Float := Float.ofBits (UInt64.ofNat s.toNat!)
def toBitsStr (x : Float) : String := toString x.toBits.toNat

def vecOut {n : Nat} (v : Vec n) : List Float := (List.finRange n).map v
def matOut {m n : Nat} (A : Mat m n) : List Float := ((List.finRange m).map fun i => (List.finRange n).map (A i)).flatten

end XF
