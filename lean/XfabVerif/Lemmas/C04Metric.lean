/-
C04 helper: from the integer basis metrics of `Sg.metricBasis` to real unit cells.  An operation that preserves the
basis metrics of a crystal system / setting (what `Sg.checkMeta` checks, `Sg.Preserves`) preserves the metric
tensor `Spec.metric cell` of EVERY real cell conforming to that crystal system / setting (`Sg.Conforms`).  This
removes `Sg.metricBasis` from the trusted base: it only has to span the conforming metrics, which is proved here.
-/
import XfabVerif.Lemmas.SgSound
import XfabVerif.Spec.Basic
open Matrix

namespace Sg

/-- the rotation part as a real matrix -/
def Op.mat (a : Op) : Matrix (Fin 3) (Fin 3) ℝ :=
  !![(a.r11 : ℝ), (a.r12 : ℝ), (a.r13 : ℝ); (a.r21 : ℝ), (a.r22 : ℝ), (a.r23 : ℝ); (a.r31 : ℝ), (a.r32 : ℝ), (a.r33 : ℝ)]

/-- a `Sym6` as a real symmetric matrix -/
def Sym6.mat (g : Sym6) : Matrix (Fin 3) (Fin 3) ℝ :=
  !![(g.g11 : ℝ), (g.g12 : ℝ), (g.g13 : ℝ); (g.g12 : ℝ), (g.g22 : ℝ), (g.g23 : ℝ); (g.g13 : ℝ), (g.g23 : ℝ), (g.g33 : ℝ)]

/-- `RᵀGR = G` over the reals -/
def PresR (a : Op) (G : Matrix (Fin 3) (Fin 3) ℝ) : Prop := a.matᵀ * G * a.mat = G

lemma PresR.add {a : Op} {G H : Matrix (Fin 3) (Fin 3) ℝ} (hG : PresR a G) (hH : PresR a H) : PresR a (G + H) := by
  unfold PresR at *
  rw [Matrix.mul_add, Matrix.add_mul, hG, hH]

lemma PresR.smul {a : Op} {G : Matrix (Fin 3) (Fin 3) ℝ} (x : ℝ) (hG : PresR a G) : PresR a (x • G) := by
  unfold PresR at *
  rw [Matrix.mul_smul, Matrix.smul_mul, hG]

lemma Preserves.presR {a : Op} {g : Sym6} (h : Preserves a g) : PresR a g.mat := by
  obtain ⟨h1, h2, h3, h4, h5, h6, h7, h8, h9⟩ := h
  simp only [quad] at *
  unfold PresR
  ext i j
  fin_cases i <;> fin_cases j <;>
    simp [Op.mat, Sym6.mat, Matrix.mul_apply, Fin.sum_univ_three, Matrix.transpose_apply]
  · have := congrArg (Int.cast (R := ℝ)) h1; push_cast at this; linarith
  · have := congrArg (Int.cast (R := ℝ)) h2; push_cast at this; linarith
  · have := congrArg (Int.cast (R := ℝ)) h3; push_cast at this; linarith
  · have := congrArg (Int.cast (R := ℝ)) h4; push_cast at this; linarith
  · have := congrArg (Int.cast (R := ℝ)) h5; push_cast at this; linarith
  · have := congrArg (Int.cast (R := ℝ)) h6; push_cast at this; linarith
  · have := congrArg (Int.cast (R := ℝ)) h7; push_cast at this; linarith
  · have := congrArg (Int.cast (R := ℝ)) h8; push_cast at this; linarith
  · have := congrArg (Int.cast (R := ℝ)) h9; push_cast at this; linarith


/-- unit cells `[a, b, c, α, β, γ]` (degrees) conforming to a crystal system / setting, in the conventions of the
tables: monoclinic unique axis b; trigonal and hexagonal groups on hexagonal axes (γ = 120) unless the
rhombohedral setting is chosen -/
def Conforms (cs cellChoice : String) (cell : Fin 6 → ℝ) : Prop :=
  if cs = "triclinic" then True
  else if cs = "monoclinic" then cell 3 = 90 ∧ cell 5 = 90
  else if cs = "orthorhombic" then cell 3 = 90 ∧ cell 4 = 90 ∧ cell 5 = 90
  else if cs = "tetragonal" then cell 0 = cell 1 ∧ cell 3 = 90 ∧ cell 4 = 90 ∧ cell 5 = 90
  else if cs = "trigonal" ∨ cs = "hexagonal" then
    if cellChoice = "rhombohedral" then cell 0 = cell 1 ∧ cell 1 = cell 2 ∧ cell 3 = cell 4 ∧ cell 4 = cell 5
    else cell 0 = cell 1 ∧ cell 3 = 90 ∧ cell 4 = 90 ∧ cell 5 = 120
  else if cs = "cubic" then cell 0 = cell 1 ∧ cell 1 = cell 2 ∧ cell 3 = 90 ∧ cell 4 = 90 ∧ cell 5 = 90
  else False

lemma cos_rad_90 : Real.cos (Spec.rad 90) = 0 := by
  unfold Spec.rad
  rw [show (90 : ℝ) * Real.pi / 180 = Real.pi / 2 by ring]
  exact Real.cos_pi_div_two

lemma cos_rad_120 : Real.cos (Spec.rad 120) = -(1 / 2) := by
  unfold Spec.rad
  rw [show (120 : ℝ) * Real.pi / 180 = Real.pi - Real.pi / 3 by ring, Real.cos_pi_sub, Real.cos_pi_div_three]

/-- an operation preserving the (integer) basis metrics of a crystal system / setting preserves the metric
tensor of every real cell conforming to it -/
lemma presR_metric_of_basis {cs cc : String} {cell : Fin 6 → ℝ} (hc : Conforms cs cc cell) {a : Op}
    (h : ∀ g ∈ metricBasis cs cc, Preserves a g) : PresR a (Spec.metric cell) := by
  have P : ∀ g, g ∈ metricBasis cs cc → PresR a g.mat := fun g hg => (h g hg).presR
  by_cases h1 : cs = "triclinic"
  · subst h1
    have e : Spec.metric cell = (cell 0 * cell 0) • (⟨1,0,0,0,0,0⟩ : Sym6).mat + (cell 1 * cell 1) • (⟨0,1,0,0,0,0⟩ : Sym6).mat
        + (cell 2 * cell 2) • (⟨0,0,1,0,0,0⟩ : Sym6).mat
        + (cell 1 * cell 2 * Real.cos (Spec.rad (cell 3))) • (⟨0,0,0,1,0,0⟩ : Sym6).mat
        + (cell 0 * cell 2 * Real.cos (Spec.rad (cell 4))) • (⟨0,0,0,0,1,0⟩ : Sym6).mat
        + (cell 0 * cell 1 * Real.cos (Spec.rad (cell 5))) • (⟨0,0,0,0,0,1⟩ : Sym6).mat := by
      ext i j; fin_cases i <;> fin_cases j <;> simp [Spec.metric, Sym6.mat]
    rw [e]
    exact (((((P _ (by simp [metricBasis])).smul _).add ((P _ (by simp [metricBasis])).smul _)).add
      ((P _ (by simp [metricBasis])).smul _)).add ((P _ (by simp [metricBasis])).smul _)).add
      ((P _ (by simp [metricBasis])).smul _) |>.add ((P _ (by simp [metricBasis])).smul _)
  by_cases h2 : cs = "monoclinic"
  · subst h2
    simp only [Conforms, h1, if_false] at hc
    simp only [if_true] at hc
    obtain ⟨h3, h5⟩ := hc
    have e : Spec.metric cell = (cell 0 * cell 0) • (⟨1,0,0,0,0,0⟩ : Sym6).mat + (cell 1 * cell 1) • (⟨0,1,0,0,0,0⟩ : Sym6).mat
        + (cell 2 * cell 2) • (⟨0,0,1,0,0,0⟩ : Sym6).mat
        + (cell 0 * cell 2 * Real.cos (Spec.rad (cell 4))) • (⟨0,0,0,0,1,0⟩ : Sym6).mat := by
      ext i j; fin_cases i <;> fin_cases j <;> simp [Spec.metric, Sym6.mat, h3, h5, cos_rad_90]
    rw [e]
    exact ((((P _ (by simp [metricBasis])).smul _).add ((P _ (by simp [metricBasis])).smul _)).add ((P _ (by simp [metricBasis])).smul _)).add ((P _ (by simp [metricBasis])).smul _)
  by_cases h3 : cs = "orthorhombic"
  · subst h3
    simp only [Conforms, h1, h2, if_false] at hc
    simp only [if_true] at hc
    obtain ⟨c3, c4, c5⟩ := hc
    have e : Spec.metric cell = (cell 0 * cell 0) • (⟨1,0,0,0,0,0⟩ : Sym6).mat + (cell 1 * cell 1) • (⟨0,1,0,0,0,0⟩ : Sym6).mat
        + (cell 2 * cell 2) • (⟨0,0,1,0,0,0⟩ : Sym6).mat := by
      ext i j; fin_cases i <;> fin_cases j <;> simp [Spec.metric, Sym6.mat, c3, c4, c5, cos_rad_90]
    rw [e]
    exact (((P _ (by simp [metricBasis])).smul _).add ((P _ (by simp [metricBasis])).smul _)).add ((P _ (by simp [metricBasis])).smul _)
  by_cases h4 : cs = "tetragonal"
  · subst h4
    simp only [Conforms, h1, h2, h3, if_false] at hc
    simp only [if_true] at hc
    obtain ⟨c0, c3, c4, c5⟩ := hc
    have e : Spec.metric cell = (cell 1 * cell 1) • (⟨1,1,0,0,0,0⟩ : Sym6).mat
        + (cell 2 * cell 2) • (⟨0,0,1,0,0,0⟩ : Sym6).mat := by
      ext i j; fin_cases i <;> fin_cases j <;> simp [Spec.metric, Sym6.mat, c0, c3, c4, c5, cos_rad_90]
    rw [e]
    exact ((P _ (by simp [metricBasis])).smul _).add ((P _ (by simp [metricBasis])).smul _)
  by_cases h5 : cs = "trigonal" ∨ cs = "hexagonal"
  · have hb : metricBasis cs cc =
        if cc = "rhombohedral" then [⟨1,1,1,0,0,0⟩, ⟨0,0,0,1,1,1⟩] else [⟨2,2,0,0,0,-1⟩, ⟨0,0,1,0,0,0⟩] := by
      rcases h5 with rfl | rfl <;> simp [metricBasis]
    simp only [Conforms, h1, h2, h3, h4, h5, if_false, if_true] at hc
    by_cases h6 : cc = "rhombohedral"
    · subst h6
      simp only [if_true] at hc hb
      obtain ⟨c0, c1, c3, c4⟩ := hc
      have e : Spec.metric cell = (cell 2 * cell 2) • (⟨1,1,1,0,0,0⟩ : Sym6).mat
          + (cell 2 * cell 2 * Real.cos (Spec.rad (cell 5))) • (⟨0,0,0,1,1,1⟩ : Sym6).mat := by
        ext i j; fin_cases i <;> fin_cases j <;> simp [Spec.metric, Sym6.mat, c0, c1, c3, c4]
      rw [e]
      exact ((P _ (by simp [hb])).smul _).add ((P _ (by simp [hb])).smul _)
    · simp only [h6, if_false] at hc hb
      obtain ⟨c0, c3, c4, c5⟩ := hc
      have e : Spec.metric cell = (cell 1 * cell 1 / 2) • (⟨2,2,0,0,0,-1⟩ : Sym6).mat
          + (cell 2 * cell 2) • (⟨0,0,1,0,0,0⟩ : Sym6).mat := by
        ext i j; fin_cases i <;> fin_cases j <;>
          simp [Spec.metric, Sym6.mat, c0, c3, c4, c5, cos_rad_90, cos_rad_120] <;> ring
      rw [e]
      exact ((P _ (by simp [hb])).smul _).add ((P _ (by simp [hb])).smul _)
  by_cases h7 : cs = "cubic"
  · subst h7
    simp only [Conforms, h1, h2, h3, h4, h5, if_false] at hc
    simp only [if_true] at hc
    obtain ⟨c0, c1, c3, c4, c5⟩ := hc
    have e : Spec.metric cell = (cell 2 * cell 2) • (⟨1,1,1,0,0,0⟩ : Sym6).mat := by
      ext i j; fin_cases i <;> fin_cases j <;> simp [Spec.metric, Sym6.mat, c0, c1, c3, c4, c5, cos_rad_90]
    rw [e]
    exact (P _ (by simp [metricBasis])).smul _
  simp [Conforms, h1, h2, h3, h4, h5, h7] at hc

end Sg
