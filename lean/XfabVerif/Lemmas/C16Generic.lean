/-
C16 (generic part): analytic lemmas about `Structure.FormFactor data stl`
  = Σ_{i<4} data i * exp (-(data (4+i)) * stl²) + data 8.
All hypotheses are plain arithmetic facts about `data i`, so that a generator can instantiate the
lemmas for each row of `atomlib.formfactor` and discharge the hypotheses with `norm_num`.
-/
import XfabVerif.Gen.StructureReal

set_option linter.unusedVariables false
set_option linter.style.longLine false
set_option linter.unusedSimpArgs false

open Real

noncomputable section

namespace C16

/-! ### Evaluation -/

/-- `FormFactor` evaluates `Σ a_i exp(-b_i s²) + c` with the nine tabulated coefficients. -/
theorem ff_eval (data : Fin 9 → ℝ) (s : ℝ) :
    Structure.FormFactor data s =
      data 0 * Real.exp (-(data 4) * s ^ 2) + data 1 * Real.exp (-(data 5) * s ^ 2)
        + data 2 * Real.exp (-(data 6) * s ^ 2) + data 3 * Real.exp (-(data 7) * s ^ 2) + data 8 := by
  have h : ∀ b : ℝ, -b * s * s = -b * s ^ 2 := fun b => by ring
  simp only [Structure.FormFactor, h]

/-- value at `sin θ/λ = 0`: the sum of the `a_i` plus `c`. -/
theorem ff_zero (data : Fin 9 → ℝ) :
    Structure.FormFactor data 0 = data 0 + data 1 + data 2 + data 3 + data 8 := by
  rw [ff_eval]; simp

/-- `|f(0) − Z| ≤ tol` reduced to an arithmetic statement on the coefficients. -/
theorem ff_zero_close (data : Fin 9 → ℝ) (Z tol : ℝ)
    (h : |data 0 + data 1 + data 2 + data 3 + data 8 - Z| ≤ tol) :
    |Structure.FormFactor data 0 - Z| ≤ tol := by
  rw [ff_zero]; exact h

/-! ### One Gaussian term -/

lemma exp_term_anti {b s t : ℝ} (hb : 0 ≤ b) (hs : 0 ≤ s) (hst : s ≤ t) :
    Real.exp (-b * t ^ 2) ≤ Real.exp (-b * s ^ 2) := by
  apply Real.exp_le_exp.mpr
  have : s ^ 2 ≤ t ^ 2 := by nlinarith
  nlinarith

lemma exp_term_strictAnti {b s t : ℝ} (hb : 0 < b) (hs : 0 ≤ s) (hst : s < t) :
    Real.exp (-b * t ^ 2) < Real.exp (-b * s ^ 2) := by
  apply Real.exp_lt_exp.mpr
  have : s ^ 2 < t ^ 2 := by nlinarith
  nlinarith

lemma term_anti {a b s t : ℝ} (ha : 0 ≤ a) (hb : 0 ≤ b) (hs : 0 ≤ s) (hst : s ≤ t) :
    a * Real.exp (-b * t ^ 2) ≤ a * Real.exp (-b * s ^ 2) :=
  mul_le_mul_of_nonneg_left (exp_term_anti hb hs hst) ha

lemma term_strictAnti {a b s t : ℝ} (ha : 0 < a) (hb : 0 < b) (hs : 0 ≤ s) (hst : s < t) :
    a * Real.exp (-b * t ^ 2) < a * Real.exp (-b * s ^ 2) :=
  mul_lt_mul_of_pos_left (exp_term_strictAnti hb hs hst) ha

/-- `exp(-b S²) ≥ 0` and `exp(-b S²) ≥ 1 - S² b` packed with a Boolean selector. -/
lemma exp_lower (k : Bool) (b S : ℝ) :
    (if k then 1 - S ^ 2 * b else 0) ≤ Real.exp (-b * S ^ 2) := by
  cases k
  · simpa using (Real.exp_pos _).le
  · have := Real.add_one_le_exp (-b * S ^ 2)
    simp only [if_true]
    linarith

/-! ### Monotonicity -/

/-- pointwise form: `0 ≤ s ≤ t → f t ≤ f s` when all `a_i, b_i ≥ 0`. -/
theorem ff_le_of_le (data : Fin 9 → ℝ)
    (h0 : 0 ≤ data 0) (h1 : 0 ≤ data 1) (h2 : 0 ≤ data 2) (h3 : 0 ≤ data 3)
    (h4 : 0 ≤ data 4) (h5 : 0 ≤ data 5) (h6 : 0 ≤ data 6) (h7 : 0 ≤ data 7)
    {s t : ℝ} (hs : 0 ≤ s) (hst : s ≤ t) :
    Structure.FormFactor data t ≤ Structure.FormFactor data s := by
  rw [ff_eval, ff_eval]
  have e0 := term_anti h0 h4 hs hst
  have e1 := term_anti h1 h5 hs hst
  have e2 := term_anti h2 h6 hs hst
  have e3 := term_anti h3 h7 hs hst
  linarith

/-- the form factor is non-increasing in `sin θ/λ ≥ 0` when all `a_i, b_i ≥ 0`. -/
theorem ff_antitone (data : Fin 9 → ℝ)
    (h0 : 0 ≤ data 0) (h1 : 0 ≤ data 1) (h2 : 0 ≤ data 2) (h3 : 0 ≤ data 3)
    (h4 : 0 ≤ data 4) (h5 : 0 ≤ data 5) (h6 : 0 ≤ data 6) (h7 : 0 ≤ data 7) :
    AntitoneOn (Structure.FormFactor data) (Set.Ici 0) := by
  intro s hs t _ hst
  exact ff_le_of_le data h0 h1 h2 h3 h4 h5 h6 h7 hs hst

/-- strict version needing only ONE strictly positive pair `(a_0, b_0)`; the others `≥ 0`. -/
theorem ff_strictAnti_of_first (data : Fin 9 → ℝ)
    (h0 : 0 < data 0) (h1 : 0 ≤ data 1) (h2 : 0 ≤ data 2) (h3 : 0 ≤ data 3)
    (h4 : 0 < data 4) (h5 : 0 ≤ data 5) (h6 : 0 ≤ data 6) (h7 : 0 ≤ data 7) :
    StrictAntiOn (Structure.FormFactor data) (Set.Ici 0) := by
  intro s hs t _ hst
  have hs' : (0 : ℝ) ≤ s := hs
  show Structure.FormFactor data t < Structure.FormFactor data s
  rw [ff_eval, ff_eval]
  have e0 := term_strictAnti h0 h4 hs' hst
  have e1 := term_anti h1 h5 hs' hst.le
  have e2 := term_anti h2 h6 hs' hst.le
  have e3 := term_anti h3 h7 hs' hst.le
  linarith

/-- the form factor is strictly decreasing in `sin θ/λ ≥ 0` when all `a_i, b_i > 0`. -/
theorem ff_strictAnti (data : Fin 9 → ℝ)
    (h0 : 0 < data 0) (h1 : 0 < data 1) (h2 : 0 < data 2) (h3 : 0 < data 3)
    (h4 : 0 < data 4) (h5 : 0 < data 5) (h6 : 0 < data 6) (h7 : 0 < data 7) :
    StrictAntiOn (Structure.FormFactor data) (Set.Ici 0) :=
  ff_strictAnti_of_first data h0 h1.le h2.le h3.le h4 h5.le h6.le h7.le

/-- `f s ≤ f 0` for `s ≥ 0`. -/
theorem ff_le_at_zero (data : Fin 9 → ℝ)
    (h0 : 0 ≤ data 0) (h1 : 0 ≤ data 1) (h2 : 0 ≤ data 2) (h3 : 0 ≤ data 3)
    (h4 : 0 ≤ data 4) (h5 : 0 ≤ data 5) (h6 : 0 ≤ data 6) (h7 : 0 ≤ data 7)
    {s : ℝ} (hs : 0 ≤ s) :
    Structure.FormFactor data s ≤ data 0 + data 1 + data 2 + data 3 + data 8 := by
  rw [← ff_zero]
  exact ff_le_of_le data h0 h1 h2 h3 h4 h5 h6 h7 le_rfl hs

/-! ### Positivity -/

/-- `c ≥ 0`, `a_0 > 0`, other `a_i ≥ 0`: positive for every real `s` (no range restriction,
no condition on the `b_i`). -/
theorem ff_pos_of_nonneg_c (data : Fin 9 → ℝ)
    (h0 : 0 < data 0) (h1 : 0 ≤ data 1) (h2 : 0 ≤ data 2) (h3 : 0 ≤ data 3) (h8 : 0 ≤ data 8)
    (s : ℝ) : 0 < Structure.FormFactor data s := by
  rw [ff_eval]
  have e0 := mul_pos h0 (Real.exp_pos (-(data 4) * s ^ 2))
  have e1 := mul_nonneg h1 (Real.exp_pos (-(data 5) * s ^ 2)).le
  have e2 := mul_nonneg h2 (Real.exp_pos (-(data 6) * s ^ 2)).le
  have e3 := mul_nonneg h3 (Real.exp_pos (-(data 7) * s ^ 2)).le
  linarith

/-- Lower bound at the end point `S` of the range: with a selector `k_i` choosing for each term
either the bound `exp(-b_i S²) ≥ 1 - S² b_i` (`true`) or `exp(-b_i S²) ≥ 0` (`false`),
`f(S) ≥ Σ a_i * (if k_i then 1 - S² b_i else 0) + c`. -/
theorem ff_lower_at (data : Fin 9 → ℝ) (k0 k1 k2 k3 : Bool) (S : ℝ)
    (h0 : 0 ≤ data 0) (h1 : 0 ≤ data 1) (h2 : 0 ≤ data 2) (h3 : 0 ≤ data 3) :
    data 0 * (if k0 then 1 - S ^ 2 * data 4 else 0) + data 1 * (if k1 then 1 - S ^ 2 * data 5 else 0)
      + data 2 * (if k2 then 1 - S ^ 2 * data 6 else 0) + data 3 * (if k3 then 1 - S ^ 2 * data 7 else 0)
      + data 8 ≤ Structure.FormFactor data S := by
  rw [ff_eval]
  have e0 := mul_le_mul_of_nonneg_left (exp_lower k0 (data 4) S) h0
  have e1 := mul_le_mul_of_nonneg_left (exp_lower k1 (data 5) S) h1
  have e2 := mul_le_mul_of_nonneg_left (exp_lower k2 (data 6) S) h2
  have e3 := mul_le_mul_of_nonneg_left (exp_lower k3 (data 7) S) h3
  linarith

/-- General range `[0, S]`: all `a_i, b_i ≥ 0` and the elementary lower bound `L` at `S` positive
imply positivity on the whole range. -/
theorem ff_pos_of_bound_on (data : Fin 9 → ℝ) (k0 k1 k2 k3 : Bool) (S : ℝ)
    (h0 : 0 ≤ data 0) (h1 : 0 ≤ data 1) (h2 : 0 ≤ data 2) (h3 : 0 ≤ data 3)
    (h4 : 0 ≤ data 4) (h5 : 0 ≤ data 5) (h6 : 0 ≤ data 6) (h7 : 0 ≤ data 7)
    (hL : 0 < data 0 * (if k0 then 1 - S ^ 2 * data 4 else 0) + data 1 * (if k1 then 1 - S ^ 2 * data 5 else 0)
      + data 2 * (if k2 then 1 - S ^ 2 * data 6 else 0) + data 3 * (if k3 then 1 - S ^ 2 * data 7 else 0)
      + data 8) :
    ∀ s ∈ Set.Icc (0 : ℝ) S, 0 < Structure.FormFactor data s := by
  intro s hs
  have hlow := ff_lower_at data k0 k1 k2 k3 S h0 h1 h2 h3
  have hmono := ff_le_of_le data h0 h1 h2 h3 h4 h5 h6 h7 hs.1 hs.2
  linarith

/-- The range of the property, `0 ≤ sin θ/λ ≤ 2 Å⁻¹` (so `S² = 4`): all `a_i, b_i ≥ 0` and
`L := Σ a_i * (if k_i then 1 - 4 b_i else 0) + c > 0` imply `f > 0` on `[0, 2]`. -/
theorem ff_pos_of_bound (data : Fin 9 → ℝ) (k0 k1 k2 k3 : Bool)
    (h0 : 0 ≤ data 0) (h1 : 0 ≤ data 1) (h2 : 0 ≤ data 2) (h3 : 0 ≤ data 3)
    (h4 : 0 ≤ data 4) (h5 : 0 ≤ data 5) (h6 : 0 ≤ data 6) (h7 : 0 ≤ data 7)
    (hL : 0 < data 0 * (if k0 then 1 - 4 * data 4 else 0) + data 1 * (if k1 then 1 - 4 * data 5 else 0)
      + data 2 * (if k2 then 1 - 4 * data 6 else 0) + data 3 * (if k3 then 1 - 4 * data 7 else 0)
      + data 8) :
    ∀ s ∈ Set.Icc (0 : ℝ) 2, 0 < Structure.FormFactor data s := by
  apply ff_pos_of_bound_on data k0 k1 k2 k3 2 h0 h1 h2 h3 h4 h5 h6 h7
  have e : (2 : ℝ) ^ 2 = 4 := by norm_num
  rw [e]; exact hL

/-! ### One-shot statement for a table row given by its nine literal coefficients -/

/-- All of C16 for one row `![a0,a1,a2,a3,b0,b1,b2,b3,c]` with atomic number `Z`: the hypotheses are
closed arithmetic facts on the literals (`norm_num`), `k_i` selects the lower bound used for term `i`
(`true`: `1 - 4 b_i`, `false`: `0`). -/
theorem ff_row (a0 a1 a2 a3 b0 b1 b2 b3 c Z : ℝ) (k0 k1 k2 k3 : Bool)
    (h0 : 0 < a0) (h1 : 0 < a1) (h2 : 0 < a2) (h3 : 0 < a3)
    (h4 : 0 < b0) (h5 : 0 < b1) (h6 : 0 < b2) (h7 : 0 < b3)
    (hZ : |a0 + a1 + a2 + a3 + c - Z| ≤ 0.1)
    (hL : 0 < a0 * (if k0 then 1 - 4 * b0 else 0) + a1 * (if k1 then 1 - 4 * b1 else 0)
      + a2 * (if k2 then 1 - 4 * b2 else 0) + a3 * (if k3 then 1 - 4 * b3 else 0) + c) :
    (∀ s, Structure.FormFactor ![a0, a1, a2, a3, b0, b1, b2, b3, c] s =
        a0 * Real.exp (-b0 * s ^ 2) + a1 * Real.exp (-b1 * s ^ 2) + a2 * Real.exp (-b2 * s ^ 2)
          + a3 * Real.exp (-b3 * s ^ 2) + c) ∧
    |Structure.FormFactor ![a0, a1, a2, a3, b0, b1, b2, b3, c] 0 - Z| ≤ 0.1 ∧
    (∀ s ∈ Set.Icc (0 : ℝ) 2, 0 < Structure.FormFactor ![a0, a1, a2, a3, b0, b1, b2, b3, c] s) ∧
    StrictAntiOn (Structure.FormFactor ![a0, a1, a2, a3, b0, b1, b2, b3, c]) (Set.Ici 0) := by
  refine ⟨fun s => ?_, ?_, ?_, ?_⟩
  · rw [ff_eval]; simp only [Matrix.cons_val]
  · apply ff_zero_close; simp only [Matrix.cons_val]; exact hZ
  · apply ff_pos_of_bound _ k0 k1 k2 k3 <;> simp only [Matrix.cons_val] <;>
      first | exact hL | exact le_of_lt ‹_›
  · apply ff_strictAnti <;> simp only [Matrix.cons_val] <;> assumption

/-! ### Usability checks on two rows of `atomlib.formfactor` -/

/-- carbon row -/
def exC : Fin 9 → ℝ :=
  ![2.31, 1.02, 1.5886, 0.865, 20.84392, 10.20751, 0.5687, 51.65125, 0.2156]

/-- nitrogen row (negative `c`) -/
def exN : Fin 9 → ℝ :=
  ![12.21261, 3.1322, 2.0125, 1.1663, 0.0057, 9.89331, 28.99754, 0.5826, -11.52901]

example : |Structure.FormFactor exC 0 - 6| ≤ 0.1 := by
  apply ff_zero_close
  simp only [exC, Matrix.cons_val]; norm_num [abs_le]

example : ∀ s, 0 < Structure.FormFactor exC s := by
  apply ff_pos_of_nonneg_c <;> simp only [exC, Matrix.cons_val] <;> norm_num

example : StrictAntiOn (Structure.FormFactor exC) (Set.Ici 0) := by
  apply ff_strictAnti <;> simp only [exC, Matrix.cons_val] <;> norm_num

example : |Structure.FormFactor exN 0 - 7| ≤ 0.1 := by
  apply ff_zero_close
  simp only [exN, Matrix.cons_val]; norm_num [abs_le]

example : ∀ s ∈ Set.Icc (0 : ℝ) 2, 0 < Structure.FormFactor exN s := by
  apply ff_pos_of_bound exN true false false false <;> simp only [exN, Matrix.cons_val] <;> norm_num

example : StrictAntiOn (Structure.FormFactor exN) (Set.Ici 0) := by
  apply ff_strictAnti <;> simp only [exN, Matrix.cons_val] <;> norm_num

example :
    |Structure.FormFactor exN 0 - 7| ≤ 0.1 ∧
    (∀ s ∈ Set.Icc (0 : ℝ) 2, 0 < Structure.FormFactor exN s) ∧
    StrictAntiOn (Structure.FormFactor exN) (Set.Ici 0) :=
  (ff_row 12.21261 3.1322 2.0125 1.1663 0.0057 9.89331 28.99754 0.5826 (-11.52901) 7
    true false false false (by norm_num) (by norm_num) (by norm_num) (by norm_num) (by norm_num)
    (by norm_num) (by norm_num) (by norm_num) (by norm_num [abs_le]) (by norm_num)).2

end C16
