/-
The hypothesis `hQ` of the capstone theorems of C05 / C06 (`Proofs/C05Final.lean`) holds for EVERY conforming cell:
for every table of `sglib.py` and every reciprocal form in the linear family of its crystal system / setting
(`ConformQ.recipBasis`), `Q(h·R) = Q(h)` for all `R ∈ Rots` and all `h`.

Kernel-decided on the basis forms of the family (`ConformQ.all_tables_invariant`: six rational equalities per rotation and
basis form, all 237 tables), extended to the whole family by linearity of `Q` in the form.
-/
import XfabVerif.Lemmas.T53
import XfabVerif.Gen.Sg.All

set_option linter.unusedVariables false
set_option linter.style.longLine false
set_option linter.unusedSimpArgs false

namespace ConformQ

open Hkl

/-- the form `h ↦ Q(h·R)`: coefficients of `R G* Rᵀ` -/
def pull (G : Form) (R : Rot) : Form :=
  { g11 := T53.B G R.1 R.1, g22 := T53.B G R.2.1 R.2.1, g33 := T53.B G R.2.2 R.2.2,
    g23 := T53.B G R.2.1 R.2.2, g13 := T53.B G R.1 R.2.2, g12 := T53.B G R.1 R.2.1 }

theorem q_rmul (G : Form) (R : Rot) (h : V) : G.q (rmul h R) = (pull G R).q h := by
  simp only [Form.q, pull, T53.B, rmul]; push_cast; ring

/-- Boolean check: `R G* Rᵀ = G*` (six rational equalities) for every rotation of the list -/
def invB (G : Form) (Rs : List Rot) : Bool :=
  Rs.all fun R =>
    decide ((pull G R).g11 = G.g11) && decide ((pull G R).g22 = G.g22) && decide ((pull G R).g33 = G.g33) &&
    decide ((pull G R).g23 = G.g23) && decide ((pull G R).g13 = G.g13) && decide ((pull G R).g12 = G.g12)

/-- invariance of the form under every rotation of the list, from the coefficient check -/
theorem hQ_of_invB (G : Form) (Rs : List Rot) (h : invB G Rs = true) : ∀ R ∈ Rs, ∀ v : V, G.q (rmul v R) = G.q v := by
  intro R hR v
  simp only [invB, List.all_eq_true, Bool.and_eq_true, decide_eq_true_eq] at h
  obtain ⟨⟨⟨⟨⟨e1, e2⟩, e3⟩, e4⟩, e5⟩, e6⟩ := h R hR
  rw [q_rmul]
  simp only [Form.q, e1, e2, e3, e4, e5, e6]

/-- basis of the linear family of RECIPROCAL metric tensors `G*` conforming to the crystal system / setting
    (coefficients `g11 g22 g33 g23 g13 g12`; hexagonal axes: `γ* = 60°`, so `g12 = g11/2`) -/
def recipBasis (cs cellChoice : String) : List Form :=
  if cs == "triclinic" then
    [⟨1,0,0,0,0,0⟩, ⟨0,1,0,0,0,0⟩, ⟨0,0,1,0,0,0⟩, ⟨0,0,0,1,0,0⟩, ⟨0,0,0,0,1,0⟩, ⟨0,0,0,0,0,1⟩]
  else if cs == "monoclinic" then [⟨1,0,0,0,0,0⟩, ⟨0,1,0,0,0,0⟩, ⟨0,0,1,0,0,0⟩, ⟨0,0,0,0,1,0⟩]
  else if cs == "orthorhombic" then [⟨1,0,0,0,0,0⟩, ⟨0,1,0,0,0,0⟩, ⟨0,0,1,0,0,0⟩]
  else if cs == "tetragonal" then [⟨1,1,0,0,0,0⟩, ⟨0,0,1,0,0,0⟩]
  else if cs == "trigonal" || cs == "hexagonal" then
    if cellChoice == "rhombohedral" then [⟨1,1,1,0,0,0⟩, ⟨0,0,0,1,1,1⟩]
    else [⟨1,1,0,0,0,1/2⟩, ⟨0,0,1,0,0,0⟩]
  else if cs == "cubic" then [⟨1,1,1,0,0,0⟩]
  else []

/-- `Σ cᵢ·Gᵢ` -/
def lincomb : List Rat → List Form → Form
  | c :: cs, g :: gs => T53.comb c 1 g (lincomb cs gs)
  | _, _ => ⟨0, 0, 0, 0, 0, 0⟩

theorem lincomb_invariant (R : Rot) : ∀ (cs : List Rat) (gs : List Form),
    (∀ g ∈ gs, ∀ v : V, g.q (rmul v R) = g.q v) → ∀ v : V, (lincomb cs gs).q (rmul v R) = (lincomb cs gs).q v
  | [], _, _, v => by simp [lincomb, Form.q]
  | _ :: _, [], _, v => by simp [lincomb, Form.q]
  | c :: cs, g :: gs, h, v => by
    simp only [lincomb, T53.q_comb]
    rw [h g List.mem_cons_self v, lincomb_invariant R cs gs (fun g' hg' => h g' (List.mem_cons_of_mem _ hg')) v]

/-- the check for one table: every basis form of its reciprocal family is invariant under all rotations of `Rots` -/
def tableInvB (kt : String × SgTable) : Bool :=
  (recipBasis kt.2.crystalSystem kt.2.cellChoice).all fun g => invB g (rots kt.2)

theorem all_split {α : Type} (l : List α) (p : α → Bool) (n : Nat) (h1 : (l.take n).all p = true)
    (h2 : (l.drop n).all p = true) : l.all p = true := by
  rw [← List.take_append_drop n l, List.all_append, h1, h2]; rfl

theorem inv_chunk0 : ((Sg.allTables.take 60).all tableInvB) = true := by decide +kernel
theorem inv_chunk1 : (((Sg.allTables.drop 60).take 60).all tableInvB) = true := by decide +kernel
theorem inv_chunk2 : ((((Sg.allTables.drop 60).drop 60).take 60).all tableInvB) = true := by decide +kernel
theorem inv_chunk3 : (((((Sg.allTables.drop 60).drop 60).drop 60).take 15).all tableInvB) = true := by decide +kernel
theorem inv_chunk4 : ((((((Sg.allTables.drop 60).drop 60).drop 60).drop 15).take 15).all tableInvB) = true := by
  decide +kernel
theorem inv_chunk5 : (((((((Sg.allTables.drop 60).drop 60).drop 60).drop 15).drop 15).take 15).all tableInvB) = true := by
  decide +kernel
theorem inv_chunk6 : ((((((((Sg.allTables.drop 60).drop 60).drop 60).drop 15).drop 15).drop 15).take 6).all tableInvB) = true := by
  decide +kernel
theorem inv_chunk7 : ((((((((Sg.allTables.drop 60).drop 60).drop 60).drop 15).drop 15).drop 15).drop 6).all tableInvB) = true := by
  decide +kernel

/-- kernel-decided (in eight chunks): every basis form of the reciprocal family of every table is invariant under all
    rotations of `Rots` -/
theorem all_tables_invariant : (Sg.allTables.all tableInvB) = true :=
  all_split _ _ 60 inv_chunk0 (all_split _ _ 60 inv_chunk1 (all_split _ _ 60 inv_chunk2
    (all_split _ _ 15 inv_chunk3 (all_split _ _ 15 inv_chunk4 (all_split _ _ 15 inv_chunk5
      (all_split _ _ 6 inv_chunk6 inv_chunk7))))))

/-- **`hQ` for every conforming cell**: for every table of `sglib.py` and every reciprocal form of the family of its crystal
    system / setting (any coefficients), `Q(h·R) = Q(h)` for every `R ∈ Rots` and every `h` -/
theorem hQ_conforming (kt : String × SgTable) (hkt : kt ∈ Sg.allTables) (cs : List Rat) :
    ∀ R ∈ rots kt.2, ∀ v : V,
      (lincomb cs (recipBasis kt.2.crystalSystem kt.2.cellChoice)).q (rmul v R) =
        (lincomb cs (recipBasis kt.2.crystalSystem kt.2.cellChoice)).q v := by
  intro R hR
  have h := all_tables_invariant
  simp only [List.all_eq_true, tableInvB] at h
  exact lincomb_invariant R cs _ fun g hg => hQ_of_invB g _ (h kt hkt g hg) R hR

end ConformQ
