/-
Extinction is invariant under the Laue group (helper for the capstone theorems of C05 / C06).

For a list of operations `G` that is a group modulo lattice translations (`Sg.IsGroupModLattice`, which
`Sg.checkTable_sound` establishes for every table of `sglib.py`):

    `Sg.Extinct G (h·b) ↔ Sg.Extinct G h`      for every `b ∈ G` (`h·b` = row vector times the rotation part of `b`),
    `Sg.Extinct G (−h)  ↔ Sg.Extinct G h`,

hence `Sg.Extinct (Sg.opsOf t) (h·R) ↔ Sg.Extinct (Sg.opsOf t) h` for every `R ∈ Hkl.rots t` (the first `nuniq` rotation
parts of the table and their negatives).

Proof: the phase `φ(a, h) = h·t_a` (in 24ths, modulo 24) is a cocycle for the action `h ↦ h·R_a`:
`φ(a∘b, h) ≡ φ(b, h·R_a) + φ(a, h)`.  If `a` fixes `h` with `φ(a, h) ≢ 0` then `c = b⁻¹∘a∘b` (in `G`, modulo the lattice)
fixes `h·R_b` with the same phase.

Conventions: `Sg.comp a b = (R_a R_b, R_a t_b + t_a)` (operations act on columns `x ↦ R x + t`), translations in 24ths
reduced modulo 24; `Hkl.rmul h R` is row vector times matrix, `Hkl.rotOf o` the rows of the rotation part of `o`.
-/
import XfabVerif.Lemmas.T51
import XfabVerif.Lemmas.SgSound

set_option linter.unusedVariables false
set_option linter.style.longLine false
set_option linter.unusedSimpArgs false

namespace ExtInv

open Hkl

/-- `h·R_a` -/
def act (h : V) (a : Sg.Op) : V :=
  (h.1 * a.r11 + h.2.1 * a.r21 + h.2.2 * a.r31, h.1 * a.r12 + h.2.1 * a.r22 + h.2.2 * a.r32,
    h.1 * a.r13 + h.2.1 * a.r23 + h.2.2 * a.r33)

/-- the phase `h·t_a` in 24ths -/
def ph (h : V) (a : Sg.Op) : Int := h.1 * a.t1 + h.2.1 * a.t2 + h.2.2 * a.t3

theorem extinctBy_iff (a : Sg.Op) (h : V) : Sg.ExtinctBy a h.1 h.2.1 h.2.2 ↔ act h a = h ∧ ph h a % 24 ≠ 0 := by
  obtain ⟨h1, h2, h3⟩ := h
  simp only [Sg.ExtinctBy, act, ph, Prod.mk.injEq, and_assoc]

theorem act_comp (h : V) (a b : Sg.Op) : act h (Sg.comp a b) = act (act h a) b := by
  simp only [act, Sg.comp, Prod.mk.injEq]
  refine ⟨?_, ?_, ?_⟩ <;> ring

theorem act_one (h : V) : act h Sg.one = h := by
  obtain ⟨h1, h2, h3⟩ := h
  simp [act, Sg.one]

theorem ph_one (h : V) : ph h Sg.one = 0 := by
  simp [ph, Sg.one]

private theorem emod_congr {x y : Int} (k : Int) (h : x = y + 24 * k) : x % 24 = y % 24 := by
  subst h; exact Int.add_mul_emod_self_left y 24 k

/-- the cocycle identity modulo 24 -/
theorem ph_comp (h : V) (a b : Sg.Op) : ph h (Sg.comp a b) % 24 = (ph (act h a) b + ph h a) % 24 := by
  obtain ⟨h1, h2, h3⟩ := h
  simp only [ph, act, Sg.comp]
  obtain ⟨q1, e1⟩ : ∃ q, (a.r11 * b.t1 + a.r12 * b.t2 + a.r13 * b.t3 + a.t1) % 24 =
      (a.r11 * b.t1 + a.r12 * b.t2 + a.r13 * b.t3 + a.t1) - 24 * q := ⟨_, Int.emod_def _ _⟩
  obtain ⟨q2, e2⟩ : ∃ q, (a.r21 * b.t1 + a.r22 * b.t2 + a.r23 * b.t3 + a.t2) % 24 =
      (a.r21 * b.t1 + a.r22 * b.t2 + a.r23 * b.t3 + a.t2) - 24 * q := ⟨_, Int.emod_def _ _⟩
  obtain ⟨q3, e3⟩ : ∃ q, (a.r31 * b.t1 + a.r32 * b.t2 + a.r33 * b.t3 + a.t3) % 24 =
      (a.r31 * b.t1 + a.r32 * b.t2 + a.r33 * b.t3 + a.t3) - 24 * q := ⟨_, Int.emod_def _ _⟩
  rw [e1, e2, e3]
  apply emod_congr (-(h1 * q1 + h2 * q2 + h3 * q3))
  ring

/-- conjugation: if `a` extinguishes `h` then `b⁻¹∘a∘b` extinguishes `h·R_b` -/
theorem extinctBy_conj {a b bi : Sg.Op} (h : V) (hbbi : Sg.comp b bi = Sg.one)
    (e : Sg.ExtinctBy a h.1 h.2.1 h.2.2) :
    Sg.ExtinctBy (Sg.comp bi (Sg.comp a b)) (act h b).1 (act h b).2.1 (act h b).2.2 := by
  rw [extinctBy_iff] at e ⊢
  obtain ⟨efix, eph⟩ := e
  have hact : act (act h b) bi = h := by rw [← act_comp, hbbi, act_one]
  have hph : (ph (act h b) bi + ph h b) % 24 = 0 := by
    rw [← ph_comp, hbbi, ph_one]; rfl
  refine ⟨by rw [act_comp, act_comp, hact, efix], ?_⟩
  have c1 := ph_comp (act h b) bi (Sg.comp a b)
  have c2 := ph_comp h a b
  rw [hact] at c1
  rw [efix] at c2
  generalize ph (act h b) (Sg.comp bi (Sg.comp a b)) = X at c1 ⊢
  generalize ph h (Sg.comp a b) = Y at c1 c2
  generalize ph (act h b) bi = Z at c1 hph
  generalize ph h b = W at c2 hph
  generalize ph h a = P at c2 eph
  omega

/-- extinction is invariant under the action of a group element (one direction) -/
theorem extinct_act {G : List Sg.Op} (hG : Sg.IsGroupModLattice G) {b : Sg.Op} (hb : b ∈ G) (h : V)
    (e : Sg.Extinct G h.1 h.2.1 h.2.2) : Sg.Extinct G (act h b).1 (act h b).2.1 (act h b).2.2 := by
  obtain ⟨a, ha, ea⟩ := e
  obtain ⟨bi, hbi, hbbi⟩ := hG.inv b hb
  exact ⟨_, hG.closed _ hbi _ (hG.closed _ ha _ hb), extinctBy_conj h hbbi ea⟩

/-- extinction is invariant under the action of a group element -/
theorem extinct_act_iff {G : List Sg.Op} (hG : Sg.IsGroupModLattice G) {b : Sg.Op} (hb : b ∈ G) (h : V) :
    Sg.Extinct G (act h b).1 (act h b).2.1 (act h b).2.2 ↔ Sg.Extinct G h.1 h.2.1 h.2.2 := by
  refine ⟨fun e => ?_, extinct_act hG hb h⟩
  obtain ⟨bi, hbi, hbbi⟩ := hG.inv b hb
  have := extinct_act hG hbi (act h b) e
  have hact : act (act h b) bi = h := by rw [← act_comp, hbbi, act_one]
  rwa [hact] at this

/-- extinction is invariant under inversion `h ↦ −h` (Friedel), for any list of operations -/
theorem extinct_neg_iff (G : List Sg.Op) (h : V) :
    Sg.Extinct G (vneg h).1 (vneg h).2.1 (vneg h).2.2 ↔ Sg.Extinct G h.1 h.2.1 h.2.2 := by
  obtain ⟨h1, h2, h3⟩ := h
  simp only [Sg.Extinct, Sg.ExtinctBy, vneg]
  constructor
  · rintro ⟨a, ha, e1, e2, e3, e4⟩
    refine ⟨a, ha, ?_, ?_, ?_, ?_⟩
    · have : -(h1 * a.r11 + h2 * a.r21 + h3 * a.r31) = -h1 * a.r11 + -h2 * a.r21 + -h3 * a.r31 := by ring
      omega
    · have : -(h1 * a.r12 + h2 * a.r22 + h3 * a.r32) = -h1 * a.r12 + -h2 * a.r22 + -h3 * a.r32 := by ring
      omega
    · have : -(h1 * a.r13 + h2 * a.r23 + h3 * a.r33) = -h1 * a.r13 + -h2 * a.r23 + -h3 * a.r33 := by ring
      omega
    · have : -(h1 * a.t1 + h2 * a.t2 + h3 * a.t3) = -h1 * a.t1 + -h2 * a.t2 + -h3 * a.t3 := by ring
      omega
  · rintro ⟨a, ha, e1, e2, e3, e4⟩
    refine ⟨a, ha, ?_, ?_, ?_, ?_⟩
    · have : -(h1 * a.r11 + h2 * a.r21 + h3 * a.r31) = -h1 * a.r11 + -h2 * a.r21 + -h3 * a.r31 := by ring
      omega
    · have : -(h1 * a.r12 + h2 * a.r22 + h3 * a.r32) = -h1 * a.r12 + -h2 * a.r22 + -h3 * a.r32 := by ring
      omega
    · have : -(h1 * a.r13 + h2 * a.r23 + h3 * a.r33) = -h1 * a.r13 + -h2 * a.r23 + -h3 * a.r33 := by ring
      omega
    · have : -(h1 * a.t1 + h2 * a.t2 + h3 * a.t3) = -h1 * a.t1 + -h2 * a.t2 + -h3 * a.t3 := by ring
      omega

/-! ### the rotations of `Hkl.rots` -/

theorem rmul_rotOf (h : V) (o : SgOp) : rmul h (rotOf o) = act h (Sg.ofSg o) := by
  simp only [rmul, rotOf, act, Sg.ofSg]

theorem rmul_rotNeg (h : V) (R : Rot) : rmul h (rotNeg R) = vneg (rmul h R) := by
  simp only [rmul, rotNeg, vneg, Prod.mk.injEq]
  refine ⟨?_, ?_, ?_⟩ <;> ring

theorem ofSg_mem_of_take {t : SgTable} {o : SgOp} (ho : o ∈ t.ops.take t.nuniq) : Sg.ofSg o ∈ Sg.opsOf t :=
  List.mem_map_of_mem (List.mem_of_mem_take ho)

/-- **extinction is invariant under the Laue group**: for a table whose operations form a group modulo the lattice
    (`Sg.TableFacts.group`, every table of `sglib.py`), every `R ∈ Rots` (`P ∪ −P`) and every `h`:
    `h·R` is extinguished by an operation of the table iff `h` is -/
theorem extinct_rots_iff (t : SgTable) (hG : Sg.IsGroupModLattice (Sg.opsOf t)) (R : Rot) (hR : R ∈ rots t) (h : V) :
    Sg.Extinct (Sg.opsOf t) (rmul h R).1 (rmul h R).2.1 (rmul h R).2.2 ↔ Sg.Extinct (Sg.opsOf t) h.1 h.2.1 h.2.2 := by
  obtain ⟨o, ho, rfl | rfl⟩ := (mem_rots t R).1 hR
  · rw [rmul_rotOf]
    exact extinct_act_iff hG (ofSg_mem_of_take ho) h
  · rw [rmul_rotNeg, extinct_neg_iff, rmul_rotOf]
    exact extinct_act_iff hG (ofSg_mem_of_take ho) h

/-- the same from `Sg.TableFacts` (what `Sg.checkTable_sound` gives) -/
theorem extinct_rots_iff_of_facts (t : SgTable) (hf : Sg.TableFacts t) (R : Rot) (hR : R ∈ rots t) (h : V) :
    Sg.Extinct (Sg.opsOf t) (rmul h R).1 (rmul h R).2.1 (rmul h R).2.2 ↔ Sg.Extinct (Sg.opsOf t) h.1 h.2.1 h.2.2 :=
  extinct_rots_iff t hf.group R hR h

end ExtInv
