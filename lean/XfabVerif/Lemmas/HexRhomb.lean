/-
Generic part of the hexagonal ↔ rhombohedral correspondence of property C05 ("for R-centred groups the hexagonal and
rhombohedral settings give the same reflections under the standard obverse axis transformation").

Obverse setting:  a_h = a_r − b_r,  b_h = b_r − c_r,  c_h = a_r + b_r + c_r.   With the matrix

        ⎡  1  0  1 ⎤
    M = ⎢ −1  1  1 ⎥        (columns = hexagonal basis vectors in rhombohedral coordinates; det M = 3)
        ⎣  0 −1  1 ⎦

* Miller indices are row vectors and transform like the basis:  `h_hex = h_rh · M = (h − k, k − l, h + k + l)`   (`HexRhomb.toHex`);
* coordinates are column vectors:  `x_rh = M · x_hex`;
* an operation `x ↦ R x + t` therefore transforms by  `M · R_h = R_r · M`  and  `M · t_h ≡ t_r (mod ℤ³)`.
  `M` maps the R-centred hexagonal lattice `ℤ³ + {0, (2/3,1/3,1/3), (1/3,2/3,2/3)}` ONTO the primitive rhombohedral lattice `ℤ³`,
  so "`M t_h − t_r ∈ ℤ³`" is the same as "`t_h − M⁻¹ t_r` is a vector of the hexagonal lattice including its centring vectors"
  (`HexRhomb.transConj_iff`).

Contents: the Boolean checker `HexRhomb.pairCheck` (conjugacy of two operation lists both ways + presence of the obverse
centring translation), its soundness (`extinctBy_conj`, `extinct_iff_of_check`, `extinct_of_not_obverse`), the index
lemmas (`toHex_obverse`, `exists_rh_of_obverse`, `toHex_injective`, `toHex_eq_rmul`), and the metric part (`Form.toHex`,
`metric_hex_rh`).
-/
import XfabVerif.Lemmas.T51
import Mathlib.Tactic.Ring
import Mathlib.Tactic.LinearCombination

set_option linter.unusedVariables false
set_option linter.style.longLine false
set_option linter.unusedSimpArgs false

namespace HexRhomb

open Hkl

/-! ### the index transformation -/

/-- the obverse matrix `M` as a `Hkl.Rot` (three rows) -/
def M : Rot := ((1, 0, 1), (-1, 1, 1), (0, -1, 1))

/-- `3·M⁻¹` (the adjugate of `M`), three rows -/
def Madj : Rot := ((2, -1, -1), (1, 1, -2), (1, 1, 1))

/-- `h_hex = h_rh · M` written out -/
def toHex (v : V) : V := (v.1 - v.2.1, v.2.1 - v.2.2, v.1 + v.2.1 + v.2.2)

/-- `toHex` is "row vector times `M`" in the sense of the reflection-generator model (`n.dot(hkl, M)`) -/
theorem toHex_eq_rmul (v : V) : toHex v = rmul v M := by
  obtain ⟨h, k, l⟩ := v
  simp only [toHex, rmul, M]
  refine Prod.ext ?_ (Prod.ext ?_ ?_) <;> simp <;> ring

/-- `M · (3 M⁻¹) = 3`: `(v·M)·Madj = 3·v` -/
theorem rmul_M_Madj (v : V) : rmul (rmul v M) Madj = vsmul 3 v := by
  obtain ⟨h, k, l⟩ := v
  simp only [rmul, M, Madj, vsmul]
  refine Prod.ext ?_ (Prod.ext ?_ ?_) <;> simp <;> ring

/-- `(3 M⁻¹) · M = 3` -/
theorem rmul_Madj_M (v : V) : rmul (rmul v Madj) M = vsmul 3 v := by
  obtain ⟨h, k, l⟩ := v
  simp only [rmul, M, Madj, vsmul]
  refine Prod.ext ?_ (Prod.ext ?_ ?_) <;> simp <;> ring

/-- the obverse reflection condition `−h + k + l ≡ 0 (mod 3)` on a hexagonal index triple -/
def Obverse (v : V) : Prop := (-v.1 + v.2.1 + v.2.2) % 3 = 0

/-- the image of a rhombohedral triple always satisfies the obverse condition (`−h' + k' + l' = 3k`) -/
theorem toHex_obverse (v : V) : Obverse (toHex v) := by
  obtain ⟨h, k, l⟩ := v
  simp only [Obverse, toHex]
  omega

/-- every hexagonal triple satisfying the obverse condition is the image of a rhombohedral triple -/
theorem exists_rh_of_obverse (w : V) (hw : Obverse w) : ∃ v : V, toHex v = w := by
  obtain ⟨h, k, l⟩ := w
  simp only [Obverse] at hw
  refine ⟨((2 * h + k + l) / 3, (-h + k + l) / 3, (-h - 2 * k + l) / 3), ?_⟩
  simp only [toHex]
  refine Prod.ext ?_ (Prod.ext ?_ ?_) <;> simp <;> omega

/-- the obverse condition characterises the image of `toHex` -/
theorem obverse_iff (w : V) : Obverse w ↔ ∃ v : V, toHex v = w :=
  ⟨exists_rh_of_obverse w, fun ⟨v, e⟩ => e ▸ toHex_obverse v⟩

theorem toHex_injective (v w : V) (e : toHex v = toHex w) : v = w := by
  obtain ⟨h, k, l⟩ := v
  obtain ⟨h', k', l'⟩ := w
  simp only [toHex, Prod.mk.injEq] at e
  obtain ⟨e1, e2, e3⟩ := e
  refine Prod.ext ?_ (Prod.ext ?_ ?_) <;> simp <;> omega

theorem toHex_eq_zero_iff (v : V) : toHex v = (0, 0, 0) ↔ v = (0, 0, 0) := by
  constructor
  · intro e
    exact toHex_injective v (0, 0, 0) (by rw [e]; simp [toHex])
  · rintro rfl; simp [toHex]

/-! ### the Boolean certificate checker -/

/-- `M · R_b = R_a · M` (nine entries) and `M · t_b ≡ t_a (mod 24)` (three entries, translations in 24ths):
    `b` (hexagonal axes) is `a` (rhombohedral axes) conjugated by the obverse transformation, modulo lattice translations. -/
def conjOp (a b : Sg.Op) : Bool :=
  -- row 1 of M = (1, 0, 1)
  (b.r11 + b.r31 == a.r11 - a.r12) && (b.r12 + b.r32 == a.r12 - a.r13) && (b.r13 + b.r33 == a.r11 + a.r12 + a.r13) &&
  -- row 2 of M = (−1, 1, 1)
  (-b.r11 + b.r21 + b.r31 == a.r21 - a.r22) && (-b.r12 + b.r22 + b.r32 == a.r22 - a.r23) &&
  (-b.r13 + b.r23 + b.r33 == a.r21 + a.r22 + a.r23) &&
  -- row 3 of M = (0, −1, 1)
  (-b.r21 + b.r31 == a.r31 - a.r32) && (-b.r22 + b.r32 == a.r32 - a.r33) && (-b.r23 + b.r33 == a.r31 + a.r32 + a.r33) &&
  -- translations
  ((b.t1 + b.t3 - a.t1) % 24 == 0) && ((-b.t1 + b.t2 + b.t3 - a.t2) % 24 == 0) && ((-b.t2 + b.t3 - a.t3) % 24 == 0)

/-- the pure centring translation `(2/3, 1/3, 1/3)` of the obverse hexagonal cell (identity rotation, `t = (16, 8, 8)/24`) -/
def isObvCentring (b : Sg.Op) : Bool :=
  Sg.rotEq b Sg.one && b.t1 == 16 && b.t2 == 8 && b.t3 == 8

/-- every operation of `Gr` has a conjugate in `Gh` -/
def conjInto (Gr Gh : List Sg.Op) : Bool := Gr.all fun a => Gh.any fun b => conjOp a b

/-- every operation of `Gh` is the conjugate of one in `Gr` -/
def conjOnto (Gr Gh : List Sg.Op) : Bool := Gh.all fun b => Gr.any fun a => conjOp a b

/-- the complete certificate for one pair (rhombohedral table, hexagonal table) -/
def pairCheck (tr th : SgTable) : Bool :=
  conjInto (Sg.opsOf tr) (Sg.opsOf th) && conjOnto (Sg.opsOf tr) (Sg.opsOf th) && (Sg.opsOf th).any isObvCentring

/-! ### Prop form of the certificate -/

/-- `M · R_b = R_a · M`, entry by entry -/
def RotConj (a b : Sg.Op) : Prop :=
  (b.r11 + b.r31 = a.r11 - a.r12 ∧ b.r12 + b.r32 = a.r12 - a.r13 ∧ b.r13 + b.r33 = a.r11 + a.r12 + a.r13) ∧
  (-b.r11 + b.r21 + b.r31 = a.r21 - a.r22 ∧ -b.r12 + b.r22 + b.r32 = a.r22 - a.r23 ∧
    -b.r13 + b.r23 + b.r33 = a.r21 + a.r22 + a.r23) ∧
  (-b.r21 + b.r31 = a.r31 - a.r32 ∧ -b.r22 + b.r32 = a.r32 - a.r33 ∧ -b.r23 + b.r33 = a.r31 + a.r32 + a.r33)

/-- `M · t_b − t_a ∈ 24·ℤ³` (translations in 24ths) -/
def TransConj (a b : Sg.Op) : Prop :=
  (b.t1 + b.t3 - a.t1) % 24 = 0 ∧ (-b.t1 + b.t2 + b.t3 - a.t2) % 24 = 0 ∧ (-b.t2 + b.t3 - a.t3) % 24 = 0

/-- `b` is `a` conjugated by the obverse transformation, modulo lattice translations -/
def Conj (a b : Sg.Op) : Prop := RotConj a b ∧ TransConj a b

theorem conj_of_conjOp {a b : Sg.Op} (e : conjOp a b = true) : Conj a b := by
  simp only [conjOp, Bool.and_eq_true, beq_iff_eq] at e
  obtain ⟨⟨⟨⟨⟨⟨⟨⟨⟨⟨⟨e1, e2⟩, e3⟩, e4⟩, e5⟩, e6⟩, e7⟩, e8⟩, e9⟩, f1⟩, f2⟩, f3⟩ := e
  exact ⟨⟨⟨e1, e2, e3⟩, ⟨e4, e5, e6⟩, ⟨e7, e8, e9⟩⟩, ⟨f1, f2, f3⟩⟩

theorem conjOp_of_conj {a b : Sg.Op} (e : Conj a b) : conjOp a b = true := by
  obtain ⟨⟨⟨e1, e2, e3⟩, ⟨e4, e5, e6⟩, ⟨e7, e8, e9⟩⟩, ⟨f1, f2, f3⟩⟩ := e
  simp only [conjOp, Bool.and_eq_true, beq_iff_eq]
  exact ⟨⟨⟨⟨⟨⟨⟨⟨⟨⟨⟨e1, e2⟩, e3⟩, e4⟩, e5⟩, e6⟩, e7⟩, e8⟩, e9⟩, f1⟩, f2⟩, f3⟩

/-- the translation clause in the form asked for: `t_b = M⁻¹ t_a + n + c·(2/3, 1/3, 1/3)` with an integer vector `n` and an
    integer `c` (so `c mod 3 ∈ {0,1,2}` picks `0`, `(2/3,1/3,1/3)` or `(1/3,2/3,2/3)`), everything multiplied by `3·24`
    to stay in ℤ:  `3 t_b = (3M⁻¹) t_a + 72 n + c·(48, 24, 24)`. -/
theorem transConj_iff (a b : Sg.Op) :
    TransConj a b ↔ ∃ n1 n2 n3 c : Int,
      3 * b.t1 = (2 * a.t1 - a.t2 - a.t3) + 72 * n1 + c * 48 ∧
      3 * b.t2 = (a.t1 + a.t2 - 2 * a.t3) + 72 * n2 + c * 24 ∧
      3 * b.t3 = (a.t1 + a.t2 + a.t3) + 72 * n3 + c * 24 := by
  unfold TransConj
  constructor
  · rintro ⟨f1, f2, f3⟩
    -- M t_b = t_a + 24 m
    obtain ⟨m1, hm1⟩ := Int.dvd_of_emod_eq_zero f1
    obtain ⟨m2, hm2⟩ := Int.dvd_of_emod_eq_zero f2
    obtain ⟨m3, hm3⟩ := Int.dvd_of_emod_eq_zero f3
    -- adj(M) m = 3 n + c (2,1,1) with c = m1 + m2 + m3
    refine ⟨-m2 - m3, -m3, 0, m1 + m2 + m3, ?_, ?_, ?_⟩ <;> omega
  · rintro ⟨n1, n2, n3, c, g1, g2, g3⟩
    refine ⟨?_, ?_, ?_⟩ <;> omega

/-! ### soundness: conjugate operations extinguish corresponding index triples -/

/-- If `b` is the obverse conjugate of `a`, then `a` extinguishes `hkl` (rhombohedral indices) iff `b` extinguishes
    `hkl · M` (hexagonal indices): `(hM) R_b = h R_a M`, `M` is invertible over ℚ, and `(hM)·t_b ≡ h·t_a (mod 1)`. -/
theorem extinctBy_conj {a b : Sg.Op} (c : Conj a b) (h k l : Int) :
    Sg.ExtinctBy a h k l ↔ Sg.ExtinctBy b (h - k) (k - l) (h + k + l) := by
  obtain ⟨⟨⟨e1, e2, e3⟩, ⟨e4, e5, e6⟩, ⟨e7, e8, e9⟩⟩, ⟨f1, f2, f3⟩⟩ := c
  obtain ⟨m1, hm1⟩ := Int.dvd_of_emod_eq_zero f1
  obtain ⟨m2, hm2⟩ := Int.dvd_of_emod_eq_zero f2
  obtain ⟨m3, hm3⟩ := Int.dvd_of_emod_eq_zero f3
  -- the phase: (hM)·t_b = h·t_a + 24 (h·m)
  have ph : (h - k) * b.t1 + (k - l) * b.t2 + (h + k + l) * b.t3
      = (h * a.t1 + k * a.t2 + l * a.t3) + 24 * (h * m1 + k * m2 + l * m3) := by
    linear_combination h * hm1 + k * hm2 + l * hm3
  -- (hM) R_b = (h R_a) M, column by column
  have c1 : (h - k) * b.r11 + (k - l) * b.r21 + (h + k + l) * b.r31
      = (h * a.r11 + k * a.r21 + l * a.r31) - (h * a.r12 + k * a.r22 + l * a.r32) := by
    linear_combination h * e1 + k * e4 + l * e7
  have c2 : (h - k) * b.r12 + (k - l) * b.r22 + (h + k + l) * b.r32
      = (h * a.r12 + k * a.r22 + l * a.r32) - (h * a.r13 + k * a.r23 + l * a.r33) := by
    linear_combination h * e2 + k * e5 + l * e8
  have c3 : (h - k) * b.r13 + (k - l) * b.r23 + (h + k + l) * b.r33
      = (h * a.r11 + k * a.r21 + l * a.r31) + (h * a.r12 + k * a.r22 + l * a.r32) + (h * a.r13 + k * a.r23 + l * a.r33) := by
    linear_combination h * e3 + k * e6 + l * e9
  unfold Sg.ExtinctBy
  rw [ph, c1, c2, c3, Int.add_mul_emod_self_left]
  generalize h * a.r11 + k * a.r21 + l * a.r31 = x
  generalize h * a.r12 + k * a.r22 + l * a.r32 = y
  generalize h * a.r13 + k * a.r23 + l * a.r33 = z
  generalize (h * a.t1 + k * a.t2 + l * a.t3) % 24 = p
  constructor
  · rintro ⟨rfl, rfl, rfl, hp⟩
    exact ⟨rfl, rfl, rfl, hp⟩
  · rintro ⟨g1, g2, g3, hp⟩
    refine ⟨?_, ?_, ?_, hp⟩ <;> omega

theorem exists_of_any {α : Type} {L : List α} {p : α → Bool} (e : L.any p = true) : ∃ x ∈ L, p x = true := by
  simpa using e

/-- soundness of the conjugacy certificate: the extinction sets correspond under `hkl ↦ hkl · M` -/
theorem extinct_iff_of_conj {Gr Gh : List Sg.Op} (c1 : conjInto Gr Gh = true) (c2 : conjOnto Gr Gh = true) (h k l : Int) :
    Sg.Extinct Gr h k l ↔ Sg.Extinct Gh (h - k) (k - l) (h + k + l) := by
  constructor
  · rintro ⟨a, ha, ea⟩
    have := List.all_eq_true.1 c1 a ha
    obtain ⟨b, hb, cb⟩ := exists_of_any this
    exact ⟨b, hb, (extinctBy_conj (conj_of_conjOp cb) h k l).1 ea⟩
  · rintro ⟨b, hb, eb⟩
    have := List.all_eq_true.1 c2 b hb
    obtain ⟨a, ha, ca⟩ := exists_of_any this
    exact ⟨a, ha, (extinctBy_conj (conj_of_conjOp ca) h k l).2 eb⟩

/-- Prop reading of the two conjugacy clauses of the certificate -/
theorem conj_of_check {tr th : SgTable} (c : pairCheck tr th = true) :
    (∀ a ∈ Sg.opsOf tr, ∃ b ∈ Sg.opsOf th, Conj a b) ∧ (∀ b ∈ Sg.opsOf th, ∃ a ∈ Sg.opsOf tr, Conj a b) := by
  simp only [pairCheck, Bool.and_eq_true] at c
  obtain ⟨⟨c1, c2⟩, _⟩ := c
  constructor
  · intro a ha
    obtain ⟨b, hb, cb⟩ := exists_of_any (List.all_eq_true.1 c1 a ha)
    exact ⟨b, hb, conj_of_conjOp cb⟩
  · intro b hb
    obtain ⟨a, ha, ca⟩ := exists_of_any (List.all_eq_true.1 c2 b hb)
    exact ⟨a, ha, conj_of_conjOp ca⟩

theorem extinct_iff_of_check {tr th : SgTable} (c : pairCheck tr th = true) (h k l : Int) :
    Sg.Extinct (Sg.opsOf tr) h k l ↔ Sg.Extinct (Sg.opsOf th) (h - k) (k - l) (h + k + l) := by
  simp only [pairCheck, Bool.and_eq_true] at c
  exact extinct_iff_of_conj c.1.1 c.1.2 h k l

/-- the centring translation `(2/3,1/3,1/3)` extinguishes exactly the triples violating the obverse condition -/
theorem extinctBy_centring {b : Sg.Op} (e : isObvCentring b = true) (h k l : Int) :
    Sg.ExtinctBy b h k l ↔ (-h + k + l) % 3 ≠ 0 := by
  simp only [isObvCentring, Sg.rotEq, Sg.one, Bool.and_eq_true, beq_iff_eq] at e
  obtain ⟨⟨⟨⟨⟨⟨⟨⟨⟨⟨⟨r1, r2⟩, r3⟩, r4⟩, r5⟩, r6⟩, r7⟩, r8⟩, r9⟩, t1⟩, t2⟩, t3⟩ := e
  unfold Sg.ExtinctBy
  rw [r1, r2, r3, r4, r5, r6, r7, r8, r9, t1, t2, t3]
  constructor
  · rintro ⟨_, _, _, hp⟩; omega
  · intro hp; refine ⟨?_, ?_, ?_, ?_⟩ <;> omega

/-- a hexagonal table containing the obverse centring translation extinguishes every non-obverse triple -/
theorem extinct_of_not_obverse {tr th : SgTable} (c : pairCheck tr th = true) (h k l : Int) (hn : (-h + k + l) % 3 ≠ 0) :
    Sg.Extinct (Sg.opsOf th) h k l := by
  simp only [pairCheck, Bool.and_eq_true] at c
  obtain ⟨b, hb, cb⟩ := exists_of_any c.2
  exact ⟨b, hb, (extinctBy_centring cb h k l).2 hn⟩

/-! ### the metric -/

/-- reciprocal metric of the hexagonal cell from that of the rhombohedral cell:  `G*_h = M⁻¹ · G*_r · M⁻ᵀ`
    with `M⁻¹ = ⅓ [[2,−1,−1],[1,1,−2],[1,1,1]]`   (direct bases `A_h = A_r M`, so `G_h = Mᵀ G_r M`). -/
def formToHex (G : Form) : Form :=
  { g11 := (4 * G.g11 + G.g22 + G.g33 + 2 * G.g23 - 4 * G.g13 - 4 * G.g12) / 9
    g22 := (G.g11 + G.g22 + 4 * G.g33 - 4 * G.g23 - 4 * G.g13 + 2 * G.g12) / 9
    g33 := (G.g11 + G.g22 + G.g33 + 2 * G.g23 + 2 * G.g13 + 2 * G.g12) / 9
    g23 := (G.g11 + G.g22 - 2 * G.g33 - G.g23 - G.g13 + 2 * G.g12) / 9
    g13 := (2 * G.g11 - G.g22 - G.g33 - 2 * G.g23 + G.g13 + G.g12) / 9
    g12 := (2 * G.g11 - G.g22 + 2 * G.g33 + G.g23 - 5 * G.g13 + G.g12) / 9 }

/-- `4 sin²θ/λ²` of `hkl · M` in the hexagonal cell = that of `hkl` in the rhombohedral cell -/
theorem q_toHex (G : Form) (v : V) : (formToHex G).q (toHex v) = G.q v := by
  obtain ⟨h, k, l⟩ := v
  simp only [Form.q, formToHex, toHex]
  push_cast
  ring

/-- a rhombohedral reciprocal metric (`a* = b* = c*`, `α* = β* = γ*`) becomes a hexagonal one
    (`a* = b*`, `γ* = 60°` i.e. `g12 = g11/2`, `c* ⟂ a*, b*`) -/
theorem formToHex_rhombohedral (a b : Rat) :
    formToHex ⟨a, a, a, b, b, b⟩ = ⟨2 * (a - b) / 3, 2 * (a - b) / 3, (a + 2 * b) / 3, 0, 0, (a - b) / 3⟩ := by
  simp only [formToHex, Form.mk.injEq]
  refine ⟨?_, ?_, ?_, ?_, ?_, ?_⟩ <;> ring

end HexRhomb
