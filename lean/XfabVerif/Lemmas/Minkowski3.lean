import Mathlib.Algebra.Order.Round
import Mathlib.Algebra.Order.Archimedean.Real.Basic
import Mathlib.Tactic.Ring
import Mathlib.Tactic.Linarith
import Mathlib.Tactic.FieldSimp
import Mathlib.Tactic.Positivity
import Mathlib.Tactic.LinearCombination
import Mathlib.Tactic.NormNum
import XfabVerif.Model.Reduce

namespace Minkowski3
open Reduce

/-! ### real core: Lagrange reduction of a ternary form -/

/-- the real ternary form with Gram entries `a = γ₁₁, b = γ₂₂, c = γ₃₃, f = γ₂₃, e = γ₁₃, h = γ₁₂` -/
def Qr (a b c f e h y1 y2 y3 : ℝ) : ℝ :=
  a * y1 ^ 2 + b * y2 ^ 2 + c * y3 ^ 2 + 2 * f * y2 * y3 + 2 * e * y1 * y3 + 2 * h * y1 * y2

theorem Qr_completion (a b c f e h y1 y2 y3 : ℝ) (ha : 0 < a) (hD : 0 < a * b - h ^ 2) :
    Qr a b c f e h y1 y2 y3
      + (h ^ 2 / a) * (y2 + (a * f - h * e) / (a * b - h ^ 2) * y3) ^ 2
      + (e ^ 2 / a + (a * f - h * e) ^ 2 / (a * (a * b - h ^ 2))) * y3 ^ 2
    = a * (y1 + h / a * y2 + e / a * y3) ^ 2
      + b * (y2 + (a * f - h * e) / (a * b - h ^ 2) * y3) ^ 2 + c * y3 ^ 2 := by
  have ha' : a ≠ 0 := ne_of_gt ha
  have hD' : a * b - h ^ 2 ≠ 0 := ne_of_gt hD
  unfold Qr
  field_simp
  ring

theorem Qr_le (a b c f e h y1 y2 y3 : ℝ) (ha : 0 < a) (hD : 0 < a * b - h ^ 2) :
    Qr a b c f e h y1 y2 y3
    ≤ a * (y1 + h / a * y2 + e / a * y3) ^ 2
      + b * (y2 + (a * f - h * e) / (a * b - h ^ 2) * y3) ^ 2 + c * y3 ^ 2 := by
  have key := Qr_completion a b c f e h y1 y2 y3 ha hD
  have p1 : 0 ≤ (h ^ 2 / a) * (y2 + (a * f - h * e) / (a * b - h ^ 2) * y3) ^ 2 := by positivity
  have p2 : 0 ≤ (e ^ 2 / a + (a * f - h * e) ^ 2 / (a * (a * b - h ^ 2))) * y3 ^ 2 := by
    have : 0 < a * (a * b - h ^ 2) := mul_pos ha hD
    positivity
  linarith

theorem sq_le_quarter {t : ℝ} (ht : |t| ≤ 1 / 2) : t ^ 2 ≤ 1 / 4 := by
  have := abs_le.mp ht
  nlinarith

theorem real_reduce (a b c f e h : ℝ) (ha : 0 < a) (hD : 0 < a * b - h ^ 2) (hc : 0 ≤ c)
    (x1 x2 x3 : ℝ) :
    ∃ n1 n2 n3 : ℤ,
      Qr a b c f e h (x1 - n1) (x2 - n2) (x3 - n3) ≤ (a + b + c) / 4 ∧
      (x3 - n3 = 0 → Qr a b c f e h (x1 - n1) (x2 - n2) (x3 - n3) ≤ (a + b) / 4) ∧
      (x3 - n3 = 0 → x2 - n2 = 0 → Qr a b c f e h (x1 - n1) (x2 - n2) (x3 - n3) ≤ a / 4) := by
  have hb : 0 ≤ b := by
    by_contra hb
    push Not at hb
    nlinarith [sq_nonneg h, mul_pos ha (neg_pos.mpr hb)]
  let n3 : ℤ := round x3
  let m : ℝ := (a * f - h * e) / (a * b - h ^ 2)
  let n2 : ℤ := round (x2 + m * (x3 - n3))
  let n1 : ℤ := round (x1 + h / a * (x2 - n2) + e / a * (x3 - n3))
  have b3 : (x3 - n3) ^ 2 ≤ 1 / 4 := sq_le_quarter (abs_sub_round x3)
  have b2 : ((x2 - n2) + m * (x3 - n3)) ^ 2 ≤ 1 / 4 := by
    apply sq_le_quarter
    have := abs_sub_round (x2 + m * (x3 - n3))
    have e : x2 - n2 + m * (x3 - n3) = x2 + m * (x3 - n3) - round (x2 + m * (x3 - n3)) := by
      simp only [n2]; ring
    rw [e]; exact this
  have b1 : ((x1 - n1) + h / a * (x2 - n2) + e / a * (x3 - n3)) ^ 2 ≤ 1 / 4 := by
    apply sq_le_quarter
    have := abs_sub_round (x1 + h / a * (x2 - n2) + e / a * (x3 - n3))
    have e : x1 - n1 + h / a * (x2 - n2) + e / a * (x3 - n3)
        = x1 + h / a * (x2 - n2) + e / a * (x3 - n3)
          - round (x1 + h / a * (x2 - n2) + e / a * (x3 - n3)) := by
      simp only [n1]; ring
    rw [e]; exact this
  have key := Qr_le a b c f e h (x1 - n1) (x2 - n2) (x3 - n3) ha hD
  have t1 := mul_le_mul_of_nonneg_left b1 ha.le
  have t2 := mul_le_mul_of_nonneg_left b2 hb
  have t3 := mul_le_mul_of_nonneg_left b3 hc
  refine ⟨n1, n2, n3, ?_, ?_, ?_⟩
  · linarith
  · intro h3
    rw [h3] at key t2 t1 ⊢
    simp only [mul_zero, add_zero] at key t1 t2
    have : c * (0:ℝ) ^ 2 = 0 := by ring
    linarith
  · intro h3 h2
    rw [h3, h2] at key t1 ⊢
    simp only [mul_zero, add_zero] at key t1
    have : c * (0:ℝ) ^ 2 = 0 := by ring
    have : b * (0:ℝ) ^ 2 = 0 := by ring
    linarith

/-! ### integer algebra -/

/-- `det (v1, v2, v3)` (rows) -/
def det3 (v1 v2 v3 : Vec) : ℤ := dot v1 (cross v2 v3)

/-- `n1 • v1 + n2 • v2 + n3 • v3` -/
def comb (n1 n2 n3 : ℤ) (v1 v2 v3 : Vec) : Vec :=
  ⟨n1 * v1.x + n2 * v2.x + n3 * v3.x, n1 * v1.y + n2 * v2.y + n3 * v3.y, n1 * v1.z + n2 * v2.z + n3 * v3.z⟩

def vsub (a b : Vec) : Vec := ⟨a.x - b.x, a.y - b.y, a.z - b.z⟩

def vneg (a : Vec) : Vec := ⟨-a.x, -a.y, -a.z⟩

def smul (d : ℤ) (w : Vec) : Vec := ⟨d * w.x, d * w.y, d * w.z⟩

theorem vec_ne_zero_iff (v : Vec) : v ≠ Vec.zero ↔ (v.x ≠ 0 ∨ v.y ≠ 0 ∨ v.z ≠ 0) := by
  cases v with
  | mk x y z =>
    simp only [Vec.zero, ne_eq, Vec.mk.injEq]
    constructor
    · intro h
      by_contra hh
      push Not at hh
      exact h hh
    · rintro h ⟨h1, h2, h3⟩
      rcases h with h | h | h <;> contradiction

theorem qform_neg (g : Metric) (w : Vec) : qform g (vneg w) = qform g w := by
  simp only [qform, bil, vneg]; ring

theorem qform_smul (g : Metric) (d : ℤ) (w : Vec) : qform g (smul d w) = d ^ 2 * qform g w := by
  simp only [qform, bil, smul]; ring

theorem qform_comb (g : Metric) (c1 c2 c3 : ℤ) (v1 v2 v3 : Vec) :
    qform g (comb c1 c2 c3 v1 v2 v3)
    = qform g v1 * c1 ^ 2 + qform g v2 * c2 ^ 2 + qform g v3 * c3 ^ 2
      + 2 * bil g v2 v3 * c2 * c3 + 2 * bil g v1 v3 * c1 * c3 + 2 * bil g v1 v2 * c1 * c2 := by
  simp only [qform, bil, comb]; ring

/-- Cramer's rule -/
theorem cramer (v1 v2 v3 w : Vec) :
    smul (det3 v1 v2 v3) w = comb (det3 w v2 v3) (det3 v1 w v3) (det3 v1 v2 w) v1 v2 v3 := by
  simp only [smul, comb, det3, dot, cross, Vec.mk.injEq]
  refine ⟨?_, ?_, ?_⟩ <;> ring

theorem gram_identity (g : Metric) (v1 v2 v3 w : Vec) :
    (det3 v1 v2 v3) ^ 2 * qform g w
    = qform g v1 * (det3 w v2 v3) ^ 2 + qform g v2 * (det3 v1 w v3) ^ 2 + qform g v3 * (det3 v1 v2 w) ^ 2
      + 2 * bil g v2 v3 * (det3 v1 w v3) * (det3 v1 v2 w) + 2 * bil g v1 v3 * (det3 w v2 v3) * (det3 v1 v2 w)
      + 2 * bil g v1 v2 * (det3 w v2 v3) * (det3 v1 w v3) := by
  rw [← qform_smul, cramer, qform_comb]

theorem det3_sub_1 (v1 v2 v3 w : Vec) (n1 n2 n3 : ℤ) :
    det3 (vsub w (comb n1 n2 n3 v1 v2 v3)) v2 v3 = det3 w v2 v3 - n1 * det3 v1 v2 v3 := by
  simp only [det3, dot, cross, vsub, comb]; ring

theorem det3_sub_2 (v1 v2 v3 w : Vec) (n1 n2 n3 : ℤ) :
    det3 v1 (vsub w (comb n1 n2 n3 v1 v2 v3)) v3 = det3 v1 w v3 - n2 * det3 v1 v2 v3 := by
  simp only [det3, dot, cross, vsub, comb]; ring

theorem det3_sub_3 (v1 v2 v3 w : Vec) (n1 n2 n3 : ℤ) :
    det3 v1 v2 (vsub w (comb n1 n2 n3 v1 v2 v3)) = det3 v1 v2 w - n3 * det3 v1 v2 v3 := by
  simp only [det3, dot, cross, vsub, comb]; ring

/-! ### positive definiteness -/

theorem posDef_iff (g : Metric) (hg : posDef g = true) :
    0 < g.xx ∧ 0 < g.xx * g.yy - g.xy * g.xy ∧
    0 < g.xx * (g.yy * g.zz - g.yz * g.yz) - g.xy * (g.xy * g.zz - g.yz * g.xz)
        + g.xz * (g.xy * g.yz - g.yy * g.xz) := by
  simp only [posDef, minors, Bool.and_eq_true, decide_eq_true_eq] at hg
  exact ⟨of_decide_eq_true hg.1.1.1, of_decide_eq_true hg.1.1.2, of_decide_eq_true hg.1.2⟩

theorem qform_completion (g : Metric) (v : Vec) :
    g.xx * (g.xx * g.yy - g.xy * g.xy) * qform g v
    = (g.xx * g.yy - g.xy * g.xy) * (g.xx * v.x + g.xy * v.y + g.xz * v.z) ^ 2
      + ((g.xx * g.yy - g.xy * g.xy) * v.y + (g.xx * g.yz - g.xy * g.xz) * v.z) ^ 2
      + g.xx * (g.xx * (g.yy * g.zz - g.yz * g.yz) - g.xy * (g.xy * g.zz - g.yz * g.xz)
        + g.xz * (g.xy * g.yz - g.yy * g.xz)) * v.z ^ 2 := by
  simp only [qform, bil]; ring

theorem qform_pos (g : Metric) (hg : posDef g = true) (v : Vec) (hv : v ≠ Vec.zero) : 0 < qform g v := by
  obtain ⟨p1, p2, p3⟩ := posDef_iff g hg
  have key := qform_completion g v
  have hp : 0 < g.xx * (g.xx * g.yy - g.xy * g.xy) := mul_pos p1 p2
  suffices 0 < g.xx * (g.xx * g.yy - g.xy * g.xy) * qform g v from (pos_iff_pos_of_mul_pos this).mp hp
  rw [key]
  have n1 : 0 ≤ (g.xx * g.yy - g.xy * g.xy) * (g.xx * v.x + g.xy * v.y + g.xz * v.z) ^ 2 := by positivity
  have n2 : 0 ≤ ((g.xx * g.yy - g.xy * g.xy) * v.y + (g.xx * g.yz - g.xy * g.xz) * v.z) ^ 2 := by positivity
  have n3 : 0 ≤ g.xx * (g.xx * (g.yy * g.zz - g.yz * g.yz) - g.xy * (g.xy * g.zz - g.yz * g.xz)
        + g.xz * (g.xy * g.yz - g.yy * g.xz)) * v.z ^ 2 := by positivity
  by_cases hz : v.z = 0
  · by_cases hy : v.y = 0
    · have hx : v.x ≠ 0 := by
        rcases (vec_ne_zero_iff v).mp hv with h | h | h
        · exact h
        · exact absurd hy h
        · exact absurd hz h
      have : 0 < (g.xx * g.yy - g.xy * g.xy) * (g.xx * v.x + g.xy * v.y + g.xz * v.z) ^ 2 := by
        rw [hz, hy]
        have : g.xx * v.x ≠ 0 := mul_ne_zero (ne_of_gt p1) hx
        simp only [mul_zero, add_zero]
        positivity
      linarith
    · have : 0 < ((g.xx * g.yy - g.xy * g.xy) * v.y + (g.xx * g.yz - g.xy * g.xz) * v.z) ^ 2 := by
        rw [hz]
        have : (g.xx * g.yy - g.xy * g.xy) * v.y ≠ 0 := mul_ne_zero (ne_of_gt p2) hy
        simp only [mul_zero, add_zero]
        positivity
      linarith
  · have : 0 < g.xx * (g.xx * (g.yy * g.zz - g.yz * g.yz) - g.xy * (g.xy * g.zz - g.yz * g.xz)
        + g.xz * (g.xy * g.yz - g.yy * g.xz)) * v.z ^ 2 := by positivity
    linarith

theorem cross_comb_left (c1 c2 : ℤ) (v1 v2 v3 : Vec) :
    cross (comb c1 c2 0 v1 v2 v3) v1 = smul c2 (cross v2 v1) := by
  simp only [cross, comb, smul, Vec.mk.injEq]
  refine ⟨?_, ?_, ?_⟩ <;> ring

theorem smul_eq_zero_imp {c : ℤ} (hc : c ≠ 0) {v : Vec} (h : smul c v = Vec.zero) : v = Vec.zero := by
  cases v with
  | mk x y z =>
    simp only [smul, Vec.zero, Vec.mk.injEq, mul_eq_zero] at h ⊢
    exact ⟨h.1.resolve_left hc, h.2.1.resolve_left hc, h.2.2.resolve_left hc⟩

theorem cross_zero_left (v : Vec) : cross Vec.zero v = Vec.zero := by
  simp [cross, Vec.zero]

theorem cross_zero_right (v : Vec) : cross v Vec.zero = Vec.zero := by
  simp [cross, Vec.zero]

theorem dot_zero_left (v : Vec) : dot Vec.zero v = 0 := by
  simp [dot, Vec.zero]

/-- strict Cauchy–Schwarz: second leading minor of the Gram matrix -/
theorem gram_minor_pos (g : Metric) (hg : posDef g = true) (v1 v2 : Vec) (hc : cross v2 v1 ≠ Vec.zero) :
    0 < qform g v1 * qform g v2 - (bil g v1 v2) ^ 2 := by
  have hv1 : v1 ≠ Vec.zero := by
    intro h; apply hc; rw [h]; exact cross_zero_right v2
  have ha : 0 < qform g v1 := qform_pos g hg v1 hv1
  have hu : comb (-(bil g v1 v2)) (qform g v1) 0 v1 v2 v1 ≠ Vec.zero := by
    intro h
    have h' := cross_comb_left (-(bil g v1 v2)) (qform g v1) v1 v2 v1
    rw [h, cross_zero_left] at h'
    exact hc (smul_eq_zero_imp (ne_of_gt ha) h'.symm)
  have hq := qform_pos g hg _ hu
  rw [qform_comb] at hq
  have : qform g v1 * (-(bil g v1 v2)) ^ 2 + qform g v2 * (qform g v1) ^ 2 + qform g v1 * 0 ^ 2
      + 2 * bil g v2 v1 * qform g v1 * 0 + 2 * bil g v1 v1 * (-(bil g v1 v2)) * 0
      + 2 * bil g v1 v2 * (-(bil g v1 v2)) * qform g v1
      = qform g v1 * (qform g v1 * qform g v2 - (bil g v1 v2) ^ 2) := by ring
  rw [this] at hq
  exact (pos_iff_pos_of_mul_pos hq).mp ha

theorem det3_eq_neg_dot_cross21 (v1 v2 w : Vec) : det3 v1 v2 w = - dot (cross v2 v1) w := by
  simp only [det3, dot, cross]; ring

theorem det3_eq_neg_dot_cross_w1 (v1 w v3 : Vec) : det3 v1 w v3 = - dot (cross w v1) v3 := by
  simp only [det3, dot, cross]; ring

theorem det3_eq_dot_cross31 (v1 v2 v3 : Vec) : det3 v1 v2 v3 = dot (cross v3 v1) v2 := by
  simp only [det3, dot, cross]; ring

/-- the real form of `gram_identity` for the reduced vector -/
theorem qform_reduced_cast (g : Metric) (v1 v2 v3 w : Vec) (hd : det3 v1 v2 v3 ≠ 0) (n1 n2 n3 : ℤ) :
    ((qform g (vsub w (comb n1 n2 n3 v1 v2 v3)) : ℤ) : ℝ)
    = Qr (qform g v1) (qform g v2) (qform g v3) (bil g v2 v3) (bil g v1 v3) (bil g v1 v2)
        ((det3 w v2 v3 : ℝ) / (det3 v1 v2 v3 : ℝ) - n1)
        ((det3 v1 w v3 : ℝ) / (det3 v1 v2 v3 : ℝ) - n2)
        ((det3 v1 v2 w : ℝ) / (det3 v1 v2 v3 : ℝ) - n3) := by
  have key := gram_identity g v1 v2 v3 (vsub w (comb n1 n2 n3 v1 v2 v3))
  rw [det3_sub_1, det3_sub_2, det3_sub_3] at key
  have keyR := congrArg (Int.cast : ℤ → ℝ) key
  have hdR : ((det3 v1 v2 v3 : ℤ) : ℝ) ≠ 0 := by exact_mod_cast hd
  unfold Qr
  field_simp
  push_cast at keyR
  linear_combination keyR

theorem div_sub_eq_zero_of {c d n : ℤ} (hd : d ≠ 0) (h : c - n * d = 0) : (c : ℝ) / (d : ℝ) - n = 0 := by
  have hdR : (d : ℝ) ≠ 0 := by exact_mod_cast hd
  have : (c : ℝ) = n * d := by
    have : c = n * d := by linarith
    exact_mod_cast this
  rw [this]; field_simp; ring

/-- every integer vector is an integer combination of successive-minima vectors -/
theorem span_of_minima (g : Metric) (hg : posDef g = true) (v1 v2 v3 : Vec)
    (hd : det3 v1 v2 v3 ≠ 0)
    (h1 : ∀ w : Vec, w ≠ Vec.zero → qform g v1 ≤ qform g w)
    (h2 : ∀ w : Vec, cross w v1 ≠ Vec.zero → qform g v2 ≤ qform g w)
    (h3 : ∀ w : Vec, dot (cross v2 v1) w ≠ 0 → qform g v3 ≤ qform g w) (w : Vec) :
    ∃ n1 n2 n3 : ℤ, w = comb n1 n2 n3 v1 v2 v3 := by
  -- non-degeneracy consequences of `det ≠ 0`
  have hc21 : cross v2 v1 ≠ Vec.zero := by
    intro h; apply hd; rw [det3_eq_neg_dot_cross21, h, dot_zero_left]; rfl
  have hc31 : cross v3 v1 ≠ Vec.zero := by
    intro h; apply hd; rw [det3_eq_dot_cross31, h, dot_zero_left]
  have hv2 : v2 ≠ Vec.zero := by
    intro h; apply hc21; rw [h]; exact cross_zero_left v1
  have hv3 : v3 ≠ Vec.zero := by
    intro h; apply hc31; rw [h]; exact cross_zero_left v1
  have hab : qform g v1 ≤ qform g v2 := h1 v2 hv2
  have hbc : qform g v2 ≤ qform g v3 := h2 v3 hc31
  have hv1 : v1 ≠ Vec.zero := by
    intro h; apply hc21; rw [h]; exact cross_zero_right v2
  have ha : 0 < qform g v1 := qform_pos g hg v1 hv1
  have hD := gram_minor_pos g hg v1 v2 hc21
  -- cast to ℝ
  have haR : (0 : ℝ) < (qform g v1 : ℝ) := by exact_mod_cast ha
  have habR : ((qform g v1 : ℤ) : ℝ) ≤ (qform g v2 : ℝ) := by exact_mod_cast hab
  have hbcR : ((qform g v2 : ℤ) : ℝ) ≤ (qform g v3 : ℝ) := by exact_mod_cast hbc
  have hDR : (0 : ℝ) < (qform g v1 : ℝ) * (qform g v2 : ℝ) - ((bil g v1 v2 : ℤ) : ℝ) ^ 2 := by
    exact_mod_cast hD
  have hcR : (0 : ℝ) ≤ (qform g v3 : ℝ) := by linarith
  obtain ⟨n1, n2, n3, r3, r2, r1⟩ :=
    real_reduce (qform g v1) (qform g v2) (qform g v3) (bil g v2 v3) (bil g v1 v3) (bil g v1 v2) haR hDR hcR
      ((det3 w v2 v3 : ℝ) / (det3 v1 v2 v3 : ℝ)) ((det3 v1 w v3 : ℝ) / (det3 v1 v2 v3 : ℝ))
      ((det3 v1 v2 w : ℝ) / (det3 v1 v2 v3 : ℝ))
  rw [← qform_reduced_cast g v1 v2 v3 w hd n1 n2 n3] at r3 r2 r1
  -- the reduced vector
  have e1 := det3_sub_1 v1 v2 v3 w n1 n2 n3
  have e2 := det3_sub_2 v1 v2 v3 w n1 n2 n3
  have e3 := det3_sub_3 v1 v2 v3 w n1 n2 n3
  have hcr := cramer v1 v2 v3 (vsub w (comb n1 n2 n3 v1 v2 v3))
  generalize hw' : vsub w (comb n1 n2 n3 v1 v2 v3) = w' at *
  by_cases z3 : det3 v1 v2 w - n3 * det3 v1 v2 v3 = 0
  · have y3 := div_sub_eq_zero_of hd z3
    have r2' := r2 y3
    have r1' := r1 y3
    by_cases z2 : det3 v1 w v3 - n2 * det3 v1 v2 v3 = 0
    · have y2 := div_sub_eq_zero_of hd z2
      have r1'' := r1' y2
      by_cases z1 : det3 w v2 v3 - n1 * det3 v1 v2 v3 = 0
      · -- all coordinates vanish: w' = 0
        rw [e1, e2, e3, z1, z2, z3] at hcr
        have hz : comb 0 0 0 v1 v2 v3 = Vec.zero := by simp [comb, Vec.zero]
        rw [hz] at hcr
        have hw0 := smul_eq_zero_imp hd hcr
        refine ⟨n1, n2, n3, ?_⟩
        rw [← hw'] at hw0
        cases w with
        | mk x y z =>
          simp only [vsub, comb, Vec.zero, Vec.mk.injEq] at hw0 ⊢
          refine ⟨?_, ?_, ?_⟩ <;> linarith [hw0.1, hw0.2.1, hw0.2.2]
      · exfalso
        have hw'0 : w' ≠ Vec.zero := by
          intro h; apply z1; rw [← e1, h]; exact dot_zero_left _
        have := h1 w' hw'0
        have thisR : ((qform g v1 : ℤ) : ℝ) ≤ (qform g w' : ℝ) := by exact_mod_cast this
        linarith
    · exfalso
      have hcw : cross w' v1 ≠ Vec.zero := by
        intro h; apply z2; rw [← e2, det3_eq_neg_dot_cross_w1, h, dot_zero_left]; rfl
      have := h2 w' hcw
      have thisR : ((qform g v2 : ℤ) : ℝ) ≤ (qform g w' : ℝ) := by exact_mod_cast this
      linarith
  · exfalso
    have hdw : dot (cross v2 v1) w' ≠ 0 := by
      intro h; apply z3; rw [← e3, det3_eq_neg_dot_cross21, h]; rfl
    have := h3 w' hdw
    have thisR : ((qform g v3 : ℤ) : ℝ) ≤ (qform g w' : ℝ) := by exact_mod_cast this
    linarith

/-! ### from "spans ℤ³" to "unimodular" -/

theorem det3_comb (a1 a2 a3 b1 b2 b3 c1 c2 c3 : ℤ) (v1 v2 v3 : Vec) :
    det3 (comb a1 a2 a3 v1 v2 v3) (comb b1 b2 b3 v1 v2 v3) (comb c1 c2 c3 v1 v2 v3)
    = (a1 * (b2 * c3 - b3 * c2) - a2 * (b1 * c3 - b3 * c1) + a3 * (b1 * c2 - b2 * c1)) * det3 v1 v2 v3 := by
  simp only [det3, dot, cross, comb]; ring

theorem unimodular_of_span (v1 v2 v3 : Vec)
    (hspan : ∀ w : Vec, ∃ n1 n2 n3 : ℤ, w = comb n1 n2 n3 v1 v2 v3) :
    det3 v1 v2 v3 = 1 ∨ det3 v1 v2 v3 = -1 := by
  obtain ⟨a1, a2, a3, ha⟩ := hspan ⟨1, 0, 0⟩
  obtain ⟨b1, b2, b3, hb⟩ := hspan ⟨0, 1, 0⟩
  obtain ⟨c1, c2, c3, hc⟩ := hspan ⟨0, 0, 1⟩
  have h := det3_comb a1 a2 a3 b1 b2 b3 c1 c2 c3 v1 v2 v3
  rw [← ha, ← hb, ← hc] at h
  have h1 : det3 ⟨1, 0, 0⟩ ⟨0, 1, 0⟩ ⟨0, 0, 1⟩ = 1 := by simp [det3, dot, cross]
  rw [h1] at h
  exact Int.eq_one_or_neg_one_of_mul_eq_one' h.symm |>.imp (·.2) (·.2)

/-- successive minima of a positive definite integral ternary form over ALL of ℤ³ form a basis -/
theorem successive_minima_unimodular (g : Reduce.Metric) (hg : Reduce.posDef g = true) (s : Reduce.Sel)
    (hdet : s.det ≠ 0)
    (h1 : ∀ w : Reduce.Vec, w ≠ Reduce.Vec.zero → Reduce.qform g s.v1 ≤ Reduce.qform g w)
    (h2 : ∀ w : Reduce.Vec, Reduce.cross w s.v1 ≠ Reduce.Vec.zero → Reduce.qform g s.v2 ≤ Reduce.qform g w)
    (h3 : ∀ w : Reduce.Vec, Reduce.dot (Reduce.cross s.v2 s.v1) w ≠ 0 → Reduce.qform g s.v3 ≤ Reduce.qform g w) :
    s.det = 1 ∨ s.det = -1 :=
  unimodular_of_span s.v1 s.v2 s.v3 (span_of_minima g hg s.v1 s.v2 s.v3 hdet h1 h2 h3)

/-! ### a concrete non-trivial instance: `Q = 16x² + 25y² + 36z² + 20xy`
successive minima `16, 21, 36` at `(1,0,0)`, `(1,-1,0)`, `(0,0,1)` -/

def g0 : Metric := { xx := 16, yy := 25, zz := 36, yz := 0, xz := 0, xy := 10 }

def s0 : Sel := ⟨⟨1, 0, 0⟩, ⟨1, -1, 0⟩, ⟨0, 0, 1⟩⟩

theorem g0_qform (x y z : ℤ) :
    4 * qform g0 ⟨x, y, z⟩ = (8 * x + 5 * y) ^ 2 + 75 * y ^ 2 + 144 * z ^ 2 := by
  simp only [qform, bil, g0]; ring

theorem int_one_le_sq {z : ℤ} (h : z ≠ 0) : 1 ≤ z ^ 2 := by
  rcases lt_or_gt_of_ne h with h | h <;> nlinarith

theorem g0_z (x y z : ℤ) (hz : z ≠ 0) : 36 ≤ qform g0 ⟨x, y, z⟩ := by
  have := g0_qform x y z
  have := int_one_le_sq hz
  nlinarith [sq_nonneg (8 * x + 5 * y), sq_nonneg y]

theorem g0_y (x y z : ℤ) (hy : y ≠ 0) : 21 ≤ qform g0 ⟨x, y, z⟩ := by
  have hq := g0_qform x y z
  have hz := sq_nonneg z
  by_cases h1 : y = 1
  · subst h1
    have : 9 ≤ (8 * x + 5 * 1) ^ 2 := by
      rcases le_or_gt 0 x with h | h <;> nlinarith
    linarith
  · by_cases h2 : y = -1
    · subst h2
      have : 9 ≤ (8 * x + 5 * (-1)) ^ 2 := by
        rcases le_or_gt x 0 with h | h <;> nlinarith
      linarith
    · have : 4 ≤ y ^ 2 := by
        rcases lt_or_gt_of_ne hy with h | h
        · have : y ≤ -2 := by omega
          nlinarith
        · have : 2 ≤ y := by omega
          nlinarith
      nlinarith [sq_nonneg (8 * x + 5 * y)]

theorem g0_x (x y z : ℤ) (hx : x ≠ 0) : 16 ≤ qform g0 ⟨x, y, z⟩ := by
  by_cases hy : y = 0
  · subst hy
    have hq := g0_qform x 0 z
    have := int_one_le_sq hx
    nlinarith [sq_nonneg z]
  · have := g0_y x y z hy
    linarith

theorem g0_h1 (w : Vec) (hw : w ≠ Vec.zero) : qform g0 s0.v1 ≤ qform g0 w := by
  have e : qform g0 s0.v1 = 16 := by decide
  rw [e]
  cases w with
  | mk x y z =>
    rcases (vec_ne_zero_iff _).mp hw with h | h | h
    · exact g0_x x y z h
    · have := g0_y x y z h; linarith
    · have := g0_z x y z h; linarith

theorem g0_h2 (w : Vec) (hw : cross w s0.v1 ≠ Vec.zero) : qform g0 s0.v2 ≤ qform g0 w := by
  have e : qform g0 s0.v2 = 21 := by decide
  rw [e]
  cases w with
  | mk x y z =>
    rcases (vec_ne_zero_iff _).mp hw with h | h | h
    · simp [cross, s0] at h
    · have hz : z ≠ 0 := by simpa [cross, s0] using h
      have := g0_z x y z hz; linarith
    · have hy : y ≠ 0 := by simpa [cross, s0] using h
      exact g0_y x y z hy

theorem g0_dot (w : Vec) : dot (cross s0.v2 s0.v1) w = w.z := by
  simp [dot, cross, s0]

theorem g0_h3 (w : Vec) (hw : dot (cross s0.v2 s0.v1) w ≠ 0) : qform g0 s0.v3 ≤ qform g0 w := by
  have e : qform g0 s0.v3 = 36 := by decide
  rw [e, g0_dot] at *
  cases w with
  | mk x y z => exact g0_z x y z hw

/-- the hypotheses of `successive_minima_unimodular` are satisfiable (and its conclusion then holds) -/
example : posDef g0 = true ∧ s0.det ≠ 0
    ∧ (∀ w : Vec, w ≠ Vec.zero → qform g0 s0.v1 ≤ qform g0 w)
    ∧ (∀ w : Vec, cross w s0.v1 ≠ Vec.zero → qform g0 s0.v2 ≤ qform g0 w)
    ∧ (∀ w : Vec, dot (cross s0.v2 s0.v1) w ≠ 0 → qform g0 s0.v3 ≤ qform g0 w)
    ∧ (s0.det = 1 ∨ s0.det = -1) :=
  ⟨by decide, by decide, g0_h1, g0_h2, g0_h3,
    successive_minima_unimodular g0 (by decide) s0 (by decide) g0_h1 g0_h2 g0_h3⟩

/-- the same with minimality known only inside a search box, provided the box contains every lattice vector strictly
    shorter than the third selected vector -/
theorem box_minima_unimodular (g : Reduce.Metric) (hg : Reduce.posDef g = true) (uvw : Nat) (s : Reduce.Sel)
    (hdet : s.det ≠ 0)
    (hball : ∀ w : Reduce.Vec, Reduce.qform g w < Reduce.qform g s.v3 → w ∈ Reduce.candidates uvw)
    (h12 : Reduce.qform g s.v1 ≤ Reduce.qform g s.v2) (h23 : Reduce.qform g s.v2 ≤ Reduce.qform g s.v3)
    (h1 : ∀ w ∈ Reduce.candidates uvw, w ≠ Reduce.Vec.zero → Reduce.qform g s.v1 ≤ Reduce.qform g w)
    (h2 : ∀ w ∈ Reduce.candidates uvw, Reduce.cross w s.v1 ≠ Reduce.Vec.zero → Reduce.qform g s.v2 ≤ Reduce.qform g w)
    (h3 : ∀ w ∈ Reduce.candidates uvw, 0 < Reduce.dot (Reduce.cross s.v2 s.v1) w → Reduce.qform g s.v3 ≤ Reduce.qform g w) :
    s.det = 1 ∨ s.det = -1 := by
  apply successive_minima_unimodular g hg s hdet
  · intro w hw
    by_cases hlt : qform g w < qform g s.v3
    · exact h1 w (hball w hlt) hw
    · linarith
  · intro w hw
    by_cases hlt : qform g w < qform g s.v3
    · exact h2 w (hball w hlt) hw
    · linarith
  · intro w hw
    by_cases hlt : qform g w < qform g s.v3
    · rcases lt_or_gt_of_ne hw with hneg | hpos
      · have hlt' : qform g (vneg w) < qform g s.v3 := by rw [qform_neg]; exact hlt
        have hpos' : 0 < dot (cross s.v2 s.v1) (vneg w) := by
          have : dot (cross s.v2 s.v1) (vneg w) = - dot (cross s.v2 s.v1) w := by
            simp only [dot, vneg]; ring
          rw [this]; linarith
        have := h3 (vneg w) (hball _ hlt') hpos'
        rw [qform_neg] at this
        exact this
      · exact h3 w (hball w hlt) hpos
    · linarith

/-! ### membership in the search box -/

theorem mem_rng (n : Nat) (i : ℤ) : i ∈ rng n ↔ (-(n : ℤ) ≤ i ∧ i < n) := by
  simp only [rng, List.mem_map, List.mem_range, Int.ofNat_eq_natCast]
  constructor
  · rintro ⟨k, hk, rfl⟩; omega
  · intro h; exact ⟨(i + n).toNat, by omega, by omega⟩

theorem mem_candidates (n : Nat) (w : Vec) :
    w ∈ candidates n ↔
      (-(n : ℤ) ≤ w.x ∧ w.x < n) ∧ (-(n : ℤ) ≤ w.y ∧ w.y < n) ∧ (-(n : ℤ) ≤ w.z ∧ w.z < n) := by
  cases w with
  | mk x y z =>
    simp only [candidates, List.mem_flatMap, List.mem_map, mem_rng, Vec.mk.injEq]
    constructor
    · rintro ⟨i, hi, j, hj, k, hk, rfl, rfl, rfl⟩; exact ⟨hi, hj, hk⟩
    · rintro ⟨hi, hj, hk⟩; exact ⟨x, hi, y, hj, z, hk, rfl, rfl, rfl⟩

theorem g0_ball (w : Vec) (hw : qform g0 w < qform g0 s0.v3) : w ∈ candidates 3 := by
  have e : qform g0 s0.v3 = 36 := by decide
  rw [e] at hw
  rw [mem_candidates]
  cases w with
  | mk x y z =>
    have hq := g0_qform x y z
    have hz : z = 0 := by
      by_contra h
      have := g0_z x y z h
      linarith
    subst hz
    have hy2 : y ^ 2 ≤ 1 := by nlinarith [sq_nonneg (8 * x + 5 * y)]
    have hy : -1 ≤ y ∧ y ≤ 1 := by constructor <;> nlinarith
    have ht2 : (8 * x + 5 * y) ^ 2 < 144 := by nlinarith [sq_nonneg y]
    have ht : -12 < 8 * x + 5 * y ∧ 8 * x + 5 * y < 12 := by constructor <;> nlinarith
    simp only [Nat.cast_ofNat]
    omega

/-- the hypotheses of `box_minima_unimodular` are satisfiable for `uvw = 3` (and its conclusion then holds) -/
example : posDef g0 = true ∧ s0.det ≠ 0
    ∧ (∀ w : Vec, qform g0 w < qform g0 s0.v3 → w ∈ candidates 3)
    ∧ qform g0 s0.v1 ≤ qform g0 s0.v2 ∧ qform g0 s0.v2 ≤ qform g0 s0.v3
    ∧ (∀ w ∈ candidates 3, w ≠ Vec.zero → qform g0 s0.v1 ≤ qform g0 w)
    ∧ (∀ w ∈ candidates 3, cross w s0.v1 ≠ Vec.zero → qform g0 s0.v2 ≤ qform g0 w)
    ∧ (∀ w ∈ candidates 3, 0 < dot (cross s0.v2 s0.v1) w → qform g0 s0.v3 ≤ qform g0 w)
    ∧ (s0.det = 1 ∨ s0.det = -1) :=
  ⟨by decide, by decide, g0_ball, by decide, by decide,
    fun w _ h => g0_h1 w h, fun w _ h => g0_h2 w h, fun w _ h => g0_h3 w (ne_of_gt h),
    box_minima_unimodular g0 (by decide) 3 s0 (by decide) g0_ball (by decide) (by decide)
      (fun w _ h => g0_h1 w h) (fun w _ h => g0_h2 w h) (fun w _ h => g0_h3 w (ne_of_gt h))⟩

/-! ### a decidable sufficient test for `hball` -/

-- `cof00 cof11 cof22 det ballCheck` live in `Model/Reduce.lean` (core only) so that the model driver evaluates the same test

/-- polynomial core of the Hadamard-type bound (first coordinate; the other two by permuting indices):
    with `c = BC − F²`, `B·c·(Q·c − x²·D) = (B p₁ + F p₂)² + c p₂²`, `p = c·(y,z) + x·adj(M)·(H,E)` -/
theorem hadamard_core (A B C F E H x y z : ℤ) (hB : 0 < B) (hc : 0 < B * C - F * F) :
    x ^ 2 * (A * (B * C - F * F) - H * (H * C - F * E) + E * (H * F - B * E))
    ≤ (A * x ^ 2 + B * y ^ 2 + C * z ^ 2 + 2 * F * y * z + 2 * E * x * z + 2 * H * x * y) * (B * C - F * F) := by
  have key : B * (B * C - F * F) *
      ((A * x ^ 2 + B * y ^ 2 + C * z ^ 2 + 2 * F * y * z + 2 * E * x * z + 2 * H * x * y) * (B * C - F * F)
        - x ^ 2 * (A * (B * C - F * F) - H * (H * C - F * E) + E * (H * F - B * E)))
      = (B * ((B * C - F * F) * y + x * (C * H - F * E)) + F * ((B * C - F * F) * z + x * (B * E - F * H))) ^ 2
        + (B * C - F * F) * ((B * C - F * F) * z + x * (B * E - F * H)) ^ 2 := by ring
  have hpos : 0 < B * (B * C - F * F) := mul_pos hB hc
  have hnn : 0 ≤ B * (B * C - F * F) *
      ((A * x ^ 2 + B * y ^ 2 + C * z ^ 2 + 2 * F * y * z + 2 * E * x * z + 2 * H * x * y) * (B * C - F * F)
        - x ^ 2 * (A * (B * C - F * F) - H * (H * C - F * E) + E * (H * F - B * E))) := by
    rw [key]; positivity
  have := nonneg_of_mul_nonneg_right hnn hpos
  linarith

theorem diag_pos (g : Metric) (hg : posDef g = true) : 0 < g.xx ∧ 0 < g.yy ∧ 0 < g.zz := by
  have h1 := qform_pos g hg ⟨1, 0, 0⟩ (by decide)
  have h2 := qform_pos g hg ⟨0, 1, 0⟩ (by decide)
  have h3 := qform_pos g hg ⟨0, 0, 1⟩ (by decide)
  simp only [qform, bil] at h1 h2 h3
  refine ⟨by linarith, by linarith, by linarith⟩

theorem cof_pos (g : Metric) (hg : posDef g = true) : 0 < cof00 g ∧ 0 < cof11 g ∧ 0 < cof22 g := by
  obtain ⟨hx, hy, hz⟩ := diag_pos g hg
  have n0 : (⟨0, -g.yz, g.yy⟩ : Vec) ≠ Vec.zero := by
    rw [vec_ne_zero_iff]; exact Or.inr (Or.inr (ne_of_gt hy))
  have n1 : (⟨-g.xz, 0, g.xx⟩ : Vec) ≠ Vec.zero := by
    rw [vec_ne_zero_iff]; exact Or.inr (Or.inr (ne_of_gt hx))
  have q0 := qform_pos g hg _ n0
  have q1 := qform_pos g hg _ n1
  have e0 : qform g ⟨0, -g.yz, g.yy⟩ = g.yy * cof00 g := by simp only [qform, bil, cof00]; ring
  have e1 : qform g ⟨-g.xz, 0, g.xx⟩ = g.xx * cof11 g := by simp only [qform, bil, cof11]; ring
  rw [e0] at q0
  rw [e1] at q1
  refine ⟨(pos_iff_pos_of_mul_pos q0).mp hy, (pos_iff_pos_of_mul_pos q1).mp hx, ?_⟩
  exact (posDef_iff g hg).2.1

theorem det_pos (g : Metric) (hg : posDef g = true) : 0 < det g := (posDef_iff g hg).2.2

/-- Hadamard-type bound: for a positive definite form, q(w)·cofᵢᵢ ≥ wᵢ²·det G (i.e. q(w) ≥ wᵢ²/(G⁻¹)ᵢᵢ) -/
theorem qform_mul_cof_ge (g : Reduce.Metric) (hg : Reduce.posDef g = true) (w : Reduce.Vec) :
    w.x ^ 2 * det g ≤ Reduce.qform g w * cof00 g ∧ w.y ^ 2 * det g ≤ Reduce.qform g w * cof11 g ∧
      w.z ^ 2 * det g ≤ Reduce.qform g w * cof22 g := by
  obtain ⟨hx, hy, hz⟩ := diag_pos g hg
  obtain ⟨c0, c1, c2⟩ := cof_pos g hg
  simp only [cof00, cof11, cof22] at c0 c1 c2
  have k0 := hadamard_core g.xx g.yy g.zz g.yz g.xz g.xy w.x w.y w.z hy c0
  have k1 := hadamard_core g.yy g.xx g.zz g.xz g.yz g.xy w.y w.x w.z hx c1
  have k2 := hadamard_core g.zz g.xx g.yy g.xy g.yz g.xz w.z w.x w.y hx c2
  simp only [det, minors, cof00, cof11, cof22, qform, bil]
  refine ⟨?_, ?_, ?_⟩
  · linarith
  · linarith
  · linarith

theorem coord_bound {t q q3 c d : ℤ} {n : Nat} (hd : 0 < d) (hc : 0 < c)
    (h1 : t ^ 2 * d ≤ q * c) (h2 : q < q3) (h3 : q3 * c ≤ (n : ℤ) ^ 2 * d) :
    -(n : ℤ) ≤ t ∧ t < n := by
  have h4 : q * c < q3 * c := mul_lt_mul_of_pos_right h2 hc
  have h5 : t ^ 2 * d < (n : ℤ) ^ 2 * d := by linarith
  have h6 : t ^ 2 < (n : ℤ) ^ 2 := lt_of_mul_lt_mul_right h5 hd.le
  have hn : (0 : ℤ) ≤ n := Int.natCast_nonneg n
  have := abs_lt_of_sq_lt_sq h6 hn
  have := abs_lt.mp this
  exact ⟨by linarith, this.2⟩

theorem ball_of_check (g : Reduce.Metric) (hg : Reduce.posDef g = true) (uvw : Nat) (s : Reduce.Sel)
    (h : ballCheck g uvw s = true) :
    ∀ w : Reduce.Vec, Reduce.qform g w < Reduce.qform g s.v3 → w ∈ Reduce.candidates uvw := by
  intro w hw
  simp only [ballCheck, Bool.and_eq_true] at h
  have b0 := of_decide_eq_true h.1.1
  have b1 := of_decide_eq_true h.1.2
  have b2 := of_decide_eq_true h.2
  obtain ⟨c0, c1, c2⟩ := cof_pos g hg
  obtain ⟨k0, k1, k2⟩ := qform_mul_cof_ge g hg w
  have hd := det_pos g hg
  rw [mem_candidates]
  exact ⟨coord_bound hd c0 k0 hw b0, coord_bound hd c1 k1 hw b1, coord_bound hd c2 k2 hw b2⟩

/-- `g0`, `s0` pass the test with `uvw = 3` (they already pass with `uvw = 2`, and fail with `uvw = 1`) -/
example : ballCheck g0 3 s0 = true := by decide
example : ballCheck g0 2 s0 = true ∧ ballCheck g0 1 s0 = false := by decide

/-- `box_minima_unimodular` with `hball` discharged by the executable test -/
example : s0.det = 1 ∨ s0.det = -1 :=
  box_minima_unimodular g0 (by decide) 3 s0 (by decide) (ball_of_check g0 (by decide) 3 s0 (by decide))
    (by decide) (by decide)
    (fun w _ h => g0_h1 w h) (fun w _ h => g0_h2 w h) (fun w _ h => g0_h3 w (ne_of_gt h))

end Minkowski3

