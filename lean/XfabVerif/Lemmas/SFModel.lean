/-
Hand-written OUTER model of `xfab.structure.StructureFactor(hkl, ucell, sgname, atoms, disper)` (ℝ / ℂ).

Python (xfab/structure.py):

    Freal = Fimg = 0.0
    for i in range(noatoms):                       # atoms
        [expij / betaij from atoms[i].adp_type ∈ {'Uiso','Uani',else}] ; f = FormFactor(..) ; fp,fpp from disper
        for j in range(mysg.nsymop):               # operations of the space group
            Freal += <ΔFreal(i,j)> ; Fimg += <ΔFimg(i,j)>

The summand (ΔFreal, ΔFimg) of one (atom, operation) pair is NOT written by hand: it is the TRACED definition
`Structure.sf_term_{none,Uiso,Uani}[_disp]` of `Gen/StructureReal.lean` (generated from the Python source on every
run).  This file only adds the double loop as a `List.sum` of the traced summand over the exported operation list
(`Sg.Op`: integer rotation, translation in 24ths) and proves the bridge from the traced summand to the textbook
closed form

    occ·symmulti/nsymop · T · (f + f' + i f'') · exp(2πi h·(R pos + t)),
    T = 1 | exp(−8π² U s²) | exp(−hᵀ R β Rᵀ h).

Idealisation (recorded in the harness ASSUMPTIONS): the ℝ model takes the tabulated translations as exact 24ths
(0.333333 ↦ 8/24); the Float model (`Model/SFFloat.lean`) and the Python use the 6-digit decimals.
-/
import XfabVerif.Gen.StructureReal
import XfabVerif.Model.SgModel

set_option linter.unusedVariables false
set_option linter.style.longLine false
set_option linter.dupNamespace false

noncomputable section
open Matrix

namespace SF

/-- `atoms[i].adp_type` with its payload: anything but 'Uiso' / 'Uani' takes the `else` branch (`expij = 1`) -/
inductive Adp where
  | none : Adp
  | uiso (u : ℝ) : Adp
  | uani (adp : Fin 6 → ℝ) : Adp

/-- one `atom_entry` together with what `StructureFactor` looks up for it:
`data = atomlib.formfactor[atomtype]`, `disp = none` when `disper == None or disper[atomtype] == None`,
otherwise `some (disper[atomtype][0], disper[atomtype][1])`. -/
structure Atom where
  pos : Fin 3 → ℝ
  occ : ℝ
  symmulti : ℝ
  adp : Adp
  data : Fin 9 → ℝ
  disp : Option (ℝ × ℝ)

/-- `fp` of the code (0.0 in the no-dispersion branch) -/
def Atom.fp (A : Atom) : ℝ := match A.disp with | none => 0 | some p => p.1
/-- `fpp` of the code (0.0 in the no-dispersion branch) -/
def Atom.fpp (A : Atom) : ℝ := match A.disp with | none => 0 | some p => p.2

/-- `mysg.rot[j]` as a real matrix -/
def rotR (g : Sg.Op) : Matrix (Fin 3) (Fin 3) ℝ :=
  !![(g.r11 : ℝ), (g.r12 : ℝ), (g.r13 : ℝ);
     (g.r21 : ℝ), (g.r22 : ℝ), (g.r23 : ℝ);
     (g.r31 : ℝ), (g.r32 : ℝ), (g.r33 : ℝ)]

/-- `mysg.trans[j]` (24ths) as a real vector -/
def transR (g : Sg.Op) : Fin 3 → ℝ := ![(g.t1 : ℝ) / 24, (g.t2 : ℝ) / 24, (g.t3 : ℝ) / 24]

/-- the traced summand of one (atom, operation) pair; the six traced variants are selected exactly as the
Python selects its branches -/
def term (h : Fin 3 → ℝ) (cell : Fin 6 → ℝ) (n : ℝ) (A : Atom) (g : Sg.Op) : Fin 2 → ℝ :=
  match A.adp, A.disp with
  | .none, none => Structure.sf_term_none h cell A.data A.pos A.occ A.symmulti n (rotR g) (transR g)
  | .none, some p => Structure.sf_term_none_disp h cell A.data A.pos A.occ A.symmulti n (rotR g) (transR g) p.1 p.2
  | .uiso u, none => Structure.sf_term_Uiso h cell A.data A.pos A.occ A.symmulti n (rotR g) (transR g) u
  | .uiso u, some p => Structure.sf_term_Uiso_disp h cell A.data A.pos A.occ A.symmulti n (rotR g) (transR g) u p.1 p.2
  | .uani b, none => Structure.sf_term_Uani h cell A.data A.pos A.occ A.symmulti n (rotR g) (transR g) b
  | .uani b, some p => Structure.sf_term_Uani_disp h cell A.data A.pos A.occ A.symmulti n (rotR g) (transR g) b p.1 p.2

/-- `[Freal, Fimg]` as a complex number -/
def toC (v : Fin 2 → ℝ) : ℂ := ⟨v 0, v 1⟩

/-- inner loop: contribution of one atom, summed over the operation list `G`; `n` is `mysg.nsymop` -/
def atomSF (n : ℝ) (G : List Sg.Op) (cell : Fin 6 → ℝ) (A : Atom) (h : Fin 3 → ℝ) : ℂ :=
  (G.map fun g => toC (term h cell n A g)).sum

/-- the double loop of `StructureFactor` with `mysg.nsymop = n` (as a divisor) and the operations `G` -/
def SFn (n : ℝ) (G : List Sg.Op) (cell : Fin 6 → ℝ) (atoms : List Atom) (h : Fin 3 → ℝ) : ℂ :=
  (atoms.map fun A => atomSF n G cell A h).sum

/-- `StructureFactor` for an operation list whose length is `nsymop` -/
def SF (G : List Sg.Op) (cell : Fin 6 → ℝ) (atoms : List Atom) (h : Fin 3 → ℝ) : ℂ :=
  SFn (G.length : ℝ) G cell atoms h

/-- `StructureFactor` for an exported table: the first `nsymop` rows, divisor `nsymop` -/
def SFtable (t : SgTable) (cell : Fin 6 → ℝ) (atoms : List Atom) (h : Fin 3 → ℝ) : ℂ :=
  SFn (t.nsymop : ℝ) ((Sg.opsOf t).take t.nsymop) cell atoms h

/-! ### closed form -/

/-- scattering factor `f(s) + f' + i f''`, `s = sintl(cell, hkl)` -/
def ffC (A : Atom) (cell : Fin 6 → ℝ) (h : Fin 3 → ℝ) : ℂ :=
  ⟨Structure.FormFactor A.data (Tools.sintl cell h) + A.fp, A.fpp⟩

/-- Debye–Waller factor of the image of the atom under an operation with rotation `R` -/
def dw (A : Atom) (cell : Fin 6 → ℝ) (R : Matrix (Fin 3) (Fin 3) ℝ) (h : Fin 3 → ℝ) : ℝ :=
  match A.adp with
  | .none => 1
  | .uiso u => Real.exp (-8 * Real.pi ^ 2 * u * Tools.sintl cell h ^ 2)
  | .uani b => Real.exp (-(h ⬝ᵥ ((R * (Structure.Uij2betaij b cell * Rᵀ)) *ᵥ h)))

/-- phase angle `2π h·(R pos + t)` -/
def phase (h : Fin 3 → ℝ) (R : Matrix (Fin 3) (Fin 3) ℝ) (t pos : Fin 3 → ℝ) : ℝ :=
  2 * Real.pi * (h ⬝ᵥ (R *ᵥ pos + t))

/-- textbook summand -/
def closed (h : Fin 3 → ℝ) (cell : Fin 6 → ℝ) (n : ℝ) (A : Atom) (g : Sg.Op) : ℂ :=
  ((A.occ * A.symmulti / n * dw A cell (rotR g) h : ℝ) : ℂ) * ffC A cell h *
    Complex.exp (((phase h (rotR g) (transR g) A.pos : ℝ) : ℂ) * Complex.I)

/-- `w·(a + i b)·e^{ix}` in components -/
lemma closed_aux (w a b x : ℝ) :
    ((w : ℝ) : ℂ) * (⟨a, b⟩ : ℂ) * Complex.exp (((x : ℝ) : ℂ) * Complex.I) =
      ⟨w * (a * Real.cos x - b * Real.sin x), w * (a * Real.sin x + b * Real.cos x)⟩ := by
  rw [Complex.exp_mul_I]
  apply Complex.ext <;> simp [Complex.cos_ofReal_re, Complex.sin_ofReal_re, Complex.cos_ofReal_im, Complex.sin_ofReal_im] <;> ring

/-- Bridge: the traced summand of `StructureFactor` is the textbook term
`occ·symmulti/nsymop · T · (f+f'+i f'') · exp(2πi h·(R pos + t))`. -/
theorem term_eq_closed (h : Fin 3 → ℝ) (cell : Fin 6 → ℝ) (n : ℝ) (A : Atom) (g : Sg.Op) :
    toC (term h cell n A g) = closed h cell n A g := by
  obtain ⟨pos, occ, sm, adp, data, disp⟩ := A
  unfold closed ffC
  rw [closed_aux]
  cases adp <;> cases disp <;>
    simp only [toC, term, dw, phase, Atom.fp, Atom.fpp, Structure.sf_term_none, Structure.sf_term_none_disp,
      Structure.sf_term_Uiso, Structure.sf_term_Uiso_disp, Structure.sf_term_Uani, Structure.sf_term_Uani_disp,
      Matrix.cons_val_zero, Matrix.cons_val_one] <;>
    apply Complex.ext <;> simp only [] <;> ring

/-- the inner loop as a sum of textbook terms -/
theorem atomSF_eq_closed (n : ℝ) (G : List Sg.Op) (cell : Fin 6 → ℝ) (A : Atom) (h : Fin 3 → ℝ) :
    atomSF n G cell A h = (G.map fun g => closed h cell n A g).sum := by
  simp only [atomSF, term_eq_closed]

/-- the double loop as a double sum of textbook terms -/
theorem SFn_eq_closed (n : ℝ) (G : List Sg.Op) (cell : Fin 6 → ℝ) (atoms : List Atom) (h : Fin 3 → ℝ) :
    SFn n G cell atoms h = (atoms.map fun A => (G.map fun g => closed h cell n A g).sum).sum := by
  simp only [SFn, atomSF_eq_closed]

/-! ### components of the closed form -/

theorem closed_components (h : Fin 3 → ℝ) (cell : Fin 6 → ℝ) (n : ℝ) (A : Atom) (g : Sg.Op) :
    closed h cell n A g =
      ⟨A.occ * A.symmulti / n * dw A cell (rotR g) h *
          ((Structure.FormFactor A.data (Tools.sintl cell h) + A.fp) * Real.cos (phase h (rotR g) (transR g) A.pos)
            - A.fpp * Real.sin (phase h (rotR g) (transR g) A.pos)),
       A.occ * A.symmulti / n * dw A cell (rotR g) h *
          ((Structure.FormFactor A.data (Tools.sintl cell h) + A.fp) * Real.sin (phase h (rotR g) (transR g) A.pos)
            + A.fpp * Real.cos (phase h (rotR g) (transR g) A.pos))⟩ := by
  unfold closed ffC
  rw [closed_aux]

/-! ### integer reflections and the algebra of operations -/

/-- an integer reflection as a real vector -/
def castR (h : Fin 3 → ℤ) : Fin 3 → ℝ := fun i => (h i : ℝ)

/-- the row-vector product `h·R` of an integer reflection with the rotation of an operation -/
def hRot (h : Fin 3 → ℤ) (k : Sg.Op) : Fin 3 → ℤ :=
  ![h 0 * k.r11 + h 1 * k.r21 + h 2 * k.r31,
    h 0 * k.r12 + h 1 * k.r22 + h 2 * k.r32,
    h 0 * k.r13 + h 1 * k.r23 + h 2 * k.r33]

/-- `h·t` in 24ths -/
def hDotT24 (h : Fin 3 → ℤ) (k : Sg.Op) : ℤ := h 0 * k.t1 + h 1 * k.t2 + h 2 * k.t3

lemma castR_hRot (h : Fin 3 → ℤ) (k : Sg.Op) : castR (hRot h k) = castR h ᵥ* rotR k := by
  ext i
  fin_cases i <;>
    simp [castR, hRot, rotR, Matrix.vecMul, dotProduct, Fin.sum_univ_three]

lemma castR_dot_transR (h : Fin 3 → ℤ) (k : Sg.Op) : castR h ⬝ᵥ transR k = (hDotT24 h k : ℝ) / 24 := by
  simp [castR, transR, hDotT24, dotProduct, Fin.sum_univ_three]
  ring

lemma castR_dot_castR (h m : Fin 3 → ℤ) : castR h ⬝ᵥ castR m = ((h ⬝ᵥ m : ℤ) : ℝ) := by
  simp [castR, dotProduct, Fin.sum_univ_three]

lemma rotR_comp (k j : Sg.Op) : rotR (Sg.comp k j) = rotR k * rotR j := by
  ext a b
  fin_cases a <;> fin_cases b <;>
    simp [rotR, Sg.comp, Matrix.mul_apply, Fin.sum_univ_three]

lemma emod24_cast (x : ℤ) : ((x % 24 : ℤ) : ℝ) / 24 = (x : ℝ) / 24 - ((x / 24 : ℤ) : ℝ) := by
  have h : x % 24 = x - 24 * (x / 24) := Int.emod_def x 24
  rw [h]
  push_cast
  ring

/-- translation of a composition: `t_{kj} = R_k t_j + t_k` modulo an integer (lattice) vector -/
lemma transR_comp (k j : Sg.Op) :
    ∃ m : Fin 3 → ℤ, transR (Sg.comp k j) = rotR k *ᵥ transR j + transR k - castR m := by
  refine ⟨![(k.r11 * j.t1 + k.r12 * j.t2 + k.r13 * j.t3 + k.t1) / 24,
            (k.r21 * j.t1 + k.r22 * j.t2 + k.r23 * j.t3 + k.t2) / 24,
            (k.r31 * j.t1 + k.r32 * j.t2 + k.r33 * j.t3 + k.t3) / 24], ?_⟩
  ext i
  fin_cases i <;>
    simp only [Matrix.mulVec, dotProduct, Fin.sum_univ_three, Pi.add_apply, Pi.sub_apply] <;>
    simp [transR, Sg.comp, rotR, castR, emod24_cast] <;>
    ring

/-- the quadratic form of `R_j β R_jᵀ` at `h·R_k` is the quadratic form of `R_k R_j β (R_k R_j)ᵀ` at `h` -/
lemma quad_vecMul (v : Fin 3 → ℝ) (Rk Rj B : Matrix (Fin 3) (Fin 3) ℝ) :
    (v ᵥ* Rk) ⬝ᵥ ((Rj * (B * Rjᵀ)) *ᵥ (v ᵥ* Rk)) = v ⬝ᵥ (((Rk * Rj) * (B * (Rk * Rj)ᵀ)) *ᵥ v) := by
  simp only [Matrix.vecMul, Matrix.mulVec, dotProduct, Matrix.mul_apply, Matrix.transpose_apply, Fin.sum_univ_three]
  ring

/-- the phase at `h·R_k` under `j` is the phase at `h` under `k∘j`, minus `2π h·t_k`, plus `2π·integer` -/
lemma phase_transform (h : Fin 3 → ℤ) (k j : Sg.Op) (pos : Fin 3 → ℝ) :
    ∃ N : ℤ, phase (castR (hRot h k)) (rotR j) (transR j) pos =
      phase (castR h) (rotR (Sg.comp k j)) (transR (Sg.comp k j)) pos - 2 * Real.pi * (castR h ⬝ᵥ transR k)
        + (N : ℝ) * (2 * Real.pi) := by
  obtain ⟨m, hm⟩ := transR_comp k j
  refine ⟨h ⬝ᵥ m, ?_⟩
  rw [← castR_dot_castR, castR_hRot, rotR_comp, hm]
  unfold phase
  rw [← Matrix.dotProduct_mulVec, Matrix.mulVec_add, Matrix.mulVec_mulVec]
  simp only [dotProduct_add, dotProduct_sub]
  ring

/-- `exp(i·phase)` transforms with the factor `exp(−2πi h·t_k)` -/
lemma exp_phase_transform (h : Fin 3 → ℤ) (k j : Sg.Op) (pos : Fin 3 → ℝ) :
    Complex.exp (((phase (castR (hRot h k)) (rotR j) (transR j) pos : ℝ) : ℂ) * Complex.I) =
      Complex.exp (((phase (castR h) (rotR (Sg.comp k j)) (transR (Sg.comp k j)) pos : ℝ) : ℂ) * Complex.I) *
        Complex.exp (((-(2 * Real.pi * (castR h ⬝ᵥ transR k)) : ℝ) : ℂ) * Complex.I) := by
  obtain ⟨N, hN⟩ := phase_transform h k j pos
  rw [hN, ← Complex.exp_add]
  have : (((phase (castR h) (rotR (Sg.comp k j)) (transR (Sg.comp k j)) pos - 2 * Real.pi * (castR h ⬝ᵥ transR k)
        + (N : ℝ) * (2 * Real.pi) : ℝ) : ℂ) * Complex.I) =
      (((phase (castR h) (rotR (Sg.comp k j)) (transR (Sg.comp k j)) pos : ℝ) : ℂ) * Complex.I +
        ((-(2 * Real.pi * (castR h ⬝ᵥ transR k)) : ℝ) : ℂ) * Complex.I) + (N : ℂ) * (2 * Real.pi * Complex.I) := by
    push_cast; ring
  rw [this, Complex.exp_add, Complex.exp_int_mul_two_pi_mul_I, mul_one]

/-- the phase factor `exp(−2πi h·t_k)` of the transformation law -/
def tfac (h : Fin 3 → ℤ) (k : Sg.Op) : ℂ :=
  Complex.exp (((-(2 * Real.pi * (castR h ⬝ᵥ transR k)) : ℝ) : ℂ) * Complex.I)

/-- Debye–Waller factor: the image under `j` seen from `h·R_k` is the image under `k∘j` seen from `h`
(for the isotropic factor this is the invariance of sin(θ)/λ) -/
lemma dw_transform (A : Atom) (cell : Fin 6 → ℝ) (h : Fin 3 → ℤ) (k j : Sg.Op)
    (hmetric : Tools.sintl cell (castR (hRot h k)) = Tools.sintl cell (castR h)) :
    dw A cell (rotR j) (castR (hRot h k)) = dw A cell (rotR (Sg.comp k j)) (castR h) := by
  unfold dw
  cases A.adp with
  | none => rfl
  | uiso u => simp only [hmetric]
  | uani b => simp only [castR_hRot, rotR_comp, quad_vecMul]

/-- term-wise transformation law: the textbook term of operation `j` at `h·R_k` is the term of `k∘j` at `h`
times `exp(−2πi h·t_k)` -/
theorem closed_transform (A : Atom) (cell : Fin 6 → ℝ) (n : ℝ) (h : Fin 3 → ℤ) (k j : Sg.Op)
    (hmetric : Tools.sintl cell (castR (hRot h k)) = Tools.sintl cell (castR h)) :
    closed (castR (hRot h k)) cell n A j = closed (castR h) cell n A (Sg.comp k j) * tfac h k := by
  unfold closed tfac
  rw [exp_phase_transform, dw_transform A cell h k j hmetric]
  unfold ffC
  rw [hmetric]
  ring

/-! ### Friedel -/

lemma sintl_neg (cell : Fin 6 → ℝ) (h : Fin 3 → ℝ) : Tools.sintl cell (-h) = Tools.sintl cell h := by
  unfold Tools.sintl
  simp only [Pi.neg_apply, mul_neg, neg_mul, neg_neg]

lemma phase_neg (h : Fin 3 → ℝ) (R : Matrix (Fin 3) (Fin 3) ℝ) (t pos : Fin 3 → ℝ) :
    phase (-h) R t pos = - phase h R t pos := by
  unfold phase
  rw [neg_dotProduct]; ring

lemma dw_neg (A : Atom) (cell : Fin 6 → ℝ) (R : Matrix (Fin 3) (Fin 3) ℝ) (h : Fin 3 → ℝ) :
    dw A cell R (-h) = dw A cell R h := by
  unfold dw
  cases A.adp with
  | none => rfl
  | uiso u => simp only [sintl_neg]
  | uani b => simp only [Matrix.mulVec_neg, neg_dotProduct, dotProduct_neg, neg_neg]

/-- term-wise Friedel law: without an imaginary dispersion part the term at `−h` is the conjugate of the term at `h` -/
theorem closed_neg (A : Atom) (hA : A.fpp = 0) (cell : Fin 6 → ℝ) (n : ℝ) (h : Fin 3 → ℝ) (g : Sg.Op) :
    closed (-h) cell n A g = (starRingEnd ℂ) (closed h cell n A g) := by
  rw [closed_components, closed_components, phase_neg, dw_neg, sintl_neg, hA]
  apply Complex.ext <;> simp [Real.cos_neg, Real.sin_neg]


/-! ### groups of operations modulo the lattice (local restatement of `Sg.IsGroupModLattice` of `Lemmas/SgSound.lean`) -/

/-- translation components lie in `[0,24)` -/
def Reduced (a : Sg.Op) : Prop :=
  (0 ≤ a.t1 ∧ a.t1 < 24) ∧ (0 ≤ a.t2 ∧ a.t2 < 24) ∧ (0 ≤ a.t3 ∧ a.t3 < 24)

/-- `G` is a group under `Sg.comp` (composition modulo lattice translations) -/
structure GroupModLattice (G : List Sg.Op) : Prop where
  one_mem : Sg.one ∈ G
  closed : ∀ a ∈ G, ∀ b ∈ G, Sg.comp a b ∈ G
  inv : ∀ a ∈ G, ∃ b ∈ G, Sg.comp a b = Sg.one
  nodup : G.Nodup
  reduced : ∀ a ∈ G, Reduced a

lemma op_ext {a b : Sg.Op}
    (h11 : a.r11 = b.r11) (h12 : a.r12 = b.r12) (h13 : a.r13 = b.r13)
    (h21 : a.r21 = b.r21) (h22 : a.r22 = b.r22) (h23 : a.r23 = b.r23)
    (h31 : a.r31 = b.r31) (h32 : a.r32 = b.r32) (h33 : a.r33 = b.r33)
    (ht1 : a.t1 = b.t1) (ht2 : a.t2 = b.t2) (ht3 : a.t3 = b.t3) : a = b := by
  cases a; cases b; simp_all

lemma comp_one {a : Sg.Op} (h : Reduced a) : Sg.comp a Sg.one = a := by
  obtain ⟨h1, h2, h3⟩ := h
  apply op_ext <;> simp [Sg.comp, Sg.one] <;> omega

lemma one_comp {a : Sg.Op} (h : Reduced a) : Sg.comp Sg.one a = a := by
  obtain ⟨h1, h2, h3⟩ := h
  apply op_ext <;> simp [Sg.comp, Sg.one] <;> omega

private lemma emod_congr {x y : Int} (k : Int) (h : x = y + 24 * k) : x % 24 = y % 24 := by
  subst h; exact Int.add_mul_emod_self_left y 24 k

private lemma assoc_t (a1 a2 a3 at' b11 b12 b13 b21 b22 b23 b31 b32 b33 bt1 bt2 bt3 c1 c2 c3 : Int) :
    ((a1 * b11 + a2 * b21 + a3 * b31) * c1 + (a1 * b12 + a2 * b22 + a3 * b32) * c2 +
        (a1 * b13 + a2 * b23 + a3 * b33) * c3 + (a1 * bt1 + a2 * bt2 + a3 * bt3 + at') % 24) % 24 =
    (a1 * ((b11 * c1 + b12 * c2 + b13 * c3 + bt1) % 24) + a2 * ((b21 * c1 + b22 * c2 + b23 * c3 + bt2) % 24) +
        a3 * ((b31 * c1 + b32 * c2 + b33 * c3 + bt3) % 24) + at') % 24 := by
  have h0 := Int.emod_def (a1 * bt1 + a2 * bt2 + a3 * bt3 + at') 24
  have h1 := Int.emod_def (b11 * c1 + b12 * c2 + b13 * c3 + bt1) 24
  have h2 := Int.emod_def (b21 * c1 + b22 * c2 + b23 * c3 + bt2) 24
  have h3 := Int.emod_def (b31 * c1 + b32 * c2 + b33 * c3 + bt3) 24
  rw [h0, h1, h2, h3]
  apply emod_congr (a1 * ((b11 * c1 + b12 * c2 + b13 * c3 + bt1) / 24) + a2 * ((b21 * c1 + b22 * c2 + b23 * c3 + bt2) / 24)
    + a3 * ((b31 * c1 + b32 * c2 + b33 * c3 + bt3) / 24) - (a1 * bt1 + a2 * bt2 + a3 * bt3 + at') / 24)
  ring

lemma comp_assoc (a b c : Sg.Op) : Sg.comp (Sg.comp a b) c = Sg.comp a (Sg.comp b c) := by
  apply op_ext
  · simp only [Sg.comp]; ring
  · simp only [Sg.comp]; ring
  · simp only [Sg.comp]; ring
  · simp only [Sg.comp]; ring
  · simp only [Sg.comp]; ring
  · simp only [Sg.comp]; ring
  · simp only [Sg.comp]; ring
  · simp only [Sg.comp]; ring
  · simp only [Sg.comp]; ring
  · simp only [Sg.comp]; exact assoc_t ..
  · simp only [Sg.comp]; exact assoc_t ..
  · simp only [Sg.comp]; exact assoc_t ..

/-- a right inverse in `G` is a left inverse -/
lemma GroupModLattice.inv_left {G : List Sg.Op} (hG : GroupModLattice G) {a b : Sg.Op} (ha : a ∈ G) (hb : b ∈ G)
    (hab : Sg.comp a b = Sg.one) : Sg.comp b a = Sg.one := by
  obtain ⟨c, hc, hbc⟩ := hG.inv b hb
  have hba : Sg.comp b a ∈ G := hG.closed b hb a ha
  calc Sg.comp b a = Sg.comp (Sg.comp b a) Sg.one := (comp_one (hG.reduced _ hba)).symm
    _ = Sg.comp (Sg.comp b a) (Sg.comp b c) := by rw [hbc]
    _ = Sg.comp b (Sg.comp (Sg.comp a b) c) := by simp only [comp_assoc]
    _ = Sg.comp b (Sg.comp Sg.one c) := by rw [hab]
    _ = Sg.comp b c := by rw [one_comp (hG.reduced c hc)]
    _ = Sg.one := hbc

/-- left cancellation on `G` -/
lemma GroupModLattice.cancel_left {G : List Sg.Op} (hG : GroupModLattice G) {k a b : Sg.Op} (hk : k ∈ G) (ha : a ∈ G)
    (hb : b ∈ G) (h : Sg.comp k a = Sg.comp k b) : a = b := by
  obtain ⟨ki, hki, hkki⟩ := hG.inv k hk
  have hl : Sg.comp ki k = Sg.one := hG.inv_left hk hki hkki
  calc a = Sg.comp Sg.one a := (one_comp (hG.reduced a ha)).symm
    _ = Sg.comp ki (Sg.comp k a) := by rw [← hl, comp_assoc]
    _ = Sg.comp ki (Sg.comp k b) := by rw [h]
    _ = Sg.comp Sg.one b := by rw [← comp_assoc, hl]
    _ = b := one_comp (hG.reduced b hb)

/-- left multiplication by an element permutes the operation list -/
lemma GroupModLattice.map_comp_perm {G : List Sg.Op} (hG : GroupModLattice G) {k : Sg.Op} (hk : k ∈ G) :
    (G.map (Sg.comp k)).Perm G := by
  have hnd : (G.map (Sg.comp k)).Nodup :=
    (List.nodup_map_iff_inj_on hG.nodup).2 (fun a ha b hb hab => hG.cancel_left hk ha hb hab)
  have hsub : G.map (Sg.comp k) ⊆ G := by
    intro x hx
    obtain ⟨a, ha, rfl⟩ := List.mem_map.1 hx
    exact hG.closed k hk a ha
  exact (List.subperm_of_subset hnd hsub).perm_of_length_le (by simp)

end SF
