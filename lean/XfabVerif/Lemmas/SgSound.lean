/-
Soundness of the Boolean space-group certificate checker of `XfabVerif/Model/SgModel.lean`
(`Sg.checkGroup`, `Sg.checkMeta`, `Sg.checkTable`): the Boolean facts about an (untrusted) certificate are lifted
once and for all to propositions quantified over ALL pairs of table operations.

Core Lean only (no Mathlib).
-/
import XfabVerif.Model.SgModel

set_option linter.unusedVariables false

namespace Sg

/-! ### extensionality, `opEq`, `rotEq` -/

theorem Op.ext' {a b : Op}
    (h11 : a.r11 = b.r11) (h12 : a.r12 = b.r12) (h13 : a.r13 = b.r13)
    (h21 : a.r21 = b.r21) (h22 : a.r22 = b.r22) (h23 : a.r23 = b.r23)
    (h31 : a.r31 = b.r31) (h32 : a.r32 = b.r32) (h33 : a.r33 = b.r33)
    (ht1 : a.t1 = b.t1) (ht2 : a.t2 = b.t2) (ht3 : a.t3 = b.t3) : a = b := by
  cases a; cases b; simp_all

/-- same rotation part (all nine integers equal) -/
def RotEq (a b : Op) : Prop :=
  a.r11 = b.r11 ∧ a.r12 = b.r12 ∧ a.r13 = b.r13 ∧ a.r21 = b.r21 ∧ a.r22 = b.r22 ∧ a.r23 = b.r23 ∧
  a.r31 = b.r31 ∧ a.r32 = b.r32 ∧ a.r33 = b.r33

theorem rotEq_iff {a b : Op} : rotEq a b = true ↔ RotEq a b := by
  simp [rotEq, RotEq, and_assoc]

theorem opEq_iff {a b : Op} : opEq a b = true ↔ a = b := by
  constructor
  · intro h
    simp only [opEq, rotEq, Bool.and_eq_true, beq_iff_eq] at h
    apply Op.ext' <;> omega
  · intro h
    subst h
    simp [opEq, rotEq]

/-- equality of all twelve components, as decided by `opEq` -/
def Equiv (a b : Op) : Prop := opEq a b = true

theorem equiv_iff_eq {a b : Op} : Equiv a b ↔ a = b := opEq_iff

theorem equiv_equivalence : Equivalence Equiv where
  refl a := equiv_iff_eq.2 rfl
  symm h := equiv_iff_eq.2 (equiv_iff_eq.1 h).symm
  trans h1 h2 := equiv_iff_eq.2 ((equiv_iff_eq.1 h1).trans (equiv_iff_eq.1 h2))

theorem RotEq.refl (a : Op) : RotEq a a := by simp [RotEq]
theorem RotEq.symm {a b : Op} (h : RotEq a b) : RotEq b a := by
  simp only [RotEq] at *; omega
theorem RotEq.trans {a b c : Op} (h : RotEq a b) (h' : RotEq b c) : RotEq a c := by
  simp only [RotEq] at *; omega

/-! ### translations reduced to `[0,24)` -/

/-- translation components lie in `[0,24)` -/
def Reduced (a : Op) : Prop :=
  (0 ≤ a.t1 ∧ a.t1 < 24) ∧ (0 ≤ a.t2 ∧ a.t2 < 24) ∧ (0 ≤ a.t3 ∧ a.t3 < 24)

theorem one_reduced : Reduced one := by simp [Reduced, one]

theorem comp_reduced (a b : Op) : Reduced (comp a b) := by
  simp only [Reduced, comp]; omega

theorem ofSg_reduced (o : SgOp) : Reduced (ofSg o) := by
  simp only [Reduced, ofSg]; omega

theorem comp_one {a : Op} (h : Reduced a) : comp a one = a := by
  obtain ⟨h1, h2, h3⟩ := h
  apply Op.ext' <;> simp [comp, one] <;> omega

theorem one_comp {a : Op} (h : Reduced a) : comp one a = a := by
  obtain ⟨h1, h2, h3⟩ := h
  apply Op.ext' <;> simp [comp, one] <;> omega

/-! ### associativity of composition modulo the lattice -/

private theorem emod_congr {x y : Int} (k : Int) (h : x = y + 24 * k) : x % 24 = y % 24 := by
  subst h; exact Int.add_mul_emod_self_left y 24 k

private theorem assoc_t (a1 a2 a3 at' b11 b12 b13 b21 b22 b23 b31 b32 b33 bt1 bt2 bt3 c1 c2 c3 : Int) :
    ((a1 * b11 + a2 * b21 + a3 * b31) * c1 + (a1 * b12 + a2 * b22 + a3 * b32) * c2 +
        (a1 * b13 + a2 * b23 + a3 * b33) * c3 + (a1 * bt1 + a2 * bt2 + a3 * bt3 + at') % 24) % 24 =
    (a1 * ((b11 * c1 + b12 * c2 + b13 * c3 + bt1) % 24) + a2 * ((b21 * c1 + b22 * c2 + b23 * c3 + bt2) % 24) +
        a3 * ((b31 * c1 + b32 * c2 + b33 * c3 + bt3) % 24) + at') % 24 := by
  obtain ⟨q0, h0⟩ : ∃ q, (a1 * bt1 + a2 * bt2 + a3 * bt3 + at') % 24 = (a1 * bt1 + a2 * bt2 + a3 * bt3 + at') - 24 * q :=
    ⟨_, Int.emod_def _ _⟩
  obtain ⟨q1, h1⟩ : ∃ q, (b11 * c1 + b12 * c2 + b13 * c3 + bt1) % 24 = (b11 * c1 + b12 * c2 + b13 * c3 + bt1) - 24 * q :=
    ⟨_, Int.emod_def _ _⟩
  obtain ⟨q2, h2⟩ : ∃ q, (b21 * c1 + b22 * c2 + b23 * c3 + bt2) % 24 = (b21 * c1 + b22 * c2 + b23 * c3 + bt2) - 24 * q :=
    ⟨_, Int.emod_def _ _⟩
  obtain ⟨q3, h3⟩ : ∃ q, (b31 * c1 + b32 * c2 + b33 * c3 + bt3) % 24 = (b31 * c1 + b32 * c2 + b33 * c3 + bt3) - 24 * q :=
    ⟨_, Int.emod_def _ _⟩
  rw [h0, h1, h2, h3]
  apply emod_congr (a1 * q1 + a2 * q2 + a3 * q3 - q0)
  grind

theorem comp_assoc (a b c : Op) : comp (comp a b) c = comp a (comp b c) := by
  apply Op.ext'
  · simp only [comp]; grind
  · simp only [comp]; grind
  · simp only [comp]; grind
  · simp only [comp]; grind
  · simp only [comp]; grind
  · simp only [comp]; grind
  · simp only [comp]; grind
  · simp only [comp]; grind
  · simp only [comp]; grind
  · simp only [comp]; exact assoc_t ..
  · simp only [comp]; exact assoc_t ..
  · simp only [comp]; exact assoc_t ..

/-! ### list helpers -/

theorem all_range {n : Nat} {f : Nat → Bool} : (List.range n).all f = true ↔ ∀ i, i < n → f i = true := by
  simp [List.all_eq_true, List.mem_range]

theorem getOp_of_lt {G : List Op} {i : Nat} (h : i < G.length) : getOp G i = G[i] := by
  simp [getOp, List.getD_eq_getElem?_getD, List.getElem?_eq_getElem h]

theorem getOp_mem {G : List Op} {i : Nat} (h : i < G.length) : getOp G i ∈ G := by
  rw [getOp_of_lt h]; exact List.getElem_mem h

theorem exists_getOp_of_mem {G : List Op} {a : Op} (h : a ∈ G) : ∃ i, i < G.length ∧ getOp G i = a := by
  obtain ⟨i, hi, rfl⟩ := List.getElem_of_mem h
  exact ⟨i, hi, getOp_of_lt hi⟩

theorem pairwiseNe_map_pairwise {α : Type} (f : α → Nat) :
    ∀ (l : List α), pairwiseNe (l.map f) = true → l.Pairwise (fun a b => f a ≠ f b)
  | [], _ => List.Pairwise.nil
  | a :: l, h => by
    simp only [List.map_cons, pairwiseNe, Bool.and_eq_true, List.all_eq_true, List.mem_map, bne_iff_ne] at h
    refine List.Pairwise.cons ?_ (pairwiseNe_map_pairwise f l h.2)
    intro b hb
    exact h.1 (f b) ⟨b, hb, rfl⟩

theorem pairwiseNe_map_nodup {α : Type} (f : α → Nat) (l : List α) (h : pairwiseNe (l.map f) = true) :
    l.Nodup :=
  (pairwiseNe_map_pairwise f l h).imp (fun hne e => hne (congrArg f e))

/-! ### groups of operations modulo lattice translations -/

/-- `G` (operations with translations reduced to `[0,24)` 24ths) is a group under `comp`, i.e. composition
modulo lattice translations.  Together with `comp_assoc`, `comp_one`, `one_comp` these are the group axioms. -/
structure IsGroupModLattice (G : List Op) : Prop where
  /-- the identity is present -/
  one_mem : one ∈ G
  /-- closed under composition -/
  closed : ∀ a ∈ G, ∀ b ∈ G, comp a b ∈ G
  /-- inverses are present -/
  inv : ∀ a ∈ G, ∃ b ∈ G, comp a b = one
  /-- no duplicates -/
  nodup : G.Nodup
  /-- all translations are reduced (so that `one` is a two-sided unit on `G`) -/
  reduced : ∀ a ∈ G, Reduced a

/-- in a group modulo the lattice a right inverse is also a left inverse -/
theorem IsGroupModLattice.inv_left {G : List Op} (hG : IsGroupModLattice G) {a b : Op} (ha : a ∈ G) (hb : b ∈ G)
    (hab : comp a b = one) : comp b a = one := by
  obtain ⟨c, hc, hbc⟩ := hG.inv b hb
  have hba : comp b a ∈ G := hG.closed b hb a ha
  calc comp b a = comp (comp b a) one := (comp_one (hG.reduced _ hba)).symm
    _ = comp (comp b a) (comp b c) := by rw [hbc]
    _ = comp b (comp (comp a b) c) := by simp only [comp_assoc]
    _ = comp b (comp one c) := by rw [hab]
    _ = comp b c := by rw [one_comp (hG.reduced c hc)]
    _ = one := hbc

/-- two-sided inverses -/
theorem IsGroupModLattice.inv' {G : List Op} (hG : IsGroupModLattice G) :
    ∀ a ∈ G, ∃ b ∈ G, comp a b = one ∧ comp b a = one := by
  intro a ha
  obtain ⟨b, hb, hab⟩ := hG.inv a ha
  exact ⟨b, hb, hab, hG.inv_left ha hb hab⟩

/-! ### Prop-level reading of the certificate checks -/

/-- what the certificate checks say, quantified over indices -/
structure CertFacts (G : List Op) (c : Cert) : Prop where
  prod : ∀ i, i < G.length → ∀ k, k < c.gens.length →
    ∃ j, j < G.length ∧ comp (getOp G i) (getOp G (c.gens.getD k 0)) = getOp G j
  id_lt : c.idIdx < G.length
  id_eq : getOp G c.idIdx = one
  tree : ∀ i, i < G.length → i = c.idIdx ∨
    ∃ p, p < G.length ∧ ∃ k, k < c.gens.length ∧ c.depth.getD p 0 < c.depth.getD i 0 ∧
      comp (getOp G p) (getOp G (c.gens.getD k 0)) = getOp G i
  inv : ∀ i, i < G.length → ∃ j, j < G.length ∧ comp (getOp G i) (getOp G j) = one

theorem checkProd_sound {G : List Op} {c : Cert} (h : checkProd G c = true) :
    ∀ i, i < G.length → ∀ k, k < c.gens.length →
      ∃ j, j < G.length ∧ comp (getOp G i) (getOp G (c.gens.getD k 0)) = getOp G j := by
  simp only [checkProd, all_range, Bool.and_eq_true, decide_eq_true_eq, opEq_iff] at h
  intro i hi k hk
  exact ⟨_, (h i hi).2 k hk⟩

theorem checkTree_sound {G : List Op} {c : Cert} (h : checkTree G c = true) :
    c.idIdx < G.length ∧ getOp G c.idIdx = one ∧
    ∀ i, i < G.length → i = c.idIdx ∨
      ∃ p, p < G.length ∧ ∃ k, k < c.gens.length ∧ c.depth.getD p 0 < c.depth.getD i 0 ∧
        comp (getOp G p) (getOp G (c.gens.getD k 0)) = getOp G i := by
  simp only [checkTree, all_range, Bool.and_eq_true, Bool.or_eq_true, decide_eq_true_eq, opEq_iff,
    beq_iff_eq] at h
  obtain ⟨⟨⟨⟨⟨h1, h2⟩, _⟩, _⟩, _⟩, h6⟩ := h
  refine ⟨h1, h2, ?_⟩
  intro i hi
  rcases h6 i hi with h | ⟨⟨⟨hp, hk⟩, hd⟩, he⟩
  · exact Or.inl h
  · exact Or.inr ⟨_, hp, _, hk, hd, he⟩

theorem checkInv_sound {G : List Op} {c : Cert} (h : checkInv G c = true) :
    ∀ i, i < G.length → ∃ j, j < G.length ∧ comp (getOp G i) (getOp G j) = one := by
  simp only [checkInv, all_range, Bool.and_eq_true, decide_eq_true_eq, opEq_iff] at h
  intro i hi
  exact ⟨_, h.2 i hi⟩

theorem certFacts_of_checks {G : List Op} {c : Cert} (hp : checkProd G c = true) (ht : checkTree G c = true)
    (hi : checkInv G c = true) : CertFacts G c :=
  { prod := checkProd_sound hp
    id_lt := (checkTree_sound ht).1
    id_eq := (checkTree_sound ht).2.1
    tree := (checkTree_sound ht).2.2
    inv := checkInv_sound hi }

/-- closure from the certificate: every element is a product of generators along the spanning tree, and the
set is closed under right multiplication by each generator -/
theorem CertFacts.closed_idx {G : List Op} {c : Cert} (hc : CertFacts G c) (hred : ∀ a ∈ G, Reduced a) :
    ∀ d j, j < G.length → c.depth.getD j 0 < d →
      ∀ i, i < G.length → ∃ m, m < G.length ∧ comp (getOp G i) (getOp G j) = getOp G m := by
  intro d
  induction d with
  | zero => intro j _ h; exact absurd h (Nat.not_lt_zero _)
  | succ d ih =>
    intro j hj hd i hi
    rcases hc.tree j hj with rfl | ⟨p, hp, k, hk, hdp, he⟩
    · refine ⟨i, hi, ?_⟩
      rw [hc.id_eq, comp_one (hred _ (getOp_mem hi))]
    · obtain ⟨m, hm, hme⟩ := ih p hp (by omega) i hi
      obtain ⟨m', hm', hme'⟩ := hc.prod m hm k hk
      refine ⟨m', hm', ?_⟩
      rw [← he, ← comp_assoc, hme, hme']

theorem CertFacts.isGroup {G : List Op} {c : Cert} (hc : CertFacts G c) (hred : ∀ a ∈ G, Reduced a)
    (hnd : G.Nodup) : IsGroupModLattice G where
  one_mem := hc.id_eq ▸ getOp_mem hc.id_lt
  closed := by
    intro a ha b hb
    obtain ⟨i, hi, rfl⟩ := exists_getOp_of_mem ha
    obtain ⟨j, hj, rfl⟩ := exists_getOp_of_mem hb
    obtain ⟨m, hm, hme⟩ := hc.closed_idx hred _ j hj (Nat.lt_succ_self _) i hi
    rw [hme]; exact getOp_mem hm
  inv := by
    intro a ha
    obtain ⟨i, hi, rfl⟩ := exists_getOp_of_mem ha
    obtain ⟨j, hj, he⟩ := hc.inv i hi
    exact ⟨_, getOp_mem hj, he⟩
  nodup := hnd
  reduced := hred

/-! ### snapping of the tabulated decimals, entries -/

/-- the tabulated decimal `t` (micro-units) is within 5·10⁻⁷ of `snap t / 24`, and `snap t ∈ [0,24)` -/
def SnapOk (t : Int) : Prop :=
  24 * t - 1000000 * snap t ≤ 12 ∧ 1000000 * snap t - 24 * t ≤ 12 ∧ 0 ≤ snap t ∧ snap t < 24

theorem snapOk_iff {t : Int} : snapOk t = true ↔ SnapOk t := by
  simp [snapOk, SnapOk, and_assoc]

/-- all nine rotation entries are in `{-1, 0, 1}` -/
def EntriesOk (a : Op) : Prop :=
  (a.r11 = -1 ∨ a.r11 = 0 ∨ a.r11 = 1) ∧ (a.r12 = -1 ∨ a.r12 = 0 ∨ a.r12 = 1) ∧
  (a.r13 = -1 ∨ a.r13 = 0 ∨ a.r13 = 1) ∧ (a.r21 = -1 ∨ a.r21 = 0 ∨ a.r21 = 1) ∧
  (a.r22 = -1 ∨ a.r22 = 0 ∨ a.r22 = 1) ∧ (a.r23 = -1 ∨ a.r23 = 0 ∨ a.r23 = 1) ∧
  (a.r31 = -1 ∨ a.r31 = 0 ∨ a.r31 = 1) ∧ (a.r32 = -1 ∨ a.r32 = 0 ∨ a.r32 = 1) ∧
  (a.r33 = -1 ∨ a.r33 = 0 ∨ a.r33 = 1)

theorem entriesOk_iff {a : Op} : entriesOk a = true ↔ EntriesOk a := by
  simp [entriesOk, EntriesOk, and_assoc, or_assoc]

/-- when the snapped value is in range the `% 24` of `ofSg` is the identity -/
theorem ofSg_t_eq {o : SgOp} (h : SnapOk o.t1 ∧ SnapOk o.t2 ∧ SnapOk o.t3) :
    (ofSg o).t1 = snap o.t1 ∧ (ofSg o).t2 = snap o.t2 ∧ (ofSg o).t3 = snap o.t3 := by
  simp only [SnapOk, ofSg] at *; omega

theorem opsOf_reduced (t : SgTable) : ∀ a ∈ opsOf t, Reduced a := by
  intro a ha
  simp only [opsOf, List.mem_map] at ha
  obtain ⟨o, _, rfl⟩ := ha
  exact ofSg_reduced o

/-! ### soundness of `checkGroup` -/

/-- Soundness of the Boolean group check: for ANY certificate `c` accepted by `checkGroup`, the table
operations (translations snapped to 24ths) form a group modulo lattice translations, there are exactly `nsymop`
of them, every tabulated translation decimal is within 5·10⁻⁷ of a 24th in `[0,1)`, and all rotation entries are
in `{-1,0,1}`. -/
theorem checkGroup_sound (t : SgTable) (c : Cert) (h : checkGroup t c = true) :
    IsGroupModLattice (opsOf t) ∧ (opsOf t).length = t.nsymop ∧
    (∀ o ∈ t.ops, SnapOk o.t1 ∧ SnapOk o.t2 ∧ SnapOk o.t3) ∧
    (∀ a ∈ opsOf t, EntriesOk a) := by
  simp only [checkGroup, Bool.and_eq_true, beq_iff_eq] at h
  obtain ⟨⟨⟨⟨⟨⟨⟨hlen, hsnap⟩, hent⟩, hne⟩, hgens⟩, hprod⟩, htree⟩, hinv⟩ := h
  refine ⟨?_, hlen, ?_, ?_⟩
  · exact (certFacts_of_checks hprod htree hinv).isGroup (opsOf_reduced t) (pairwiseNe_map_nodup key _ hne)
  · intro o ho
    simp only [allSnapOk, List.all_eq_true, Bool.and_eq_true, snapOk_iff] at hsnap
    have := hsnap o ho
    exact ⟨this.1.1, this.1.2, this.2⟩
  · intro a ha
    simp only [List.all_eq_true] at hent
    exact entriesOk_iff.1 (hent a ha)

/-! ### keys are injective on operations with entries in `{-1,0,1}` -/

private theorem digit3 {x y x' y' : Nat} (hy : y < 3) (hy' : y' < 3) (h : x * 3 + y = x' * 3 + y') :
    x = x' ∧ y = y' := by omega

private theorem digit24 {x y x' y' : Nat} (hy : y < 24) (hy' : y' < 24) (h : x * 24 + y = x' * 24 + y') :
    x = x' ∧ y = y' := by omega

private theorem dig_lt {x : Int} (h : x = -1 ∨ x = 0 ∨ x = 1) : (x + 1).toNat < 3 := by omega

private theorem dig_inj {x y : Int} (hx : x = -1 ∨ x = 0 ∨ x = 1) (hy : y = -1 ∨ y = 0 ∨ y = 1)
    (h : (x + 1).toNat = (y + 1).toNat) : x = y := by omega

private theorem toNat_inj {x y : Int} (hx : 0 ≤ x) (hy : 0 ≤ y) (h : x.toNat = y.toNat) : x = y := by omega

private theorem toNat_lt24 {x : Int} (hx : x < 24) : x.toNat < 24 := by omega

theorem key_inj {a b : Op} (ha : EntriesOk a) (hb : EntriesOk b) (ra : Reduced a) (rb : Reduced b)
    (h : key a = key b) : a = b := by
  obtain ⟨a1, a2, a3, a4, a5, a6, a7, a8, a9⟩ := ha
  obtain ⟨b1, b2, b3, b4, b5, b6, b7, b8, b9⟩ := hb
  obtain ⟨⟨p1, q1⟩, ⟨p2, q2⟩, ⟨p3, q3⟩⟩ := ra
  obtain ⟨⟨p1', q1'⟩, ⟨p2', q2'⟩, ⟨p3', q3'⟩⟩ := rb
  simp only [key] at h
  obtain ⟨h, e3⟩ := digit24 (toNat_lt24 q3) (toNat_lt24 q3') h
  obtain ⟨h, e2⟩ := digit24 (toNat_lt24 q2) (toNat_lt24 q2') h
  obtain ⟨h, e1⟩ := digit24 (toNat_lt24 q1) (toNat_lt24 q1') h
  obtain ⟨h, d9⟩ := digit3 (dig_lt a9) (dig_lt b9) h
  obtain ⟨h, d8⟩ := digit3 (dig_lt a8) (dig_lt b8) h
  obtain ⟨h, d7⟩ := digit3 (dig_lt a7) (dig_lt b7) h
  obtain ⟨h, d6⟩ := digit3 (dig_lt a6) (dig_lt b6) h
  obtain ⟨h, d5⟩ := digit3 (dig_lt a5) (dig_lt b5) h
  obtain ⟨h, d4⟩ := digit3 (dig_lt a4) (dig_lt b4) h
  obtain ⟨h, d3⟩ := digit3 (dig_lt a3) (dig_lt b3) h
  obtain ⟨d1, d2⟩ := digit3 (dig_lt a2) (dig_lt b2) h
  exact Op.ext' (dig_inj a1 b1 d1) (dig_inj a2 b2 d2) (dig_inj a3 b3 d3) (dig_inj a4 b4 d4) (dig_inj a5 b5 d5)
    (dig_inj a6 b6 d6) (dig_inj a7 b7 d7) (dig_inj a8 b8 d8) (dig_inj a9 b9 d9)
    (toNat_inj p1 p1' e1) (toNat_inj p2 p2' e2) (toNat_inj p3 p3' e3)

/-- the operation with the same rotation and zero translation -/
def rotOnly (a : Op) : Op := { a with t1 := 0, t2 := 0, t3 := 0 }

theorem rotKey_inj {a b : Op} (ha : EntriesOk a) (hb : EntriesOk b) (h : rotKey a = rotKey b) : RotEq a b := by
  have := key_inj (a := rotOnly a) (b := rotOnly b) ha hb (by simp [Reduced, rotOnly]) (by simp [Reduced, rotOnly]) h
  have h2 : RotEq (rotOnly a) (rotOnly b) := this ▸ RotEq.refl _
  exact h2

theorem rotKey_congr {a b : Op} (h : RotEq a b) : rotKey a = rotKey b := by
  simp only [rotKey, key, RotEq] at *
  obtain ⟨h1, h2, h3, h4, h5, h6, h7, h8, h9⟩ := h
  rw [h1, h2, h3, h4, h5, h6, h7, h8, h9]

/-! ### meaning of `preserves` -/

/-- the bilinear form `xᵀ G y` of a symmetric matrix given by six numbers, written out -/
def quad (x1 x2 x3 y1 y2 y3 : Int) (g : Sym6) : Int :=
  x1 * g.g11 * y1 + x1 * g.g12 * y2 + x1 * g.g13 * y3 + x2 * g.g12 * y1 + x2 * g.g22 * y2 + x2 * g.g23 * y3 +
    x3 * g.g13 * y1 + x3 * g.g23 * y2 + x3 * g.g33 * y3

/-- `RᵀGR = G`, the nine integer equations (entry `(i,j)`: column `i` of `R` against column `j` through `G`) -/
def Preserves (a : Op) (g : Sym6) : Prop :=
  quad a.r11 a.r21 a.r31 a.r11 a.r21 a.r31 g = g.g11 ∧
  quad a.r11 a.r21 a.r31 a.r12 a.r22 a.r32 g = g.g12 ∧
  quad a.r11 a.r21 a.r31 a.r13 a.r23 a.r33 g = g.g13 ∧
  quad a.r12 a.r22 a.r32 a.r11 a.r21 a.r31 g = g.g12 ∧
  quad a.r12 a.r22 a.r32 a.r12 a.r22 a.r32 g = g.g22 ∧
  quad a.r12 a.r22 a.r32 a.r13 a.r23 a.r33 g = g.g23 ∧
  quad a.r13 a.r23 a.r33 a.r11 a.r21 a.r31 g = g.g13 ∧
  quad a.r13 a.r23 a.r33 a.r12 a.r22 a.r32 g = g.g23 ∧
  quad a.r13 a.r23 a.r33 a.r13 a.r23 a.r33 g = g.g33

theorem preserves_iff (a : Op) (g : Sym6) : preserves a g = true ↔ Preserves a g := by
  simp [preserves, Preserves, quad, List.range, List.range.loop, List.foldl, List.all, and_assoc]

theorem Preserves.congr {a u : Op} {g : Sym6} (h : RotEq a u) (hu : Preserves u g) : Preserves a g := by
  obtain ⟨h1, h2, h3, h4, h5, h6, h7, h8, h9⟩ := h
  simp only [Preserves, h1, h2, h3, h4, h5, h6, h7, h8, h9] at *
  exact hu

/-! ### `dedup`, `laueSystemOk` -/

theorem mem_dedup {x : Nat} : ∀ {l : List Nat}, x ∈ dedup l ↔ x ∈ l
  | [] => by simp [dedup]
  | y :: l => by
    by_cases h : l.contains y = true
    · have hy : y ∈ l := by simpa using h
      simp only [dedup, h, if_true, List.mem_cons, mem_dedup (l := l)]
      constructor
      · exact Or.inr
      · rintro (rfl | h')
        · exact hy
        · exact h'
    · simp only [dedup, h, Bool.false_eq_true, if_false, List.mem_cons]
      rw [mem_dedup (l := l)]

theorem dedup_nodup : ∀ (l : List Nat), (dedup l).Nodup
  | [] => by simp [dedup]
  | y :: l => by
    by_cases h : l.contains y = true
    · simp only [dedup, h, if_true]; exact dedup_nodup l
    · have hy : y ∉ l := by simpa using h
      simp only [dedup, h]
      simp only [Bool.false_eq_true, if_false, List.nodup_cons]
      exact ⟨fun hm => hy (mem_dedup.1 hm), dedup_nodup l⟩

/-- the admissible (crystal system, Laue class) pairs -/
theorem laueSystemOk_iff (l cs : String) : laueSystemOk l cs = true ↔
    (cs = "triclinic" ∧ l = "-1") ∨ (cs = "monoclinic" ∧ l = "2/m") ∨ (cs = "orthorhombic" ∧ l = "mmm") ∨
    (cs = "tetragonal" ∧ (l = "4/m" ∨ l = "4/mmm")) ∨
    (cs = "trigonal" ∧ (l = "-3" ∨ l = "-3m" ∨ l = "-3m1" ∨ l = "-31m")) ∨
    (cs = "hexagonal" ∧ (l = "6/m" ∨ l = "6/mmm")) ∨ (cs = "cubic" ∧ (l = "m-3" ∨ l = "m-3m")) := by
  unfold laueSystemOk
  by_cases h1 : cs = "triclinic"
  · subst h1; simp
  by_cases h2 : cs = "monoclinic"
  · subst h2; simp
  by_cases h3 : cs = "orthorhombic"
  · subst h3; simp
  by_cases h4 : cs = "tetragonal"
  · subst h4; simp
  by_cases h5 : cs = "trigonal"
  · subst h5; simp [or_assoc]
  by_cases h6 : cs = "hexagonal"
  · subst h6; simp
  by_cases h7 : cs = "cubic"
  · subst h7; simp
  simp [h1, h2, h3, h4, h5, h6, h7]

/-! ### soundness of `checkMeta` and `checkTable` -/

/-- the first `nuniq` operations of the table -/
def uniqOf (t : SgTable) : List Op := (opsOf t).take t.nuniq

/-- Prop-level reading of `checkMeta` -/
structure MetaFacts (t : SgTable) : Prop where
  nuniq_pos : 0 < t.nuniq
  nuniq_le : t.nuniq ≤ t.nsymop
  /-- the first `nuniq` rotations are pairwise different -/
  uniq_distinct : (uniqOf t).Pairwise (fun a b => ¬ RotEq a b)
  /-- every rotation part occurs (by key) among the first `nuniq` -/
  uniq_exhaust : ∀ a ∈ opsOf t, ∃ u ∈ uniqOf t, rotKey a = rotKey u
  /-- `nsymop = nuniq ×` number of operations with identity rotation (the centring translations) -/
  nsymop_eq : t.nsymop = t.nuniq * ((opsOf t).filter fun a => rotEq a one).length
  /-- the number of distinct rotation keys among `{R, -R : R` one of the first `nuniq` rotations`}` is the
  order of the Laue class (see `mem_dedup`, `dedup_nodup`, `rotKey_inj`, `rotKey_congr`) -/
  laue_order : (dedup ((uniqOf t).map rotKey ++ (uniqOf t).map fun a => rotKey (negRot a))).length
      = laueOrder t.laue
  /-- Laue class and crystal system are compatible (see `laueSystemOk_iff`) -/
  laue_system : laueSystemOk t.laue t.crystalSystem = true
  syscond_len : t.syscond.length = 26
  basis_ne : metricBasis t.crystalSystem t.cellChoice ≠ []
  /-- the first `nuniq` rotations preserve every basis metric of the crystal system / setting -/
  metric : ∀ a ∈ uniqOf t, ∀ g ∈ metricBasis t.crystalSystem t.cellChoice, Preserves a g

theorem checkMeta_sound (t : SgTable) (h : checkMeta t = true) : MetaFacts t := by
  simp only [checkMeta, Bool.and_eq_true, decide_eq_true_eq, beq_iff_eq] at h
  obtain ⟨⟨⟨⟨⟨⟨⟨⟨⟨h1, h2⟩, h3⟩, h4⟩, h5⟩, h6⟩, h7⟩, h8⟩, h9⟩, h10⟩ := h
  refine ⟨h1, h2, ?_, ?_, h5, h6, h7, h8, ?_, ?_⟩
  · exact (pairwiseNe_map_pairwise rotKey _ h3).imp (fun hne e => hne (rotKey_congr e))
  · intro a ha
    simp only [List.all_eq_true, List.mem_map, List.contains_iff_mem] at h4
    obtain ⟨u, hu, he⟩ := h4 (rotKey a) ⟨a, ha, rfl⟩
    exact ⟨u, hu, he.symm⟩
  · intro hnil
    rw [hnil] at h9
    simp at h9
  · intro a ha g hg
    simp only [List.all_eq_true] at h10
    exact (preserves_iff a g).1 (h10 a ha g hg)

/-- everything `checkTable` establishes, with the rotation statements strengthened from keys to the nine
integers using the `{-1,0,1}` entry bound of `checkGroup` -/
structure TableFacts (t : SgTable) : Prop where
  group : IsGroupModLattice (opsOf t)
  length_eq : (opsOf t).length = t.nsymop
  snap : ∀ o ∈ t.ops, SnapOk o.t1 ∧ SnapOk o.t2 ∧ SnapOk o.t3
  entries : ∀ a ∈ opsOf t, EntriesOk a
  metaFacts : MetaFacts t
  /-- every operation's rotation is one of the first `nuniq` rotations -/
  rot_among_uniq : ∀ a ∈ opsOf t, ∃ u ∈ uniqOf t, RotEq a u
  /-- every operation preserves every basis metric of the crystal system / setting -/
  metric_all : ∀ a ∈ opsOf t, ∀ g ∈ metricBasis t.crystalSystem t.cellChoice, Preserves a g

theorem checkTable_sound (t : SgTable) (c : Cert) (h : checkTable t c = true) : TableFacts t := by
  simp only [checkTable, Bool.and_eq_true] at h
  obtain ⟨hg, hm⟩ := checkGroup_sound t c h.1
  obtain ⟨hlen, hsnap, hent⟩ := hm
  have hmeta := checkMeta_sound t h.2
  have hrot : ∀ a ∈ opsOf t, ∃ u ∈ uniqOf t, RotEq a u := by
    intro a ha
    obtain ⟨u, hu, he⟩ := hmeta.uniq_exhaust a ha
    exact ⟨u, hu, rotKey_inj (hent a ha) (hent u (List.mem_of_mem_take hu)) he⟩
  refine ⟨hg, hlen, hsnap, hent, hmeta, hrot, ?_⟩
  intro a ha g hgm
  obtain ⟨u, hu, he⟩ := hrot a ha
  exact (hmeta.metric u hu g hgm).congr he

end Sg
