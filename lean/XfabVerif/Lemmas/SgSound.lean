/-
Soundness of the Boolean space-group certificate checker of `XfabVerif/Model/SgModel.lean`
(`Sg.checkGroup`, `Sg.checkMeta`, `Sg.checkTable`): the Boolean facts about an (untrusted) certificate are lifted
once and for all to propositions quantified over ALL pairs of table operations.

Core Lean only (no Mathlib).
-/
import XfabVerif.Model.SgModel

set_option linter.unusedVariables false

namespace Sg

/-! ### extensionality, `opEq`, `rotEq` -/

theorem Op.ext' {a b : Op}
    (h11 : a.r11 = b.r11) (h12 : a.r12 = b.r12) (h13 : a.r13 = b.r13)
    (h21 : a.r21 = b.r21) (h22 : a.r22 = b.r22) (h23 : a.r23 = b.r23)
    (h31 : a.r31 = b.r31) (h32 : a.r32 = b.r32) (h33 : a.r33 = b.r33)
    (ht1 : a.t1 = b.t1) (ht2 : a.t2 = b.t2) (ht3 : a.t3 = b.t3) : a = b := by
  cases a; cases b; simp_all

/-- same rotation part (all nine integers equal) -/
def RotEq (a b : Op) : Prop :=
  a.r11 = b.r11 ∧ a.r12 = b.r12 ∧ a.r13 = b.r13 ∧ a.r21 = b.r21 ∧ a.r22 = b.r22 ∧ a.r23 = b.r23 ∧
  a.r31 = b.r31 ∧ a.r32 = b.r32 ∧ a.r33 = b.r33

theorem rotEq_iff {a b : Op} : rotEq a b = true ↔ RotEq a b := by
  simp [rotEq, RotEq, and_assoc]

theorem opEq_iff {a b : Op} : opEq a b = true ↔ a = b := by
  constructor
  · intro h
    simp only [opEq, rotEq, Bool.and_eq_true, beq_iff_eq] at h
    apply Op.ext' <;> omega
  · intro h
    subst h
    simp [opEq, rotEq]

/-- equality of all twelve components, as decided by `opEq` -/
def Equiv (a b : Op) : Prop := opEq a b = true

theorem equiv_iff_eq {a b : Op} : Equiv a b ↔ a = b := opEq_iff

theorem equiv_equivalence : Equivalence Equiv where
  refl a := equiv_iff_eq.2 rfl
  symm h := equiv_iff_eq.2 (equiv_iff_eq.1 h).symm
  trans h1 h2 := equiv_iff_eq.2 ((equiv_iff_eq.1 h1).trans (equiv_iff_eq.1 h2))

theorem RotEq.refl (a : Op) : RotEq a a := by simp [RotEq]
theorem RotEq.symm {a b : Op} (h : RotEq a b) : RotEq b a := by
  simp only [RotEq] at *; omega
theorem RotEq.trans {a b c : Op} (h : RotEq a b) (h' : RotEq b c) : RotEq a c := by
  simp only [RotEq] at *; omega

/-! ### translations reduced to `[0,24)` -/

/-- translation components lie in `[0,24)` -/
def Reduced (a : Op) : Prop :=
  (0 ≤ a.t1 ∧ a.t1 < 24) ∧ (0 ≤ a.t2 ∧ a.t2 < 24) ∧ (0 ≤ a.t3 ∧ a.t3 < 24)

theorem one_reduced : Reduced one := by simp [Reduced, one]

theorem comp_reduced (a b : Op) : Reduced (comp a b) := by
  simp only [Reduced, comp]; omega

theorem ofSg_reduced (o : SgOp) : Reduced (ofSg o) := by
  simp only [Reduced, ofSg]; omega

theorem comp_one {a : Op} (h : Reduced a) : comp a one = a := by
  obtain ⟨h1, h2, h3⟩ := h
  apply Op.ext' <;> simp [comp, one] <;> omega

theorem one_comp {a : Op} (h : Reduced a) : comp one a = a := by
  obtain ⟨h1, h2, h3⟩ := h
  apply Op.ext' <;> simp [comp, one] <;> omega

/-! ### associativity of composition modulo the lattice -/

private theorem emod_congr {x y : Int} (k : Int) (h : x = y + 24 * k) : x % 24 = y % 24 := by
  subst h; exact Int.add_mul_emod_self_left y 24 k

private theorem assoc_t (a1 a2 a3 at' b11 b12 b13 b21 b22 b23 b31 b32 b33 bt1 bt2 bt3 c1 c2 c3 : Int) :
    ((a1 * b11 + a2 * b21 + a3 * b31) * c1 + (a1 * b12 + a2 * b22 + a3 * b32) * c2 +
        (a1 * b13 + a2 * b23 + a3 * b33) * c3 + (a1 * bt1 + a2 * bt2 + a3 * bt3 + at') % 24) % 24 =
    (a1 * ((b11 * c1 + b12 * c2 + b13 * c3 + bt1) % 24) + a2 * ((b21 * c1 + b22 * c2 + b23 * c3 + bt2) % 24) +
        a3 * ((b31 * c1 + b32 * c2 + b33 * c3 + bt3) % 24) + at') % 24 := by
  obtain ⟨q0, h0⟩ : ∃ q, (a1 * bt1 + a2 * bt2 + a3 * bt3 + at') % 24 = (a1 * bt1 + a2 * bt2 + a3 * bt3 + at') - 24 * q :=
    ⟨_, Int.emod_def _ _⟩
  obtain ⟨q1, h1⟩ : ∃ q, (b11 * c1 + b12 * c2 + b13 * c3 + bt1) % 24 = (b11 * c1 + b12 * c2 + b13 * c3 + bt1) - 24 * q :=
    ⟨_, Int.emod_def _ _⟩
  obtain ⟨q2, h2⟩ : ∃ q, (b21 * c1 + b22 * c2 + b23 * c3 + bt2) % 24 = (b21 * c1 + b22 * c2 + b23 * c3 + bt2) - 24 * q :=
    ⟨_, Int.emod_def _ _⟩
  obtain ⟨q3, h3⟩ : ∃ q, (b31 * c1 + b32 * c2 + b33 * c3 + bt3) % 24 = (b31 * c1 + b32 * c2 + b33 * c3 + bt3) - 24 * q :=
    ⟨_, Int.emod_def _ _⟩
  rw [h0, h1, h2, h3]
  apply emod_congr (a1 * q1 + a2 * q2 + a3 * q3 - q0)
  grind

theorem comp_assoc (a b c : Op) : comp (comp a b) c = comp a (comp b c) := by
  apply Op.ext'
  · simp only [comp]; grind
  · simp only [comp]; grind
  · simp only [comp]; grind
  · simp only [comp]; grind
  · simp only [comp]; grind
  · simp only [comp]; grind
  · simp only [comp]; grind
  · simp only [comp]; grind
  · simp only [comp]; grind
  · simp only [comp]; exact assoc_t ..
  · simp only [comp]; exact assoc_t ..
  · simp only [comp]; exact assoc_t ..

end Sg
