/-
Theorem T5.3 of property C05 / C06 — TRAVERSAL EXACTNESS of `genhkl_base`.

The three nested `while` loops of `genhkl_base` (model: `Hkl.row` / `Hkl.plane` / `Hkl.cone`, `Model/Hkl.lean`) visit, for
one segment `sg = (s, d₁, d₂, d₃)`, EXACTLY the cone points `x = s + n₃d₃ + n₂d₂ + n₁d₁` (`nᵢ ∈ ℕ`) whose PATH

    s + m·d₃ (1 ≤ m ≤ n₃),   s + n₃d₃ + m·d₂ (1 ≤ m ≤ n₂),   s + n₃d₃ + n₂d₂ + m·d₁ (1 ≤ m ≤ n₁)

passes every stop test `Q ≤ M` — whatever the function `Q` (no hypothesis on `q`), provided no loop was cut by the fuel
(`fuelOkSeg`).  The soundness half is `traverse_sound` / `visited_start_or_inside` of `Proofs/C05.lean`; new here is
the completeness half (by induction on the fuel, generalising the start point).

* `T53.pt`, `T53.PathInside`        : the cone point and the path condition.
* `T53.row_exact`, `plane_exact`, `cone_exact`, `T53.traverse_exact`.
* `T53.PathClosed q M segs hi`      : every cone point of `segs` with `q x ≤ hi` has its path inside `M`.
* `T53.visited_exact`, `T53.visited_complete` : under `fuelOk` and `PathClosed`, every cone point with `Q ≤ 4·max²` is visited.
* `T53.scale_ge_one`, `T53.M_ge`    : `sintl_scale ≥ 1` for both modules, every Laue class / setting, so `4·max² ≤ M`.
* `T53.MonoPath`, `T53.GramOk`, `T53.pathClosed_of_mono`, `T53.pathClosed_of_gram` : a sufficient condition on the Gram
  numbers of the segment (`B(dᵢ,dⱼ) ≥ 0`, `2B(s,dᵢ) + Q(dᵢ) ≥ 0`): `Q` is then non-decreasing along the path.
* `T53.gramOk_of_nonneg`            : it holds when all six coefficients of the form and all entries of the segment are `≥ 0`
  (orthogonal cells with the rules of mmm, 4/mmm, 4/m, m-3m, m-3; hexagonal cells (`g12 = g11/2 ≥ 0`) with 6/mmm, 6/m,
  -3m1); `T53.nonneg_rules` lists, kernel-decided, exactly which of the 14 rules have only non-negative entries.
* `T53.gramOk_hex`                  : hexagonal reciprocal metric `(a, a, c, 0, 0, a/2)`: every segment of the rules 6/mmm, 6/m,
  -3m1, -31m, -3 (hexagonal axes).

Termination (a fuel exists for positive definite forms) is in `Lemmas/T53Term.lean` (`T53.fuelOk_eventually`); the invariance
of conforming reciprocal forms under `Rots` in `Lemmas/ConformQ.lean`.

`PathClosed` is FALSE in general (oblique triclinic / monoclinic / rhombohedral cells: known finding D2), which is why it
is a hypothesis of the completeness statements; `T53.pathClosed_fails_example` exhibits a concrete failure.
-/
import XfabVerif.Lemmas.T54
import Mathlib.Algebra.Order.Field.Rat
import Mathlib.Tactic.Linarith
import Mathlib.Tactic.Positivity

set_option linter.unusedVariables false
set_option linter.style.longLine false
set_option linter.unusedSimpArgs false

namespace T53

open Hkl C05

/-! ### points on a line, the cone point, the path condition -/

/-- `p + m·d` -/
def stepN (p d : V) (m : Nat) : V := vadd p (vsmul (m : Int) d)

theorem stepN_zero (p d : V) : stepN p d 0 = p := vadd_vsmul_zero p d

theorem stepN_succ (p d : V) (m : Nat) : stepN p d (m + 1) = stepN (vadd p d) d m := by
  simp only [stepN, vsmul_succ, vadd_assoc]

theorem stepN_succ' (p d : V) (m : Nat) : stepN p d (m + 1) = vadd (stepN p d m) d := by
  simp only [stepN, vsmul, vadd, Prod.mk.injEq]; push_cast; refine ⟨?_, ?_, ?_⟩ <;> ring

theorem stepN_one (p d : V) : stepN p d 1 = vadd p d := by
  rw [stepN_succ, stepN_zero]

/-- all the points `p + m·d`, `1 ≤ m ≤ n`, pass the stop test -/
def Along (q : V → Rat) (M : Rat) (p d : V) (n : Nat) : Prop := ∀ m : Nat, 1 ≤ m → m ≤ n → q (stepN p d m) ≤ M

/-- the cone point `s + n₃·d₃ + n₂·d₂ + n₁·d₁` of a segment -/
def pt (sg : Segment) (n1 n2 n3 : Nat) : V :=
  vadd (vadd (vadd sg.s (vsmul (n3 : Int) sg.d3)) (vsmul (n2 : Int) sg.d2)) (vsmul (n1 : Int) sg.d1)

/-- the path of the loops to the cone point `(n₁, n₂, n₃)` passes every stop test `Q ≤ M`: first `n₃` steps of the outer
    loop, then `n₂` steps of the middle loop, then `n₁` steps of the inner loop (the start `s` itself is not tested) -/
def PathInside (q : V → Rat) (M : Rat) (sg : Segment) (n1 n2 n3 : Nat) : Prop :=
  (∀ m : Nat, 1 ≤ m → m ≤ n3 → q (vadd sg.s (vsmul (m : Int) sg.d3)) ≤ M) ∧
  (∀ m : Nat, 1 ≤ m → m ≤ n2 → q (vadd (vadd sg.s (vsmul (n3 : Int) sg.d3)) (vsmul (m : Int) sg.d2)) ≤ M) ∧
  (∀ m : Nat, 1 ≤ m → m ≤ n1 →
    q (vadd (vadd (vadd sg.s (vsmul (n3 : Int) sg.d3)) (vsmul (n2 : Int) sg.d2)) (vsmul (m : Int) sg.d1)) ≤ M)

theorem pt_eq_stepN (sg : Segment) (n1 n2 n3 : Nat) :
    pt sg n1 n2 n3 = stepN (stepN (stepN sg.s sg.d3 n3) sg.d2 n2) sg.d1 n1 := rfl

theorem pathInside_iff_along (q : V → Rat) (M : Rat) (sg : Segment) (n1 n2 n3 : Nat) :
    PathInside q M sg n1 n2 n3 ↔
      Along q M sg.s sg.d3 n3 ∧ Along q M (stepN sg.s sg.d3 n3) sg.d2 n2 ∧
        Along q M (stepN (stepN sg.s sg.d3 n3) sg.d2 n2) sg.d1 n1 := Iff.rfl

theorem along_zero (q : V → Rat) (M : Rat) (p d : V) : Along q M p d 0 := fun m h1 h2 => by omega

/-- one more step at the front -/
theorem along_succ (q : V → Rat) (M : Rat) (p d : V) (n : Nat) :
    Along q M p d (n + 1) ↔ q (vadd p d) ≤ M ∧ Along q M (vadd p d) d n := by
  constructor
  · intro h
    refine ⟨by have := h 1 (by omega) (by omega); rwa [stepN_one] at this, fun m h1 h2 => ?_⟩
    have := h (m + 1) (by omega) (by omega)
    rwa [stepN_succ] at this
  · rintro ⟨h0, h⟩ m h1 h2
    obtain ⟨m', rfl⟩ : ∃ m', m = m' + 1 := ⟨m - 1, by omega⟩
    rw [stepN_succ]
    rcases Nat.eq_zero_or_pos m' with rfl | hm'
    · rw [stepN_zero]; exact h0
    · exact h m' hm' (by omega)

/-! ### exactness of the three loops -/

/-- the inner loop visits exactly the points `p + n·d` all of whose predecessors `p + m·d`, `1 ≤ m ≤ n`, pass the test -/
theorem row_exact (q : V → Rat) (M : Rat) (d : V) : ∀ (fuel : Nat) (p x : V), (row q M d fuel p).length < fuel →
    (x ∈ row q M d fuel p ↔ ∃ n : Nat, x = stepN p d n ∧ Along q M p d n)
  | 0, p, x, h => by simp at h
  | fuel + 1, p, x, h => by
    simp only [row] at h ⊢
    by_cases hle : q (vadd p d) ≤ M
    · simp only [hle, if_true, List.length_cons] at h ⊢
      rw [List.mem_cons, row_exact q M d fuel (vadd p d) x (by omega)]
      constructor
      · rintro (rfl | ⟨n, rfl, hn⟩)
        · exact ⟨0, (stepN_zero _ _).symm, along_zero _ _ _ _⟩
        · exact ⟨n + 1, (stepN_succ _ _ _).symm, (along_succ _ _ _ _ _).2 ⟨hle, hn⟩⟩
      · rintro ⟨n, rfl, hn⟩
        cases n with
        | zero => exact Or.inl (stepN_zero _ _)
        | succ n => exact Or.inr ⟨n, stepN_succ _ _ _, ((along_succ _ _ _ _ _).1 hn).2⟩
    · simp only [hle, if_false, List.mem_cons, List.not_mem_nil, or_false]
      constructor
      · rintro rfl
        exact ⟨0, (stepN_zero _ _).symm, along_zero _ _ _ _⟩
      · rintro ⟨n, rfl, hn⟩
        cases n with
        | zero => exact stepN_zero _ _
        | succ n => exact absurd ((along_succ _ _ _ _ _).1 hn).1 hle

/-- the middle loop -/
theorem plane_exact (q : V → Rat) (M : Rat) (d1 d2 : V) (F : Nat) : ∀ (fuel : Nat) (p x : V),
    (plane q M d1 d2 F fuel p).length < fuel → (∀ r ∈ plane q M d1 d2 F fuel p, r.length < F) →
    (x ∈ (plane q M d1 d2 F fuel p).flatten ↔
      ∃ n1 n2 : Nat, x = stepN (stepN p d2 n2) d1 n1 ∧ Along q M p d2 n2 ∧ Along q M (stepN p d2 n2) d1 n1)
  | 0, p, x, h, _ => by simp at h
  | fuel + 1, p, x, h, hr => by
    simp only [plane] at h hr ⊢
    have hrow := row_exact q M d1 F p x (hr _ List.mem_cons_self)
    by_cases hle : q (vadd p d2) ≤ M
    · simp only [hle, if_true, List.length_cons] at h hr ⊢
      have ih := plane_exact q M d1 d2 F fuel (vadd p d2) x (by omega) (fun r h' => hr r (List.mem_cons_of_mem _ h'))
      rw [List.flatten_cons, List.mem_append, hrow, ih]
      constructor
      · rintro (⟨n1, rfl, h1⟩ | ⟨n1, n2, rfl, h2, h1⟩)
        · exact ⟨n1, 0, by rw [stepN_zero], along_zero _ _ _ _, by rw [stepN_zero]; exact h1⟩
        · exact ⟨n1, n2 + 1, by rw [stepN_succ], (along_succ _ _ _ _ _).2 ⟨hle, h2⟩, by rw [stepN_succ]; exact h1⟩
      · rintro ⟨n1, n2, rfl, h2, h1⟩
        cases n2 with
        | zero =>
          rw [stepN_zero] at h1 ⊢
          exact Or.inl ⟨n1, rfl, h1⟩
        | succ n2 =>
          rw [stepN_succ] at h1 ⊢
          exact Or.inr ⟨n1, n2, rfl, ((along_succ _ _ _ _ _).1 h2).2, h1⟩
    · simp only [hle, if_false] at h hr ⊢
      rw [List.flatten_cons, List.flatten_nil, List.append_nil, hrow]
      constructor
      · rintro ⟨n1, rfl, h1⟩
        exact ⟨n1, 0, by rw [stepN_zero], along_zero _ _ _ _, by rw [stepN_zero]; exact h1⟩
      · rintro ⟨n1, n2, rfl, h2, h1⟩
        cases n2 with
        | zero =>
          rw [stepN_zero] at h1 ⊢
          exact ⟨n1, rfl, h1⟩
        | succ n2 => exact absurd ((along_succ _ _ _ _ _).1 h2).1 hle

/-- the outer loop -/
theorem cone_exact (q : V → Rat) (M : Rat) (d1 d2 d3 : V) (F : Nat) : ∀ (fuel : Nat) (p x : V),
    (cone q M d1 d2 d3 F fuel p).length < fuel →
    (∀ pl ∈ cone q M d1 d2 d3 F fuel p, pl.length < F ∧ ∀ r ∈ pl, r.length < F) →
    (x ∈ (cone q M d1 d2 d3 F fuel p).flatten.flatten ↔
      ∃ n1 n2 n3 : Nat, x = stepN (stepN (stepN p d3 n3) d2 n2) d1 n1 ∧ Along q M p d3 n3 ∧
        Along q M (stepN p d3 n3) d2 n2 ∧ Along q M (stepN (stepN p d3 n3) d2 n2) d1 n1)
  | 0, p, x, h, _ => by simp at h
  | fuel + 1, p, x, h, hr => by
    simp only [cone] at h hr ⊢
    have hpl := plane_exact q M d1 d2 F F p x (hr _ List.mem_cons_self).1 (hr _ List.mem_cons_self).2
    by_cases hle : q (vadd p d3) ≤ M
    · simp only [hle, if_true, List.length_cons] at h hr ⊢
      have ih := cone_exact q M d1 d2 d3 F fuel (vadd p d3) x (by omega) (fun r h' => hr r (List.mem_cons_of_mem _ h'))
      rw [List.flatten_cons, List.flatten_append, List.mem_append, hpl, ih]
      constructor
      · rintro (⟨n1, n2, rfl, h2, h1⟩ | ⟨n1, n2, n3, rfl, h3, h2, h1⟩)
        · exact ⟨n1, n2, 0, by rw [stepN_zero], along_zero _ _ _ _, by rw [stepN_zero]; exact h2,
            by rw [stepN_zero]; exact h1⟩
        · exact ⟨n1, n2, n3 + 1, by rw [stepN_succ], (along_succ _ _ _ _ _).2 ⟨hle, h3⟩, by rw [stepN_succ]; exact h2,
            by rw [stepN_succ]; exact h1⟩
      · rintro ⟨n1, n2, n3, rfl, h3, h2, h1⟩
        cases n3 with
        | zero =>
          rw [stepN_zero] at h1 h2 ⊢
          exact Or.inl ⟨n1, n2, rfl, h2, h1⟩
        | succ n3 =>
          rw [stepN_succ] at h1 h2 ⊢
          exact Or.inr ⟨n1, n2, n3, rfl, ((along_succ _ _ _ _ _).1 h3).2, h2, h1⟩
    · simp only [hle, if_false] at h hr ⊢
      rw [List.flatten_cons, List.flatten_nil, List.append_nil, hpl]
      constructor
      · rintro ⟨n1, n2, rfl, h2, h1⟩
        exact ⟨n1, n2, 0, by rw [stepN_zero], along_zero _ _ _ _, by rw [stepN_zero]; exact h2,
          by rw [stepN_zero]; exact h1⟩
      · rintro ⟨n1, n2, n3, rfl, h3, h2, h1⟩
        cases n3 with
        | zero =>
          rw [stepN_zero] at h1 h2 ⊢
          exact ⟨n1, n2, rfl, h2, h1⟩
        | succ n3 => exact absurd ((along_succ _ _ _ _ _).1 h3).1 hle

/-- what `fuelOkSeg` says -/
theorem fuelOkSeg_iff (q : V → Rat) (M : Rat) (F : Nat) (sg : Segment) :
    fuelOkSeg q M F sg = true ↔
      (segCone q M F sg).length < F ∧ ∀ pl ∈ segCone q M F sg, pl.length < F ∧ ∀ r ∈ pl, r.length < F := by
  simp only [fuelOkSeg, Bool.and_eq_true, decide_eq_true_eq, List.all_eq_true]

/-- **T5.3, traversal exactness** for one segment: if no loop was cut by the fuel, the visited points are EXACTLY the cone
    points whose path passes every stop test.  No hypothesis on `q`. -/
theorem traverse_exact (q : V → Rat) (M : Rat) (F : Nat) (sg : Segment) (hf : fuelOkSeg q M F sg = true) (x : V) :
    x ∈ visitSeg q M F sg ↔ ∃ n1 n2 n3 : Nat, x = pt sg n1 n2 n3 ∧ PathInside q M sg n1 n2 n3 := by
  obtain ⟨h1, h2⟩ := (fuelOkSeg_iff q M F sg).1 hf
  exact cone_exact q M sg.d1 sg.d2 sg.d3 F F sg.s x h1 h2

/-- the completeness half alone -/
theorem traverse_complete (q : V → Rat) (M : Rat) (F : Nat) (sg : Segment) (hf : fuelOkSeg q M F sg = true)
    (n1 n2 n3 : Nat) (hp : PathInside q M sg n1 n2 n3) : pt sg n1 n2 n3 ∈ visitSeg q M F sg :=
  (traverse_exact q M F sg hf _).2 ⟨n1, n2, n3, rfl, hp⟩

/-- if the fuel suffices the first visited point of a segment is its start -/
theorem visitSeg_head (q : V → Rat) (M : Rat) (F : Nat) (sg : Segment) (hf : fuelOkSeg q M F sg = true) :
    ∃ tl, visitSeg q M F sg = sg.s :: tl := by
  obtain ⟨h1, _⟩ := (fuelOkSeg_iff q M F sg).1 hf
  obtain ⟨F', rfl⟩ : ∃ F', F = F' + 1 := ⟨F - 1, by omega⟩
  simp only [visitSeg, segCone, cone, plane, row, List.flatten_cons, List.cons_append]
  exact ⟨_, rfl⟩

/-! ### cones and `InSeg` -/

theorem inSeg_iff_pt (sg : Segment) (h k l : Int) : InSeg sg h k l ↔ ∃ n1 n2 n3 : Nat, (h, k, l) = pt sg n1 n2 n3 := by
  simp only [InSeg, pt, vadd, vsmul, Prod.mk.injEq]
  constructor
  · rintro ⟨n1, n2, n3, e1, e2, e3⟩
    exact ⟨n1, n2, n3, by rw [e1]; ring, by rw [e2]; ring, by rw [e3]; ring⟩
  · rintro ⟨n1, n2, n3, e1, e2, e3⟩
    exact ⟨n1, n2, n3, by rw [e1]; ring, by rw [e2]; ring, by rw [e3]; ring⟩

theorem inConesV_iff_pt (segs : List Segment) (h : V) :
    InConesV segs h ↔ ∃ sg ∈ segs, ∃ n1 n2 n3 : Nat, h = pt sg n1 n2 n3 := by
  obtain ⟨h, k, l⟩ := h
  simp only [InConesV, InCones, inSeg_iff_pt]

/-! ### `PathClosed` and completeness of the traversal over all segments -/

/-- every cone point of `segs` with `q x ≤ hi` has its whole path inside `M` -/
def PathClosed (q : V → Rat) (M : Rat) (segs : List Segment) (hi : Rat) : Prop :=
  ∀ sg ∈ segs, ∀ n1 n2 n3 : Nat, q (pt sg n1 n2 n3) ≤ hi → PathInside q M sg n1 n2 n3

theorem fuelOk_iff (x : Input) (segs : List Segment) :
    fuelOk x segs = true ↔ ∀ sg ∈ segs, fuelOkSeg x.G.q x.M x.fuel sg = true := by
  simp only [fuelOk, List.all_eq_true]

/-- **T5.3 over all segments**: the visited points are exactly the cone points whose path stays inside `M` -/
theorem visited_exact (x : Input) (segs : List Segment) (hf : fuelOk x segs = true) (h : V) :
    h ∈ visited x segs ↔ ∃ sg ∈ segs, ∃ n1 n2 n3 : Nat, h = pt sg n1 n2 n3 ∧ PathInside x.G.q x.M sg n1 n2 n3 := by
  rw [fuelOk_iff] at hf
  simp only [visited, List.mem_flatten, List.mem_map]
  constructor
  · rintro ⟨_, ⟨sg, hsg, rfl⟩, hv⟩
    exact ⟨sg, hsg, (traverse_exact _ _ _ sg (hf sg hsg) h).1 hv⟩
  · rintro ⟨sg, hsg, hv⟩
    exact ⟨_, ⟨sg, hsg, rfl⟩, (traverse_exact _ _ _ sg (hf sg hsg) h).2 hv⟩

/-- **T5.3, completeness**: under `fuelOk` and `PathClosed`, every cone point with `Q ≤ 4·max²` is visited -/
theorem visited_complete (x : Input) (segs : List Segment) (hf : fuelOk x segs = true)
    (hpc : PathClosed x.G.q x.M segs (4 * x.max2)) (h : V) (hc : InConesV segs h) (hq : x.G.q h ≤ 4 * x.max2) :
    h ∈ visited x segs := by
  obtain ⟨sg, hsg, n1, n2, n3, rfl⟩ := (inConesV_iff_pt segs h).1 hc
  exact (visited_exact x segs hf _).2 ⟨sg, hsg, n1, n2, n3, rfl, hpc sg hsg n1 n2 n3 hq⟩

/-- the first visited point is the start of the first segment -/
theorem visited_head (x : Input) (sg : Segment) (segs : List Segment) (hf : fuelOk x (sg :: segs) = true) :
    ∃ tl, visited x (sg :: segs) = sg.s :: tl := by
  obtain ⟨tl, e⟩ := visitSeg_head x.G.q x.M x.fuel sg ((fuelOk_iff x _).1 hf sg List.mem_cons_self)
  simp only [visited, List.map_cons, List.flatten_cons, e, List.cons_append]
  exact ⟨_, rfl⟩

/-! ### `sintl_scale ≥ 1`, hence `4·max² ≤ M` -/

theorem scale_ge_one_tools (L C : String) : 1 ≤ scaleFor Tools.scaleDefault Tools.scaleRules L C := by
  simp only [scaleFor, Tools.scaleDefault, Tools.scaleRules, List.foldl]
  split <;> decide +kernel

/-- `sintl_scale ≥ 1` for both modules, whatever the Laue class and cell choice -/
theorem scale_ge_one (x : Input) (hcfg : x.cfg = toolsCfg ∨ x.cfg = laueCfg) : 1 ≤ x.scale := by
  rcases hcfg with h | h <;> simp only [Input.scale, h, toolsCfg, laueCfg] <;> exact scale_ge_one_tools _ _

/-- the stop bound `M = (2·scale·sintlmax)²` is at least the shell bound `4·sintlmax²` -/
theorem M_ge (x : Input) (hcfg : x.cfg = toolsCfg ∨ x.cfg = laueCfg) (hmax : 0 ≤ x.max2) : 4 * x.max2 ≤ x.M := by
  have h1 := scale_ge_one x hcfg
  have h2 : 1 ≤ x.scale * x.scale := by nlinarith
  simp only [Input.M]
  nlinarith

/-! ### a sufficient condition: `Q` non-decreasing along the path -/

/-- `Q` does not decrease along the three legs of any path: outer steps on the axis `s + ℕd₃`, middle steps from points
    `s + n₃d₃ + ℕd₂`, inner steps from every cone point -/
def MonoPath (q : V → Rat) (sg : Segment) : Prop :=
  (∀ n3 : Nat, q (pt sg 0 0 n3) ≤ q (pt sg 0 0 (n3 + 1))) ∧
  (∀ n2 n3 : Nat, q (pt sg 0 n2 n3) ≤ q (pt sg 0 (n2 + 1) n3)) ∧
  (∀ n1 n2 n3 : Nat, q (pt sg n1 n2 n3) ≤ q (pt sg (n1 + 1) n2 n3))

theorem mono_chain (f : Nat → Rat) (hf : ∀ n, f n ≤ f (n + 1)) : ∀ m n : Nat, m ≤ n → f m ≤ f n := by
  intro m n hmn
  induction n with
  | zero => obtain rfl : m = 0 := by omega
            exact le_refl _
  | succ n ih =>
    rcases Nat.lt_or_ge m (n + 1) with h | h
    · exact le_trans (ih (by omega)) (hf n)
    · obtain rfl : m = n + 1 := by omega
      exact le_refl _

theorem pt_zero_zero (sg : Segment) (m : Nat) : pt sg 0 0 m = vadd sg.s (vsmul (m : Int) sg.d3) := by
  simp only [pt, vadd_vsmul_zero]

theorem pt_zero (sg : Segment) (m n3 : Nat) :
    pt sg 0 m n3 = vadd (vadd sg.s (vsmul (n3 : Int) sg.d3)) (vsmul (m : Int) sg.d2) := by
  simp only [pt, vadd_vsmul_zero]

/-- monotone `Q` ⇒ the whole path of a cone point lies below its own `Q` -/
theorem pathInside_of_mono (q : V → Rat) (M : Rat) (sg : Segment) (hm : MonoPath q sg) (n1 n2 n3 : Nat)
    (hq : q (pt sg n1 n2 n3) ≤ M) : PathInside q M sg n1 n2 n3 := by
  obtain ⟨m3, m2, m1⟩ := hm
  have c1 : ∀ m, m ≤ n1 → q (pt sg m n2 n3) ≤ q (pt sg n1 n2 n3) :=
    fun m h => mono_chain (fun k => q (pt sg k n2 n3)) (fun k => m1 k n2 n3) m n1 h
  have c2 : ∀ m, m ≤ n2 → q (pt sg 0 m n3) ≤ q (pt sg 0 n2 n3) :=
    fun m h => mono_chain (fun k => q (pt sg 0 k n3)) (fun k => m2 k n3) m n2 h
  have c3 : ∀ m, m ≤ n3 → q (pt sg 0 0 m) ≤ q (pt sg 0 0 n3) :=
    fun m h => mono_chain (fun k => q (pt sg 0 0 k)) (fun k => m3 k) m n3 h
  have e1 : q (pt sg 0 n2 n3) ≤ M := le_trans (c1 0 (Nat.zero_le _)) hq
  have e2 : q (pt sg 0 0 n3) ≤ M := le_trans (c2 0 (Nat.zero_le _)) e1
  refine ⟨fun m _ h => ?_, fun m _ h => ?_, fun m _ h => ?_⟩
  · rw [← pt_zero_zero]; exact le_trans (c3 m h) e2
  · rw [← pt_zero]; exact le_trans (c2 m h) e1
  · exact le_trans (c1 m h) hq

/-- monotone `Q` on every segment and `hi ≤ M` ⇒ `PathClosed` -/
theorem pathClosed_of_mono (q : V → Rat) (M hi : Rat) (segs : List Segment) (hm : ∀ sg ∈ segs, MonoPath q sg)
    (hM : hi ≤ M) : PathClosed q M segs hi :=
  fun sg hsg n1 n2 n3 hq => pathInside_of_mono q M sg (hm sg hsg) n1 n2 n3 (le_trans hq hM)

/-! ### the Gram condition -/

/-- the symmetric bilinear form of `Form.q`: `B u v = u G* vᵀ` -/
def B (G : Form) (u v : V) : Rat :=
  G.g11 * u.1 * v.1 + G.g22 * u.2.1 * v.2.1 + G.g33 * u.2.2 * v.2.2 +
    G.g23 * (u.2.1 * v.2.2 + u.2.2 * v.2.1) + G.g13 * (u.1 * v.2.2 + u.2.2 * v.1) + G.g12 * (u.1 * v.2.1 + u.2.1 * v.1)

theorem B_self (G : Form) (u : V) : B G u u = G.q u := by
  simp only [B, Form.q]; ring

theorem q_vadd (G : Form) (p d : V) : G.q (vadd p d) = G.q p + (2 * B G p d + G.q d) := by
  simp only [B, Form.q, vadd]; push_cast; ring

theorem B_vadd (G : Form) (a b d : V) : B G (vadd a b) d = B G a d + B G b d := by
  simp only [B, vadd]; push_cast; ring

theorem B_vsmul (G : Form) (n : Int) (a d : V) : B G (vsmul n a) d = n * B G a d := by
  simp only [B, vsmul]; push_cast; ring

theorem B_pt (G : Form) (sg : Segment) (n1 n2 n3 : Nat) (d : V) :
    B G (pt sg n1 n2 n3) d = B G sg.s d + n3 * B G sg.d3 d + n2 * B G sg.d2 d + n1 * B G sg.d1 d := by
  simp only [pt, B_vadd, B_vsmul, Int.cast_natCast]

/-- the Gram numbers of the segment make `Q` non-decreasing along every leg of every path:
    `Q(dᵢ) ≥ 0`, `B(dᵢ, dⱼ) ≥ 0` for `i ≠ j`, and `2·B(s, dᵢ) + Q(dᵢ) ≥ 0` (the first step from the start). -/
def GramOk (G : Form) (sg : Segment) : Prop :=
  0 ≤ G.q sg.d1 ∧ 0 ≤ G.q sg.d2 ∧ 0 ≤ G.q sg.d3 ∧
  0 ≤ B G sg.d2 sg.d1 ∧ 0 ≤ B G sg.d3 sg.d1 ∧ 0 ≤ B G sg.d3 sg.d2 ∧
  0 ≤ 2 * B G sg.s sg.d1 + G.q sg.d1 ∧ 0 ≤ 2 * B G sg.s sg.d2 + G.q sg.d2 ∧ 0 ≤ 2 * B G sg.s sg.d3 + G.q sg.d3

theorem pt_succ1 (sg : Segment) (n1 n2 n3 : Nat) : pt sg (n1 + 1) n2 n3 = vadd (pt sg n1 n2 n3) sg.d1 := by
  rw [pt_eq_stepN, stepN_succ']; rfl

theorem pt_succ2 (sg : Segment) (n2 n3 : Nat) : pt sg 0 (n2 + 1) n3 = vadd (pt sg 0 n2 n3) sg.d2 := by
  rw [pt_zero, pt_zero]; exact stepN_succ' _ _ _

theorem pt_succ3 (sg : Segment) (n3 : Nat) : pt sg 0 0 (n3 + 1) = vadd (pt sg 0 0 n3) sg.d3 := by
  rw [pt_zero_zero, pt_zero_zero]; exact stepN_succ' _ _ _

/-- the Gram condition makes `Q` non-decreasing along the paths -/
theorem mono_of_gram (G : Form) (sg : Segment) (hg : GramOk G sg) : MonoPath G.q sg := by
  obtain ⟨q1, q2, q3, b21, b31, b32, s1, s2, s3⟩ := hg
  refine ⟨fun n3 => ?_, fun n2 n3 => ?_, fun n1 n2 n3 => ?_⟩
  · rw [pt_succ3, q_vadd, B_pt, B_self]
    have h3 : (0 : Rat) ≤ n3 := Nat.cast_nonneg n3
    have := mul_nonneg h3 q3
    simp only [Nat.cast_zero, zero_mul, add_zero]
    linarith
  · rw [pt_succ2, q_vadd, B_pt, B_self]
    have h3 : (0 : Rat) ≤ n3 := Nat.cast_nonneg n3
    have h2 : (0 : Rat) ≤ n2 := Nat.cast_nonneg n2
    have := mul_nonneg h3 b32
    have := mul_nonneg h2 q2
    simp only [Nat.cast_zero, zero_mul, add_zero]
    linarith
  · rw [pt_succ1, q_vadd, B_pt, B_self]
    have h3 : (0 : Rat) ≤ n3 := Nat.cast_nonneg n3
    have h2 : (0 : Rat) ≤ n2 := Nat.cast_nonneg n2
    have h1 : (0 : Rat) ≤ n1 := Nat.cast_nonneg n1
    have := mul_nonneg h3 b31
    have := mul_nonneg h2 b21
    have := mul_nonneg h1 q1
    linarith

/-- **sufficient condition for `PathClosed`**: the Gram condition on every segment, and `hi ≤ M` -/
theorem pathClosed_of_gram (G : Form) (M hi : Rat) (segs : List Segment) (hg : ∀ sg ∈ segs, GramOk G sg) (hM : hi ≤ M) :
    PathClosed G.q M segs hi :=
  pathClosed_of_mono G.q M hi segs (fun sg hsg => mono_of_gram G sg (hg sg hsg)) hM

/-- the form of `pathClosed_of_gram` used by the capstone theorems: `hi = 4·max²`, `M = x.M` -/
theorem pathClosed_input (x : Input) (segs : List Segment) (hcfg : x.cfg = toolsCfg ∨ x.cfg = laueCfg) (hmax : 0 ≤ x.max2)
    (hg : ∀ sg ∈ segs, GramOk x.G sg) : PathClosed x.G.q x.M segs (4 * x.max2) :=
  pathClosed_of_gram x.G x.M (4 * x.max2) segs hg (M_ge x hcfg hmax)

/-! ### instances of the Gram condition -/

/-- all six coefficients of the form are `≥ 0` (orthogonal reciprocal cells; hexagonal ones, where `g12 = g11/2`) -/
def NonNegForm (G : Form) : Prop := 0 ≤ G.g11 ∧ 0 ≤ G.g22 ∧ 0 ≤ G.g33 ∧ 0 ≤ G.g23 ∧ 0 ≤ G.g13 ∧ 0 ≤ G.g12

def nonnegVB (v : V) : Bool := decide (0 ≤ v.1) && decide (0 ≤ v.2.1) && decide (0 ≤ v.2.2)

/-- start and directions of the segment have no negative entry -/
def nonnegSegB (sg : Segment) : Bool := nonnegVB sg.s && nonnegVB sg.d1 && nonnegVB sg.d2 && nonnegVB sg.d3

theorem B_nonneg (G : Form) (hG : NonNegForm G) (u v : V) (hu : nonnegVB u = true) (hv : nonnegVB v = true) : 0 ≤ B G u v := by
  obtain ⟨g1, g2, g3, g4, g5, g6⟩ := hG
  simp only [nonnegVB, Bool.and_eq_true, decide_eq_true_eq] at hu hv
  obtain ⟨⟨u1, u2⟩, u3⟩ := hu
  obtain ⟨⟨v1, v2⟩, v3⟩ := hv
  have u1' : (0 : Rat) ≤ u.1 := Int.cast_nonneg u1
  have u2' : (0 : Rat) ≤ u.2.1 := Int.cast_nonneg u2
  have u3' : (0 : Rat) ≤ u.2.2 := Int.cast_nonneg u3
  have v1' : (0 : Rat) ≤ v.1 := Int.cast_nonneg v1
  have v2' : (0 : Rat) ≤ v.2.1 := Int.cast_nonneg v2
  have v3' : (0 : Rat) ≤ v.2.2 := Int.cast_nonneg v3
  simp only [B]
  positivity

/-- a form with non-negative coefficients and a segment with non-negative entries satisfy the Gram condition -/
theorem gramOk_of_nonneg (G : Form) (hG : NonNegForm G) (sg : Segment) (hs : nonnegSegB sg = true) : GramOk G sg := by
  simp only [nonnegSegB, Bool.and_eq_true] at hs
  obtain ⟨⟨⟨s0, s1⟩, s2⟩, s3⟩ := hs
  have b := B_nonneg G hG
  refine ⟨?_, ?_, ?_, b _ _ s2 s1, b _ _ s3 s1, b _ _ s3 s2, ?_, ?_, ?_⟩
  · rw [← B_self]; exact b _ _ s1 s1
  · rw [← B_self]; exact b _ _ s2 s2
  · rw [← B_self]; exact b _ _ s3 s3
  · rw [← B_self]; have := b _ _ s0 s1; have := b _ _ s1 s1; linarith
  · rw [← B_self]; have := b _ _ s0 s2; have := b _ _ s2 s2; linarith
  · rw [← B_self]; have := b _ _ s0 s3; have := b _ _ s3 s3; linarith

/-- the winning rule of `segmentsFor` is a member of the rule list that matches -/
theorem segmentsFor_rule (rules : List SegRule) (L C : String) (segs : List Segment)
    (h : segmentsFor rules L C = some segs) : ∃ r ∈ rules, r.segs = segs ∧ ruleMatches r.laue r.cc L C = true := by
  unfold segmentsFor at h
  have key : ∀ (rs : List SegRule) (acc : Option (List Segment)),
      rs.foldl (fun acc r => if ruleMatches r.laue r.cc L C then some r.segs else acc) acc = some segs →
      acc = some segs ∨ ∃ r ∈ rs, r.segs = segs ∧ ruleMatches r.laue r.cc L C = true := by
    intro rs
    induction rs with
    | nil => intro acc h; exact Or.inl h
    | cons r rs ih =>
      intro acc h
      rw [List.foldl_cons] at h
      rcases ih _ h with h' | ⟨r', hr', e⟩
      · split at h'
        · rename_i hm
          exact Or.inr ⟨r, List.mem_cons_self, by cases h'; rfl, hm⟩
        · exact Or.inl h'
      · exact Or.inr ⟨r', List.mem_cons_of_mem _ hr', e⟩
  rcases key rules none h with h' | h'
  · cases h'
  · exact h'

theorem ruleMatches_laue {l : String} {cc : Option (Bool × String)} {L C : String} (h : ruleMatches l cc L C = true) :
    L = l := by
  simp only [ruleMatches, Bool.and_eq_true, beq_iff_eq] at h
  exact h.1

/-- the Laue classes whose segments (start and directions) have no negative entry -/
def nonnegLaue : List String := ["mmm", "4/mmm", "4/m", "6/mmm", "6/m", "-3m1", "m-3m", "m-3"]

/-- kernel-decided on the generated rules: EXACTLY the rules of these 8 Laue classes (of the 14 rules) have only
    non-negative entries; the others (-1, 2/m, -31m, -3 in both settings, -3m rhombohedral) have a negative entry -/
theorem nonneg_rules :
    (Tools.segmRules.filter fun r => r.segs.all nonnegSegB).map (·.laue) = nonnegLaue ∧
    (Tools.segmRules.filter fun r => !(r.segs.all nonnegSegB)).map (·.laue) = ["-1", "2/m", "-31m", "-3", "-3m", "-3"] := by
  decide +kernel

theorem nonneg_rules_all :
    (Tools.segmRules.all fun r => !(nonnegLaue.contains r.laue) || r.segs.all nonnegSegB) = true := by decide +kernel

/-- the segments traversed for one of the Laue classes of `nonnegLaue` have only non-negative entries -/
theorem segs_nonneg (L C : String) (segs : List Segment) (hs : segmentsFor Tools.segmRules L C = some segs)
    (hL : L ∈ nonnegLaue) : ∀ sg ∈ segs, nonnegSegB sg = true := by
  obtain ⟨r, hr, rfl, hm⟩ := segmentsFor_rule _ _ _ _ hs
  have e := ruleMatches_laue hm
  have h := nonneg_rules_all
  simp only [List.all_eq_true, Bool.or_eq_true, Bool.not_eq_true', List.contains_iff_mem] at h
  rcases h r hr with h | h
  · rw [← e] at h
    have : nonnegLaue.contains L = true := List.contains_iff_mem.2 hL
    rw [this] at h; cases h
  · exact h

/-- **`PathClosed` for the orthogonal and hexagonal families**: both modules, Laue class mmm, 4/mmm, 4/m, 6/mmm, 6/m, -3m1,
    m-3m or m-3, any reciprocal form whose six coefficients are `≥ 0` (orthogonal cells: `g23 = g13 = g12 = 0`;
    hexagonal cells: `g12 = g11/2`) -/
theorem pathClosed_nonneg (x : Input) (segs : List Segment) (hcfg : x.cfg = toolsCfg ∨ x.cfg = laueCfg)
    (hs : x.segments = some segs) (hL : x.tbl.laue ∈ nonnegLaue) (hG : NonNegForm x.G) (hmax : 0 ≤ x.max2) :
    PathClosed x.G.q x.M segs (4 * x.max2) := by
  refine pathClosed_input x segs hcfg hmax fun sg hsg => gramOk_of_nonneg x.G hG sg ?_
  have hs' : segmentsFor Tools.segmRules x.tbl.laue x.tbl.cellChoice = some segs := by
    rcases hcfg with h | h <;> simpa [Input.segments, h, toolsCfg, laueCfg] using hs
  exact segs_nonneg _ _ segs hs' hL sg hsg

/-! ### the Gram condition is a convex cone in the form: hexagonal axes with all five hexagonal rules -/

/-- `a·G₁ + b·G₂` -/
def comb (a b : Rat) (G1 G2 : Form) : Form :=
  { g11 := a * G1.g11 + b * G2.g11, g22 := a * G1.g22 + b * G2.g22, g33 := a * G1.g33 + b * G2.g33,
    g23 := a * G1.g23 + b * G2.g23, g13 := a * G1.g13 + b * G2.g13, g12 := a * G1.g12 + b * G2.g12 }

theorem B_comb (a b : Rat) (G1 G2 : Form) (u v : V) : B (comb a b G1 G2) u v = a * B G1 u v + b * B G2 u v := by
  simp only [B, comb]; ring

theorem q_comb (a b : Rat) (G1 G2 : Form) (u : V) : (comb a b G1 G2).q u = a * G1.q u + b * G2.q u := by
  simp only [Form.q, comb]; ring

/-- the forms satisfying the Gram condition for a segment are closed under non-negative combinations -/
theorem gramOk_comb (a b : Rat) (ha : 0 ≤ a) (hb : 0 ≤ b) (G1 G2 : Form) (sg : Segment) (h1 : GramOk G1 sg)
    (h2 : GramOk G2 sg) : GramOk (comb a b G1 G2) sg := by
  obtain ⟨a1, a2, a3, a4, a5, a6, a7, a8, a9⟩ := h1
  obtain ⟨b1, b2, b3, b4, b5, b6, b7, b8, b9⟩ := h2
  simp only [GramOk, B_comb, q_comb]
  refine ⟨?_, ?_, ?_, ?_, ?_, ?_, ?_, ?_, ?_⟩
  · have := mul_nonneg ha a1; have := mul_nonneg hb b1; linarith
  · have := mul_nonneg ha a2; have := mul_nonneg hb b2; linarith
  · have := mul_nonneg ha a3; have := mul_nonneg hb b3; linarith
  · have := mul_nonneg ha a4; have := mul_nonneg hb b4; linarith
  · have := mul_nonneg ha a5; have := mul_nonneg hb b5; linarith
  · have := mul_nonneg ha a6; have := mul_nonneg hb b6; linarith
  · have := mul_nonneg ha a7; have := mul_nonneg hb b7; linarith
  · have := mul_nonneg ha a8; have := mul_nonneg hb b8; linarith
  · have := mul_nonneg ha a9; have := mul_nonneg hb b9; linarith

/-- Boolean form of `GramOk` (decidable: nine comparisons of rationals) -/
def gramOkB (G : Form) (sg : Segment) : Bool :=
  decide (0 ≤ G.q sg.d1) && decide (0 ≤ G.q sg.d2) && decide (0 ≤ G.q sg.d3) &&
  decide (0 ≤ B G sg.d2 sg.d1) && decide (0 ≤ B G sg.d3 sg.d1) && decide (0 ≤ B G sg.d3 sg.d2) &&
  decide (0 ≤ 2 * B G sg.s sg.d1 + G.q sg.d1) && decide (0 ≤ 2 * B G sg.s sg.d2 + G.q sg.d2) &&
  decide (0 ≤ 2 * B G sg.s sg.d3 + G.q sg.d3)

theorem gramOkB_iff (G : Form) (sg : Segment) : gramOkB G sg = true ↔ GramOk G sg := by
  simp only [gramOkB, GramOk, Bool.and_eq_true, decide_eq_true_eq, and_assoc]

/-- the two basis forms of the hexagonal reciprocal metric `(a*², a*², c*², 0, 0, a*²/2)` (`γ* = 60°`) -/
def hexA : Form := { g11 := 1, g22 := 1, g33 := 0, g23 := 0, g13 := 0, g12 := 1 / 2 }
def hexC : Form := { g11 := 0, g22 := 0, g33 := 1, g23 := 0, g13 := 0, g12 := 0 }

/-- reciprocal form of a hexagonal cell: `a = a*²`, `c = c*²` -/
def hexForm (a c : Rat) : Form := { g11 := a, g22 := a, g33 := c, g23 := 0, g13 := 0, g12 := a / 2 }

theorem hexForm_eq (a c : Rat) : hexForm a c = comb a c hexA hexC := by
  simp only [hexForm, comb, hexA, hexC, Form.mk.injEq]
  refine ⟨?_, ?_, ?_, ?_, ?_, ?_⟩ <;> ring

/-- the Laue classes traversed in hexagonal axes -/
def hexLaue : List String := ["6/mmm", "6/m", "-3m1", "-31m", "-3"]

/-- kernel-decided: every segment of the five rules for hexagonal axes (6/mmm, 6/m, -3m1, -31m, and -3 with
    `cell_choice != rhombohedral`) satisfies the Gram condition for both basis forms -/
theorem hex_rules_gram :
    (Tools.segmRules.all fun r => !(hexLaue.contains r.laue) || r.cc == some (true, "rhombohedral") ||
      r.segs.all fun sg => gramOkB hexA sg && gramOkB hexC sg) = true := by decide +kernel

/-- hexagonal reciprocal metric, any of the five hexagonal-axes rules: the Gram condition holds on every segment -/
theorem gramOk_hex (a c : Rat) (ha : 0 ≤ a) (hc : 0 ≤ c) (L C : String) (segs : List Segment)
    (hs : segmentsFor Tools.segmRules L C = some segs) (hL : L ∈ hexLaue) (hC : C ≠ "rhombohedral") :
    ∀ sg ∈ segs, GramOk (hexForm a c) sg := by
  obtain ⟨r, hr, rfl, hm⟩ := segmentsFor_rule _ _ _ _ hs
  have e := ruleMatches_laue hm
  have h := hex_rules_gram
  simp only [List.all_eq_true, Bool.or_eq_true, Bool.not_eq_true', List.contains_iff_mem, Bool.and_eq_true,
    beq_iff_eq] at h
  intro sg hsg
  rcases h r hr with (h | h) | h
  · rw [← e] at h
    have : hexLaue.contains L = true := List.contains_iff_mem.2 hL
    rw [this] at h; cases h
  · rw [h] at hm
    simp only [ruleMatches, Bool.and_eq_true, beq_iff_eq] at hm
    exact absurd hm.2 hC
  · rw [hexForm_eq]
    exact gramOk_comb a c ha hc _ _ sg ((gramOkB_iff _ _).1 (h sg hsg).1) ((gramOkB_iff _ _).1 (h sg hsg).2)

/-- **`PathClosed` for hexagonal axes**, all five rules (6/mmm, 6/m, -3m1, -31m, -3), both modules -/
theorem pathClosed_hex (x : Input) (segs : List Segment) (hcfg : x.cfg = toolsCfg ∨ x.cfg = laueCfg)
    (hs : x.segments = some segs) (hL : x.tbl.laue ∈ hexLaue) (hC : x.tbl.cellChoice ≠ "rhombohedral")
    (a c : Rat) (ha : 0 ≤ a) (hc : 0 ≤ c) (hG : x.G = hexForm a c) (hmax : 0 ≤ x.max2) :
    PathClosed x.G.q x.M segs (4 * x.max2) := by
  have hs' : segmentsFor Tools.segmRules x.tbl.laue x.tbl.cellChoice = some segs := by
    rcases hcfg with h | h <;> simpa [Input.segments, h, toolsCfg, laueCfg] using hs
  refine pathClosed_input x segs hcfg hmax fun sg hsg => ?_
  rw [hG]
  exact gramOk_hex a c ha hc _ _ segs hs' hL hC sg hsg

/-! ### `PathClosed` is not a theorem: an oblique cell -/

/-- a positive definite form with `γ* ≈ 154°` (`cos γ* = -9/10`) -/
def Gobl : Form := { g11 := 1, g22 := 1, g33 := 1 / 5, g23 := 0, g13 := 0, g12 := -9 / 10 }

/-- first segment of the rule for Laue class -1 -/
def segTri : Segment := ⟨(0, 0, 0), (1, 0, 0), (0, 1, 0), (0, 0, 1)⟩

/-- `PathClosed` FAILS for an oblique cell (finding D2): `110 = s + d₂ + d₁` has `Q = 1/5 ≤ 1/2` but the path to it passes
    through `010` with `Q = 1 > 1/2`, where the middle loop stops -/
theorem pathClosed_fails_example : Gobl.posDef = true ∧ ¬ PathClosed Gobl.q (1 / 2) [segTri] (1 / 2) := by
  refine ⟨by decide +kernel, fun h => ?_⟩
  have h1 : Gobl.q (pt segTri 1 1 0) ≤ 1 / 2 := by decide +kernel
  have h2 := (h segTri List.mem_cons_self 1 1 0 h1).2.1 1 (Nat.le_refl _) (Nat.le_refl _)
  exact absurd h2 (by decide +kernel)

end T53
